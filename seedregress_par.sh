#!/bin/bash
# developer aid (not registered): like seedregress.sh, but every seed is
# evaluated in its own scratch copy of /repo (VERIF_REPO), several at a time;
# /repo itself is never touched. usage: seedregress_par.sh [jobs] [id-prefix]
cd /verif || exit 2
J=${1:-8}
one() {
  d="$1"; id=$(basename "$d")
  prop=$(python3 -c "import json; m=json.load(open('$d/meta.json')); print(' '.join([m['property']]+m.get('also_check',[])))")
  if python3 -c "import json,sys; sys.exit(0 if 'superseded' in json.load(open('$d/meta.json')) else 1)"; then echo "$id: superseded (see meta.json)"; return; fi
  D=$(mktemp -d /tmp/srp.XXXXXX)
  cp -r /repo/. "$D/repo"; rm -rf "$D/repo/.git"
  mkdir -p "$D/verif"; cp /verif/known_findings.json "$D/verif/"
  if ! (cd "$D/repo" && patch -p1 -s --no-backup-if-mismatch < "/verif/$d/patch.diff" >/dev/null 2>&1); then echo "$id: NOAPPLY"; rm -rf "$D"; return; fi
  det=""
  for P in $prop; do
    OUT=$(VERIF_REPO="$D/repo" VERIF_DIR="$D/verif" /verif/bin/gwcheck -property "$P" 2>&1); RC=$?
    if [ $RC -ne 0 ] && echo "$OUT" | grep -q "^VIOLATION property=$P"; then det="$det $P($(echo "$OUT" | grep -m1 'VIOLATION:\|UNDECIDED:' | cut -c1-90))"; fi
  done
  rm -rf "$D"
  if [ -z "$det" ]; then echo "$id: MISSED"; else echo "$id: detected by$det"; fi
}
export -f one
ls -d seeded/${2}*/ | sed 's|/$||' | xargs -P "$J" -I{} bash -c 'one {}'
