#!/bin/sh
# Build the checker from files on disk only (vendored x/tools v0.29.0).
set -e
cd "$(dirname "$0")/checker"
unset GOWORK
export GOFLAGS=-mod=vendor GOPROXY=off GOSUMDB=off GOTOOLCHAIN=local CGO_ENABLED=0
mkdir -p ../bin
go build -o ../bin/gwcheck .
