#!/usr/bin/env python3
"""Developer aid: prints the rule table of DESIGN.md §10.1 from evidence/*.json
(rules and obligation counts of the last run of each check)."""
import json, glob
print("| id | rules (obligations) |")
print("|---|---|")
for f in sorted(glob.glob('/verif/evidence/C*.json')):
    d = json.load(open(f))
    rules = d['coverage']['rules']
    cells = []
    for r in rules:
        name = r['id'].split('.', 1)[1]
        cells.append("%s (%d)" % (name, r['obligations']))
    print("| %s | %s |" % (d['property_id'], " · ".join(cells)))
