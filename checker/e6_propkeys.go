package main

// Property-table agreement (E6/E4): the servers answer PROPFIND from tables
// map[xml.Name]PropFindFunc. The key decides for which requested name the
// entry is used; the element actually written is the XMLName of the struct
// the function returns. The two must be the same name, otherwise a client
// asking for <displayname> is answered with some other element inside a 200
// propstat and reads nothing.

import (
	"fmt"
	"go/ast"
	"go/constant"
	"go/token"
	"go/types"

	"golang.org/x/tools/go/ssa"
)

// xmlNameGlobals resolves package-level `var X = xml.Name{Space, Local}`.
func xmlNameGlobals(p *Program) map[*types.Var]xmlName {
	out := map[*types.Var]xmlName{}
	for _, pkg := range p.Mod {
		for _, f := range pkg.Syntax {
			for _, d := range f.Decls {
				gd, ok := d.(*ast.GenDecl)
				if !ok || gd.Tok != token.VAR {
					continue
				}
				for _, sp := range gd.Specs {
					vs := sp.(*ast.ValueSpec)
					for i, nm := range vs.Names {
						if i >= len(vs.Values) {
							continue
						}
						cl, ok := vs.Values[i].(*ast.CompositeLit)
						if !ok {
							continue
						}
						tv, ok := pkg.TypesInfo.Types[cl]
						if !ok || tv.Type.String() != "encoding/xml.Name" {
							continue
						}
						var parts [2]string
						good := true
						for j, e := range cl.Elts {
							var ve ast.Expr = e
							idx := j
							if kv, ok := e.(*ast.KeyValueExpr); ok {
								ve = kv.Value
								if id, ok := kv.Key.(*ast.Ident); ok && id.Name == "Local" {
									idx = 1
								} else {
									idx = 0
								}
							}
							cv := pkg.TypesInfo.Types[ve].Value
							if cv == nil || cv.Kind() != constant.String || idx > 1 {
								good = false
								break
							}
							parts[idx] = constant.StringVal(cv)
						}
						if v, ok := pkg.TypesInfo.Defs[nm].(*types.Var); ok && good {
							out[v] = xmlName{parts[0], parts[1]}
						}
					}
				}
			}
		}
	}
	return out
}

func propKeyRule(c *Ctx, r *RuleResult, inPkg func(string) bool) {
	p := c.P
	globals := xmlNameGlobals(p)
	r.Count("xml_name_globals", len(globals))
	pfv := p.Func(pkgInternal, "PropFindValue")
	// the element a boxed value is written as
	elemOf := func(v ssa.Value) (*xmlName, string) {
		mi, ok := v.(*ssa.MakeInterface)
		if !ok {
			return nil, ""
		}
		t := mi.X.Type()
		if pt, ok := t.Underlying().(*types.Pointer); ok {
			t = pt.Elem()
		}
		n := namedOf(t)
		if n == nil {
			return nil, ""
		}
		return xmlNameOfType(n), typeLabel(n)
	}
	dynamicKey := false
	defer func() {
		if !dynamicKey {
			return
		}
		// every module type with a GetXMLName method returns its own XMLName
		for _, fn := range p.ModFns {
			if fn.Name() != "GetXMLName" || fn.Signature.Recv() == nil || len(fn.Blocks) == 0 || fn.Synthetic != "" || p.isControlFn(fn) {
				continue
			}
			n := recvNamed(fn)
			if n == nil {
				continue
			}
			r.Role("name-method")
			own := xmlNameOfType(n)
			ok := own != nil
			for _, b := range fn.Blocks {
				ret, isRet := b.Instrs[len(b.Instrs)-1].(*ssa.Return)
				if !isRet || len(ret.Results) != 1 {
					continue
				}
				good := false
				if ld, isLd := ret.Results[0].(*ssa.UnOp); isLd && ld.Op == token.MUL {
					if g, isG := ld.X.(*ssa.Global); isG {
						if gv, isV := g.Object().(*types.Var); isV {
							if xn, has := globals[gv]; has && own != nil && xn == *own {
								good = true
							}
						}
					}
				}
				if !good {
					ok = false
				}
			}
			r.Ob(ok)
			if !ok {
				r.Violation("propkey|"+fnKey(fn), p.Pos(fn.Pos()), fmt.Sprintf("%s does not return the XMLName its own type is written as: the principal's property table registers the home set under a name the element does not have", fnKey(fn)), nil)
			}
		}
	}()
	for _, fn := range p.ModFns {
		if !inLib(fn) || len(fn.Blocks) == 0 || fnPkg(fn) == nil || !inPkg(fnPkg(fn).Path()) {
			continue
		}
		eachInstr(fn, func(_ *ssa.BasicBlock, in ssa.Instruction) {
			mu, ok := in.(*ssa.MapUpdate)
			if !ok {
				return
			}
			mt, ok := mu.Map.Type().Underlying().(*types.Map)
			if !ok || mt.Key().String() != "encoding/xml.Name" {
				return
			}
			if vn := namedOf(mt.Elem()); vn == nil || vn.Obj().Name() != "PropFindFunc" {
				return
			}
			r.Role("property-table-entry")
			// key
			var key *xmlName
			if ld, ok := mu.Key.(*ssa.UnOp); ok && ld.Op == token.MUL {
				if g, ok := ld.X.(*ssa.Global); ok {
					if gv, ok := g.Object().(*types.Var); ok {
						if xn, ok := globals[gv]; ok {
							key = &xn
						}
					}
				}
			}
			if call, ok := mu.Key.(*ssa.Call); ok && key == nil && call.Common().IsInvoke() && call.Common().Method.Name() == "GetXMLName" {
				// props[x.GetXMLName()] = func() { return x }: decided per
				// implementing type below
				r.Role("dynamic-key")
				dynamicKey = true
				return
			}
			if key == nil {
				r.Undecided("propkey|"+fnKey(fn)+"|"+p.instrPos(in), p.instrPos(in), "the key of this property-table entry is not a package-level xml.Name variable with constant parts; cannot decide which element it stands for")
				return
			}
			// value
			type got struct {
				name *xmlName
				typ  string
			}
			var elems []got
			undecided := ""
			// what a PropFindFunc-valued expression writes: PropFindValue(x),
			// a closure (every non-nil first result), a named function, or a
			// factory of the library returning one of these
			var entry func(val ssa.Value, depth int)
			fromFn := func(cf *ssa.Function, depth int) {
				for _, b := range cf.Blocks {
					if len(b.Instrs) == 0 {
						continue
					}
					ret, ok := b.Instrs[len(b.Instrs)-1].(*ssa.Return)
					if !ok {
						continue
					}
					switch len(ret.Results) {
					case 2: // the PropFindFunc itself: (interface{}, error)
						if isNilConst(ret.Results[0]) {
							continue
						}
						xn, tl := elemOf(ret.Results[0])
						if xn == nil {
							undecided = "a return of the property function does not box a pointer to a struct with an XMLName"
						}
						elems = append(elems, got{xn, tl})
					case 1: // a factory returning a PropFindFunc
						entry(ret.Results[0], depth+1)
					}
				}
			}
			entry = func(val ssa.Value, depth int) {
				if depth > 3 {
					undecided = "property function produced too indirectly"
					return
				}
				if ct, ok := val.(*ssa.ChangeType); ok {
					val = ct.X
				}
				switch v := val.(type) {
				case *ssa.Call:
					if pfv != nil && v.Common().StaticCallee() == pfv {
						xn, tl := elemOf(v.Common().Args[0])
						if xn == nil {
							undecided = "the argument of PropFindValue is not a pointer to a struct with an XMLName"
						}
						elems = append(elems, got{xn, tl})
					} else if f := v.Common().StaticCallee(); f != nil && len(f.Blocks) > 0 && inLib(f) && f.Signature.Results().Len() == 1 {
						fromFn(f, depth)
					} else {
						undecided = "the entry is produced by a call that is neither PropFindValue nor a factory of the library"
					}
				case *ssa.MakeClosure:
					fromFn(v.Fn.(*ssa.Function), depth)
				case *ssa.Function:
					if len(v.Blocks) > 0 {
						fromFn(v, depth)
					} else {
						undecided = "the entry is an external function"
					}
				case *ssa.UnOp:
					// a package-level value built once by the initialiser and
					// never written afterwards: what the initialiser stored
					g, isG := v.X.(*ssa.Global)
					if !isG || g.Pkg == nil {
						undecided = "unrecognised entry shape"
						return
					}
					initFn := g.Pkg.Func("init")
					if initFn == nil || !p.writtenOnlyInInit(g, initFn) {
						undecided = "the entry is a package variable that is written outside its initialiser"
						return
					}
					found := false
					eachInstr(initFn, func(_ *ssa.BasicBlock, in ssa.Instruction) {
						if st, ok := in.(*ssa.Store); ok && st.Addr == ssa.Value(g) {
							found = true
							entry(st.Val, depth+1)
						}
					})
					if !found {
						undecided = "the entry is a package variable without an initialiser"
					}
				default:
					undecided = "unrecognised entry shape"
				}
			}
			entry(mu.Value, 0)
			if undecided != "" {
				r.Undecided("propkey|"+fnKey(fn)+"|"+key.String(), p.instrPos(in), undecided+" (entry for <"+key.String()+">)")
				return
			}
			ok = len(elems) > 0
			for _, e := range elems {
				if e.name == nil || *e.name != *key {
					ok = false
				}
			}
			r.Ob(ok)
			r.Sample(map[string]interface{}{"function": fnKey(fn), "key": key.String(), "at": p.instrPos(in), "agrees": ok})
			if !ok {
				var names []string
				for _, e := range elems {
					if e.name != nil {
						names = append(names, e.typ+" (<"+e.name.String()+">)")
					}
				}
				r.Violation("propkey|"+fnKey(fn)+"|"+key.String(), p.instrPos(in), fmt.Sprintf("%s registers under <%s> a function that writes %v: a client asking for <%s> receives a different element and reads nothing", fnKey(fn), key.String(), names, key.String()), nil)
			}
		})
	}
}
