package main

// C01 — the WebDAV file server behaves like the RFC 4918 resource-tree model.
//
// Decided (structural part only, not the model equivalence): the method
// dispatch and success codes, the COPY/MOVE header table, the adapter's
// option polarity and code-decided refusals, and — by single-fault
// exploration of the whole file server with LocalFileSystem bound — the
// status answered for every (method, OS call, errno class). Not decided: the
// tree after a successful request, bodies and headers of GET/PROPFIND,
// sequences of requests (values produced by the operating system).

import (
	"fmt"
	"go/token"
	"go/types"
	"os"
	"sort"
	"strings"

	"golang.org/x/tools/go/ssa"
)

func init() { register("C01", runC01) }

func runC01(c *Ctx, pr *PropertyRun) {
	pr.Explanation = "Decided (structural part only — not the equivalence with the resource-tree model): by decision tables extracted from the SSA of the current source (abstract interpretation; nothing is executed): (1) dispatch: every method reaches exactly the backend operation of that name, an unknown method is answered 405, and the success codes are those of the statement (DELETE 204, MKCOL 201, COPY/MOVE 201 when created else 204, OPTIONS 204, PROPFIND 207); a backend error's status is what is answered; (2) the COPY/MOVE header table: absent Depth = infinity, absent Overwrite = T, COPY Depth 1 -> 400, MOVE Depth other than infinity -> 400, missing or unparsable Destination -> 400, invalid Depth/Overwrite -> 400, and recursive/overwrite reach the backend with the right polarity; " +
		"(3) the adapter: NoRecursive = !recursive, NoOverwrite = !overwrite, MKCOL announcing a body -> 415 before any effect, GET/HEAD of a collection -> 405 before opening it, a 'not found' from Mkdir -> 409, an 'exists' from Copy/Move -> 412; (4) refusal statuses by single-fault exploration of the whole file server with LocalFileSystem bound: for every method and every OS call it makes, that call failing with each errno class, the status that reaches the client, compared with the scenario table of RFC 4918 §9 (DESIGN.md Appendix A). " +
		"NOT decided: that the tree after a successful request equals the model's, contents of files, headers and bodies of GET/HEAD/PROPFIND, sequences of requests — values produced by the operating system at run time."
	pr.Assumptions = append(pr.Assumptions, "one OS fault per request (single-fault regime); the errno classes each OS call can produce and their POSIX meaning are a trusted table",
		"backend errors are represented by an HTTPError with a marker status, which is what ServeError turns into the answer")
	pr.Trusted = append(pr.Trusted, "golang.org/x/tools/go/ssa v0.29.0", "the interpreter's models of net/http, os and path/filepath calls (checker/p_c01.go, p_fs.go)")

	c01Dispatch(c, pr, "C01")
	c01Adapter(c, pr, "C01")
	serveErrorTable(c, pr, "C01")
	// GET and HEAD of a stored file are answered through http.ServeContent:
	// the fallback for file systems whose files cannot seek copies the bytes
	// without sniffing the content type, so HEAD and GET (and empty and
	// non-empty files) would announce different entity headers
	{
		sc := NewRule("C01", "C01.get-head-serve-content", "every fault-free GET or HEAD of a file stored by LocalFileSystem that is answered 200 is served by http.ServeContent (what LocalFileSystem.Open returns can seek) — explored through the whole file server (E2)")
		sc.Exhaustive = true
		pr.Rules = append(pr.Rules, sc)
		seen := map[string]bool{}
		for _, run := range exploreFileServer(c, sc) {
			if (run.Method != "GET" && run.Method != "HEAD") || run.Status != "200" || run.firstFault() != nil {
				continue
			}
			sc.Role("served-file")
			sc.Ob(run.Served)
			if !run.Served && !seen[run.Method] {
				seen[run.Method] = true
				sc.Violation("not-serve-content|"+run.Method, "-", fmt.Sprintf("%s of a stored file is answered 200 without http.ServeContent: what LocalFileSystem.Open returns no longer implements io.ReadSeeker, so the handler falls back to copying the bytes — no content-type sniffing, no ranges; HEAD and GET announce different entity headers. Trace: %s", run.Method, run.describe()), nil)
			}
		}
		sc.RequireRole("served-file")
	}
	// PROPFIND reports what is stored: each listed resource gets its own property table
	freshPropTableRule(c, pr, "C01")
	// ... under the href by which it can be addressed again (shared with C03.hrefs)
	if san := c.P.Func(pkgWebdav, "(LocalFileSystem).localPath"); san != nil {
		hrefs := NewRule("C01", "C01.hrefs", "every FileInfo.Path is \"/\"+ToSlash(Rel(root, p)) of a Walk path, or the request name itself (E2 + backward derivation)")
		pr.Rules = append(pr.Rules, hrefs)
		c03Hrefs(c, hrefs, &sanitiser{c: c, san: san, memo: map[string]bool{}})
	}
	// every name that denotes a resource is accepted (and only those): the
	// sanitiser's table, shared with C03.sanitiser-shape
	acc := NewRule("C01", "C01.path-acceptance", "decision table of localPath: success exactly for NUL-free names whose path.Clean form is absolute — no other name is refused (E2, shared with C03)")
	acc.Exhaustive = true
	pr.Rules = append(pr.Rules, acc)
	if san := c.P.MustFunc(acc, pkgWebdav, "(LocalFileSystem).localPath"); san != nil {
		c03Shape(c, acc, san, c.P)
	}
	fsFaultRules(c, pr, "C01")
	c01Structure(c, pr, "C01")
}

// comparesValues: f tests a against b with ==, !=, strings.HasPrefix,
// os.SameFile or filepath.Rel.
func comparesValues(f *ssa.Function, a, b ssa.Value, dependsOn func(v, target ssa.Value, depth int) bool) bool {
	found := false
	eachInstr(f, func(_ *ssa.BasicBlock, in ssa.Instruction) {
		switch x := in.(type) {
		case *ssa.BinOp:
			if x.Op == token.EQL || x.Op == token.NEQ {
				if (dependsOn(x.X, a, 0) && dependsOn(x.Y, b, 0)) || (dependsOn(x.X, b, 0) && dependsOn(x.Y, a, 0)) {
					found = true
				}
			}
		case ssa.CallInstruction:
			n := calleeName(x.Common())
			if n == "strings.HasPrefix" || n == "os.SameFile" || n == "path/filepath.Rel" {
				args := x.Common().Args
				if len(args) == 2 && ((dependsOn(args[0], a, 0) && dependsOn(args[1], b, 0)) || (dependsOn(args[0], b, 0) && dependsOn(args[1], a, 0))) {
					found = true
				}
			}
		}
	})
	return found
}

// c01Structure: two structural necessary conditions of COPY/MOVE.
func c01Structure(c *Ctx, pr *PropertyRun, prop string) {
	p := c.P
	r := NewRule(prop, prop+".copy-move-structure", "a Walk callback that performs file-system effects addresses them through its own path parameter; Copy and Move compare source and destination before any destructive call (E1/E4)")
	pr.Rules = append(pr.Rules, r)
	lfs := p.NamedType(pkgWebdav, "LocalFileSystem")
	var dependsOn func(v ssa.Value, target ssa.Value, depth int) bool
	dependsOn = func(v ssa.Value, target ssa.Value, depth int) bool {
		if v == target {
			return true
		}
		if depth > 6 {
			return false
		}
		in, ok := v.(ssa.Instruction)
		if !ok {
			return false
		}
		// a variable captured by a closure lives in a cell: what is loaded
		// from it is what was stored into it
		if ld, isLoad := v.(*ssa.UnOp); isLoad && ld.Op == token.MUL {
			if al, isAlloc := ld.X.(*ssa.Alloc); isAlloc && al.Referrers() != nil {
				for _, ref := range *al.Referrers() {
					if st, isStore := ref.(*ssa.Store); isStore && st.Addr == al && dependsOn(st.Val, target, depth+1) {
						return true
					}
				}
			}
		}
		for _, op := range in.Operands(nil) {
			if *op != nil && dependsOn(*op, target, depth+1) {
				return true
			}
		}
		return false
	}
	for _, fn := range p.ModFns {
		if recvNamed(fn) != lfs || fn.Parent() != nil || len(fn.Blocks) == 0 {
			continue
		}
		// Walk callbacks
		eachCall(fn, func(site ssa.CallInstruction) {
			cc := site.Common()
			if n := calleeName(cc); n != "path/filepath.Walk" && n != "path/filepath.WalkDir" {
				return
			}
			// the callback: a closure written here, or the closure a
			// factory of the module returns
			var cf *ssa.Function
			for _, g := range p.ModFns {
				if g.Parent() == nil || len(g.Blocks) == 0 {
					continue
				}
				for _, wc := range walkContexts(c, g) {
					if wc.site == site {
						cf = g
					}
				}
			}
			if cf == nil {
				return
			}
			var effects []ssa.CallInstruction
			eachCall(cf, func(s2 ssa.CallInstruction) {
				if len(fsPathArgs(s2.Common())) > 0 {
					effects = append(effects, s2)
				} else if g := s2.Common().StaticCallee(); g != nil && p.InModule(g) {
					// a helper that performs file-system calls on its parameters
					has := false
					eachCall(g, func(s3 ssa.CallInstruction) {
						if len(fsPathArgs(s3.Common())) > 0 {
							has = true
						}
					})
					if has {
						effects = append(effects, s2)
					}
				}
			})
			if len(effects) == 0 {
				return
			}
			r.Role("walk-callback-with-effects")
			uses := false
			for _, e := range effects {
				for _, a := range e.Common().Args {
					if dependsOn(a, cf.Params[0], 0) {
						uses = true
					}
				}
			}
			r.Ob(uses)
			if !uses {
				r.Violation("walk-ignores-path|"+fnKey(fn), p.instrPos(site), fmt.Sprintf("the Walk callback in %s performs file-system effects but none of their path arguments depends on the callback's own path parameter: every visited entry is applied to the same path, so a deep copy cannot reproduce more than one entry", fnKey(fn)), nil)
			}
		})
		// source/destination comparison in methods sanitising two paths
		var sans []*ssa.Call
		san := p.Func(pkgWebdav, "(LocalFileSystem).localPath")
		var firstDestructive ssa.CallInstruction
		eachCall(fn, func(site ssa.CallInstruction) {
			if call, ok := site.(*ssa.Call); ok && call.Common().StaticCallee() == san {
				sans = append(sans, call)
			}
			if destructiveCalls[fsPrimitiveName(p, site.Common())] && firstDestructive == nil {
				firstDestructive = site
			}
		})
		if len(sans) == 2 && firstDestructive != nil {
			r.Role("two-path-operation")
			var a, b ssa.Value
			for _, ref := range *sans[0].Referrers() {
				if ex, ok := ref.(*ssa.Extract); ok && ex.Index == 0 {
					a = ex
				}
			}
			for _, ref := range *sans[1].Referrers() {
				if ex, ok := ref.(*ssa.Extract); ok && ex.Index == 0 {
					b = ex
				}
			}
			compared := false
			for _, f := range withClosures(fn) {
				eachInstr(f, func(_ *ssa.BasicBlock, in ssa.Instruction) {
					switch x := in.(type) {
					case *ssa.BinOp:
						if (x.Op == token.EQL || x.Op == token.NEQ) && a != nil && b != nil {
							if (dependsOn(x.X, a, 0) && dependsOn(x.Y, b, 0)) || (dependsOn(x.X, b, 0) && dependsOn(x.Y, a, 0)) {
								compared = true
							}
						}
					case ssa.CallInstruction:
						n := calleeName(x.Common())
						args := x.Common().Args
						if n == "strings.HasPrefix" || n == "os.SameFile" || n == "path/filepath.Rel" {
							if len(args) == 2 && a != nil && b != nil && ((dependsOn(args[0], a, 0) && dependsOn(args[1], b, 0)) || (dependsOn(args[0], b, 0) && dependsOn(args[1], a, 0))) {
								compared = true
							}
						} else if g := x.Common().StaticCallee(); g != nil && p.InModule(g) && len(g.Blocks) > 0 && a != nil && b != nil {
							// a helper of the module that is handed both paths
							// and compares two of its parameters (whatever it
							// is called)
							ia, ib := -1, -1
							for i, arg := range args {
								if dependsOn(arg, a, 0) && ia < 0 {
									ia = i
								} else if dependsOn(arg, b, 0) && ib < 0 {
									ib = i
								}
							}
							if ia >= 0 && ib >= 0 && ia < len(g.Params) && ib < len(g.Params) && comparesValues(g, g.Params[ia], g.Params[ib], dependsOn) {
								compared = true
							}
						}
					}
				})
			}
			r.Ob(compared)
			if !compared {
				r.Violation("no-same-resource-test|"+fnKey(fn), p.instrPos(firstDestructive), fmt.Sprintf("%s never compares its source with its destination: a request whose source and destination coincide (or contain one another) is not refused with 403 and goes on to its destructive calls", fnKey(fn)), nil)
			}
		}
	}
	r.RequireRole("walk-callback-with-effects", "two-path-operation")
	// a copy is a resource of its own: a link shares the stored bytes, so a
	// later PUT to the source or to the copy (which rewrites in place) shows
	// through at the other name
	if prop != "C01" {
		return
	}
	lk := NewRule("C01", "C01.no-links", "the file server never makes a hard or symbolic link: the result of COPY is independent of its source from then on (E7)")
	pr.Rules = append(pr.Rules, lk)
	// ... as long as stored files are rewritten in place: some call opens
	// the addressed resource itself for writing (with replace-by-rename
	// everywhere a shared inode would never be written to)
	inPlace := ""
	if san := p.Func(pkgWebdav, "(LocalFileSystem).localPath"); san != nil {
		sz := &sanitiser{c: c, san: san, memo: map[string]bool{}}
		for _, fn := range p.ModFns {
			if !inLib(fn) || len(fn.Blocks) == 0 {
				continue
			}
			eachCall(fn, func(site ssa.CallInstruction) {
				n := fsPrimitiveName(p, site.Common())
				if n != "os.Create" && n != "os.OpenFile" && n != "os.WriteFile" {
					return
				}
				if n == "os.OpenFile" && len(site.Common().Args) >= 2 {
					if fl, ok := constInt(site.Common().Args[1]); ok && fl&int64(os.O_WRONLY|os.O_RDWR) == 0 {
						return
					}
				}
				if ok, _ := sz.sanitised(site.Common().Args[0], site.Block(), fn, 0); ok {
					inPlace = p.instrPos(site)
				}
			})
		}
	}
	lk.Count("writes_in_place", map[bool]int{false: 0, true: 1}[inPlace != ""])
	for _, fn := range p.ModFns {
		if !inLib(fn) || len(fn.Blocks) == 0 {
			continue
		}
		eachCall(fn, func(site ssa.CallInstruction) {
			n := calleeName(site.Common())
			if len(fsPathArgs(site.Common())) > 0 {
				lk.Role("fs-call")
				isLink := (n == "os.Link" || n == "os.Symlink" || n == "syscall.Link" || n == "syscall.Symlink") && inPlace != ""
				lk.Ob(!isLink)
				if isLink {
					lk.Violation("link|"+fnKey(fn)+"|"+n, p.instrPos(site), fmt.Sprintf("%s calls %s: the new name shares its content with the old one, so replacing the content of one of the two resources later (PUT rewrites a file in place) changes what the other returns — the copy is not a resource of its own (in-place write at %s)", fnKey(fn), n, inPlace), nil)
				}
			}
		})
	}
	lk.RequireRole("fs-call")
}

// ---------------------------------------------------------------------------
// shared HTTP-side models

const markerStatus = 418

func markerErr(in *Interp) Val {
	he := in.c.P.NamedType(pkgInternal, "HTTPError")
	st := zeroOf(he).(Struct)
	st.F[0].Set(kInt(markerStatus))
	return Iface{Dyn: types.NewPointer(he), V: Ptr{&Cell{V: st, T: he}}}
}

// httpServerModels: ResponseWriter, request body and XML decode/encode.
func httpServerModels(in *Interp, site ssa.CallInstruction, name string, args []Val) (Val, bool) {
	cc := site.Common()
	res := cc.Signature().Results()
	switch {
	case cc.IsInvoke() && cc.Method.Name() == "WriteHeader" && len(args) == 2:
		in.effect("WriteHeader", site.Pos(), args[1])
		return nil, true
	case cc.IsInvoke() && cc.Method.Name() == "Header" && len(args) == 1:
		return Opaque{"w.Header()", res.At(0).Type()}, true
	case cc.IsInvoke() && cc.Method.Name() == "Write" && len(args) == 2:
		in.effect("Write", site.Pos())
		return Tuple{[]Val{kInt(0), kNil}}, true
	case name == "net/http.Error":
		in.effect("http.Error", site.Pos(), args[2], args[1])
		return nil, true
	case name == "(net/http.Header).Set" || name == "(net/http.Header).Add":
		in.effect("Header."+name[len(name)-3:], site.Pos(), args[1], args[2])
		return nil, true
	case name == "(*net/http.Request).Context":
		return Opaque{"ctx", res.At(0).Type()}, true
	case name == "mime.ParseMediaType":
		k := "mediatype(" + keyOf(args[0]) + ")"
		if in.truth(LazyBool{"fails:" + k}) {
			return Tuple{[]Val{kStr(""), Opaque{"params", res.At(1).Type()}, in.mkErr(&ErrObj{Kind: "ext", Msg: kStr("mime error"), Key: "mime-error"})}}, true
		}
		return Tuple{[]Val{SymStr{Key: k}, Opaque{"params", res.At(1).Type()}, kNil}}, true
	case name == "encoding/xml.NewDecoder":
		return Opaque{"xmldecoder", res.At(0).Type()}, true
	case name == "(*encoding/xml.Decoder).Decode":
		if in.truth(LazyBool{"fails:xml.Decode"}) {
			return in.mkErr(&ErrObj{Kind: "ext", Msg: kStr("xml error"), Key: "xml-error"}), true
		}
		return kNil, true
	case name == "encoding/xml.NewEncoder":
		return Opaque{"xmlencoder", res.At(0).Type()}, true
	case name == "(*encoding/xml.Encoder).Encode":
		in.effect("xml.Encode", site.Pos())
		// what is written (for rules that look inside the body; kept out of
		// the plain effect so that sequence oracles stay as they are)
		in.Trace = append(in.Trace, Effect{Name: "xml.Encode.value", Args: []Val{args[1]}, Pos: site.Pos()})
		return kNil, true
	case cc.IsInvoke() && cc.Method.Name() == "Read" && len(args) == 2:
		// the request body: empty (EOF at once) or not. A zero-length read
		// reports the end of an empty body with some readers (http.NoBody)
		// and nothing at all with others (http.MaxBytesReader: 0, nil)
		eof := Iface{Dyn: types.Typ[types.Invalid], V: Opaque{"global:io.EOF", errorType}}
		zeroLen := false
		switch b := args[1].(type) {
		case Konst:
			zeroLen = b.V == nil
		case Slice:
			zeroLen = len(b.E) == 0
		}
		if zeroLen {
			if in.truth(LazyBool{"body-empty"}) && in.truth(LazyBool{"zero-length-read-reports-eof"}) {
				return Tuple{[]Val{kInt(0), eof}}, true
			}
			return Tuple{[]Val{kInt(0), kNil}}, true
		}
		if in.truth(LazyBool{"body-empty"}) {
			return Tuple{[]Val{kInt(0), eof}}, true
		}
		return Tuple{[]Val{kInt(1), kNil}}, true
	case name == "net/url.Parse":
		k := "url(" + keyOf(args[0]) + ")"
		if in.truth(LazyBool{"fails:" + k}) {
			return Tuple{[]Val{kNil, in.mkErr(&ErrObj{Kind: "ext", Msg: kStr("url error"), Key: "url-error"})}}, true
		}
		return Tuple{[]Val{in.symPointee(in.c.P.lookupType("net/url", "URL"), k), kNil}}, true
	case name == "strings.Join":
		return SymStr{Key: "join"}, true
	}
	return nil, false
}

func openHTTPServer(n *types.Named) bool {
	pp := n.Obj().Pkg().Path()
	return (pp == "net/http" && n.Obj().Name() == "Request") || (pp == "net/url" && n.Obj().Name() == "URL")
}

// responseOf summarises a trace: the status written (first WriteHeader or
// http.Error), or "none".
func responseOf(in *Interp, trace []Effect) string {
	for _, e := range trace {
		switch e.Name {
		case "WriteHeader", "http.Error":
			if code, ok := in.concretise(e.Args[0]); ok {
				return fmt.Sprint(code)
			}
			return "status:" + keyOf(e.Args[0])
		case "ServeContent":
			return "200"
		}
	}
	return "none"
}

func backendEffects(trace []Effect) []string {
	var out []string
	for _, e := range trace {
		if strings.HasPrefix(e.Name, "Backend.") || strings.HasPrefix(e.Name, "FileSystem.") {
			out = append(out, e.String())
		}
	}
	return out
}

// ---------------------------------------------------------------------------
// dispatch + COPY/MOVE header table

var davMethods = []string{"OPTIONS", "GET", "HEAD", "PUT", "DELETE", "PROPFIND", "PROPPATCH", "MKCOL", "COPY", "MOVE"}

func c01Dispatch(c *Ctx, pr *PropertyRun, prop string) {
	p := c.P
	r := NewRule(prop, prop+".dispatch", "method dispatch, success codes and the COPY/MOVE/PROPFIND header tables of internal.(*Handler).ServeHTTP equal the statement (E2)")
	r.Exhaustive = true
	r.Bounds = "methods: the ten known ones and any other; each header: absent, each legal value, any other value"
	pr.Rules = append(pr.Rules, r)
	fn := p.MustFunc(r, pkgInternal, "(*Handler).ServeHTTP")
	if fn == nil {
		return
	}
	backendModel := func(in *Interp, site ssa.CallInstruction, name string, args []Val) (Val, bool) {
		cc := site.Common()
		if !cc.IsInvoke() || !strings.HasSuffix(name, "internal.Backend)."+cc.Method.Name()) {
			return nil, false
		}
		m := cc.Method.Name()
		var shown []Val
		for i, a := range args[1:] {
			// show the scalar arguments (depth, recursive, overwrite) and the destination
			switch a.(type) {
			case Konst, LazyBool, SymInt:
				shown = append(shown, a)
			case Ptr:
				if i > 0 {
					if pth := fieldVal(a, "Path"); pth != nil {
						shown = append(shown, pth)
					}
				}
			}
		}
		in.effect("Backend."+m, site.Pos(), shown...)
		fails := in.truth(LazyBool{"backend-fails"})
		res := cc.Signature().Results()
		var out []Val
		for i := 0; i < res.Len(); i++ {
			t := res.At(i).Type()
			switch {
			case isErrorType(t):
				if fails {
					out = append(out, markerErr(in))
				} else {
					out = append(out, kNil)
				}
			case types.Identical(t.Underlying(), types.Typ[types.Bool]):
				if fails {
					out = append(out, kFalse)
				} else {
					out = append(out, LazyBool{"created"})
				}
			default:
				if _, isSlice := t.Underlying().(*types.Slice); isSlice {
					out = append(out, Slice{})
				} else if fails {
					out = append(out, kNil)
				} else if pt, isPtr := t.(*types.Pointer); isPtr {
					out = append(out, in.symPointee(pt.Elem(), "backend-result"))
				} else {
					out = append(out, Opaque{"backend-result", t})
				}
			}
		}
		if len(out) == 1 {
			return out[0], true
		}
		return Tuple{out}, true
	}
	spec := DTXSpec{Name: "internal.Handler.ServeHTTP", Entry: fn,
		Sym: SymSpec{NonNil: func(k string) bool { return true }},
		Setup: func(in *Interp) {
			in.Models = append(in.Models, backendModel, httpServerModels)
			in.OpenExternal = openHTTPServer
		},
		Args: func(in *Interp) []Val {
			return []Val{in.symOf(fn.Params[0].Type(), "h"), Opaque{"w", fn.Params[1].Type()}, in.symOf(fn.Params[2].Type(), "r")}
		},
		Observe: func(in *Interp, res Val, pan *panicOutcome) string {
			if pan != nil {
				return "panic"
			}
			return strings.Join(backendEffects(in.Trace), ",") + " -> " + responseOf(in, in.Trace)
		},
		Oracle: func(env *OracleEnv) ([]string, bool) {
			if env.Bool("isnil(h.Backend)") {
				return []string{" -> 500"}, true
			}
			method := "other"
			for _, m := range davMethods {
				if env.Eq(S("r.Method"), K(m)) {
					method = m
					break
				}
			}
			fail := func() bool { return env.Bool("backend-fails") }
			done := func(call, okStatus string) ([]string, bool) {
				if fail() {
					return []string{call + " -> " + fmt.Sprint(markerStatus)}, true
				}
				return []string{call + " -> " + okStatus}, true
			}
			hdr := func(name string) string { return S("header:\"" + name + "\"") }
			switch method {
			case "OPTIONS":
				return done("Backend.Options()", "204")
			case "GET", "HEAD":
				return done("Backend.HeadGet()", "none")
			case "PUT":
				return done("Backend.Put()", "none")
			case "DELETE":
				return done("Backend.Delete()", "204")
			case "MKCOL":
				return done("Backend.Mkcol()", "201")
			case "other":
				return []string{" -> 405"}, true
			case "PROPFIND":
				// body forms
				ct := "mediatype(header:\"Content-Type\")"
				isXML := false
				if !env.Bool("fails:" + ct) {
					isXML = env.Eq(S(ct), K("application/xml")) || env.Eq(S(ct), K("text/xml"))
				}
				// an empty body is an allprop request whatever its content
				// type says (RFC 4918 §9.1); anything else must be XML
				if !env.Bool("body-empty") {
					if !isXML || env.Bool("fails:xml.Decode") {
						return []string{" -> 400"}, true
					}
				}
				depth := "-1"
				d := hdr("Depth")
				switch {
				case env.Eq(d, K("")):
				case env.Eq(d, K("0")):
					depth = "0"
				case env.Eq(d, K("1")):
					depth = "1"
				case env.Eq(d, K("infinity")):
				default:
					return []string{" -> 400"}, true
				}
				return done("Backend.PropFind("+depth+")", "207")
			case "PROPPATCH":
				ct := "mediatype(header:\"Content-Type\")"
				isXML := false
				if !env.Bool("fails:" + ct) {
					isXML = env.Eq(S(ct), K("application/xml")) || env.Eq(S(ct), K("text/xml"))
				}
				if !isXML || env.Bool("fails:xml.Decode") {
					return []string{" -> 400"}, true
				}
				return done("Backend.PropPatch()", "207")
			}
			// COPY / MOVE
			dest := hdr("Destination")
			if env.Eq(dest, K("")) || env.Bool("fails:url(header:\"Destination\")") {
				return []string{" -> 400"}, true
			}
			overwrite := "true"
			o := hdr("Overwrite")
			switch {
			case env.Eq(o, K("")), env.Eq(o, K("T")):
			case env.Eq(o, K("F")):
				overwrite = "false"
			default:
				return []string{" -> 400"}, true
			}
			depth := "infinity"
			d := hdr("Depth")
			switch {
			case env.Eq(d, K("")), env.Eq(d, K("infinity")):
			case env.Eq(d, K("0")):
				depth = "0"
			case env.Eq(d, K("1")):
				depth = "1"
			default:
				return []string{" -> 400"}, true
			}
			destPath := "url(header:\"Destination\").Path"
			var call string
			if method == "COPY" {
				switch depth {
				case "1":
					return []string{" -> 400"}, true
				case "0":
					call = "Backend.Copy(" + destPath + ", false, " + overwrite + ")"
				default:
					call = "Backend.Copy(" + destPath + ", true, " + overwrite + ")"
				}
			} else {
				if depth != "infinity" {
					return []string{" -> 400"}, true
				}
				call = "Backend.Move(" + destPath + ", " + overwrite + ")"
			}
			if fail() {
				return []string{call + " -> " + fmt.Sprint(markerStatus)}, true
			}
			if env.Bool("created") {
				return []string{call + " -> 201"}, true
			}
			return []string{call + " -> 204"}, true
		},
	}
	res := runDTX(c, spec)
	reportDTX(c, r, spec, res, "dispatch")
	r.Role("decision-table")
	r.Count("rows", res.Runs)
	if res.Runs < 40 {
		r.Unresolved("the dispatch table has fewer than 40 rows")
	}
}

// ---------------------------------------------------------------------------
// the webdav adapter (webdav.backend) over an abstract FileSystem

func c01Adapter(c *Ctx, pr *PropertyRun, prop string) {
	p := c.P
	r := NewRule(prop, prop+".adapter", "the adapter between the HTTP layer and FileSystem: option polarity, code-decided refusals before any effect, status rewrites (E2)")
	r.Exhaustive = true
	pr.Rules = append(pr.Rules, r)
	fileInfoT := p.NamedType(pkgWebdav, "FileInfo")
	httpErrT := p.NamedType(pkgInternal, "HTTPError")
	mkHTTPErr := func(in *Interp, code int64) Val {
		st := zeroOf(httpErrT).(Struct)
		st.F[0].Set(kInt(code))
		return Iface{Dyn: types.NewPointer(httpErrT), V: Ptr{&Cell{V: st, T: httpErrT}}}
	}
	errKinds := []string{"ok", "404", "exists", "other"}
	fsErr := func(in *Interp, key string) (Val, string) {
		k := errKinds[in.chooseLabeled("fs:"+key, errKinds)]
		switch k {
		case "ok":
			return kNil, k
		case "404":
			return mkHTTPErr(in, 404), k
		case "exists":
			// an error for which os.IsExist holds
			return in.mkErr(&ErrObj{Kind: "os:PathError", Msg: kStr("exists"), Wrapped: in.mkErr(&ErrObj{Kind: "errno", Errno: "EEXIST", Msg: kStr("file exists")})}), k
		}
		return markerErr(in), k
	}
	fsModel := func(in *Interp, site ssa.CallInstruction, name string, args []Val) (Val, bool) {
		cc := site.Common()
		if !cc.IsInvoke() || !strings.HasSuffix(name, "FileSystem)."+cc.Method.Name()) {
			return nil, false
		}
		m := cc.Method.Name()
		var shown []Val
		for _, a := range args[2:] {
			switch x := a.(type) {
			case SymStr, Konst, LazyBool:
				shown = append(shown, a)
			case Ptr:
				if s, ok := x.C.Get().(Struct); ok {
					for i, f := range s.F {
						name := s.T.Underlying().(*types.Struct).Field(i).Name()
						shown = append(shown, kStr(name+"="+describeVal(in, f.Get())))
					}
				}
			}
		}
		in.effect("FileSystem."+m, site.Pos(), shown...)
		e, kind := fsErr(in, m)
		switch m {
		case "Stat":
			if kind != "ok" {
				return Tuple{[]Val{kNil, e}}, true
			}
			return Tuple{[]Val{in.symPointee(fileInfoT, "fi"), kNil}}, true
		case "Open":
			if kind != "ok" {
				return Tuple{[]Val{kNil, e}}, true
			}
			return Tuple{[]Val{Iface{Dyn: types.Typ[types.Invalid], V: Opaque{"file", cc.Signature().Results().At(0).Type()}}, kNil}}, true
		case "ReadDir":
			if kind != "ok" {
				return Tuple{[]Val{Slice{}, e}}, true
			}
			return Tuple{[]Val{Slice{}, kNil}}, true
		case "Create":
			if kind != "ok" {
				return Tuple{[]Val{kNil, kFalse, e}}, true
			}
			return Tuple{[]Val{in.symPointee(fileInfoT, "fi"), LazyBool{"created"}, kNil}}, true
		case "Copy", "Move":
			if kind != "ok" {
				return Tuple{[]Val{kFalse, e}}, true
			}
			return Tuple{[]Val{LazyBool{"created"}, kNil}}, true
		}
		return e, true
	}
	extra := func(in *Interp, site ssa.CallInstruction, name string, args []Val) (Val, bool) {
		cc := site.Common()
		switch {
		case name == "net/http.ServeContent":
			in.effect("ServeContent", site.Pos())
			return nil, true
		case name == "io.Copy":
			in.effect("io.Copy", site.Pos())
			return Tuple{[]Val{kInt(0), kNil}}, true
		case cc.IsInvoke() && cc.Method.Name() == "Close":
			return kNil, true
		case name == "strconv.FormatInt":
			return SymStr{Key: "size"}, true
		}
		return nil, false
	}
	statusOf := func(in *Interp, v Val) string {
		if v == nil || isNilVal(v) {
			return "nil"
		}
		cur := v
		for i := 0; i < 6; i++ {
			if code, _, ok := httpErrOf(in, cur); ok {
				return fmt.Sprint(code)
			}
			w, ok := in.unwrapErr(cur, nil)
			if !ok {
				break
			}
			cur = w
		}
		return "500"
	}
	type tbl struct {
		method string
		oracle func(env *OracleEnv) ([]string, bool)
	}
	fsKind := func(env *OracleEnv, m string) string {
		return errKinds[env.ch.choose("fs:"+m, len(errKinds), func(i int) string { return errKinds[i] })]
	}
	through := func(kind string) string { // status of a FileSystem error passed through
		switch kind {
		case "404":
			return "404"
		case "exists":
			return "500"
		}
		return fmt.Sprint(markerStatus)
	}
	tables := []tbl{
		{"Mkcol", func(env *OracleEnv) ([]string, bool) {
			if !env.Eq(S("header:\"Content-Type\""), K("")) {
				return []string{" => 415"}, true
			}
			call := "FileSystem.Mkdir($r.URL.Path)"
			switch k := fsKind(env, "Mkdir"); k {
			case "ok":
				return []string{call + " => nil"}, true
			case "404":
				return []string{call + " => 409"}, true
			default:
				return []string{call + " => " + through(k)}, true
			}
		}},
		{"Copy", func(env *OracleEnv) ([]string, bool) {
			rec, ow := env.Bool("recursive"), env.Bool("overwrite")
			call := fmt.Sprintf("FileSystem.Copy($r.URL.Path, $dest.Path, \"NoRecursive=%v\", \"NoOverwrite=%v\")", !rec, !ow)
			switch k := fsKind(env, "Copy"); k {
			case "ok":
				return []string{call + " => nil created=" + fmt.Sprint(env.Bool("created"))}, true
			case "exists":
				return []string{call + " => 412 created=false"}, true
			default:
				return []string{call + " => " + through(k) + " created=false"}, true
			}
		}},
		{"Move", func(env *OracleEnv) ([]string, bool) {
			ow := env.Bool("overwrite")
			call := fmt.Sprintf("FileSystem.Move($r.URL.Path, $dest.Path, \"NoOverwrite=%v\")", !ow)
			switch k := fsKind(env, "Move"); k {
			case "ok":
				return []string{call + " => nil created=" + fmt.Sprint(env.Bool("created"))}, true
			case "exists":
				return []string{call + " => 412 created=false"}, true
			default:
				return []string{call + " => " + through(k) + " created=false"}, true
			}
		}},
		{"HeadGet", func(env *OracleEnv) ([]string, bool) {
			stat := "FileSystem.Stat($r.URL.Path)"
			if k := fsKind(env, "Stat"); k != "ok" {
				return []string{stat + " => " + through(k)}, true
			}
			if env.Bool("fi.IsDir") {
				return []string{stat + " => 405"}, true
			}
			open := stat + ",FileSystem.Open($r.URL.Path)"
			if k := fsKind(env, "Open"); k != "ok" {
				return []string{open + " => " + through(k)}, true
			}
			return []string{open + " => nil"}, true
		}},
		{"Delete", func(env *OracleEnv) ([]string, bool) {
			call := Effect{Name: "FileSystem.RemoveAll", Args: []Val{SymStr{Key: "$r.URL.Path"}, kStr("IfMatch=header:\"If-Match\""), kStr("IfNoneMatch=header:\"If-None-Match\"")}}.String()
			k := fsKind(env, "RemoveAll")
			if k == "ok" {
				return []string{call + " => nil"}, true
			}
			return []string{call + " => " + through(k)}, true
		}},
	}
	for _, t := range tables {
		fn := p.MustFunc(r, pkgWebdav, "(*backend)."+t.method)
		if fn == nil {
			continue
		}
		tt := t
		spec := DTXSpec{Name: "webdav.backend." + t.method, Entry: fn,
			Sym: SymSpec{NonNil: func(k string) bool { return true }},
			Setup: func(in *Interp) {
				in.Models = append(in.Models, fsModel, extra, httpServerModels)
				in.OpenExternal = openHTTPServer
			},
			Args: func(in *Interp) []Val {
				var args []Val
				for i, prm := range fn.Params {
					switch {
					case i == 0:
						args = append(args, in.symOf(prm.Type(), "b"))
					case isNamedPtr(prm.Type(), "net/http", "Request"):
						args = append(args, in.symOf(prm.Type(), "r"))
					case isNamedPtr(prm.Type(), pkgInternal, "Href"):
						args = append(args, in.symPointee(p.lookupType("net/url", "URL"), "dest"))
					case types.Identical(prm.Type().Underlying(), types.Typ[types.Bool]):
						// named by POSITION, after the parameter of the
						// internal.Backend interface method the dispatcher
						// calls — not after the adapter's own parameter names
						args = append(args, LazyBool{ifaceParamName(p, tt.method, i-1, prm.Name())})
					default:
						args = append(args, Opaque{prm.Name(), prm.Type()})
					}
				}
				return args
			},
			Observe: func(in *Interp, res Val, pan *panicOutcome) string {
				if pan != nil {
					return "panic"
				}
				eff := strings.Join(backendEffects(in.Trace), ",")
				eff = strings.ReplaceAll(eff, "r.URL.Path", "$r.URL.Path")
				eff = strings.ReplaceAll(eff, "dest.Path", "$dest.Path")
				switch x := res.(type) {
				case Tuple:
					return eff + " => " + statusOf(in, x.E[1]) + " created=" + describeVal(in, x.E[0])
				default:
					return eff + " => " + statusOf(in, res)
				}
			},
			Oracle: func(env *OracleEnv) ([]string, bool) { return tt.oracle(env) },
		}
		res := runDTX(c, spec)
		reportDTX(c, r, spec, res, t.method)
		r.Role("decision-table")
		r.Count("rows_"+t.method, res.Runs)
	}
	r.RequireRole("decision-table")
}

// ifaceParamName: the name of parameter i of internal.Backend's method.
func ifaceParamName(p *Program, method string, i int, fallback string) string {
	n := p.NamedType(pkgInternal, "Backend")
	if n == nil {
		return fallback
	}
	it, ok := n.Underlying().(*types.Interface)
	if !ok {
		return fallback
	}
	for j := 0; j < it.NumMethods(); j++ {
		m := it.Method(j)
		if m.Name() != method {
			continue
		}
		sig := m.Type().(*types.Signature)
		if i < sig.Params().Len() && sig.Params().At(i).Name() != "" {
			return sig.Params().At(i).Name()
		}
	}
	return fallback
}

var _ = sort.Strings
