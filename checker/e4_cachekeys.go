package main

// Cache keys (E4). A package-level cache (sync.Map, map) makes a function's
// answer for one argument the answer for every argument with the same key.
// A key that is a rendering of a type or value — reflect.Type.Name/String,
// fmt's %T/%v — is not unique (two packages declare a type of the same name):
// the second type gets the first one's cached answer.

import (
	"fmt"
	"go/types"
	"strings"

	"golang.org/x/tools/go/ssa"
)

func cacheKeysRule(c *Ctx, pr *PropertyRun, prop string) {
	p := c.P
	r := NewRule(prop, prop+".cache-keys", "no package-level cache of the library is keyed by a rendering of a type or value (reflect.Type.Name/String, fmt %T/%v): such keys are not unique across packages (E4)")
	pr.Rules = append(pr.Rules, r)
	isGlobalBase := func(v ssa.Value) bool {
		for i := 0; i < 6; i++ {
			switch x := v.(type) {
			case *ssa.Global:
				return true
			case *ssa.UnOp:
				v = x.X
			case *ssa.FieldAddr:
				v = x.X
			default:
				return false
			}
		}
		return false
	}
	rendering := func(v ssa.Value) string {
		for i := 0; i < 6; i++ {
			switch x := v.(type) {
			case *ssa.MakeInterface:
				v = x.X
			case *ssa.Convert:
				v = x.X
			case *ssa.ChangeType:
				v = x.X
			case *ssa.BinOp:
				// a concatenation of renderings is a rendering
				v = x.X
			case *ssa.Call:
				cc := x.Common()
				if cc.IsInvoke() {
					if n := namedOf(cc.Value.Type()); n != nil && n.Obj().Pkg() != nil && n.Obj().Pkg().Path() == "reflect" && n.Obj().Name() == "Type" {
						switch cc.Method.Name() {
						case "Name", "String", "PkgPath", "Kind":
							return "reflect.Type." + cc.Method.Name() + "()"
						}
					}
					return ""
				}
				switch calleeName(cc) {
				case "fmt.Sprintf", "fmt.Sprint":
					return calleeName(cc)
				}
				return ""
			default:
				return ""
			}
		}
		return ""
	}
	for _, fn := range p.ModFns {
		if !inLib(fn) || len(fn.Blocks) == 0 || fn.Name() == "init" {
			continue
		}
		eachInstr(fn, func(_ *ssa.BasicBlock, in ssa.Instruction) {
			var key ssa.Value
			switch x := in.(type) {
			case *ssa.Lookup:
				if _, isMap := x.X.Type().Underlying().(*types.Map); isMap && isGlobalBase(x.X) {
					key = x.Index
				}
			case *ssa.MapUpdate:
				if isGlobalBase(x.Map) {
					key = x.Key
				}
			case ssa.CallInstruction:
				cc := x.Common()
				n := calleeName(cc)
				if strings.HasPrefix(n, "(*sync.Map).") && len(cc.Args) >= 2 && isGlobalBase(cc.Args[0]) {
					switch strings.TrimPrefix(n, "(*sync.Map).") {
					case "Load", "Store", "LoadOrStore", "LoadAndDelete", "Swap", "CompareAndSwap":
						key = cc.Args[1]
					}
				}
			}
			if key == nil {
				return
			}
			r.Role("cache-access")
			how := rendering(key)
			r.Ob(how == "")
			if how != "" {
				r.Violation("cache-key|"+fnKey(fn), p.instrPos(in), fmt.Sprintf("%s keys a package-level cache by %s: two types (or values) with the same rendering share one entry — a type declared under the same name in another package gets the first one's cached answer", fnKey(fn), how), nil)
			}
		})
	}
	if p.Control {
		r.ExpectControl("cache-key|internal.zzVerifControlCache")
	}
}
