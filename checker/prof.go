package main

import (
	"os"
	"runtime/pprof"
)

func init() {
	if f := os.Getenv("GWPROF"); f != "" {
		fh, _ := os.Create(f)
		pprof.StartCPUProfile(fh)
		profStop = func() { pprof.StopCPUProfile(); fh.Close() }
	}
}

var profStop = func() {}
