package main

// E2 dtx — choice scripts and finite domains.
//
// Exploration is stateless depth-first search over choice scripts: atoms are
// decided lazily, the first time a path needs them; a run follows a recorded
// prefix of choices and extends it with first alternatives; the next run
// increments the last open choice. Atoms are memoised per run by a canonical
// key, so the same expression evaluated three times is one atom.
//
// Domains: booleans and small enumerations (chooseInt), a partition domain for
// opaque strings (every consistent equal/unequal assignment), a weak-order
// domain for instants (every weak ordering, the zero time being the minimum).

import (
	"fmt"
	"path"
	"sort"
	"strconv"
	"strings"
)

type Decision struct {
	Key    string
	N      int
	Choice int
	Label  string
}

type Chooser struct {
	script []int
	pos    int
	log    []Decision // decisions that consumed a script position, in order
	memo   map[string]int
	labels map[string]string
	strs   *strPart
	times  *timeOrd
	frozen bool // no new decisions allowed (query-only)
}

func newChooser(script []int, base *Chooser) *Chooser {
	c := &Chooser{script: script, memo: map[string]int{}, labels: map[string]string{}, strs: newStrPart(), times: newTimeOrd()}
	if base != nil {
		for k, v := range base.memo {
			c.memo[k] = v
		}
		for k, v := range base.labels {
			c.labels[k] = v
		}
		c.strs = base.strs.clone()
		c.times = base.times.clone()
	}
	return c
}

type undecidedErr struct{ msg string }

// choose returns the decision for key among n alternatives.
func (c *Chooser) choose(key string, n int, label func(i int) string) int {
	if v, ok := c.memo[key]; ok {
		return v
	}
	if n <= 1 {
		c.memo[key] = 0
		return 0
	}
	if c.frozen {
		panic(undecidedErr{"query of undecided atom " + key + " in frozen valuation"})
	}
	v := 0
	if c.pos < len(c.script) {
		v = c.script[c.pos]
	}
	if v >= n {
		v = n - 1
	}
	c.pos++
	l := ""
	if label != nil {
		l = label(v)
	} else {
		l = fmt.Sprint(v)
	}
	c.log = append(c.log, Decision{key, n, v, l})
	c.memo[key] = v
	c.labels[key] = l
	return v
}

// next computes the following script in depth-first order; nil when the
// space is exhausted.
func (c *Chooser) next() []int {
	for i := len(c.log) - 1; i >= 0; i-- {
		if c.log[i].Choice+1 < c.log[i].N {
			out := make([]int, i+1)
			for j := 0; j < i; j++ {
				out[j] = c.log[j].Choice
			}
			out[i] = c.log[i].Choice + 1
			return out
		}
	}
	return nil
}

// valuation renders the decisions of this run (sorted by key).
func (c *Chooser) valuation() map[string]string {
	out := map[string]string{}
	for k := range c.memo {
		if l, ok := c.labels[k]; ok {
			out[k] = l
		}
	}
	return out
}

func valuationString(m map[string]string) string {
	var ks []string
	for k := range m {
		ks = append(ks, k)
	}
	sort.Strings(ks)
	var sb strings.Builder
	n := 0
	for _, k := range ks {
		// "this string differs from that constant" carries no information
		// once the equal ones are shown
		if m[k] == "different" && strings.HasPrefix(k, "eq(c:") {
			continue
		}
		if n > 0 {
			sb.WriteString("; ")
		}
		n++
		sb.WriteString(k + "=" + m[k])
	}
	return sb.String()
}

// ---------------------------------------------------------------------------
// partition domain for strings

type strPart struct {
	parent map[string]string
	konst  map[string]string          // root -> constant value held by the class ("" key absent = none)
	hasK   map[string]bool            // root has a constant
	diseq  map[string]map[string]bool // root -> roots known different
}

func newStrPart() *strPart {
	return &strPart{parent: map[string]string{}, konst: map[string]string{}, hasK: map[string]bool{}, diseq: map[string]map[string]bool{}}
}

func (p *strPart) clone() *strPart {
	n := newStrPart()
	for k, v := range p.parent {
		n.parent[k] = v
	}
	for k, v := range p.konst {
		n.konst[k] = v
	}
	for k, v := range p.hasK {
		n.hasK[k] = v
	}
	for k, m := range p.diseq {
		n.diseq[k] = map[string]bool{}
		for j := range m {
			n.diseq[k][j] = true
		}
	}
	return n
}

func (p *strPart) find(t string) string {
	if _, ok := p.parent[t]; !ok {
		p.parent[t] = t
		if strings.HasPrefix(t, "c:") {
			p.konst[t] = t[2:]
			p.hasK[t] = true
		}
		return t
	}
	for p.parent[t] != t {
		t = p.parent[t]
	}
	return t
}

// strTerm renders a string value as a partition term.
func strTerm(v Val) (string, bool) {
	switch x := v.(type) {
	case Konst:
		if x.V != nil {
			if s, ok := constStringVal(x); ok {
				return "c:" + s, true
			}
		}
	case SymStr:
		return "s:" + x.Key, true
	}
	return "", false
}

// known reports whether a == b is already determined.
func (p *strPart) known(a, b string) (eq bool, ok bool) {
	ra, rb := p.find(a), p.find(b)
	if ra == rb {
		return true, true
	}
	if p.hasK[ra] && p.hasK[rb] && p.konst[ra] != p.konst[rb] {
		return false, true
	}
	if p.diseq[ra][rb] {
		return false, true
	}
	return false, false
}

func (p *strPart) setEq(a, b string) {
	ra, rb := p.find(a), p.find(b)
	if ra == rb {
		return
	}
	// merge rb into ra
	p.parent[rb] = ra
	if p.hasK[rb] {
		p.hasK[ra] = true
		p.konst[ra] = p.konst[rb]
	}
	for x := range p.diseq[rb] {
		if p.diseq[ra] == nil {
			p.diseq[ra] = map[string]bool{}
		}
		p.diseq[ra][x] = true
		if p.diseq[x] == nil {
			p.diseq[x] = map[string]bool{}
		}
		delete(p.diseq[x], rb)
		p.diseq[x][ra] = true
	}
	delete(p.diseq, rb)
}

func (p *strPart) setNe(a, b string) {
	ra, rb := p.find(a), p.find(b)
	if p.diseq[ra] == nil {
		p.diseq[ra] = map[string]bool{}
	}
	if p.diseq[rb] == nil {
		p.diseq[rb] = map[string]bool{}
	}
	p.diseq[ra][rb] = true
	p.diseq[rb][ra] = true
}

// constOf returns the constant a term is known equal to.
func (p *strPart) constOf(t string) (string, bool) {
	r := p.find(t)
	if p.hasK[r] {
		return p.konst[r], true
	}
	return "", false
}

// eqStr decides a == b over the partition domain.
func (c *Chooser) eqStr(a, b string) bool {
	if eq, ok := c.strs.known(a, b); ok {
		return eq
	}
	x, y := a, b
	if x > y {
		x, y = y, x
	}
	if _, decided := c.memo["eq("+x+","+y+")"]; !decided && c.constContradicts(a, b) {
		// a predicate already valued on the symbolic string disagrees with
		// what it yields on the constant: only "different" is a state of the
		// world (eq("/", name) with path.IsAbs(name)=false is not)
		c.strs.setNe(a, b)
		return false
	}
	if _, decided := c.memo["eq("+x+","+y+")"]; !decided && c.prefixOfTrimmedDenied(a, b) {
		// a string is a prefix of itself with a suffix trimmed: an atom
		// HasPrefix(A, TrimSuffix(B, ·)) already valued false leaves only
		// "different" for eq(A, B) — no decision, no impossible valuation
		c.strs.setNe(a, b)
		return false
	}
	v := c.choose("eq("+x+","+y+")", 2, func(i int) string { return map[int]string{0: "different", 1: "equal"}[i] })
	if v == 1 {
		c.strs.setEq(a, b)
		return true
	}
	c.strs.setNe(a, b)
	return false
}

// ---------------------------------------------------------------------------
// weak-order domain for instants

type timeOrd struct {
	classes [][]string // ascending; classes[0] contains "ZERO"
	index   map[string]int
}

func newTimeOrd() *timeOrd {
	return &timeOrd{classes: [][]string{{"ZERO"}}, index: map[string]int{"ZERO": 0}}
}

func (t *timeOrd) clone() *timeOrd {
	n := &timeOrd{index: map[string]int{}}
	for _, c := range t.classes {
		n.classes = append(n.classes, append([]string{}, c...))
	}
	for k, v := range t.index {
		n.index[k] = v
	}
	return n
}

func (t *timeOrd) String() string {
	var parts []string
	for _, c := range t.classes {
		parts = append(parts, strings.Join(c, " = "))
	}
	return strings.Join(parts, " < ")
}

// place inserts sym into the order (choice among "equal to class i" and
// "new class right after class i").
func (c *Chooser) place(sym string) int {
	t := c.times
	if i, ok := t.index[sym]; ok {
		return i
	}
	k := len(t.classes)
	if z, known := c.memo["iszero("+sym+")"]; known && z == 0 {
		// known non-zero: every slot except "equal to the zero class"
		v := c.choose("order("+sym+")", 2*k-1, func(i int) string {
			i++
			if i%2 == 0 {
				return "= " + strings.Join(t.classes[i/2], "=")
			}
			return "just after " + strings.Join(t.classes[i/2], "=")
		})
		return c.insertAt(sym, v+1)
	}
	v := c.choose("order("+sym+")", 2*k, func(i int) string {
		if i%2 == 0 {
			return "= " + strings.Join(t.classes[i/2], "=")
		}
		return "just after " + strings.Join(t.classes[i/2], "=")
	})
	return c.insertAt(sym, v)
}

func (c *Chooser) insertAt(sym string, v int) int {
	t := c.times
	if v%2 == 0 {
		i := v / 2
		t.classes[i] = append(t.classes[i], sym)
		t.index[sym] = i
		return i
	}
	i := v/2 + 1
	t.classes = append(t.classes, nil)
	copy(t.classes[i+1:], t.classes[i:])
	t.classes[i] = []string{sym}
	for s, j := range t.index {
		if j >= i {
			t.index[s] = j + 1
		}
	}
	t.index[sym] = i
	return i
}

// cmpTime returns -1, 0, +1.
func (c *Chooser) cmpTime(a, b string) int {
	ia := c.place(a)
	ib := c.place(b)
	// placing b may have shifted a
	ia = c.times.index[a]
	switch {
	case ia < ib:
		return -1
	case ia > ib:
		return 1
	}
	return 0
}

// isZeroTime decides whether an instant is the zero time without fixing its
// position among the other instants (a separate atom: code that only asks
// IsZero does not multiply the weak orders).
func (c *Chooser) isZeroTime(a string) bool {
	t := c.times
	if i, ok := t.index[a]; ok {
		return i == 0
	}
	z := c.choose("iszero("+a+")", 2, func(i int) string { return map[int]string{0: "false", 1: "true"}[i] }) == 1
	if z {
		t.classes[0] = append(t.classes[0], a)
		t.index[a] = 0
	}
	return z
}

// trimmedOperand returns X when key spells strings.TrimSuffix(X, ·) or
// strings.TrimRight(X, ·).
func trimmedOperand(key string) (string, bool) {
	for _, f := range []string{"strings.TrimSuffix(", "strings.TrimRight("} {
		if strings.HasPrefix(key, f) && strings.HasSuffix(key, ")") {
			inner := key[len(f) : len(key)-1]
			if i := strings.LastIndex(inner, ","); i > 0 {
				return inner[:i], true
			}
		}
	}
	return "", false
}

// prefixOfTrimmedDenied: some atom strings.HasPrefix(A, Trim(B)) is valued
// false in this valuation, with {A, B} the two given string terms ("s:"-keyed).
func (c *Chooser) prefixOfTrimmedDenied(a, b string) bool {
	ka, kb := strings.TrimPrefix(a, "s:"), strings.TrimPrefix(b, "s:")
	if ka == a || kb == b {
		return false
	}
	for _, pr := range [][2]string{{ka, kb}, {kb, ka}} {
		for _, f := range []string{"strings.TrimSuffix(", "strings.TrimRight("} {
			pre := "strings.HasPrefix(" + pr[0] + "," + f + pr[1] + ","
			for k, v := range c.memo {
				if v == 0 && strings.HasPrefix(k, pre) {
					return true
				}
			}
		}
	}
	return false
}

// constContradicts: one of a, b is a constant ("c:"), the other a symbolic
// string ("s:") on which a unary predicate with literal arguments has been
// valued otherwise than the constant makes it.
func (c *Chooser) constContradicts(a, b string) bool {
	var lit, k string
	switch {
	case strings.HasPrefix(a, "c:") && strings.HasPrefix(b, "s:"):
		lit, k = a[2:], b[2:]
	case strings.HasPrefix(b, "c:") && strings.HasPrefix(a, "s:"):
		lit, k = b[2:], a[2:]
	default:
		return false
	}
	two := map[string]func(x, y string) bool{
		"strings.Contains(":  strings.Contains,
		"strings.HasPrefix(": strings.HasPrefix,
		"strings.HasSuffix(": strings.HasSuffix,
	}
	for key, v := range c.memo {
		if v != 0 && v != 1 {
			continue
		}
		if key == "path.IsAbs("+k+")" {
			if path.IsAbs(lit) != (v == 1) {
				return true
			}
			continue
		}
		for pre, f := range two {
			full := pre + k + ","
			if strings.HasPrefix(key, full) && strings.HasSuffix(key, ")") {
				if arg, err := strconv.Unquote(key[len(full) : len(key)-1]); err == nil {
					if f(lit, arg) != (v == 1) {
						return true
					}
				}
			}
		}
	}
	return false
}
