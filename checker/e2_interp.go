package main

// E2 dtx — the SSA interpreter over abstract values.

import (
	"fmt"
	"go/constant"
	"go/token"
	"go/types"
	"strings"

	"golang.org/x/tools/go/ssa"
)

// Effect is one recorded externally visible action of a path.
type Effect struct {
	Name string
	Args []Val
	Pos  token.Pos
	Note string
}

func (e Effect) String() string {
	var as []string
	for _, a := range e.Args {
		as = append(as, keyOf(a))
	}
	return e.Name + "(" + strings.Join(as, ", ") + ")"
}

// ModelFn models a call: handled=false lets the interpreter continue with
// its defaults.
type ModelFn func(in *Interp, site ssa.CallInstruction, name string, args []Val) (result Val, handled bool)

type Interp struct {
	c        *Ctx
	ch       *Chooser
	sym      SymSpec
	Trace    []Effect
	steps    int
	depth    int
	active   map[*ssa.Function]int
	ptrCells map[string]*Cell
	globals  map[*ssa.Global]*Cell

	// configuration
	Models       []ModelFn // consulted in order before the built-in models
	OpenExternal func(n *types.Named) bool
	MaxDepth     int
	MaxRecursion int
	MaxSteps     int
	// Inline decides whether an in-module callee is interpreted (default: yes).
	Inline func(fn *ssa.Function) bool
	// InlineExternal: callees outside the module that are interpreted from
	// their own source instead of being modelled (default: none).
	InlineExternal func(fn *ssa.Function) bool
	// LastIf records the most recent branch taken (for reports).
	LastIf   *ssa.If
	branches []string
}

type panicOutcome struct {
	val Val
	pos token.Pos
}

func newInterp(c *Ctx, ch *Chooser, sym SymSpec) *Interp {
	return &Interp{c: c, ch: ch, sym: sym, active: map[*ssa.Function]int{}, ptrCells: map[string]*Cell{}, globals: map[*ssa.Global]*Cell{},
		MaxDepth: 40, MaxRecursion: 3, MaxSteps: 400000}
}

func (in *Interp) undecided(format string, a ...interface{}) {
	panic(undecidedErr{fmt.Sprintf(format, a...)})
}

func (in *Interp) effect(name string, pos token.Pos, args ...Val) {
	in.Trace = append(in.Trace, Effect{Name: name, Args: args, Pos: pos})
}

func (in *Interp) chooseInt(key string, n int) int {
	return in.ch.choose(key, n, nil)
}

func (in *Interp) chooseLabeled(key string, labels []string) int {
	return in.ch.choose(key, len(labels), func(i int) string { return labels[i] })
}

// truth resolves a boolean abstract value.
func (in *Interp) truth(v Val) bool {
	switch x := v.(type) {
	case Konst:
		if x.V != nil && x.V.Kind() == constant.Bool {
			return constant.BoolVal(x.V)
		}
	case LazyBool:
		return in.ch.choose(x.Key, 2, func(i int) string { return map[int]string{0: "false", 1: "true"}[i] }) == 1
	case Opaque:
		return in.ch.choose("bool:"+x.Key, 2, func(i int) string { return map[int]string{0: "false", 1: "true"}[i] }) == 1
	}
	in.undecided("branch on a non-boolean abstract value %T (%s)", v, keyOf(v))
	return false
}

// concretise turns a symbolic integer into a constant from its domain.
func (in *Interp) concretise(v Val) (int64, bool) {
	switch x := v.(type) {
	case Konst:
		if x.V != nil && x.V.Kind() == constant.Int {
			i, ok := constant.Int64Val(x.V)
			return i, ok
		}
	case SymInt:
		var dom []int64
		if in.sym.IntDomain != nil {
			dom = in.sym.IntDomain(x.Key)
		}
		if len(dom) == 0 {
			in.undecided("integer symbol %s has no declared domain", x.Key)
		}
		i := in.ch.choose("int:"+x.Key, len(dom), func(i int) string { return fmt.Sprint(dom[i]) })
		return dom[i], true
	}
	return 0, false
}

func constStringVal(k Konst) (string, bool) {
	if k.V != nil && k.V.Kind() == constant.String {
		return constant.StringVal(k.V), true
	}
	return "", false
}

// ---------------------------------------------------------------------------

type frame struct {
	fn     *ssa.Function
	env    map[ssa.Value]Val
	defers []func()
}

// Call interprets fn with the given arguments and returns its results (a
// Tuple for several results, nil for none).
func (in *Interp) Call(fn *ssa.Function, args []Val, bind []Val) Val {
	if len(fn.Blocks) == 0 {
		in.undecided("no body for %s", fnKey(fn))
	}
	if in.depth >= in.MaxDepth {
		in.undecided("call depth bound %d exceeded at %s", in.MaxDepth, fnKey(fn))
	}
	if in.active[fn] >= in.MaxRecursion {
		in.undecided("recursion bound %d exceeded for %s", in.MaxRecursion, fnKey(fn))
	}
	in.active[fn]++
	in.depth++
	defer func() { in.active[fn]--; in.depth-- }()
	fr := &frame{fn: fn, env: map[ssa.Value]Val{}}
	for i, p := range fn.Params {
		if i < len(args) {
			fr.env[p] = args[i]
		} else {
			fr.env[p] = zeroOf(p.Type())
		}
	}
	for i, fv := range fn.FreeVars {
		if i < len(bind) {
			fr.env[fv] = bind[i]
		}
	}
	blk := fn.Blocks[0]
	var prev *ssa.BasicBlock
	for {
		var next *ssa.BasicBlock
		for _, instr := range blk.Instrs {
			in.steps++
			if in.steps > in.MaxSteps {
				in.undecided("step budget exceeded (%d) in %s", in.MaxSteps, fnKey(fn))
			}
			switch x := instr.(type) {
			case *ssa.Phi:
				for i, p := range blk.Preds {
					if p == prev {
						fr.env[x] = in.get(fr, x.Edges[i])
					}
				}
			case *ssa.Jump:
				next = blk.Succs[0]
			case *ssa.If:
				in.LastIf = x
				if in.truth(in.get(fr, x.Cond)) {
					next = blk.Succs[0]
				} else {
					next = blk.Succs[1]
				}
			case *ssa.Return:
				in.runDefers(fr)
				switch len(x.Results) {
				case 0:
					return nil
				case 1:
					return in.get(fr, x.Results[0])
				}
				t := Tuple{}
				for _, r := range x.Results {
					t.E = append(t.E, in.get(fr, r))
				}
				return t
			case *ssa.Panic:
				panic(panicOutcome{in.get(fr, x.X), x.Pos()})
			case *ssa.RunDefers:
				in.runDefers(fr)
			default:
				in.exec(fr, instr)
			}
			if next != nil {
				break
			}
		}
		if next == nil {
			in.undecided("block %d of %s ends without terminator", blk.Index, fnKey(fn))
		}
		prev, blk = blk, next
	}
}

func (in *Interp) runDefers(fr *frame) {
	for i := len(fr.defers) - 1; i >= 0; i-- {
		fr.defers[i]()
	}
	fr.defers = nil
}

func (in *Interp) get(fr *frame, v ssa.Value) Val {
	switch x := v.(type) {
	case *ssa.Const:
		return in.constVal(x)
	case *ssa.Function:
		return FuncV{x}
	case *ssa.Global:
		return Ptr{in.globalCell(x)}
	case *ssa.Builtin:
		return x
	}
	if r, ok := fr.env[v]; ok {
		return r
	}
	in.undecided("value %s (%T) of %s used before definition", v.Name(), v, fnKey(fr.fn))
	return nil
}

func (in *Interp) constVal(c *ssa.Const) Val {
	if c.Value == nil {
		// nil, or the zero value of an aggregate
		switch c.Type().Underlying().(type) {
		case *types.Struct, *types.Array:
			return zeroOf(c.Type())
		case *types.Slice:
			return Slice{}
		}
		if isTimeType(c.Type()) {
			return TimeV{"ZERO"}
		}
		return kNil
	}
	return Konst{c.Value}
}

// globalCell: package-level variables. Module variables initialised with
// composite literals are evaluated by interpreting the package initialiser
// lazily is overkill; instead: constants-like globals (xml.Name values,
// sentinel errors) are opaque symbols keyed by their name, which is exact for
// how the code uses them (compared by ==, passed on).
func (in *Interp) globalCell(g *ssa.Global) *Cell {
	if c, ok := in.globals[g]; ok {
		return c
	}
	elem := g.Type().(*types.Pointer).Elem()
	name := g.Name()
	if g.Pkg != nil {
		name = g.Pkg.Pkg.Path() + "." + g.Name()
	}
	c := &Cell{T: elem, Name: name}
	c.lazy = func() Val { return in.globalInit(g, elem, name) }
	in.globals[g] = c
	return c
}

func (in *Interp) globalInit(g *ssa.Global, elem types.Type, name string) Val {
	// xml.Name globals of the module: find the initialiser's stores of
	// constant Space/Local in the package init function.
	if g.Pkg != nil && in.c.P.InModule(g.Pkg.Func("init")) {
		if st, ok := elem.Underlying().(*types.Struct); ok {
			s := Struct{T: elem}
			for i := 0; i < st.NumFields(); i++ {
				s.F = append(s.F, &Cell{V: zeroOf(st.Field(i).Type()), T: st.Field(i).Type()})
			}
			found := false
			initFn := g.Pkg.Func("init")
			eachInstr(initFn, func(_ *ssa.BasicBlock, ins ssa.Instruction) {
				store, ok := ins.(*ssa.Store)
				if !ok {
					return
				}
				fa, ok := store.Addr.(*ssa.FieldAddr)
				if !ok || fa.X != ssa.Value(g) {
					return
				}
				if k, ok := store.Val.(*ssa.Const); ok {
					s.F[fa.Field].Set(in.constVal(k))
					found = true
				}
			})
			if found {
				return s
			}
		}
		// scalar constant initialisers
		var val Val
		initFn := g.Pkg.Func("init")
		eachInstr(initFn, func(_ *ssa.BasicBlock, ins ssa.Instruction) {
			store, ok := ins.(*ssa.Store)
			if ok && store.Addr == ssa.Value(g) {
				if k, ok := store.Val.(*ssa.Const); ok {
					val = in.constVal(k)
				} else if cv, ok := store.Val.(*ssa.Convert); ok {
					if k, ok := cv.X.(*ssa.Const); ok {
						val = in.constVal(k)
					}
				}
			}
		})
		if val != nil {
			return val
		}
	}
	if isErrorType(elem) {
		return Iface{Dyn: types.Typ[types.Invalid], V: Opaque{"global:" + name, elem}}
	}
	// lookup tables: built once by the initialiser, never written afterwards
	if v, ok := in.evalGlobalFromInit(g); ok {
		return v
	}
	return Opaque{"global:" + name, elem}
}

// ---------------------------------------------------------------------------

func (in *Interp) exec(fr *frame, instr ssa.Instruction) {
	switch x := instr.(type) {
	case *ssa.DebugRef:
	case *ssa.Alloc:
		elem := x.Type().(*types.Pointer).Elem()
		fr.env[x] = Ptr{&Cell{V: zeroOf(elem), T: elem, Name: ""}}
	case *ssa.Store:
		p := in.ptr(in.get(fr, x.Addr), x)
		p.C.Set(copyVal(in.get(fr, x.Val)))
	case *ssa.UnOp:
		fr.env[x] = in.unop(fr, x)
	case *ssa.BinOp:
		fr.env[x] = in.binop(x.Op, in.get(fr, x.X), in.get(fr, x.Y), x)
	case *ssa.FieldAddr:
		p := in.ptr(in.get(fr, x.X), x)
		s, ok := p.C.Get().(Struct)
		if !ok {
			in.undecided("field address of non-struct %T (%s) at %s", p.C.Get(), keyOf(p.C.Get()), in.c.P.instrPos(x))
		}
		fr.env[x] = Ptr{s.F[x.Field]}
	case *ssa.Field:
		s, ok := in.get(fr, x.X).(Struct)
		if !ok {
			in.undecided("field of non-struct value %T at %s", in.get(fr, x.X), in.c.P.instrPos(x))
		}
		fr.env[x] = s.F[x.Field].Get()
	case *ssa.IndexAddr:
		fr.env[x] = in.indexAddr(fr, x)
	case *ssa.Index:
		base := in.get(fr, x.X)
		idx, ok := in.concretise(in.get(fr, x.Index))
		if !ok {
			in.undecided("non-constant index at %s", in.c.P.instrPos(x))
		}
		switch b := base.(type) {
		case Array:
			if idx < 0 || idx >= int64(len(b.E)) {
				panic(panicOutcome{kStr("index out of range"), x.Pos()})
			}
			fr.env[x] = b.E[idx].Get()
		default:
			in.undecided("Index on %T at %s", base, in.c.P.instrPos(x))
		}
	case *ssa.Slice:
		fr.env[x] = in.sliceOp(fr, x)
	case *ssa.MakeSlice:
		n, ok := in.concretise(in.get(fr, x.Len))
		if !ok {
			in.undecided("make with non-constant length at %s", in.c.P.instrPos(x))
		}
		// the capacity is evaluated too: make panics on a negative or an
		// impossible size ("makeslice: cap out of range"), which a caller-
		// supplied limit used as a capacity can provoke
		if x.Cap != nil {
			if cp, okc := in.concretise(in.get(fr, x.Cap)); okc && (cp < n || cp > 1<<40) {
				panic(panicOutcome{kStr("makeslice: cap out of range"), x.Pos()})
			}
		}
		if n < 0 || n > 1<<40 {
			panic(panicOutcome{kStr("makeslice: len out of range"), x.Pos()})
		}
		elem := x.Type().Underlying().(*types.Slice).Elem()
		s := Slice{NonNil: true}
		for i := int64(0); i < n; i++ {
			s.E = append(s.E, &Cell{V: zeroOf(elem), T: elem})
		}
		fr.env[x] = s
	case *ssa.MakeMap:
		fr.env[x] = MapV{&MapObj{}}
	case *ssa.MapUpdate:
		m := in.mapOf(in.get(fr, x.Map), x)
		in.mapSet(m, in.get(fr, x.Key), copyVal(in.get(fr, x.Value)), x.Value.Type())
	case *ssa.Lookup:
		fr.env[x] = in.lookup(fr, x)
	case *ssa.Range:
		fr.env[x] = in.rangeOf(fr, x)
	case *ssa.Next:
		fr.env[x] = in.nextOf(fr, x)
	case *ssa.Extract:
		t, ok := in.get(fr, x.Tuple).(Tuple)
		if !ok || x.Index >= len(t.E) {
			in.undecided("extract #%d from %T at %s", x.Index, in.get(fr, x.Tuple), in.c.P.instrPos(x))
		}
		fr.env[x] = t.E[x.Index]
	case *ssa.MakeInterface:
		v := in.get(fr, x.X)
		fr.env[x] = Iface{Dyn: x.X.Type(), V: v}
	case *ssa.ChangeInterface:
		fr.env[x] = in.get(fr, x.X)
	case *ssa.ChangeType:
		fr.env[x] = in.get(fr, x.X)
	case *ssa.Convert:
		fr.env[x] = in.convert(in.get(fr, x.X), x.X.Type(), x.Type(), x)
	case *ssa.TypeAssert:
		fr.env[x] = in.typeAssert(in.get(fr, x.X), x)
	case *ssa.MakeClosure:
		c := Closure{Fn: x.Fn.(*ssa.Function)}
		for _, b := range x.Bindings {
			c.Bind = append(c.Bind, in.get(fr, b))
		}
		fr.env[x] = c
	case *ssa.Call:
		fr.env[x] = in.call(fr, x)
	case *ssa.Defer:
		// evaluate arguments now, run at RunDefers
		cc := x.Common()
		args := in.evalArgs(fr, cc)
		var fnv Val
		if !cc.IsInvoke() {
			fnv = in.get(fr, cc.Value)
		}
		fr.defers = append(fr.defers, func() { in.dispatch(fr, x, cc, fnv, args) })
	case *ssa.Go:
		in.undecided("go statement at %s", in.c.P.instrPos(x))
	case *ssa.Send, *ssa.Select:
		in.undecided("channel operation at %s", in.c.P.instrPos(x))
	default:
		in.undecided("instruction %T at %s", instr, in.c.P.instrPos(instr))
	}
}

func (in *Interp) ptr(v Val, at ssa.Instruction) Ptr {
	switch x := v.(type) {
	case Ptr:
		return x
	case Konst:
		if x.V == nil {
			panic(panicOutcome{kStr("nil pointer dereference"), at.Pos()})
		}
	}
	in.undecided("dereference of %T (%s) at %s", v, keyOf(v), in.c.P.instrPos(at))
	return Ptr{}
}

func (in *Interp) unop(fr *frame, x *ssa.UnOp) Val {
	v := in.get(fr, x.X)
	switch x.Op {
	case token.MUL:
		p := in.ptr(v, x)
		return copyVal(p.C.Get())
	case token.NOT:
		return kBool(!in.truth(v))
	case token.SUB:
		if i, ok := in.concretise(v); ok {
			return kInt(-i)
		}
	}
	in.undecided("unary %s on %T at %s", x.Op, v, in.c.P.instrPos(x))
	return nil
}

func (in *Interp) sliceVal(v Val, at ssa.Instruction) Slice {
	switch s := v.(type) {
	case Slice:
		return s
	case LazySlice:
		return in.materialise(s)
	case Konst:
		if s.V == nil {
			return Slice{}
		}
	}
	in.undecided("slice operation on %T (%s) at %s", v, keyOf(v), in.c.P.instrPos(at))
	return Slice{}
}

func (in *Interp) indexAddr(fr *frame, x *ssa.IndexAddr) Val {
	base := in.get(fr, x.X)
	idx, ok := in.concretise(in.get(fr, x.Index))
	if !ok {
		in.undecided("non-constant index at %s", in.c.P.instrPos(x))
	}
	var cells []*Cell
	switch b := base.(type) {
	case Ptr:
		a, ok := b.C.Get().(Array)
		if !ok {
			in.undecided("IndexAddr through pointer to %T at %s", b.C.Get(), in.c.P.instrPos(x))
		}
		cells = a.E
	default:
		cells = in.sliceVal(base, x).E
	}
	if idx < 0 || idx >= int64(len(cells)) {
		panic(panicOutcome{kStr(fmt.Sprintf("index out of range [%d] with length %d", idx, len(cells))), x.Pos()})
	}
	return Ptr{cells[idx]}
}

func (in *Interp) sliceOp(fr *frame, x *ssa.Slice) Val {
	base := in.get(fr, x.X)
	var cells []*Cell
	switch b := base.(type) {
	case Ptr:
		a, ok := b.C.Get().(Array)
		if !ok {
			in.undecided("slice of pointer to %T at %s", b.C.Get(), in.c.P.instrPos(x))
		}
		cells = a.E
	case Konst, SymStr:
		if x.Low == nil && x.High == nil {
			return base
		}
		in.undecided("substring of an abstract string at %s (outside the partition domain)", in.c.P.instrPos(x))
	default:
		cells = in.sliceVal(base, x).E
	}
	lo, hi := int64(0), int64(len(cells))
	if x.Low != nil {
		v, ok := in.concretise(in.get(fr, x.Low))
		if !ok {
			in.undecided("non-constant slice bound at %s", in.c.P.instrPos(x))
		}
		lo = v
	}
	if x.High != nil {
		v, ok := in.concretise(in.get(fr, x.High))
		if !ok {
			in.undecided("non-constant slice bound at %s", in.c.P.instrPos(x))
		}
		hi = v
	}
	if lo < 0 || hi > int64(len(cells)) || lo > hi {
		panic(panicOutcome{kStr("slice bounds out of range"), x.Pos()})
	}
	return Slice{E: cells[lo:hi], NonNil: true}
}

// ---------------------------------------------------------------------------
// maps (small, keyed by abstract equality)

func (in *Interp) mapOf(v Val, at ssa.Instruction) *MapObj {
	switch m := v.(type) {
	case MapV:
		return m.M
	case Konst:
		if m.V == nil {
			return &MapObj{}
		}
	}
	in.undecided("map operation on %T at %s", v, in.c.P.instrPos(at))
	return nil
}

func (in *Interp) mapFind(m *MapObj, k Val) int {
	for i, mk := range m.Keys {
		if in.equal(mk, k) {
			return i
		}
	}
	return -1
}

func (in *Interp) mapSet(m *MapObj, k, v Val, vt types.Type) {
	if i := in.mapFind(m, k); i >= 0 {
		m.Vals[i].Set(v)
		return
	}
	m.Keys = append(m.Keys, k)
	m.Vals = append(m.Vals, &Cell{V: v, T: vt})
}

func (in *Interp) lookup(fr *frame, x *ssa.Lookup) Val {
	base := in.get(fr, x.X)
	k := in.get(fr, x.Index)
	if _, isMap := x.X.Type().Underlying().(*types.Map); !isMap {
		in.undecided("string index at %s", in.c.P.instrPos(x))
	}
	var res Val
	found := false
	switch b := base.(type) {
	case Opaque:
		// a map the interpreter does not hold (e.g. vcard.Card): presence
		// and value are atoms keyed by map and key
		ek := b.Key + "[" + keyOf(k) + "]"
		found = in.truth(LazyBool{"has(" + ek + ")"})
		vt := x.X.Type().Underlying().(*types.Map).Elem()
		if found {
			res = in.symOf(vt, ek)
		} else {
			res = zeroOf(vt)
		}
	default:
		m := in.mapOf(base, x)
		if i := in.mapFind(m, k); i >= 0 {
			res, found = copyVal(m.Vals[i].Get()), true
		} else {
			res = zeroOf(x.X.Type().Underlying().(*types.Map).Elem())
		}
	}
	if x.CommaOk {
		return Tuple{[]Val{res, kBool(found)}}
	}
	return res
}

type rangeIter struct {
	m   *MapObj
	pos int
}

func (in *Interp) rangeOf(fr *frame, x *ssa.Range) Val {
	base := in.get(fr, x.X)
	if _, isMap := x.X.Type().Underlying().(*types.Map); !isMap {
		in.undecided("range over string at %s", in.c.P.instrPos(x))
	}
	return &rangeIter{m: in.mapOf(base, x)}
}

func (in *Interp) nextOf(fr *frame, x *ssa.Next) Val {
	it, ok := in.get(fr, x.Iter).(*rangeIter)
	if !ok {
		in.undecided("next on %T at %s", in.get(fr, x.Iter), in.c.P.instrPos(x))
	}
	if it.pos >= len(it.m.Keys) {
		return Tuple{[]Val{kFalse, kNil, kNil}}
	}
	k, v := it.m.Keys[it.pos], copyVal(it.m.Vals[it.pos].Get())
	it.pos++
	return Tuple{[]Val{kTrue, k, v}}
}

// ---------------------------------------------------------------------------
// operators

// equal decides v == w.
func (in *Interp) equal(v, w Val) bool {
	// strings: partition domain
	if a, ok := strTerm(v); ok {
		if b, ok := strTerm(w); ok {
			return in.ch.eqStr(a, b)
		}
	}
	switch a := v.(type) {
	case Konst:
		switch b := w.(type) {
		case Konst:
			if a.V == nil || b.V == nil {
				return a.V == nil && b.V == nil
			}
			return constant.Compare(a.V, token.EQL, b.V)
		case Ptr, Iface, Closure, FuncV, MapV:
			if a.V == nil {
				return false
			}
		case Slice:
			if a.V == nil {
				return !b.NonNil && len(b.E) == 0
			}
		case LazySlice:
			if a.V == nil {
				s := in.materialise(b)
				return !s.NonNil && len(s.E) == 0
			}
		case SymInt:
			i, _ := in.concretise(b)
			return in.equal(a, kInt(i))
		case LazyBool:
			return in.equal(a, kBool(in.truth(b)))
		case Opaque:
			if a.V == nil {
				return in.truth(LazyBool{"isnil(" + b.Key + ")"})
			}
		}
	case Ptr:
		switch b := w.(type) {
		case Ptr:
			return a.C == b.C
		case Konst:
			return in.equal(w, v)
		}
	case Iface:
		switch b := w.(type) {
		case Konst:
			return in.equal(w, v)
		case Iface:
			if !types.Identical(a.Dyn, b.Dyn) {
				// sentinel errors: opaque globals compare by key
				return keyOf(a.V) == keyOf(b.V) && keyOf(a.V) != ""
			}
			return in.equal(a.V, b.V)
		}
	case SymInt:
		i, _ := in.concretise(a)
		return in.equal(kInt(i), w)
	case LazyBool:
		return in.equal(kBool(in.truth(a)), w)
	case TimeV:
		if b, ok := w.(TimeV); ok {
			return in.ch.cmpTime(a.Key, b.Key) == 0
		}
	case Struct:
		if b, ok := w.(Struct); ok && len(a.F) == len(b.F) {
			for i := range a.F {
				if !in.equal(a.F[i].Get(), b.F[i].Get()) {
					return false
				}
			}
			return true
		}
	case Opaque:
		switch b := w.(type) {
		case Opaque:
			if a.Key == b.Key {
				return true
			}
			x, y := a.Key, b.Key
			if x > y {
				x, y = y, x
			}
			return in.truth(LazyBool{"same(" + x + "," + y + ")"})
		case Konst:
			return in.equal(w, v)
		}
	case Slice, LazySlice, Closure, FuncV, MapV:
		if b, ok := w.(Konst); ok && b.V == nil {
			return in.equal(w, v)
		}
	case *ErrObj:
		// an error made during this run: equal only to itself, never to a
		// sentinel of a package
		switch b := w.(type) {
		case *ErrObj:
			return a == b
		case Opaque:
			return false
		}
	}
	if _, isErr := w.(*ErrObj); isErr {
		if _, isOp := v.(Opaque); isOp {
			return false
		}
	}
	in.undecided("comparison of %T (%s) with %T (%s)", v, keyOf(v), w, keyOf(w))
	return false
}

func (in *Interp) binop(op token.Token, v, w Val, at ssa.Instruction) Val {
	switch op {
	case token.EQL:
		return kBool(in.equal(v, w))
	case token.NEQ:
		return kBool(!in.equal(v, w))
	case token.LAND, token.LOR:
		in.undecided("logical operator in SSA at %s", in.c.P.instrPos(at))
	}
	// booleans
	if a, ok := v.(Konst); ok && a.V != nil && a.V.Kind() == constant.Bool {
		_ = a
	}
	// string concatenation: opaque result keyed by operands; host-path taint is kept
	if op == token.ADD {
		_, s1 := strTerm(v)
		_, s2 := strTerm(w)
		if s1 && s2 {
			if a, ok := v.(Konst); ok {
				if b, ok := w.(Konst); ok {
					return Konst{constant.BinaryOp(a.V, token.ADD, b.V)}
				}
			}
			return SymStr{Key: "(" + keyOf(v) + "+" + keyOf(w) + ")", HostPath: hostPath(v) || hostPath(w)}
		}
	}
	// integers
	a, ok1 := in.concretise(v)
	b, ok2 := in.concretise(w)
	if ok1 && ok2 {
		ka, kb := constant.MakeInt64(a), constant.MakeInt64(b)
		switch op {
		case token.ADD, token.SUB, token.MUL, token.AND, token.OR, token.XOR, token.REM:
			return Konst{constant.BinaryOp(ka, op, kb)}
		case token.QUO:
			if b == 0 {
				panic(panicOutcome{kStr("integer divide by zero"), at.Pos()})
			}
			return Konst{constant.BinaryOp(ka, token.QUO_ASSIGN, kb)}
		case token.LSS, token.LEQ, token.GTR, token.GEQ:
			return kBool(constant.Compare(ka, op, kb))
		case token.SHL, token.SHR:
			return Konst{constant.Shift(ka, op, uint(b))}
		}
	}
	// constant strings ordering
	if x, ok := v.(Konst); ok && x.V != nil && x.V.Kind() == constant.String {
		if y, ok := w.(Konst); ok && y.V != nil && y.V.Kind() == constant.String {
			switch op {
			case token.LSS, token.LEQ, token.GTR, token.GEQ:
				return kBool(constant.Compare(x.V, op, y.V))
			}
		}
	}
	// an opaque operand (file mode bits, sizes): the result is opaque too; it
	// becomes an atom only if the code branches on it
	_, o1 := v.(Opaque)
	_, o2 := w.(Opaque)
	if o1 || o2 {
		if val, ok := at.(ssa.Value); ok {
			switch op {
			case token.LSS, token.LEQ, token.GTR, token.GEQ:
				return LazyBool{"(" + keyOf(v) + op.String() + keyOf(w) + ")"}
			}
			return Opaque{"(" + keyOf(v) + op.String() + keyOf(w) + ")", val.Type()}
		}
	}
	in.undecided("operator %s on %T (%s), %T (%s) at %s", op, v, keyOf(v), w, keyOf(w), in.c.P.instrPos(at))
	return nil
}

func hostPath(v Val) bool {
	switch x := v.(type) {
	case SymStr:
		return x.HostPath
	case Iface:
		return hostPath(x.V)
	case Slice:
		// a variadic argument list: tainted if any element is
		for _, c := range x.E {
			if hostPath(c.Get()) {
				return true
			}
		}
	}
	return false
}

func (in *Interp) convert(v Val, from, to types.Type, at ssa.Instruction) Val {
	fb, _ := from.Underlying().(*types.Basic)
	tb, _ := to.Underlying().(*types.Basic)
	if fb != nil && tb != nil {
		if fb.Info()&types.IsString != 0 && tb.Info()&types.IsString != 0 {
			return v
		}
		if fb.Info()&types.IsInteger != 0 && tb.Info()&types.IsInteger != 0 {
			return v
		}
		if fb.Info()&types.IsInteger != 0 && tb.Info()&types.IsFloat != 0 {
			return v
		}
	}
	// string <-> []byte: identity on the abstract string
	if tb != nil && tb.Info()&types.IsString != 0 {
		if _, ok := from.Underlying().(*types.Slice); ok {
			switch x := v.(type) {
			case Iface:
				return x.V
			case Opaque:
				// bytes produced by code outside the fragment (strconv.Append*,
				// a buffer): an opaque text
				return SymStr{Key: "string(" + x.Key + ")"}
			default:
				return v
			}
		}
	}
	if _, ok := to.Underlying().(*types.Slice); ok && fb != nil && fb.Info()&types.IsString != 0 {
		return v
	}
	if types.Identical(from.Underlying(), to.Underlying()) {
		return v
	}
	// pointer conversions between types with identical underlying structs
	if _, ok := to.Underlying().(*types.Pointer); ok {
		return v
	}
	in.undecided("conversion %s -> %s at %s", from, to, in.c.P.instrPos(at))
	return nil
}

func (in *Interp) typeAssert(v Val, x *ssa.TypeAssert) Val {
	ok := false
	var res Val = zeroOf(x.AssertedType)
	switch iv := v.(type) {
	case Iface:
		if types.IsInterface(x.AssertedType) {
			if iv.Dyn != types.Typ[types.Invalid] {
				ok = types.AssignableTo(iv.Dyn, x.AssertedType)
			} else {
				ok = in.truth(LazyBool{"implements(" + keyOf(iv.V) + "," + types.TypeString(x.AssertedType, nil) + ")"})
			}
			if ok {
				res = iv
			}
		} else if iv.Dyn == types.Typ[types.Invalid] {
			ok = false
		} else {
			ok = types.Identical(iv.Dyn, x.AssertedType)
			if ok {
				res = iv.V
			}
		}
	case Konst:
		ok = false
	case Opaque:
		// an interface value of unknown dynamic type
		ok = in.truth(LazyBool{"typeis(" + iv.Key + "," + types.TypeString(x.AssertedType, nil) + ")"})
		if ok {
			if types.IsInterface(x.AssertedType) {
				res = iv
			} else {
				res = in.symOf(x.AssertedType, iv.Key+".("+types.TypeString(x.AssertedType, nil)+")")
			}
		}
	default:
		in.undecided("type assertion on %T at %s", v, in.c.P.instrPos(x))
	}
	if x.CommaOk {
		return Tuple{[]Val{res, kBool(ok)}}
	}
	if !ok {
		panic(panicOutcome{kStr("interface conversion failed"), x.Pos()})
	}
	return res
}

// ---------------------------------------------------------------------------
// calls

func (in *Interp) evalArgs(fr *frame, cc *ssa.CallCommon) []Val {
	var args []Val
	if cc.IsInvoke() {
		args = append(args, in.get(fr, cc.Value))
	}
	for _, a := range cc.Args {
		args = append(args, in.get(fr, a))
	}
	return args
}

func (in *Interp) call(fr *frame, x *ssa.Call) Val {
	cc := x.Common()
	args := in.evalArgs(fr, cc)
	var fnv Val
	if !cc.IsInvoke() {
		if _, isB := cc.Value.(*ssa.Builtin); !isB {
			fnv = in.get(fr, cc.Value)
		}
	}
	return in.dispatch(fr, x, cc, fnv, args)
}

func (in *Interp) dispatch(fr *frame, site ssa.CallInstruction, cc *ssa.CallCommon, fnv Val, args []Val) Val {
	if b, ok := cc.Value.(*ssa.Builtin); ok {
		return in.builtin(b, args, site)
	}
	var target *ssa.Function
	var bind []Val
	name := ""
	if cc.IsInvoke() {
		recv := args[0]
		name = "iface:" + cc.Method.Name()
		// known dynamic type: resolve the method
		if iv, ok := recv.(Iface); ok && iv.Dyn != types.Typ[types.Invalid] {
			// Error() of the standard OS error types: modelled text
			if cc.Method.Name() == "Error" {
				if _, _, isOS := osStructErr(recv); isOS {
					return in.errText(recv, site)
				}
				// an error made by errors.New / fmt.Errorf: its text is the
				// message it was made with (with what the message embeds)
				if _, isE := iv.V.(*ErrObj); isE {
					return in.errText(recv, site)
				}
			}
			if sel := in.c.P.Prog.MethodSets.MethodSet(iv.Dyn).Lookup(cc.Method.Pkg(), cc.Method.Name()); sel != nil {
				target = in.c.P.Prog.MethodValue(sel)
				args = append([]Val{iv.V}, args[1:]...)
			}
		}
		if target == nil {
			name = "(" + types.TypeString(cc.Value.Type(), nil) + ")." + cc.Method.Name()
		}
	} else {
		switch f := fnv.(type) {
		case FuncV:
			target = f.Fn
		case Closure:
			target, bind = f.Fn, f.Bind
		case BoundMethod:
			name = "bound:" + f.Name
			args = append([]Val{f.Recv}, args...)
		case Opaque:
			// a function value the interpreter does not hold: models may
			// recognise it by its key
			name = "dyn:" + f.Key
		default:
			in.undecided("call of %T at %s", fnv, in.c.P.instrPos(site))
		}
	}
	if target != nil {
		name = fullFnName(target)
	}
	for _, m := range in.Models {
		if res, ok := m(in, site, name, args); ok {
			return res
		}
	}
	if res, ok := builtinModels(in, site, name, args, cc); ok {
		return res
	}
	if target != nil && len(target.Blocks) > 0 && in.c.P.InModule(target) && (in.Inline == nil || in.Inline(target)) {
		return in.Call(target, args, bind)
	}
	if target != nil && len(target.Blocks) > 0 && in.InlineExternal != nil && in.InlineExternal(target) {
		return in.Call(target, args, bind)
	}
	// unknown callee: an opaque, deterministic result keyed by callee and
	// argument keys (a pure function of its arguments).
	return in.opaqueResult(name, args, cc.Signature().Results())
}

func (in *Interp) opaqueResult(name string, args []Val, res *types.Tuple) Val {
	var ks []string
	for _, a := range args {
		ks = append(ks, keyOf(a))
	}
	key := name + "(" + strings.Join(ks, ",") + ")"
	mk := func(t types.Type, k string) Val {
		if isErrorType(t) {
			if in.truth(LazyBool{"fails:" + k}) {
				return Iface{Dyn: types.Typ[types.Invalid], V: Opaque{"err:" + k, t}}
			}
			return kNil
		}
		hp := false
		for _, a := range args {
			if hostPath(a) {
				hp = true
			}
		}
		v := in.symOfOpaque(t, k)
		if s, ok := v.(SymStr); ok {
			s.HostPath = hp
			return s
		}
		return v
	}
	switch res.Len() {
	case 0:
		return nil
	case 1:
		return mk(res.At(0).Type(), key)
	}
	t := Tuple{}
	for i := 0; i < res.Len(); i++ {
		t.E = append(t.E, mk(res.At(i).Type(), fmt.Sprintf("%s#%d", key, i)))
	}
	return t
}

// symOfOpaque: results of unknown calls: scalars are symbols, everything else
// opaque (never lazily opened structures).
func (in *Interp) symOfOpaque(t types.Type, key string) Val {
	if isTimeType(t) {
		return TimeV{key}
	}
	if b, ok := t.Underlying().(*types.Basic); ok {
		switch {
		case b.Info()&types.IsBoolean != 0:
			return LazyBool{key}
		case b.Info()&types.IsString != 0:
			return SymStr{Key: key}
		case b.Info()&types.IsInteger != 0:
			return SymInt{key}
		}
	}
	return Opaque{key, t}
}

func (in *Interp) builtin(b *ssa.Builtin, args []Val, site ssa.CallInstruction) Val {
	switch b.Name() {
	case "len", "cap":
		switch x := args[0].(type) {
		case Slice:
			return kInt(int64(len(x.E)))
		case LazySlice:
			return kInt(int64(len(in.materialise(x).E)))
		case Konst:
			if x.V == nil {
				return kInt(0)
			}
			if s, ok := constStringVal(x); ok {
				return kInt(int64(len(s)))
			}
		case MapV:
			return kInt(int64(len(x.M.Keys)))
		case SymStr:
			// only emptiness is observable in the partition domain
			if in.ch.eqStr("s:"+x.Key, "c:") {
				return kInt(0)
			}
			// a length nobody declared a domain for is a size (a buffer
			// being pre-sized): uninterpreted
			if in.sym.IntDomain == nil || len(in.sym.IntDomain("len("+x.Key+")")) == 0 {
				return Opaque{"len(" + x.Key + ")", types.Typ[types.Int]}
			}
			return SymInt{"len(" + x.Key + ")"}
		case Opaque:
			if in.sym.OpaqueLen {
				return Opaque{"len(" + x.Key + ")", types.Typ[types.Int]}
			}
			return SymInt{"len(" + x.Key + ")"}
		}
		in.undecided("len of %T at %s", args[0], in.c.P.instrPos(site))
	case "append":
		// bytes appended to a buffer that is text so far: concatenation
		if v, ok := in.appendText(args, site); ok {
			return v
		}
		base := in.sliceVal(args[0], site)
		out := Slice{NonNil: base.NonNil}
		if len(args) > 1 && len(in.sliceVal(args[1], site).E) > 0 {
			// an append that adds elements may have to move the slice to a
			// new array: the elements are COPIES then, and a pointer taken
			// into the old array before the append no longer reaches them.
			// Code that is right under Go's semantics is right whether the
			// array moves or not; the interpreter takes the case in which it
			// does (the one a stale pointer is wrong in).
			for _, c := range base.E {
				out.E = append(out.E, copyCell(c))
			}
		} else {
			out.E = append(out.E, base.E...)
		}
		if len(args) > 1 {
			add := in.sliceVal(args[1], site)
			for _, c := range add.E {
				out.E = append(out.E, &Cell{V: copyVal(c.Get()), T: c.T})
			}
			if len(add.E) > 0 {
				out.NonNil = true
			}
		}
		return out
	case "delete":
		m := in.mapOf(args[0], site)
		if i := in.mapFind(m, args[1]); i >= 0 {
			m.Keys = append(m.Keys[:i], m.Keys[i+1:]...)
			m.Vals = append(m.Vals[:i], m.Vals[i+1:]...)
		}
		return nil
	}
	in.undecided("builtin %s at %s", b.Name(), in.c.P.instrPos(site))
	return nil
}

// appendText: append(b, s...) / append(b, 'c') on a byte buffer whose content
// is text (empty, a constant, a symbolic string): the result is the
// concatenation, with the key the + operator gives.
func (in *Interp) appendText(args []Val, site ssa.CallInstruction) (Val, bool) {
	if len(args) != 2 {
		return nil, false
	}
	st, ok := site.Common().Args[0].Type().Underlying().(*types.Slice)
	if !ok {
		return nil, false
	}
	if b, ok := st.Elem().Underlying().(*types.Basic); !ok || b.Kind() != types.Uint8 {
		return nil, false
	}
	text := func(v Val) (Val, bool) {
		switch x := v.(type) {
		case SymStr:
			return x, true
		case Konst:
			if x.V == nil {
				return kStr(""), true
			}
			if _, isS := constStringVal(x); isS {
				return x, true
			}
		case Slice:
			// a literal list of constant bytes
			bs := make([]byte, 0, len(x.E))
			for _, c := range x.E {
				k, isK := c.Get().(Konst)
				if !isK || k.V == nil || k.V.Kind() != constant.Int {
					return nil, false
				}
				i, _ := constant.Int64Val(k.V)
				if i < 0 || i > 255 {
					return nil, false
				}
				bs = append(bs, byte(i))
			}
			return kStr(string(bs)), true
		}
		return nil, false
	}
	a, ok1 := text(args[0])
	b, ok2 := text(args[1])
	if !ok1 || !ok2 {
		return nil, false
	}
	// only when one side is symbolic: buffers of constant bytes stay slices
	_, s1 := a.(SymStr)
	_, s2 := b.(SymStr)
	if !s1 && !s2 {
		ka, _ := a.(Konst)
		kb, _ := b.(Konst)
		sa, _ := constStringVal(ka)
		sb, _ := constStringVal(kb)
		if sa == "" && sb == "" {
			return nil, false
		}
		return kStr(sa + sb), true
	}
	return in.concatText(a, b), true
}

// concatText: the symbol the + operator gives for two texts.
func (in *Interp) concatText(a, b Val) Val {
	if ka, ok := a.(Konst); ok {
		if sa, _ := constStringVal(ka); sa == "" {
			return b
		}
		if kb, ok := b.(Konst); ok {
			sa, _ := constStringVal(ka)
			sb, _ := constStringVal(kb)
			return kStr(sa + sb)
		}
	}
	if kb, ok := b.(Konst); ok {
		if sb, _ := constStringVal(kb); sb == "" {
			return a
		}
	}
	return SymStr{Key: "(" + keyOf(a) + "+" + keyOf(b) + ")", HostPath: hostPath(a) || hostPath(b)}
}
