package main

// C02 — refused or failed requests never change or destroy stored data.
//
// Decided: the necessary ordering condition "no failure is reported after a
// destructive effect", as a trace property of the fault exploration of the
// whole file server (p_fs.go), and "preconditions first": the conditional
// check and every sanitiser check dominate the first destructive call.
// Not decided: what a partially failed single OS call leaves behind; request
// cancellation timing.

import (
	"fmt"

	"golang.org/x/tools/go/ssa"
)

func init() { register("C02", runC02) }

var destructiveCalls = map[string]bool{
	"os.Create": true, "os.OpenFile": true, "os.Remove": true, "os.RemoveAll": true, "os.Rename": true,
	"os.Mkdir": true, "os.MkdirAll": true, "os.WriteFile": true, "path/filepath.Walk": false,
}

func runC02(c *Ctx, pr *PropertyRun) {
	_ = c.P
	pr.Explanation = "Decided: the necessary ordering condition 'no failure is reported after a destructive effect'. (1) As a trace property of the fault exploration of the whole file server (webdav.(*Handler).ServeHTTP with LocalFileSystem bound, interpreted abstractly; nothing is executed): for every method, every resource state and every outcome of every OS call, no run answers 4xx/5xx after os.Create/OpenFile(O_TRUNC)/Remove/RemoveAll/Rename/Mkdir has succeeded (the failure of a destructive call itself is assumed to leave no effect); " +
		"(2) preconditions first: in every LocalFileSystem method the If-Match/If-None-Match check and every localPath check dominate the first destructive call. NOT decided: what a partially failed single OS call leaves behind (RemoveAll is not atomic), and the timing of request cancellation."
	pr.Assumptions = append(pr.Assumptions, "a destructive OS call that fails leaves no effect (true for all listed calls except the non-atomic RemoveAll)", "one resource plus at most one member per directory")
	pr.Trusted = append(pr.Trusted, "golang.org/x/tools/go/ssa v0.29.0", "the interpreter's OS-call models (checker/p_fs.go)")
	fsFaultRules(c, pr, "C02")
	preconditionFirstRule(c, pr, "C02")
	// "COPY and MOVE whose source and destination coincide or contain one
	// another": the test that refuses them compares the two sanitised paths
	// (raw names differ in spelling: /a/./b, //a) before any destructive call
	// (shared with C01.copy-move-structure)
	c01Structure(c, pr, "C02")
}

// preconditionFirstRule is shared by C02 and C04.
func preconditionFirstRule(c *Ctx, pr *PropertyRun, prop string) {
	p := c.P
	r := NewRule(prop, prop+".precondition-first", "the conditional-header check and every sanitiser check dominate the first destructive OS call of each LocalFileSystem method (E4)")
	pr.Rules = append(pr.Rules, r)
	cond := p.MustFunc(r, pkgWebdav, "checkConditionalMatches")
	san := p.MustFunc(r, pkgWebdav, "(LocalFileSystem).localPath")
	lfs := p.NamedType(pkgWebdav, "LocalFileSystem")
	if cond == nil || san == nil || lfs == nil {
		return
	}
	for _, fn := range p.ModFns {
		if recvNamed(fn) != lfs || fn.Parent() != nil || len(fn.Blocks) == 0 {
			continue
		}
		var destructive []ssa.CallInstruction
		var conds, sans []*ssa.Call
		for _, f := range withClosures(fn) {
			eachCall(f, func(site ssa.CallInstruction) {
				name := fsPrimitiveName(p, site.Common())
				if destructiveCalls[name] && f == fn {
					destructive = append(destructive, site)
				}
				if call, ok := site.(*ssa.Call); ok && f == fn {
					switch call.Common().StaticCallee() {
					case cond:
						conds = append(conds, call)
					case san:
						sans = append(sans, call)
					}
				}
			})
		}
		// resources are examined with os.Stat, which follows links like every
		// other method of the server: os.Lstat calls a dangling link present,
		// so an existence test made with it lets a request for a "missing"
		// resource through to its destructive calls
		for _, f := range withClosures(fn) {
			eachCall(f, func(site ssa.CallInstruction) {
				if fsPrimitiveName(p, site.Common()) == "os.Lstat" {
					r.Role("lstat-call")
					r.Ob(false)
					r.Violation("lstat|"+fnKey(fn), p.instrPos(site), fnKey(fn)+" examines a resource with os.Lstat: a dangling symbolic link counts as present there and as missing (404) everywhere else, so an existence test made with it does not protect what is removed next", nil)
				}
			})
		}
		if len(destructive) == 0 {
			continue
		}
		takesOptions := false
		for _, prm := range fn.Params {
			if n := namedOf(prm.Type()); n != nil && (n.Obj().Name() == "CreateOptions" || n.Obj().Name() == "RemoveAllOptions") {
				takesOptions = true
			}
		}
		for _, d := range destructive {
			r.Role("destructive-call")
			for _, sc := range sans {
				var errV ssa.Value
				for _, ref := range *sc.Referrers() {
					if ex, ok := ref.(*ssa.Extract); ok && ex.Index == 1 {
						errV = ex
					}
				}
				ok := errV != nil && knownNilAt(errV, d.Block())
				r.Ob(ok)
				if !ok {
					r.Violation("sanitiser-after-effect|"+fnKey(fn)+"|"+calleeName(d.Common()), p.instrPos(d), fmt.Sprintf("%s reaches %s on a path where a localPath check has not succeeded: a request that is refused for its path may already have changed the tree", fnKey(fn), calleeName(d.Common())), nil)
				}
			}
			if takesOptions {
				ok := false
				for _, cc := range conds {
					if knownNilAt(cc, d.Block()) {
						ok = true
					}
				}
				r.Ob(ok)
				if !ok {
					r.Violation("precondition-after-effect|"+fnKey(fn)+"|"+calleeName(d.Common()), p.instrPos(d), fmt.Sprintf("%s reaches %s on a path where the If-Match/If-None-Match check has not succeeded: a request answered 412 may already have truncated or removed the resource", fnKey(fn), calleeName(d.Common())), nil)
				}
			}
		}
	}
	r.RequireRole("destructive-call")
}
