package main

// C08 / C09 — queries cross the wire without loss.
//
// Decided here: field completeness of the four query codecs (E1), the wire
// schema against the RFC tables (E6), UTC normalisation of literal-Z formats
// (E4), enumeration accept-sets. Not decided: lexical variants of incoming
// documents, whitespace handling, the behaviour of encoding/xml on values.

import (
	"go/constant"
	"go/types"
	"sort"
	"strings"

	"golang.org/x/tools/go/ssa"
)

func init() {
	register("C08", func(c *Ctx, pr *PropertyRun) { runQueryWire(c, pr, "C08", pkgCaldav) })
	register("C09", func(c *Ctx, pr *PropertyRun) { runQueryWire(c, pr, "C09", pkgCarddav) })
}

type wireCfg struct {
	prop, pkg     string
	clientEntries []string
	publicRoots   []string // encode direction roots (public API request types)
	serverPublic  []string // decode direction: public types the server must fill
	wireRoots     []string // decode direction roots (wire request types)
	// exemptions: label -> reason
	srcExemptEncode map[string]string
	srcExemptDecode map[string]string
	dstExemptDecode map[string]string
}

func wireConfig(prop string) wireCfg {
	if prop == "C08" {
		return wireCfg{prop: prop, pkg: pkgCaldav,
			clientEntries: []string{"(*Client).QueryCalendar", "(*Client).MultiGetCalendar"},
			publicRoots:   []string{"CalendarQuery", "CalendarMultiGet"},
			serverPublic:  []string{"CalendarQuery"},
			wireRoots:     []string{"reportReq", "calendarDataReq"},
			srcExemptDecode: map[string]string{
				"caldav.textMatch.Collation": "collation is not expressible in the public API (TextMatch has no such field); the statement lists nothing about it",
			},
		}
	}
	return wireCfg{prop: prop, pkg: pkgCarddav,
		clientEntries: []string{"(*Client).QueryAddressBook", "(*Client).MultiGetAddressBook", "(*Client).SyncCollection"},
		publicRoots:   []string{"AddressBookQuery", "AddressBookMultiGet", "SyncQuery"},
		serverPublic:  []string{"AddressBookQuery"},
		wireRoots:     []string{"reportReq", "addressDataReq"},
		srcExemptDecode: map[string]string{
			"carddav.textMatch.Collation": "collation is not expressible in the public API (TextMatch has no such field); the statement lists nothing about it",
		},
	}
}

// publicStruct: exported struct type of pkg without xml tags.
func isPublicStructOf(pkg string) func(n *types.Named) bool {
	return func(n *types.Named) bool {
		if n == nil || n.Obj().Pkg() == nil || n.Obj().Pkg().Path() != pkg || !n.Obj().Exported() {
			return false
		}
		if _, ok := n.Underlying().(*types.Struct); !ok {
			return false
		}
		return !isWireStruct(n)
	}
}

func isHref(n *types.Named) bool {
	return n != nil && n.Obj().Pkg() != nil && n.Obj().Pkg().Path() == pkgInternal && n.Obj().Name() == "Href"
}

func runQueryWire(c *Ctx, pr *PropertyRun, prop, pkg string) {
	p := c.P
	cfg := wireConfig(prop)
	short := strings.TrimPrefix(pkg, modulePath+"/")
	pr.Explanation = "Decided (structural, necessary clauses only): (1) encode completeness — every exported field of the public " + short +
		" query types flows into a field of a wire (xml-tagged) struct in the client's request builders; (2) decode completeness — every field of the wire request structs is read and flows into the public query handed to the backend, and every exported field of that public query is written from a wire field; " +
		"(3) the wire structs' element/attribute names, namespaces and cardinalities agree with the RFC tables; (4) instants formatted with a literal-Z layout are UTC-normalised; (5) enumeration accept-sets equal the RFC lists. " +
		"NOT decided: lexical variants of incoming documents, whitespace/escaping of text, href order at run time — behaviour of encoding/xml on values."
	pr.Assumptions = append(pr.Assumptions,
		"encoding/xml marshals and unmarshals exactly the tagged struct fields (its documented contract)",
		"flows are may-flows (over-approximate): a field reported as flowing may still be lost by a value-level bug; a field reported as NOT flowing is definitely not transmitted")
	pr.Trusted = append(pr.Trusted, "golang.org/x/tools/go/ssa v0.29.0", "go/types", "RFC tables transcribed in checker/spec_rfc.go")

	// ---- encode
	enc := NewRule(prop, prop+".encode-complete", "every exported field of the public query types reaches a wire struct field in the client request builders (E1 SRC-COMPLETE)")
	pr.Rules = append(pr.Rules, enc)
	var entries []*ssa.Function
	for _, e := range cfg.clientEntries {
		if fn := p.MustFunc(enc, pkg, e); fn != nil {
			entries = append(entries, fn)
		}
	}
	var roots []*types.Named
	for _, r := range cfg.publicRoots {
		n := p.NamedType(pkg, r)
		if n == nil {
			enc.Unresolved("public type " + r + " not found")
			continue
		}
		roots = append(roots, n)
	}
	if n := p.NamedType(pkg, "ZzVerifControlQuery"); n != nil {
		roots = append(roots, n)
	}
	pubClosure := typeClosure(roots, isPublicStructOf(pkg))
	isPub := namedSet(pubClosure)
	isWireSink := func(n *types.Named) bool { return isWireStruct(n) || isHref(n) }
	ctl := controlFuncs(p, pkg, "zzVerifControlEncode")
	res := RunFieldFlow(c, FFConfig{Entries: entries, IsSource: isPub, IsSink: isWireSink, ExtraScope: ctl})
	debugExplain(res)
	enc.Count("functions_in_scope", len(res.Scope))
	enc.Count("fixpoint_rounds", res.Rounds)
	enc.Count("sink_events", len(res.Events))
	for _, n := range pubClosure {
		for _, f := range fieldsOf(n, true) {
			enc.Role("public-field")
			sinks := wireSinksOf(res, f)
			ok := len(sinks) > 0
			if why, ex := cfg.srcExemptEncode[f]; ex {
				enc.Note("exempt %s: %s", f, why)
				continue
			}
			enc.Ob(ok)
			enc.Sample(map[string]interface{}{"source": f, "reaches_wire_fields": sinks})
			if ok && isTextField(n, f) {
				enc.Role("text-field")
				u := unalteredSinks(res, f)
				enc.Ob(len(u) > 0)
				if len(u) == 0 {
					enc.Violation("encode-altered|"+f, p.Pos(res.Reads[f]), "text field "+f+" reaches the wire only through a call or an operator (sinks: "+strings.Join(sinks, ", ")+"): names and match text must be transmitted unaltered", nil)
				}
			}
			if !ok {
				pos := "-"
				if ps, okp := res.Reads[f]; okp {
					pos = p.Pos(ps)
				} else {
					pos = p.Pos(n.Obj().Pos())
				}
				enc.Violation("encode|"+f, pos, "public field "+f+" never reaches any wire struct field in "+strings.Join(cfg.clientEntries, ", ")+": a caller's value for it is dropped before the request is sent", nil)
			}
		}
	}
	enc.RequireRole("public-field")

	// ---- decode
	dec := NewRule(prop, prop+".decode-complete", "every field of the wire request structs is read into the public query, and every exported field of the public query is written from a wire field (E1 SRC-/DST-COMPLETE)")
	pr.Rules = append(pr.Rules, dec)
	srv := p.MustFunc(dec, pkg, "(*Handler).ServeHTTP")
	var wroots []*types.Named
	for _, r := range cfg.wireRoots {
		n := p.NamedType(pkg, r)
		if n == nil {
			dec.Unresolved("wire type " + r + " not found")
			continue
		}
		wroots = append(wroots, n)
	}
	if n := p.NamedType(pkg, "zzVerifControlWire"); n != nil {
		wroots = append(wroots, n)
	}
	inPkg := func(n *types.Named) bool { return n.Obj().Pkg() != nil && n.Obj().Pkg().Path() == pkg }
	wireClosure := typeClosure(wroots, func(n *types.Named) bool {
		return inPkg(n) && (isWireStruct(n) || n.Obj().Name() == "reportReq")
	})
	var sroots []*types.Named
	for _, r := range cfg.serverPublic {
		if n := p.NamedType(pkg, r); n != nil {
			sroots = append(sroots, n)
		} else {
			dec.Unresolved("public type " + r + " not found")
		}
	}
	if n := p.NamedType(pkg, "ZzVerifControlQuery"); n != nil {
		sroots = append(sroots, n)
	}
	srvPub := typeClosure(sroots, isPublicStructOf(pkg))
	isSrvPub := namedSet(srvPub)
	isWireSrc := namedSet(wireClosure)
	propFind := p.NamedType(pkgInternal, "PropFind")
	dsink := func(n *types.Named) bool { return isSrvPub(n) || n == propFind }
	ctl2 := controlFuncs(p, pkg, "zzVerifControlDecode")
	res2 := RunFieldFlow(c, FFConfig{Entries: []*ssa.Function{srv}, IsSource: isWireSrc, IsSink: dsink, ExtraScope: ctl2,
		CallSink: backendArgSinks(pkg)})
	debugExplain(res2)
	dec.Count("functions_in_scope", len(res2.Scope))
	dec.Count("fixpoint_rounds", res2.Rounds)
	dec.Count("sink_events", len(res2.Events))
	for _, n := range wireClosure {
		for _, f := range fieldsOf(n, false) {
			dec.Role("wire-field")
			if why, ex := cfg.srcExemptDecode[f]; ex {
				dec.Note("exempt %s: %s", f, why)
				continue
			}
			var sinks []string
			for s := range res2.LabelSinks[f] {
				sinks = append(sinks, s)
			}
			sort.Strings(sinks)
			ok := len(sinks) > 0
			dec.Ob(ok)
			dec.Sample(map[string]interface{}{"wire_field": f, "reaches": sinks})
			if ok && isTextField(n, f) {
				dec.Role("text-field")
				u := unalteredSinks(res2, f)
				dec.Ob(len(u) > 0)
				if len(u) == 0 {
					dec.Violation("decode-altered|"+f, p.Pos(res2.Reads[f]), "text field "+f+" reaches the public query only through a call or an operator (sinks: "+strings.Join(sinks, ", ")+"): names and match text must be handed over unaltered", nil)
				}
			}
			if !ok {
				pos := p.Pos(n.Obj().Pos())
				what := "is never read by the server"
				if ps, okp := res2.Reads[f]; okp {
					pos = p.Pos(ps)
					what = "is read but reaches neither the public query nor the backend"
				}
				dec.Violation("decode-src|"+f, pos, "wire field "+f+" "+what+": what a conformant request says there is lost before the backend sees it", nil)
			}
		}
	}
	for _, n := range srvPub {
		for _, f := range fieldsOf(n, true) {
			dec.Role("public-field")
			if why, ex := cfg.dstExemptDecode[f]; ex {
				dec.Note("exempt %s: %s", f, why)
				continue
			}
			labs := labelNames(res2.SinkLabels[f])
			var wl []string
			for _, l := range labs {
				if strings.HasPrefix(l, strings.TrimPrefix(pkg, modulePath+"/")+".") {
					wl = append(wl, l)
				}
			}
			ok := len(wl) > 0
			dec.Ob(ok)
			dec.Sample(map[string]interface{}{"public_field": f, "written_from": wl})
			if !ok {
				pos := p.Pos(n.Obj().Pos())
				what := "is never written by the server"
				if ps, okp := res2.Stores[f]; okp {
					pos = p.Pos(ps)
					what = "is written, but from no field of the request document"
				}
				dec.Violation("decode-dst|"+f, pos, "public field "+f+" "+what+": the backend always sees its zero value whatever the request says", nil)
			}
		}
	}
	dec.RequireRole("wire-field", "public-field")
	// ---- schema
	sch := NewRule(prop, prop+".schema", "element and attribute names, namespaces and cardinalities of the "+short+" wire structs agree with the RFC DTD tables (E6); child order is not a violation (RFC 4918 §17)")
	pr.Rules = append(pr.Rules, sch)
	checkSchema(p, sch, func(xs *xmlStruct) bool {
		pp := xs.Named.Obj().Pkg().Path()
		if pp == pkg {
			return true
		}
		if prop == "C09" && pp == pkgInternal {
			n := xs.Named.Obj().Name()
			return n == "SyncCollectionQuery" || n == "Limit"
		}
		return false
	}, func(xs *xmlStruct) bool {
		// repeated elements must be representable in the request documents
		// (the property is about requests); properties are C10's business.
		for _, w := range wireClosure {
			if w == xs.Named {
				return true
			}
		}
		return strings.HasPrefix(xs.Named.Obj().Name(), "zzVerifControl")
	}, func(*xmlStruct) bool { return true })
	sch.RequireRole("wire-struct", "attribute", "child-element")
	if p.Control {
		sch.ExpectControl("bogus-attr")
		sch.ExpectControl("is-not-define")
		if prop == "C08" {
			sch.ExpectControl("cdata|")
		}
	}

	// ---- conformant documents the own client never writes
	if prop == "C08" {
		c08WireDecode(c, pr)
	}

	// ---- hrefs are decoded paths
	urlParseRule(c, pr, prop, nil)
	// ... written and read by an inverse pair (shared with C16.pairs)
	c16Pairs(c, pr, prop, func(what string) bool {
		return what == "href" || (prop == "C08" && what == "iCalendar UTC date-time")
	})
	// per-element holders of the codecs are fresh per element
	freshHolderRule(c, pr, prop)
	// every conformant document gets as far as the typed decoder
	decodeRequestTable(c, pr, prop)
	if prop == "C09" {
		unsignedElementsRule(c, pr, prop)
	}
	// the bytes of a request document are not recycled while the request
	// still refers to them (shared with C18.upload)
	pool := NewRule(prop, prop+".pooled-body", "an object returned to a sync.Pool is not referred to by a value the function returns or stores: a request body aliasing a pooled buffer is overwritten by the next request built in the process (E4)")
	pr.Rules = append(pr.Rules, pool)
	pooledObjectsRule(c, pool)
	pool.Note("expected count on the current tree: 0 sync.Pool.Put sites in the library; the rule's firing is exercised by the seeds C18-5 and C09-11")

	// ---- round trip
	rt := NewRule(prop, prop+".roundtrip", "for every query within the bounds, the value the server's backend receives equals the value the caller handed to the client: decode o encode = id at struct level, both codecs interpreted from SSA (E2)")
	rt.Exhaustive = true
	rt.Bounds = "filters: nesting 2, one sub-filter per level; component requests: nesting 2, two properties; two hrefs; the RFC grammar's exclusions define the domain"
	pr.Rules = append(pr.Rules, rt)
	if prop == "C08" {
		caldavRoundtrips(c, rt)
	} else {
		carddavRoundtrips(c, rt)
	}
	rt.RequireRole("round-trip")

	// ---- enumerations
	en := NewRule(prop, prop+".enums", "the enumerated attribute values accepted by the decoders equal the RFC's lists and everything else is rejected; the encoders' constants are those values (E2)")
	en.Exhaustive = true
	pr.Rules = append(pr.Rules, en)
	enumRule(c, en, pkg, "negateCondition", map[string]string{"yes": "true", "no": "false"})
	enumTypedAttributesRule(c, en)
	if prop == "C09" {
		enumRule(c, en, pkg, "filterTest", map[string]string{"anyof": "anyof", "allof": "allof"})
		enumRule(c, en, pkg, "matchType", map[string]string{"equals": "equals", "contains": "contains", "starts-with": "starts-with", "ends-with": "ends-with"})
		// the public constants are the wire values
		for name, want := range map[string]string{"FilterAnyOf": "anyof", "FilterAllOf": "allof", "MatchEquals": "equals", "MatchContains": "contains", "MatchStartsWith": "starts-with", "MatchEndsWith": "ends-with"} {
			en.Role("public-constant")
			cst, _ := p.Mod[pkg].Types.Scope().Lookup(name).(*types.Const)
			ok := cst != nil && cst.Val().Kind() == constant.String && constant.StringVal(cst.Val()) == want
			en.Ob(ok)
			if !ok {
				pos := "-"
				if cst != nil {
					pos = p.Pos(cst.Pos())
				}
				en.Violation("constant|"+name, pos, "public constant carddav."+name+" is not the RFC 6352 wire value \""+want+"\": queries built with it are sent with an attribute value the RFC does not define", nil)
			}
		}
	}
	// negate-condition encoder: true -> "yes"
	if mt := p.MustFunc(en, pkg, "(negateCondition).MarshalText"); mt != nil {
		spec := DTXSpec{Name: "negateCondition.MarshalText", Entry: mt,
			Args: func(in *Interp) []Val { return []Val{LazyBool{"nc"}} },
			Observe: func(in *Interp, res Val, pan *panicOutcome) string {
				if pan != nil {
					return "panic"
				}
				t := res.(Tuple)
				if k, ok := t.E[1].(Konst); !ok || k.V != nil {
					return "error"
				}
				return describeVal(in, t.E[0])
			},
			Oracle: func(env *OracleEnv) ([]string, bool) {
				if env.Bool("nc") {
					return []string{"yes"}, true
				}
				// absent attribute (omitempty) or an explicit "no"
				return []string{"nil", "no", "", "[]"}, true
			}}
		res := runDTX(c, spec)
		reportDTX(c, en, spec, res, spec.Name)
	}
	en.RequireRole("enumeration")
	if prop == "C08" {
		utcRule(c, pr, "C08")
	}

	if p.Control {
		enc.ExpectControl("encode|" + short + ".ZzVerifControlQuery.Dropped")
		dec.ExpectControl("decode-src|" + short + ".zzVerifControlWire.Lost")
		dec.ExpectControl("decode-dst|" + short + ".ZzVerifControlQuery.Dropped")
	}
}

// isTextField: the field (named "pkg.T.f") is a string or a slice of strings.
func isTextField(n *types.Named, label string) bool {
	st := n.Underlying().(*types.Struct)
	name := label[strings.LastIndex(label, ".")+1:]
	for i := 0; i < st.NumFields(); i++ {
		if st.Field(i).Name() != name {
			continue
		}
		t := st.Field(i).Type()
		if sl, ok := t.Underlying().(*types.Slice); ok {
			t = sl.Elem()
		}
		b, ok := t.Underlying().(*types.Basic)
		return ok && b.Kind() == types.String
	}
	return false
}

// unalteredSinks: the sinks the label reaches with the U bit (conversions,
// loads, stores and parameter passing only).
func unalteredSinks(res *FFResult, label string) []string {
	id, ok := labIDs[label]
	if !ok {
		return nil
	}
	var out []string
	for _, ev := range res.Events {
		if b, ok := ev.Data[id]; ok && b&bitU != 0 {
			out = append(out, ev.Sink)
		}
	}
	sort.Strings(out)
	return out
}

// wireSinksOf lists the wire-field sinks a label reaches.
func wireSinksOf(res *FFResult, label string) []string {
	var out []string
	for s := range res.LabelSinks[label] {
		out = append(out, s)
	}
	sort.Strings(out)
	return out
}

// controlFuncs returns the control functions of a package whose name starts
// with prefix (declared in the injected control file).
func controlFuncs(p *Program, pkg, prefix string) []*ssa.Function {
	var out []*ssa.Function
	sp := p.SSAPkg[pkg]
	if sp == nil {
		return nil
	}
	var names []string
	for name, m := range sp.Members {
		if _, ok := m.(*ssa.Function); ok && strings.HasPrefix(name, prefix) {
			names = append(names, name)
		}
	}
	sort.Strings(names)
	for _, n := range names {
		out = append(out, sp.Func(n))
	}
	return out
}

// backendArgSinks designates every argument of an interface call on the
// package's Backend interface as a sink "backend:<Method>#<i>".
func backendArgSinks(pkg string) func(site ssa.CallInstruction) map[int]string {
	return func(site ssa.CallInstruction) map[int]string {
		cc := site.Common()
		if !cc.IsInvoke() {
			return nil
		}
		n := namedOf(cc.Value.Type())
		if n == nil || n.Obj().Pkg() == nil || n.Obj().Pkg().Path() != pkg {
			return nil
		}
		if n.Obj().Name() != "Backend" && n.Obj().Name() != "FileSystem" {
			return nil
		}
		m := map[int]string{}
		for i := range cc.Args {
			m[i+1] = "backend:" + cc.Method.Name() + "#" + itoa(i)
		}
		return m
	}
}

func itoa(i int) string {
	if i == 0 {
		return "0"
	}
	s := ""
	neg := i < 0
	if neg {
		i = -i
	}
	for i > 0 {
		s = string(rune('0'+i%10)) + s
		i /= 10
	}
	if neg {
		s = "-" + s
	}
	return s
}
