package main

// C05.readdir — LocalFileSystem.ReadDir lists the collection itself and its
// direct members, or with recursion all descendants, each exactly once.
// Decision table (E2) extracted from the SSA of ReadDir and its Walk callback
// under a model of filepath.Walk over the tree
//
//	root (dir | file | unreadable)
//	  m1 (file | dir)   -- g (file) below m1 when m1 is a directory
//	  m2 (file)
//
// with filepath.Walk's real SkipDir semantics (SkipDir on a directory skips
// its children; SkipDir on a file skips the REMAINING members of its parent),
// which is what makes `fi.IsDir()` and `path != p` in the callback necessary.

import (
	"go/types"
	"strings"

	"golang.org/x/tools/go/ssa"
)

func (e *OracleEnv) Choice(key string, n int) int { return e.ch.choose(key, n, nil) }

func c05ReadDir(c *Ctx, pr *PropertyRun, prop string) {
	p := c.P
	r := NewRule(prop, prop+".readdir", "LocalFileSystem.ReadDir lists the collection itself and its direct members, or with recursion all descendants, each exactly once and in Walk order (E2, Walk modelled with its SkipDir semantics)")
	r.Exhaustive = true
	r.Bounds = "root dir/file/unreadable; two members, the first a file or a directory with one child"
	pr.Rules = append(pr.Rules, r)
	fn := p.MustFunc(r, pkgWebdav, "(LocalFileSystem).ReadDir")
	lfs := p.NamedType(pkgWebdav, "LocalFileSystem")
	fiT := p.NamedType(pkgWebdav, "FileInfo")
	if fn == nil || lfs == nil || fiT == nil {
		return
	}
	osFI := p.lookupType("io/fs", "FileInfo")
	rootKinds := []string{"dir", "file", "unreadable"}
	m1Kinds := []string{"file", "dir"}
	mkFI := func(key, kind string) Val {
		return Iface{Dyn: types.Typ[types.Invalid], V: Opaque{"fi(" + key + "):" + kind, osFI}}
	}
	spec := DTXSpec{Name: "LocalFileSystem.ReadDir", Entry: fn,
		Setup: func(in *Interp) {
			in.Models = append(in.Models, func(in *Interp, site ssa.CallInstruction, name string, args []Val) (Val, bool) {
				cc := site.Common()
				if name == "path/filepath.Walk" {
					root, cb := args[0], args[1]
					call := func(pth Val, fi Val, err Val) Val {
						switch f := cb.(type) {
						case Closure:
							return in.Call(f.Fn, []Val{pth, fi, err}, f.Bind)
						case FuncV:
							return in.Call(f.Fn, []Val{pth, fi, err}, nil)
						}
						in.undecided("Walk callback is %T", cb)
						return nil
					}
					isSkip := func(v Val) bool {
						sn, ok := sentinelName(v)
						return ok && strings.HasSuffix(sn, "SkipDir")
					}
					rk := rootKinds[in.chooseLabeled("root-kind", rootKinds)]
					if rk == "unreadable" {
						res := call(root, kNil, in.mkErr(&ErrObj{Kind: "errno", Errno: "EACCES", Msg: kStr("EACCES"), Key: "lstat-error"}))
						if isSkip(res) {
							return kNil, true
						}
						return res, true
					}
					res := call(root, mkFI("root", rk), kNil)
					if !isNilVal(res) {
						if isSkip(res) {
							return kNil, true
						}
						return res, true
					}
					if rk == "file" {
						return kNil, true
					}
					k1 := m1Kinds[in.chooseLabeled("m1-kind", m1Kinds)]
					m1 := SymStr{Key: "m1"}
					res = call(m1, mkFI("m1", k1), kNil)
					switch {
					case isNilVal(res):
						if k1 == "dir" {
							r2 := call(SymStr{Key: "g"}, mkFI("g", "file"), kNil)
							if !isNilVal(r2) && !isSkip(r2) {
								return r2, true
							}
							// SkipDir on the file g skips the rest of m1 (nothing left)
						}
					case isSkip(res):
						if k1 == "file" {
							return kNil, true // rest of the root directory is skipped
						}
					default:
						return res, true
					}
					res = call(SymStr{Key: "m2"}, mkFI("m2", "file"), kNil)
					if !isNilVal(res) && !isSkip(res) {
						return res, true
					}
					return kNil, true
				}
				// os.FileInfo methods of the model's entries
				if cc.IsInvoke() && len(args) >= 1 {
					if iv, ok := args[0].(Iface); ok {
						if o, ok := iv.V.(Opaque); ok && strings.HasPrefix(o.Key, "fi(") {
							switch cc.Method.Name() {
							case "IsDir":
								return kBool(strings.HasSuffix(o.Key, ":dir")), true
							case "Size":
								return SymInt{"size"}, true
							case "ModTime":
								return TimeV{"mtime"}, true
							case "Name":
								return SymStr{Key: "name"}, true
							}
						}
					}
				}
				// the two path translators (C03 decides them) are atoms here
				if f := cc.StaticCallee(); f != nil && recvNamed(f) == lfs && f != fn {
					sig := f.Signature
					if sig.Params().Len() == 1 && sig.Results().Len() == 2 && types.Identical(sig.Params().At(0).Type(), types.Typ[types.String]) && types.Identical(sig.Results().At(0).Type(), types.Typ[types.String]) {
						return Tuple{[]Val{args[len(args)-1], kNil}}, true
					}
				}
				// fileInfoFromOS by signature: (string, os.FileInfo) *FileInfo
				if f := cc.StaticCallee(); f != nil && fnPkg(f) != nil && fnPkg(f).Path() == pkgWebdav && f.Signature.Recv() == nil && f.Signature.Params().Len() == 2 && f.Signature.Results().Len() == 1 {
					if pt, ok := f.Signature.Results().At(0).Type().(*types.Pointer); ok && namedOf(pt.Elem()) == fiT {
						fik := "?"
						if iv, ok := args[1].(Iface); ok {
							if o, ok := iv.V.(Opaque); ok {
								fik = o.Key
							}
						}
						in.effect("entry", site.Pos(), args[0], kStr(fik))
						s := zeroOf(fiT).(Struct)
						return Ptr{&Cell{V: s, T: fiT}}, true
					}
				}
				return nil, false
			})
		},
		Args: func(in *Interp) []Val {
			var args []Val
			for i, prm := range fn.Params {
				switch {
				case i == 0:
					args = append(args, SymStr{Key: "root"})
				case types.Identical(prm.Type().Underlying(), types.Typ[types.Bool]):
					args = append(args, LazyBool{"recursive"})
				case types.Identical(prm.Type().Underlying(), types.Typ[types.String]):
					args = append(args, SymStr{Key: "name"})
				default:
					args = append(args, Opaque{prm.Name(), prm.Type()})
				}
			}
			return args
		},
		Observe: func(in *Interp, res Val, pan *panicOutcome) string {
			if pan != nil {
				return "panic"
			}
			var seq []string
			for _, e := range in.Trace {
				if e.Name == "entry" {
					seq = append(seq, e.String())
				}
			}
			t, _ := res.(Tuple)
			n := -1
			if len(t.E) == 2 {
				n = len(elemsOf(in, t.E[0]))
				if !isNilVal(t.E[1]) {
					return "error"
				}
			}
			return strings.Join(seq, " ") + " => " + itoa(n) + " entries"
		},
		Oracle: func(env *OracleEnv) ([]string, bool) {
			// member paths are distinct from the root path
			for k, v := range env.Valuation() {
				if strings.HasPrefix(k, "eq(") && v == "equal" {
					return nil, false
				}
			}
			rk := rootKinds[env.Choice("root-kind", len(rootKinds))]
			switch rk {
			case "unreadable":
				return []string{"error"}, true
			case "file":
				return []string{`entry(name, "fi(root):file") => 1 entries`}, true
			}
			k1 := m1Kinds[env.Choice("m1-kind", len(m1Kinds))]
			seq := []string{`entry(name, "fi(root):dir")`, `entry(m1, "fi(m1):` + k1 + `")`}
			if k1 == "dir" && env.Bool("recursive") {
				seq = append(seq, `entry(g, "fi(g):file")`)
			}
			seq = append(seq, `entry(m2, "fi(m2):file")`)
			return []string{strings.Join(seq, " ") + " => " + itoa(len(seq)) + " entries"}, true
		}}
	res := runDTX(c, spec)
	reportDTX(c, r, spec, res, "ReadDir")
	r.Role("decision-table")
	if res.Runs < 6 {
		r.Unresolved("the ReadDir table has fewer than 6 rows")
	}
	r.RequireRole("decision-table")
}
