package main

// E1 fieldflow — field-to-field value flow between struct types.
//
// A context-insensitive, field-based label propagation over the SSA of the
// module functions reachable from named entry points. Labels are generated
// where a field of a *source* type is addressed/read (label "pkg.T.f"), or by
// designated source calls (e.g. Header.Get with a constant key). Sink events
// are recorded where a field of a *sink* type is stored, or at designated
// argument positions of sink calls. Memory: struct fields are abstracted per
// (type, field) (field-based); other memory per allocation site, addressed
// through "@alloc" pseudo-labels carried by pointer-holding values.
//
// Each (value,label) carries two bits:
//   N  "a call-free derivation exists"  (join = OR)  — used to accept control
//      dependence only for conditions derived from a flag-like field without
//      any call (otherwise every `if err != nil` would create flows);
//   U  "every derivation is unaltered"  (join = AND) — only loads, stores,
//      conversions, phis, field selections, in-module parameter passing.
//
// Over-tainting can only hide a violation of the completeness rules, never
// invent one.

import (
	"fmt"
	"go/token"
	"go/types"
	"os"
	"reflect"
	"sort"
	"strings"

	"golang.org/x/tools/go/ssa"
)

const (
	bitN uint8 = 1 // call-free derivation exists
	bitU uint8 = 2 // all derivations unaltered
	bitP uint8 = 4 // present (always set)
)

type lab int32

type labelSet map[lab]uint8

// label interning: names <-> ids. Allocation pseudo-labels ("@n") are
// remembered so they can be filtered cheaply.
var (
	labNames  []string
	labIDs    = map[string]lab{}
	labIsAddr []bool
)

func internLab(name string) lab {
	if id, ok := labIDs[name]; ok {
		return id
	}
	id := lab(len(labNames))
	labNames = append(labNames, name)
	labIsAddr = append(labIsAddr, strings.HasPrefix(name, "@"))
	labIDs[name] = id
	return id
}

func (l lab) String() string { return labNames[l] }
func (l lab) isAddr() bool   { return labIsAddr[l] }

// add joins (label,bits) into s; returns true if s changed.
func (s labelSet) add(l lab, bits uint8) bool {
	bits |= bitP
	old, ok := s[l]
	if !ok {
		s[l] = bits
		return true
	}
	nb := bitP | ((old | bits) & bitN) | (old & bits & bitU)
	if nb != old {
		s[l] = nb
		return true
	}
	return false
}

// addAll joins o into s, masking the bits; addrToo=false drops "@" labels.
func (s labelSet) addAll(o labelSet, mask uint8, addrToo bool) bool {
	ch := false
	for l, b := range o {
		if !addrToo && l.isAddr() {
			continue
		}
		if s.add(l, b&mask) {
			ch = true
		}
	}
	return ch
}

// has reports whether the named label is in the set.
func (s labelSet) has(name string) (uint8, bool) {
	id, ok := labIDs[name]
	if !ok {
		return 0, false
	}
	b, ok := s[id]
	return b, ok
}

type ffSinkEvent struct {
	Sink   string // "pkg.T.f" or a designated call sink name
	Pos    token.Pos
	Fn     *ssa.Function
	Labels labelSet
	// Data: what arrives through data derivations only (control influence
	// left out) — the U bit here speaks about the value itself.
	Data labelSet
}

type FFConfig struct {
	Entries []*ssa.Function
	// IsSource / IsSink decide on named struct types.
	IsSource func(n *types.Named) bool
	IsSink   func(n *types.Named) bool
	// CallSource: a call whose result is a source; returns label ("" = no).
	CallSource func(site ssa.CallInstruction) string
	// CallSink: designated sink argument positions of a call (receiver of an
	// interface call is position 0): position -> sink name.
	CallSink func(site ssa.CallInstruction) map[int]string
	// ParamLabels: label the parameters of entry functions.
	ParamLabels bool
	// ExtraScope: functions analysed although not reachable (controls).
	ExtraScope []*ssa.Function
	// OutParams: an external callee may write what it is given into the memory
	// behind its pointer-like arguments (needed only where a rule follows data
	// through buffers, e.g. encoder -> bytes.Buffer -> request body).
	OutParams bool
	// CutCall: the result of this (external) call carries nothing of its
	// arguments (reflect.TypeOf: the type of a value is not the value).
	CutCall func(site ssa.CallInstruction) bool
	// StopAt: do not descend into these functions (treated as external).
	StopAt func(fn *ssa.Function) bool
}

type FFResult struct {
	Scope      []*ssa.Function
	Events     []*ffSinkEvent
	SinkLabels map[string]labelSet        // sink -> union of labels over all events
	LabelSinks map[string]map[string]bool // label -> sinks
	Reads      map[string]token.Pos       // source labels generated at all
	Stores     map[string]token.Pos       // sink fields stored at all
	Rounds     int
	vals       map[ssa.Value]labelSet
	eng        *ffEngine
}

// Explain: the first-arrival chain by which label reached a sink event of the
// named sink (debugging aid and report detail).
func (r *FFResult) Explain(sink, label string) []string {
	id, ok := labIDs[label]
	if !ok {
		return nil
	}
	for k, ev := range r.eng.events {
		if ev.Sink == sink {
			if _, ok := ev.Labels[id]; ok {
				return r.eng.explain("sink:"+k, id)
			}
		}
	}
	return nil
}

type ffEngine struct {
	c        *Ctx
	cfg      FFConfig
	scope    map[*ssa.Function]bool
	vals     map[ssa.Value]labelSet
	ptrOK    map[ssa.Value]bool // value type may hold pointers
	cells    map[string]labelSet
	events   map[string]*ffSinkEvent
	reads    map[string]token.Pos
	stores   map[string]token.Pos
	ctrl     map[*ssa.Function]map[*ssa.BasicBlock][]ctrlDep
	rets     map[*ssa.Function][]labelSet
	allocN   map[ssa.Value]lab
	flag     map[lab]bool
	flagBool map[lab]bool
	change   bool
	// provenance (first arrival) for explaining flows
	owner map[uintptr]string
	extIn map[ssa.CallInstruction]labelSet
	why   map[whyKey]whyEntry
	cur   ssa.Instruction
}

type whyKey struct {
	node string
	l    lab
}

type whyEntry struct {
	from string
	at   ssa.Instruction
}

func setID(s labelSet) uintptr { return reflect.ValueOf(s).Pointer() }

func (e *ffEngine) own(s labelSet, name string) { e.owner[setID(s)] = name }

// note records where label l first arrived in dst from.
func (e *ffEngine) note(dst labelSet, src labelSet, l lab) {
	d := e.owner[setID(dst)]
	if d == "" {
		return
	}
	k := whyKey{d, l}
	if _, ok := e.why[k]; ok {
		return
	}
	from := "<gen>"
	if src != nil {
		from = e.owner[setID(src)]
	}
	e.why[k] = whyEntry{from, e.cur}
}

// Explain renders the first-arrival chain of label l at node.
func (e *ffEngine) explain(node string, l lab) []string {
	var out []string
	seen := map[string]bool{}
	for i := 0; i < 40 && node != "" && !seen[node]; i++ {
		seen[node] = true
		w, ok := e.why[whyKey{node, l}]
		if !ok {
			out = append(out, node+" (origin)")
			break
		}
		at := "-"
		if w.at != nil {
			at = e.c.P.instrPos(w.at)
		}
		out = append(out, fmt.Sprintf("%s  <- %s  @ %s", node, w.from, at))
		node = w.from
	}
	return out
}

func typeLabel(n *types.Named) string {
	o := n.Obj()
	p := ""
	if o.Pkg() != nil {
		p = strings.TrimPrefix(o.Pkg().Path(), modulePath)
		p = strings.TrimPrefix(p, "/")
		if o.Pkg().Path() == modulePath {
			p = "webdav"
		}
	}
	return p + "." + o.Name()
}

var holdsPtrCache = map[types.Type]bool{}

func mayHoldPointer(t types.Type) bool {
	if v, ok := holdsPtrCache[t]; ok {
		return v
	}
	holdsPtrCache[t] = true // recursion guard
	r := false
	switch u := t.Underlying().(type) {
	case *types.Pointer, *types.Slice, *types.Map, *types.Chan, *types.Interface, *types.Signature:
		r = true
	case *types.Struct:
		for i := 0; i < u.NumFields(); i++ {
			if mayHoldPointer(u.Field(i).Type()) {
				r = true
				break
			}
		}
	case *types.Array:
		r = mayHoldPointer(u.Elem())
	case *types.Tuple:
		for i := 0; i < u.Len(); i++ {
			if mayHoldPointer(u.At(i).Type()) {
				r = true
				break
			}
		}
	case *types.Basic:
		r = u.Kind() == types.UnsafePointer
	}
	holdsPtrCache[t] = r
	return r
}

var allocCounter int

// RunFieldFlow runs the propagation to a fixpoint.
func RunFieldFlow(c *Ctx, cfg FFConfig) *FFResult {
	e := &ffEngine{c: c, cfg: cfg, scope: map[*ssa.Function]bool{}, vals: map[ssa.Value]labelSet{}, ptrOK: map[ssa.Value]bool{}, cells: map[string]labelSet{},
		events: map[string]*ffSinkEvent{}, reads: map[string]token.Pos{}, stores: map[string]token.Pos{},
		ctrl: map[*ssa.Function]map[*ssa.BasicBlock][]ctrlDep{}, rets: map[*ssa.Function][]labelSet{}, allocN: map[ssa.Value]lab{}, flag: map[lab]bool{}, flagBool: map[lab]bool{}, owner: map[uintptr]string{}, extIn: map[ssa.CallInstruction]labelSet{}, why: map[whyKey]whyEntry{}}
	cg := c.CG()
	expand := func(fn *ssa.Function) bool {
		if !c.P.InModule(fn) {
			return false
		}
		if cfg.StopAt != nil && cfg.StopAt(fn) {
			return false
		}
		return true
	}
	reach := cg.Reach(cfg.Entries, expand)
	for fn := range reach {
		if expand(fn) && len(fn.Blocks) > 0 {
			e.scope[fn] = true
		}
	}
	for _, fn := range cfg.ExtraScope {
		for _, f := range withClosures(fn) {
			if len(f.Blocks) > 0 {
				e.scope[f] = true
			}
		}
	}
	var fns []*ssa.Function
	for fn := range e.scope {
		fns = append(fns, fn)
	}
	sort.Slice(fns, func(i, j int) bool { return fnKey(fns[i]) < fnKey(fns[j]) })
	for _, fn := range fns {
		e.ctrl[fn] = transitiveControlDeps(fn)
		n := fn.Signature.Results().Len()
		e.rets[fn] = make([]labelSet, n)
		for i := range e.rets[fn] {
			e.rets[fn][i] = labelSet{}
			e.own(e.rets[fn][i], fmt.Sprintf("ret:%s#%d", fnKey(fn), i))
		}
	}
	if cfg.ParamLabels {
		for _, fn := range cfg.Entries {
			if fn == nil {
				continue
			}
			for i, p := range fn.Params {
				e.val(p).add(internLab(fmt.Sprintf("param:%s#%d:%s", fnKey(fn), i, p.Name())), bitN|bitU)
			}
		}
	}
	rounds := 0
	for {
		rounds++
		e.change = false
		for _, fn := range fns {
			for _, b := range fn.Blocks {
				for _, in := range b.Instrs {
					e.cur = in
					e.step(fn, b, in)
				}
			}
		}
		if !e.change || rounds > 80 {
			break
		}
	}
	res := &FFResult{Scope: fns, SinkLabels: map[string]labelSet{}, LabelSinks: map[string]map[string]bool{}, Reads: e.reads, Stores: e.stores, Rounds: rounds, vals: e.vals, eng: e}
	var keys []string
	for k := range e.events {
		keys = append(keys, k)
	}
	sort.Strings(keys)
	for _, k := range keys {
		ev := e.events[k]
		res.Events = append(res.Events, ev)
		if res.SinkLabels[ev.Sink] == nil {
			res.SinkLabels[ev.Sink] = labelSet{}
		}
		res.SinkLabels[ev.Sink].addAll(ev.Labels, bitN|bitU, false)
		for l := range ev.Labels {
			if l.isAddr() {
				continue
			}
			if res.LabelSinks[l.String()] == nil {
				res.LabelSinks[l.String()] = map[string]bool{}
			}
			res.LabelSinks[l.String()][ev.Sink] = true
		}
	}
	return res
}

func (e *ffEngine) val(v ssa.Value) labelSet {
	s := e.vals[v]
	if s == nil {
		s = labelSet{}
		e.vals[v] = s
		e.ptrOK[v] = mayHoldPointer(v.Type())
		fnn := ""
		if v.Parent() != nil {
			fnn = fnKey(v.Parent()) + ":"
		}
		e.own(s, "v:"+fnn+v.Name())
	}
	return s
}

func (e *ffEngine) cell(k string) labelSet {
	s := e.cells[k]
	if s == nil {
		s = labelSet{}
		e.cells[k] = s
		e.own(s, "cell:"+k)
	}
	return s
}

// flowV: src -> value v; "@" labels are kept only if v's type can hold a pointer.
func (e *ffEngine) flowV(v ssa.Value, src labelSet, mask uint8) {
	dst := e.val(v)
	e.flowS(dst, src, mask, e.ptrOK[v])
}

// selfLabel: the label of source field idx of xt, or -1.
func (e *ffEngine) selfLabel(xt types.Type, idx int) lab {
	if k, named, _ := fieldKey(xt, idx); named != nil && e.cfg.IsSource != nil && e.cfg.IsSource(named) {
		return internLab(k)
	}
	return -1
}

// flowExcept: like flowV but leaves label skip out. A read of source field k
// yields, by definition, k unaltered: what the flow-insensitive memory cells
// (or the labels riding on the object pointer) say about older, possibly
// altered, copies of k does not change that; sourceField adds k itself.
func (e *ffEngine) flowExcept(v ssa.Value, src labelSet, mask uint8, skip lab) {
	if skip < 0 {
		e.flowV(v, src, mask)
		return
	}
	if _, has := src[skip]; !has {
		e.flowV(v, src, mask)
		return
	}
	tmp := make(labelSet, len(src))
	for l, b := range src {
		if l != skip {
			tmp[l] = b
		}
	}
	e.flowS(e.val(v), tmp, mask, e.ptrOK[v])
}

// flowC: src -> memory cell (keeps "@" labels: memory may hold pointers).
func (e *ffEngine) flowC(cell string, src labelSet, mask uint8) {
	e.flowS(e.cell(cell), src, mask, true)
}

func (e *ffEngine) flowS(dst labelSet, src labelSet, mask uint8, addr bool) {
	for l, b := range src {
		if !addr && l.isAddr() {
			continue
		}
		old, had := dst[l]
		if dst.add(l, b&mask) {
			e.change = true
			if debugUDrop != "" && had && old&bitU != 0 && dst[l]&bitU == 0 && l.String() == debugUDrop {
				fmt.Printf("   udrop %s: in %s from %s (bits %d mask %d)\n", debugUDrop, e.owner[setID(dst)], e.owner[setID(src)], b, mask)
			}
			if !had && !l.isAddr() {
				e.note(dst, src, l)
			}
		}
	}
}

var debugUDrop = os.Getenv("GWUDROP")

func (e *ffEngine) allocLab(v ssa.Value) lab {
	if n, ok := e.allocN[v]; ok {
		return n
	}
	allocCounter++
	n := internLab(fmt.Sprintf("@%d", allocCounter))
	e.allocN[v] = n
	return n
}

// fieldKey returns "pkg.T.f" for a field selection on x (struct or pointer to
// struct) and the named type, if the struct type is named.
func fieldKey(xt types.Type, idx int) (key string, named *types.Named, ft types.Type) {
	t := xt
	if p, ok := t.Underlying().(*types.Pointer); ok {
		t = p.Elem()
	}
	named = namedOf(t)
	st, ok := t.Underlying().(*types.Struct)
	if !ok || idx >= st.NumFields() {
		return "", nil, nil
	}
	f := st.Field(idx)
	if named != nil {
		return typeLabel(named) + "." + f.Name(), named, f.Type()
	}
	return "anon." + f.Name(), nil, f.Type()
}

// rootCells: the allocation cells an address/pointer value may denote.
func (e *ffEngine) rootCells(addr ssa.Value) []string {
	var out []string
	for l := range e.val(addr) {
		if l.isAddr() {
			out = append(out, l.String())
		}
	}
	return out
}

// storeCells: where a store through addr writes.
func (e *ffEngine) storeCells(addr ssa.Value) []string {
	switch a := addr.(type) {
	case *ssa.FieldAddr:
		k, named, _ := fieldKey(a.X.Type(), a.Field)
		if named == nil || !inModuleType(named) {
			// anonymous structs and struct types of other packages (xml.Name,
			// xml.StartElement, url.URL, ...) are used for unrelated purposes
			// all over the program: abstract them per allocation, not per type.
			var out []string
			for _, r := range e.rootCells(a.X) {
				out = append(out, r+"."+k)
			}
			if len(out) == 0 {
				out = append(out, "F:"+k)
			}
			return out
		}
		return []string{"F:" + k}
	case *ssa.Global:
		return []string{"G:" + a.String()}
	}
	out := e.rootCells(addr)
	if len(out) == 0 {
		out = append(out, "T:"+addr.Type().String())
	}
	return out
}

// loadCells: what a load through addr may read. A field load additionally
// sees whole-struct stores into the allocation the field belongs to.
func (e *ffEngine) loadCells(addr ssa.Value) []string {
	out := e.storeCells(addr)
	if _, ok := addr.(*ssa.FieldAddr); ok {
		out = append(out, e.rootCells(addr)...)
	}
	return out
}

func inModuleType(n *types.Named) bool {
	if n.Obj().Pkg() == nil {
		return false
	}
	pp := n.Obj().Pkg().Path()
	return pp == modulePath || strings.HasPrefix(pp, modulePath+"/")
}

func isFlagLike(t types.Type) bool {
	switch u := t.Underlying().(type) {
	case *types.Basic:
		return u.Kind() == types.Bool
	case *types.Pointer:
		return true
	}
	return false
}

// condFlagLabels: the flag-like labels with a call-free derivation on cond.
func (e *ffEngine) condFlagLabels(cond ssa.Value, out labelSet) {
	// presence test of a pointer: `x == nil` / `x != nil`
	if bin, ok := cond.(*ssa.BinOp); ok && (bin.Op == token.EQL || bin.Op == token.NEQ) {
		var x ssa.Value
		if isNilConst(bin.Y) {
			x = bin.X
		} else if isNilConst(bin.X) {
			x = bin.Y
		}
		if x != nil {
			for l, bits := range e.val(x) {
				if bits&bitN != 0 && !l.isAddr() && e.flag[l] {
					out.add(l, bitN)
				}
			}
			return
		}
	}
	// any call-free condition over a boolean field
	for l, bits := range e.val(cond) {
		if bits&bitN == 0 || l.isAddr() || !e.flagBool[l] {
			continue
		}
		out.add(l, bitN) // control flow never counts as "unaltered"
	}
}

// ctrlLabels returns the flag-like labels of the conditions the block is
// (transitively) control dependent on.
func (e *ffEngine) ctrlLabels(fn *ssa.Function, b *ssa.BasicBlock) labelSet {
	deps := e.ctrl[fn][b]
	if len(deps) == 0 {
		return nil
	}
	out := labelSet{}
	for _, d := range deps {
		if cond := ifCond(d.Branch); cond != nil {
			e.condFlagLabels(cond, out)
		}
	}
	return out
}

func (e *ffEngine) record(fn *ssa.Function, sink string, pos token.Pos, labels labelSet, extra labelSet) {
	key := sink + "|" + fnKey(fn) + "|" + fmt.Sprint(int(pos))
	ev := e.events[key]
	if ev == nil {
		ev = &ffSinkEvent{Sink: sink, Pos: pos, Fn: fn, Labels: labelSet{}, Data: labelSet{}}
		e.events[key] = ev
		e.own(ev.Labels, "sink:"+key)
		e.own(ev.Data, "sinkdata:"+key)
		e.change = true
	}
	if labels != nil {
		e.flowS(ev.Labels, labels, bitN|bitU, false)
		e.flowS(ev.Data, labels, bitN|bitU, false)
	}
	if extra != nil {
		e.flowS(ev.Labels, extra, bitN, false)
	}
}

func (e *ffEngine) sourceField(x ssa.Value, xt types.Type, idx int, pos token.Pos) {
	k, named, ft := fieldKey(xt, idx)
	if named != nil && e.cfg.IsSource != nil && e.cfg.IsSource(named) {
		if _, ok := e.reads[k]; !ok && usedAsRead(x) {
			e.reads[k] = pos
		}
		id := internLab(k)
		if isFlagLike(ft) {
			e.flag[id] = true
			if _, isBool := ft.Underlying().(*types.Basic); isBool {
				e.flagBool[id] = true
			}
		}
		if e.val(x).add(id, bitN|bitU) {
			e.change = true
		}
	}
}

func (e *ffEngine) step(fn *ssa.Function, b *ssa.BasicBlock, in ssa.Instruction) {
	const all = bitN | bitU
	switch x := in.(type) {
	case *ssa.Alloc:
		if e.val(x).add(e.allocLab(x), all) {
			e.change = true
		}
	case *ssa.MakeSlice:
		if e.val(x).add(e.allocLab(x), all) {
			e.change = true
		}
	case *ssa.MakeMap:
		if e.val(x).add(e.allocLab(x), all) {
			e.change = true
		}
	case *ssa.MakeChan:
		if e.val(x).add(e.allocLab(x), all) {
			e.change = true
		}
	case *ssa.FieldAddr:
		e.flowExcept(x, e.val(x.X), all, e.selfLabel(x.X.Type(), x.Field))
		e.sourceField(x, x.X.Type(), x.Field, x.Pos())
	case *ssa.Field:
		self := e.selfLabel(x.X.Type(), x.Field)
		e.flowExcept(x, e.val(x.X), all, self)
		e.sourceField(x, x.X.Type(), x.Field, x.Pos())
		if k, named, _ := fieldKey(x.X.Type(), x.Field); named != nil && inModuleType(named) {
			e.flowExcept(x, e.cell("F:"+k), all, self)
		}
	case *ssa.IndexAddr:
		e.flowV(x, e.val(x.X), all)
	case *ssa.Index:
		e.flowV(x, e.val(x.X), all)
	case *ssa.Lookup:
		e.flowV(x, e.val(x.X), all)
		for _, c := range e.rootCells(x.X) {
			e.flowV(x, e.cell(c), all)
		}
	case *ssa.UnOp:
		switch x.Op {
		case token.MUL, token.ARROW: // load / receive
			e.flowV(x, e.val(x.X), all)
			// A read of source field k yields, by definition, k unaltered:
			// what the flow-insensitive memory cells say about older
			// (possibly altered) copies of k stored into the same object
			// does not change that.
			self := lab(-1)
			if fa, ok := x.X.(*ssa.FieldAddr); ok && x.Op == token.MUL {
				self = e.selfLabel(fa.X.Type(), fa.Field)
			}
			for _, c := range e.loadCells(x.X) {
				e.flowExcept(x, e.cell(c), all, self)
			}
			if x.Op == token.MUL {
				// whole-struct load: include the (shallow) field cells
				if st, ok := x.Type().Underlying().(*types.Struct); ok {
					if n := namedOf(x.Type()); n != nil && inModuleType(n) {
						tl := typeLabel(n)
						for i := 0; i < st.NumFields(); i++ {
							e.flowV(x, e.cell("F:"+tl+"."+st.Field(i).Name()), all)
						}
					}
				}
			}
		default:
			e.flowV(x, e.val(x.X), bitN)
		}
	case *ssa.BinOp:
		e.flowV(x, e.val(x.X), bitN)
		e.flowV(x, e.val(x.Y), bitN)
	case *ssa.Convert:
		e.flowV(x, e.val(x.X), all)
	case *ssa.ChangeType:
		e.flowV(x, e.val(x.X), all)
	case *ssa.ChangeInterface:
		e.flowV(x, e.val(x.X), all)
	case *ssa.MakeInterface:
		e.flowV(x, e.val(x.X), all)
	case *ssa.SliceToArrayPointer:
		e.flowV(x, e.val(x.X), all)
	case *ssa.TypeAssert:
		e.flowV(x, e.val(x.X), all)
	case *ssa.Slice:
		e.flowV(x, e.val(x.X), all)
	case *ssa.Extract:
		if call, ok := x.Tuple.(*ssa.Call); ok {
			if per := e.callResultPer(call); per != nil {
				if x.Index < len(per) {
					e.flowV(x, per[x.Index], all)
				}
				return
			}
		}
		e.flowV(x, e.val(x.Tuple), all)
	case *ssa.Phi:
		for i, ed := range x.Edges {
			e.flowV(x, e.val(ed), all)
			if i < len(b.Preds) {
				if cl := e.ctrlLabels(fn, b.Preds[i]); cl != nil {
					e.flowV(x, cl, bitN)
				}
				if c := ifCond(b.Preds[i]); c != nil {
					tmp := labelSet{}
					e.condFlagLabels(c, tmp)
					e.flowV(x, tmp, bitN)
				}
			}
		}
	case *ssa.Range:
		e.flowV(x, e.val(x.X), all)
		for _, c := range e.rootCells(x.X) {
			e.flowV(x, e.cell(c), all)
		}
	case *ssa.Next:
		e.flowV(x, e.val(x.Iter), all)
	case *ssa.MakeClosure:
		cf := x.Fn.(*ssa.Function)
		for i, bnd := range x.Bindings {
			e.flowV(x, e.val(bnd), all)
			if e.scope[cf] && i < len(cf.FreeVars) {
				e.flowV(cf.FreeVars[i], e.val(bnd), all)
			}
		}
	case *ssa.Store:
		e.store(fn, b, x.Addr, x.Val, x.Pos())
	case *ssa.MapUpdate:
		cl := e.ctrlLabels(fn, b)
		for _, c := range e.rootCells(x.Map) {
			e.flowC(c, e.val(x.Key), all)
			e.flowC(c, e.val(x.Value), all)
			if cl != nil {
				e.flowC(c, cl, bitN)
			}
		}
	case *ssa.Send:
		for _, c := range e.rootCells(x.Chan) {
			e.flowC(c, e.val(x.X), all)
		}
	case *ssa.Return:
		cl := e.ctrlLabels(fn, b)
		rs := e.rets[fn]
		for i, r := range x.Results {
			if i < len(rs) {
				e.flowS(rs[i], e.val(r), all, true)
				if cl != nil {
					// across the function boundary a control-derived label no
					// longer counts as call-free: it must not seed further
					// control dependences in callers (`if err != nil`).
					e.flowS(rs[i], cl, 0, false)
				}
			}
		}
	case *ssa.Call:
		e.call(fn, b, x, x)
	case *ssa.Defer:
		e.call(fn, b, x, nil)
	case *ssa.Go:
		e.call(fn, b, x, nil)
	}
}

func (e *ffEngine) store(fn *ssa.Function, b *ssa.BasicBlock, addr, v ssa.Value, pos token.Pos) {
	const all = bitN | bitU
	cl := e.ctrlLabels(fn, b)
	src := e.val(v)
	if fa, ok := addr.(*ssa.FieldAddr); ok {
		k, named, _ := fieldKey(fa.X.Type(), fa.Field)
		if named != nil && e.cfg.IsSink != nil && e.cfg.IsSink(named) {
			if _, ok := e.stores[k]; !ok {
				e.stores[k] = pos
			}
			e.record(fn, k, pos, src, cl)
			// a stored slice/pointer brings the memory it points to
			if pointerLike(v.Type()) {
				for _, c := range e.rootCells(v) {
					e.record(fn, k, pos, e.cell(c), nil)
				}
			}
		}
	}
	for _, c := range e.storeCells(addr) {
		e.flowC(c, src, all)
		if cl != nil {
			e.flowC(c, cl, bitN)
		}
	}
}

// targets returns the in-scope callees of a call site.
func (e *ffEngine) targets(site ssa.CallInstruction) []*ssa.Function {
	var out []*ssa.Function
	cc := site.Common()
	if f := cc.StaticCallee(); f != nil {
		if e.scope[f] {
			out = append(out, f)
		}
		return out
	}
	for _, ed := range e.c.CG().Out[site.Parent()] {
		// reflection and closure-creation edges carry no argument binding
		if ed.Site == site && e.scope[ed.Callee] && (ed.Kind == "static" || ed.Kind == "dynamic") {
			out = append(out, ed.Callee)
		}
	}
	return out
}

// callResultPer returns per-result-index labels when the callee is static and
// in scope (so Extract can be index-precise); nil otherwise.
func (e *ffEngine) callResultPer(call *ssa.Call) []labelSet {
	f := call.Common().StaticCallee()
	if f == nil || !e.scope[f] {
		return nil
	}
	return e.rets[f]
}

func (e *ffEngine) call(fn *ssa.Function, b *ssa.BasicBlock, site ssa.CallInstruction, res *ssa.Call) {
	const all = bitN | bitU
	cc := site.Common()
	args := cc.Args
	var allArgs []ssa.Value
	if cc.IsInvoke() {
		allArgs = append(allArgs, cc.Value)
	}
	allArgs = append(allArgs, args...)

	// designated sinks
	if e.cfg.CallSink != nil {
		if m := e.cfg.CallSink(site); m != nil {
			cl := e.ctrlLabels(fn, b)
			for idx, name := range m {
				if idx < len(allArgs) {
					e.record(fn, name, site.Pos(), e.val(allArgs[idx]), cl)
					// contents of the memory the argument points to
					for _, c := range e.rootCells(allArgs[idx]) {
						e.record(fn, name, site.Pos(), e.cell(c), nil)
					}
				}
			}
		}
	}
	// builtins
	if bi, ok := cc.Value.(*ssa.Builtin); ok {
		if bi.Name() == "copy" && len(args) == 2 {
			// (a statement: its effect is on the destination's memory)
			for _, d := range e.rootCells(args[0]) {
				e.flowC(d, e.val(args[1]), all)
				for _, c := range e.rootCells(args[1]) {
					e.flowC(d, e.cell(c), all)
				}
			}
		}
		if res == nil {
			return
		}
		switch bi.Name() {
		case "append":
			for _, a := range args {
				e.flowV(res, e.val(a), all)
			}
		case "len", "cap":
			for _, a := range args {
				e.flowV(res, e.val(a), bitN)
			}
		case "copy":
			if len(args) == 2 {
				for _, d := range e.rootCells(args[0]) {
					e.flowC(d, e.val(args[1]), all)
					for _, c := range e.rootCells(args[1]) {
						e.flowC(d, e.cell(c), all)
					}
				}
			}
		default:
			for _, a := range args {
				e.flowV(res, e.val(a), bitN)
			}
		}
		return
	}

	ts := e.targets(site)
	static := cc.StaticCallee()
	for _, t := range ts {
		// bind parameters (context-insensitive)
		params := t.Params
		for i, a := range allArgs {
			if i < len(params) {
				e.flowV(params[i], e.val(a), all)
			}
		}
		if res != nil {
			for _, r := range e.rets[t] {
				e.flowV(res, r, all)
			}
		}
	}
	if len(ts) > 0 {
		// resolved to module code (statically, or through the call graph for
		// interface and closure calls): the callee bodies are analysed, no
		// generic fallback is applied.
		return
	}
	// dynamic call of a function value: what the closure captured flows to
	// the result.
	if !cc.IsInvoke() && static == nil && res != nil {
		e.flowV(res, e.val(cc.Value), 0)
	}
	// designated source call
	if res != nil && e.cfg.CallSource != nil {
		if l := e.cfg.CallSource(site); l != "" {
			if _, ok := e.reads[l]; !ok {
				e.reads[l] = site.Pos()
			}
			if e.val(res).add(internLab(l), all) {
				e.change = true
			}
		}
	}
	if e.cfg.CutCall != nil && e.cfg.CutCall(site) {
		return
	}
	// external (or unresolved) callee: everything it is given (and the memory
	// directly behind pointer arguments) may flow into its result and into
	// the memory behind its pointer-like arguments. Neither call-free nor
	// unaltered.
	in := e.extIn[site]
	if in == nil {
		in = labelSet{}
		e.extIn[site] = in
		e.own(in, "ext:"+calleeName(cc)+"@"+e.c.P.instrPos(site))
	}
	for _, a := range allArgs {
		e.flowS(in, e.val(a), 0, false)
		if pointerLike(a.Type()) {
			for _, c := range e.rootCells(a) {
				e.flowS(in, e.cell(c), 0, false)
			}
		}
	}
	if res != nil {
		e.flowV(res, in, 0)
		// a pointer-like result may be memory of its own (sync.Pool.Get,
		// a constructor): what is later written behind it stays there
		if mayHoldPointer(res.Type()) {
			if e.val(res).add(e.allocLab(res), 0) {
				e.change = true
			}
		}
		// aliasing: a pointer-like result may alias pointer-like arguments
		if mayHoldPointer(res.Type()) {
			for _, a := range allArgs {
				if pointerLike(a.Type()) {
					for l := range e.val(a) {
						if l.isAddr() {
							if e.val(res).add(l, 0) {
								e.change = true
							}
						}
					}
				}
			}
		}
	}
	if e.cfg.OutParams && len(in) > 0 {
		for _, a := range allArgs {
			if !pointerLike(a.Type()) {
				continue
			}
			for _, c := range e.rootCells(a) {
				e.flowC(c, in, 0)
			}
		}
	}
}

// usedAsRead: a field address counts as a read unless its only uses are as
// the target of stores.
func usedAsRead(v ssa.Value) bool {
	fa, ok := v.(*ssa.FieldAddr)
	if !ok {
		return true
	}
	for _, r := range *fa.Referrers() {
		if st, ok := r.(*ssa.Store); ok && st.Addr == fa {
			continue
		}
		return true
	}
	return false
}

func pointerLike(t types.Type) bool {
	switch t.Underlying().(type) {
	case *types.Pointer, *types.Slice, *types.Map, *types.Interface, *types.Chan, *types.Signature:
		return true
	}
	return false
}

// ---------------------------------------------------------------------------
// helpers for rules

// wireStruct: a struct type declared in the module with at least one xml tag.
func isWireStruct(n *types.Named) bool {
	if n == nil || n.Obj().Pkg() == nil {
		return false
	}
	pp := n.Obj().Pkg().Path()
	if pp != modulePath && !strings.HasPrefix(pp, modulePath+"/") {
		return false
	}
	st, ok := n.Underlying().(*types.Struct)
	if !ok {
		return false
	}
	for i := 0; i < st.NumFields(); i++ {
		if strings.Contains(st.Tag(i), `xml:"`) {
			return true
		}
	}
	return false
}

// typeClosure: the named struct types reachable from the roots through field
// types (pointers, slices, arrays, maps), restricted by keep.
func typeClosure(roots []*types.Named, keep func(*types.Named) bool) []*types.Named {
	seen := map[*types.Named]bool{}
	var out []*types.Named
	var visit func(t types.Type)
	visit = func(t types.Type) {
		switch x := t.(type) {
		case *types.Pointer:
			visit(x.Elem())
		case *types.Slice:
			visit(x.Elem())
		case *types.Array:
			visit(x.Elem())
		case *types.Map:
			visit(x.Elem())
		case *types.Alias:
			visit(types.Unalias(x))
		case *types.Named:
			if seen[x] {
				return
			}
			if _, ok := x.Underlying().(*types.Struct); !ok {
				return
			}
			if keep != nil && !keep(x) {
				return
			}
			seen[x] = true
			out = append(out, x)
			st := x.Underlying().(*types.Struct)
			for i := 0; i < st.NumFields(); i++ {
				visit(st.Field(i).Type())
			}
		}
	}
	for _, r := range roots {
		if r != nil {
			visit(r)
		}
	}
	sort.Slice(out, func(i, j int) bool { return typeLabel(out[i]) < typeLabel(out[j]) })
	return out
}

func namedSet(ns []*types.Named) func(*types.Named) bool {
	m := map[*types.Named]bool{}
	for _, n := range ns {
		m[n] = true
	}
	return func(n *types.Named) bool { return m[n] }
}

// fieldsOf lists "pkg.T.f" for the fields of n (exportedOnly: only exported;
// XMLName is always skipped).
func fieldsOf(n *types.Named, exportedOnly bool) []string {
	st, ok := n.Underlying().(*types.Struct)
	if !ok {
		return nil
	}
	var out []string
	for i := 0; i < st.NumFields(); i++ {
		f := st.Field(i)
		if f.Name() == "XMLName" {
			continue
		}
		if exportedOnly && !f.Exported() {
			continue
		}
		out = append(out, typeLabel(n)+"."+f.Name())
	}
	return out
}

func sortedKeys(m map[string]bool) []string {
	var out []string
	for k := range m {
		out = append(out, k)
	}
	sort.Strings(out)
	return out
}

func labelNames(s labelSet) []string {
	var out []string
	for l := range s {
		if !l.isAddr() {
			out = append(out, l.String())
		}
	}
	sort.Strings(out)
	return out
}
