package main

// E4 cfgrules — small path rules on SSA blocks and the dominator tree.

import (
	"fmt"
	"go/constant"
	"go/token"
	"go/types"
	"strings"

	"golang.org/x/tools/go/ssa"
)

// accessPath renders a canonical root+selector path for a value, so that the
// two loads in `if p.X != nil { p.X.Y }` (go/ssa does no CSE) compare equal.
// ok=false when the value is not a pure path from a stable root.
func accessPath(v ssa.Value) (string, bool) {
	var parts []string
	for i := 0; i < 32; i++ {
		switch x := v.(type) {
		case *ssa.UnOp:
			if x.Op != token.MUL {
				return "", false
			}
			parts = append(parts, "*")
			v = x.X
		case *ssa.FieldAddr:
			parts = append(parts, "."+fieldName(x.X.Type(), x.Field))
			v = x.X
		case *ssa.Field:
			parts = append(parts, "."+fieldName(x.X.Type(), x.Field))
			v = x.X
		case *ssa.IndexAddr:
			if c, ok := constInt(x.Index); ok {
				parts = append(parts, fmt.Sprintf("[%d]", c))
			} else {
				parts = append(parts, "["+x.Index.Name()+"]")
			}
			v = x.X
		case *ssa.ChangeType:
			v = x.X
		case *ssa.Parameter, *ssa.FreeVar, *ssa.Alloc, *ssa.Global:
			root := x.Name()
			if a, ok := x.(*ssa.Alloc); ok {
				root = fmt.Sprintf("alloc%p", a)
			}
			var sb strings.Builder
			sb.WriteString(root)
			for j := len(parts) - 1; j >= 0; j-- {
				sb.WriteString(parts[j])
			}
			// normalise "&x.f" then "*" pairs: a load of a field address is
			// the field value
			return sb.String(), true
		default:
			// any other SSA value (call result, phi, extract): the value
			// itself is the root
			var sb strings.Builder
			sb.WriteString(fmt.Sprintf("%s@%p", v.Name(), v))
			for j := len(parts) - 1; j >= 0; j-- {
				sb.WriteString(parts[j])
			}
			return sb.String(), true
		}
	}
	return "", false
}

// nilTests lists, for function fn, the (path, If block, edge on which the
// path is non-nil).
type nilTest struct {
	path    string
	val     ssa.Value
	ifBlock *ssa.BasicBlock
	nonNil  int // successor index on which the value is non-nil
}

func nilTestsOf(fn *ssa.Function) []nilTest {
	var out []nilTest
	for _, b := range fn.Blocks {
		if len(b.Instrs) == 0 {
			continue
		}
		iff, ok := b.Instrs[len(b.Instrs)-1].(*ssa.If)
		if !ok {
			continue
		}
		if arg, nn, ok := nilPredicateTest(iff.Cond); ok {
			if ap, ok := accessPath(arg); ok {
				out = append(out, nilTest{ap, arg, b, nn})
			} else {
				out = append(out, nilTest{"", arg, b, nn})
			}
			continue
		}
		bin, ok := iff.Cond.(*ssa.BinOp)
		if !ok || (bin.Op != token.NEQ && bin.Op != token.EQL) {
			continue
		}
		var w ssa.Value
		if isNilConst(bin.Y) {
			w = bin.X
		} else if isNilConst(bin.X) {
			w = bin.Y
		} else {
			continue
		}
		p, ok := accessPath(w)
		if !ok {
			continue
		}
		nn := 0
		if bin.Op == token.EQL {
			nn = 1
		}
		out = append(out, nilTest{p, w, b, nn})
	}
	return out
}

// guardedNonNil: is value v known non-nil at block at, by a dominating nil
// test of the same access path (or the very same SSA value)?
func guardedNonNil(tests []nilTest, v ssa.Value, at *ssa.BasicBlock) bool {
	p, ok := accessPath(v)
	for _, t := range tests {
		if t.val != v && !(ok && t.path == p) {
			continue
		}
		if edgeDominates(t.ifBlock, t.nonNil, at) {
			return true
		}
	}
	return false
}

// lenFacts: dominating facts about len(path).
type lenTest struct {
	path    string
	val     ssa.Value // the slice value whose len is tested
	ifBlock *ssa.BasicBlock
	op      token.Token // comparison with constant k, normalised to len OP k
	k       int64
}

func flipCmp(op token.Token) token.Token {
	switch op {
	case token.LSS:
		return token.GTR
	case token.GTR:
		return token.LSS
	case token.LEQ:
		return token.GEQ
	case token.GEQ:
		return token.LEQ
	}
	return op
}

func negCmp(op token.Token) token.Token {
	switch op {
	case token.EQL:
		return token.NEQ
	case token.NEQ:
		return token.EQL
	case token.LSS:
		return token.GEQ
	case token.GEQ:
		return token.LSS
	case token.GTR:
		return token.LEQ
	case token.LEQ:
		return token.GTR
	}
	return op
}

func lenTestsOf(fn *ssa.Function) []lenTest {
	var out []lenTest
	for _, b := range fn.Blocks {
		if len(b.Instrs) == 0 {
			continue
		}
		iff, ok := b.Instrs[len(b.Instrs)-1].(*ssa.If)
		if !ok {
			continue
		}
		bin, ok := iff.Cond.(*ssa.BinOp)
		if !ok {
			continue
		}
		lenOf := func(v ssa.Value) ssa.Value {
			c, ok := v.(*ssa.Call)
			if !ok {
				return nil
			}
			if bi, ok := c.Call.Value.(*ssa.Builtin); ok && bi.Name() == "len" && len(c.Call.Args) == 1 {
				return c.Call.Args[0]
			}
			return nil
		}
		op := bin.Op
		var sl ssa.Value
		var k int64
		if s := lenOf(bin.X); s != nil {
			if c, ok := constInt(bin.Y); ok {
				sl, k = s, c
			}
		} else if s := lenOf(bin.Y); s != nil {
			if c, ok := constInt(bin.X); ok {
				sl, k = s, c
				op = flipCmp(op)
			}
		}
		if sl == nil {
			continue
		}
		p, _ := accessPath(sl)
		out = append(out, lenTest{p, sl, b, op, k})
	}
	return out
}

// impliesLenGreater: does "len OP k" imply len > idx ?
func impliesLenGreater(op token.Token, k, idx int64) bool {
	switch op {
	case token.EQL:
		return k > idx
	case token.GTR:
		return k >= idx
	case token.GEQ:
		return k > idx
	case token.NEQ:
		return k == 0 && idx == 0 // len != 0  =>  len > 0
	}
	return false
}

func guardedIndex(tests []lenTest, sl ssa.Value, idx int64, at *ssa.BasicBlock) bool {
	p, ok := accessPath(sl)
	for _, t := range tests {
		if t.val != sl && !(ok && t.path != "" && t.path == p) {
			continue
		}
		if impliesLenGreater(t.op, t.k, idx) && edgeDominates(t.ifBlock, 0, at) {
			return true
		}
		if impliesLenGreater(negCmp(t.op), t.k, idx) && edgeDominates(t.ifBlock, 1, at) {
			return true
		}
	}
	return false
}

// explicitPanics lists the explicit panic(...) statements of fn.
func explicitPanics(fn *ssa.Function) []*ssa.Panic {
	var out []*ssa.Panic
	eachInstr(fn, func(_ *ssa.BasicBlock, in ssa.Instruction) {
		if p, ok := in.(*ssa.Panic); ok {
			out = append(out, p)
		}
	})
	return out
}

// resultChecked: for a call returning (..., error), is every use of its
// non-error results dominated by the nil edge of a test of its error?
// Returns the offending uses.
func uncheckedUses(call *ssa.Call) (errVal ssa.Value, bad []ssa.Instruction, dropped bool) {
	sig := call.Call.Signature()
	ei := errorResultIndex(sig)
	if ei < 0 {
		return nil, nil, false
	}
	n := sig.Results().Len()
	var others []ssa.Value
	if n == 1 {
		errVal = call
	} else {
		for _, r := range *call.Referrers() {
			if ex, ok := r.(*ssa.Extract); ok {
				if ex.Index == ei {
					errVal = ex
				} else {
					others = append(others, ex)
				}
			}
		}
	}
	if errVal == nil {
		// error result never extracted: dropped
		return nil, nil, true
	}
	if len(*errVal.Referrers()) == 0 {
		return errVal, nil, true
	}
	for _, o := range others {
		for _, u := range *o.Referrers() {
			if _, ok := u.(*ssa.DebugRef); ok {
				continue
			}
			if phi, ok := u.(*ssa.Phi); ok {
				// the value arrives over the edge(s) from specific predecessors
				okAll := true
				for i, e := range phi.Edges {
					if e != o {
						continue
					}
					pred := phi.Block().Preds[i]
					if !knownNilAt(errVal, pred) && !nilEdgeIs(errVal, pred, phi.Block()) {
						okAll = false
					}
				}
				if !okAll {
					bad = append(bad, u)
				}
				continue
			}
			if !knownNilAt(errVal, u.Block()) && !errReturnedWith(errVal, u) && !storedIntoObjectDroppedOnError(errVal, call.Block(), u, o) {
				bad = append(bad, u)
			}
		}
	}
	return errVal, bad, false
}

// storedIntoObjectDroppedOnError: `obj.field, err = parse(s)` — the result is
// stored into a field of an object allocated in this function before the
// error is tested. That is no use of the value as long as the object leaves
// the function (returned, passed on, stored) and the field is read only where
// the error is known to be nil: on failure the object is dropped.
func storedIntoObjectDroppedOnError(errVal ssa.Value, callBlock *ssa.BasicBlock, u ssa.Instruction, val ssa.Value) bool {
	safeAt := func(b *ssa.BasicBlock) bool {
		return knownNilAt(errVal, b) || failureCannotReach(errVal, callBlock, b)
	}
	st, ok := u.(*ssa.Store)
	if !ok || st.Val != val {
		return false
	}
	fa, ok := st.Addr.(*ssa.FieldAddr)
	if !ok {
		return false
	}
	al, ok := fa.X.(*ssa.Alloc)
	if !ok {
		return false
	}
	for _, ref := range refsOf(al) {
		switch x := ref.(type) {
		case *ssa.DebugRef:
		case *ssa.FieldAddr:
			for _, r2 := range refsOf(x) {
				switch y := r2.(type) {
				case *ssa.Store:
					if y.Addr != ssa.Value(x) {
						return false // the field's address stored somewhere
					}
				case *ssa.UnOp:
					if x.Field == fa.Field && !safeAt(y.Block()) {
						return false // the field is read where the parse may have failed
					}
				case *ssa.DebugRef:
				default:
					if x.Field == fa.Field {
						return false
					}
				}
			}
		default:
			// the object itself leaves the function here
			if !safeAt(ref.Block()) {
				return false
			}
		}
	}
	return true
}

// errTests lists the If blocks testing v against nil, with the successor
// index taken when v is nil.
func errTests(v ssa.Value) (out []struct {
	blk     *ssa.BasicBlock
	nilEdge int
}) {
	for _, ref := range refsOf(v) {
		bin, ok := ref.(*ssa.BinOp)
		if !ok || (bin.Op != token.NEQ && bin.Op != token.EQL) {
			continue
		}
		other := bin.Y
		if other == v {
			other = bin.X
		}
		if !isNilConst(other) {
			continue
		}
		for _, r2 := range *bin.Referrers() {
			if iff, ok := r2.(*ssa.If); ok {
				ne := 1
				if bin.Op == token.EQL {
					ne = 0
				}
				out = append(out, struct {
					blk     *ssa.BasicBlock
					nilEdge int
				}{iff.Block(), ne})
			}
		}
	}
	return
}

// nilEdgeIs: the CFG edge from→to is the nil edge of a test of v.
func nilEdgeIs(v ssa.Value, from, to *ssa.BasicBlock) bool {
	for _, t := range errTests(v) {
		if t.blk == from && from.Succs[t.nilEdge] == to && from.Succs[1-t.nilEdge] != to {
			return true
		}
	}
	return false
}

// failureCannotReach: after the call producing errVal (in callBlock), block
// target can only be reached through the nil edge of a test of errVal.
func failureCannotReach(errVal ssa.Value, callBlock, target *ssa.BasicBlock) bool {
	tests := errTests(errVal)
	if len(tests) == 0 {
		return false
	}
	for _, t := range tests {
		// (A) every path from the call to target passes the test block
		if callBlock != t.blk {
			if reachableAvoiding(callBlock, t.blk)[target] || callBlock == target {
				continue
			}
		}
		// (B) target is not reachable from the non-nil successor without
		// coming back through the call
		nn := t.blk.Succs[1-t.nilEdge]
		if nn == target || reachableAvoiding(nn, callBlock)[target] {
			continue
		}
		return true
	}
	return false
}

// errReturnedWith: the use is a Return (or flows only into a Return) that
// also returns the error value itself: `return t == etag, err`.
func errReturnedWith(errVal ssa.Value, u ssa.Instruction) bool {
	var ret *ssa.Return
	switch x := u.(type) {
	case *ssa.Return:
		ret = x
	case ssa.Value:
		for _, r := range *x.Referrers() {
			if rr, ok := r.(*ssa.Return); ok {
				ret = rr
			} else if _, ok := r.(*ssa.DebugRef); !ok {
				return false
			}
		}
	}
	if ret == nil {
		return false
	}
	for _, r := range ret.Results {
		if r == errVal {
			return true
		}
	}
	// ... or together with another (wrapping, relabelling) error, on the path
	// where the parse error is known to be non-nil: `return v, &HTTPError{400, err}`
	if knownNonNilAt(errVal, ret.Block()) {
		for _, r := range ret.Results {
			if isErrorType(r.Type()) && !isNilConst(r) {
				return true
			}
		}
	}
	return false
}

func isNamed(t types.Type, pkg, name string) bool {
	n := namedOf(t)
	return n != nil && n.Obj().Pkg() != nil && n.Obj().Pkg().Path() == pkg && n.Obj().Name() == name
}

// harmlessOnError: a parse whose error is deliberately not tested because its
// value is only ever compared with constants — on failure the value is the
// zero value, which selects the default branch (mime.ParseMediaType in
// isContentXML and in the client's error-body handling). Decided from the
// uses of the value, not from the name of the function it sits in.
func harmlessOnError(call *ssa.Call) (bool, string) {
	if calleeName(call.Common()) != "mime.ParseMediaType" {
		return false, ""
	}
	for _, r := range *call.Referrers() {
		ex, ok := r.(*ssa.Extract)
		if !ok {
			continue
		}
		if ex.Index != 0 {
			// params map and error: must not be used at all (beyond being tested)
			if ex.Index == 1 && len(*ex.Referrers()) > 0 {
				return false, ""
			}
			continue
		}
		var only func(v ssa.Value, depth int) bool
		only = func(v ssa.Value, depth int) bool {
			if depth > 3 {
				return false
			}
			for _, u := range *v.Referrers() {
				switch x := u.(type) {
				case *ssa.DebugRef:
				case *ssa.BinOp:
					other := x.Y
					if other == v {
						other = x.X
					}
					if _, isK := other.(*ssa.Const); !isK || (x.Op != token.EQL && x.Op != token.NEQ) {
						return false
					}
				case *ssa.Call:
					n := calleeName(x.Common())
					// a helper of the library that itself only compares the
					// value with constants
					if callee := x.Common().StaticCallee(); callee != nil && inLib(callee) && len(callee.Blocks) > 0 {
						okAll := true
						for i, a := range x.Common().Args {
							if a == v && i < len(callee.Params) {
								if !only(callee.Params[i], depth+1) {
									okAll = false
								}
							}
						}
						if okAll {
							continue
						}
						return false
					}
					okp := n == "strings.HasPrefix" || n == "strings.HasSuffix" || n == "strings.EqualFold" || n == "strings.Contains"
					if !okp || len(x.Common().Args) != 2 {
						return false
					}
					if _, isK := x.Common().Args[1].(*ssa.Const); !isK || x.Common().Args[0] != v {
						return false
					}
				case *ssa.Phi:
					if !only(x, depth+1) {
						return false
					}
				case *ssa.Return:
					// handed to the caller as a plain string
					return false
				default:
					return false
				}
			}
			return true
		}
		if !only(ex, 0) {
			return false, ""
		}
	}
	return true, "on error the media type is the empty string, which selects the default branch; the value is only compared with constants"
}

// nilPredicateTest recognises a branch on a small module predicate that
// answers a constant for a nil argument (`func (s *Status) isSuccess() bool {
// return s == nil || … }`): on the other answer the argument is non-nil.
// It returns the argument and the successor index on which it is non-nil.
func nilPredicateTest(cond ssa.Value) (ssa.Value, int, bool) {
	neg := false
	if u, ok := cond.(*ssa.UnOp); ok && u.Op == token.NOT {
		neg = true
		cond = u.X
	}
	call, ok := cond.(*ssa.Call)
	if !ok {
		return nil, 0, false
	}
	callee := call.Common().StaticCallee()
	if callee == nil || len(callee.Blocks) == 0 {
		return nil, 0, false
	}
	for i, a := range call.Common().Args {
		if i >= len(callee.Params) {
			break
		}
		if _, isPtr := a.Type().Underlying().(*types.Pointer); !isPtr {
			continue
		}
		c, ok := nilAnswerOf(callee, i)
		if !ok {
			continue
		}
		// the call answers c for nil: non-nil where the answer is !c
		nn := 0 // successor 0 = condition true
		if c != neg {
			nn = 1
		}
		return a, nn, true
	}
	return nil, 0, false
}

var nilAnswerCache = map[*ssa.Parameter]int{} // 0 unknown/none, 1 false, 2 true
var nilAnswerBusy = map[*ssa.Function]bool{}

// nilAnswerOf: the constant a one-result boolean function returns on every
// path on which its i-th (pointer) parameter is nil, if there is one.
func nilAnswerOf(fn *ssa.Function, i int) (bool, bool) {
	prm := fn.Params[i]
	if v, ok := nilAnswerCache[prm]; ok {
		return v == 2, v != 0
	}
	res := fn.Signature.Results()
	if res.Len() != 1 || nilAnswerBusy[fn] {
		return false, false
	}
	if bt, ok := res.At(0).Type().Underlying().(*types.Basic); !ok || bt.Kind() != types.Bool {
		return false, false
	}
	nilAnswerBusy[fn] = true
	defer delete(nilAnswerBusy, fn)
	tests := nilTestsOf(fn)
	seen, val, good := false, false, true
	note := func(v ssa.Value) {
		k, ok := v.(*ssa.Const)
		if !ok || k.Value == nil || k.Value.Kind() != constant.Bool {
			good = false
			return
		}
		c := constant.BoolVal(k.Value)
		if seen && c != val {
			good = false
		}
		seen, val = true, c
	}
	for _, b := range fn.Blocks {
		if fn.Recover != nil && b == fn.Recover {
			continue
		}
		for _, in := range b.Instrs {
			ret, ok := in.(*ssa.Return)
			if !ok || len(ret.Results) != 1 {
				continue
			}
			if guardedNonNil(tests, prm, b) {
				continue
			}
			if phi, ok := ret.Results[0].(*ssa.Phi); ok && phi.Block() == b {
				for j, e := range phi.Edges {
					if guardedNonNil(tests, prm, b.Preds[j]) {
						continue
					}
					note(e)
				}
				continue
			}
			note(ret.Results[0])
		}
	}
	if !good || !seen {
		nilAnswerCache[prm] = 0
		return false, false
	}
	if val {
		nilAnswerCache[prm] = 2
	} else {
		nilAnswerCache[prm] = 1
	}
	return val, true
}
