package main

// Fault exploration of the whole file server: webdav.(*Handler).ServeHTTP with
// FileSystem bound to LocalFileSystem, interpreted abstractly from the SSA of
// the current source. Every OS call is an effect with an outcome atom: ok, or
// one of the errno classes that call can produce, as an abstract error of the
// dynamic type the real call returns (*fs.PathError, *os.LinkError) so that
// errors.As/Is, os.IsExist/IsNotExist and Error() resolve exactly. os.Stat
// outcomes describe the state of the resource (absent, file, collection, …)
// and are consistent within a run until a mutating call succeeds.
//
// Serves: C01.refusal-status (status per method/call/errno against the RFC
// scenario table), C17 (host path in the response text), C02 (failure
// reported after a destructive effect, as a trace property).

import (
	"fmt"
	"go/types"
	"os"
	"sort"
	"strings"

	"golang.org/x/tools/go/ssa"
)

type osOutcome struct {
	Excl    bool   // opened with O_EXCL
	Call    string // os.Stat, os.Rename, ...
	Role    string // target | destination | member[.member|2] | destination.member[.member|2] | other
	Outcome string // ok | file | dir | ENOENT | ...
	Pos     string
	Role2   string // os.Rename: role of the new path
	Trunc   string // os.OpenFile: "trunc" | "keep" | "?" (O_TRUNC in the flags)
}

type fsRun struct {
	Method   string
	Headers  map[string]string
	OS       []osOutcome
	Status   string
	Leak     bool
	LeakText string
	Mutated  []string // destructive effects that succeeded, in order
	Served   bool     // the body was handed to http.ServeContent
	// the atoms that relate the source path to the destination path and how
	// each came out (COPY/MOVE)
	PathRel map[string]string
	Val     string // the whole valuation (for messages)
}

type fsExplorer struct {
	c      *Ctx
	epoch  int
	os     []osOutcome
	nCalls map[string]int
}

var errnoSets = map[string][]string{
	"os.Stat":      {"file", "dir", "ENOENT", "ENOTDIR", "EACCES"},
	"os.Lstat":     {"file", "dir", "ENOENT", "ENOTDIR", "EACCES"},
	"os.Open":      {"ok", "ENOENT", "EACCES", "EIO"},
	"os.Create":    {"ok", "ENOENT", "ENOTDIR", "EISDIR", "EACCES"},
	"os.OpenFile":  {"ok", "ENOENT", "ENOTDIR", "EISDIR", "EACCES"},
	"os.Mkdir":     {"ok", "EEXIST", "ENOENT", "ENOTDIR", "EACCES"},
	"os.Remove":    {"ok", "ENOENT", "EACCES"},
	"os.RemoveAll": {"ok", "EACCES"},
	"os.Rename":    {"ok", "ENOENT", "ENOTDIR", "EINVAL", "EACCES", "ENOTEMPTY"},
	"io.Copy":      {"ok", "read-error", "write-error", "write-ENOSPC"},
	"File.Close":   {"ok", "EIO"},
}

func pathRole(v Val) string {
	k := keyOf(v)
	switch {
	case strings.Contains(k, "member(") || strings.Contains(k, "member2("):
		// which entry below the walked root (a member, a member of that
		// member, a second member), and on which side: the entry itself
		// (source) or its counterpart below the destination
		which := "member"
		if strings.Contains(k, "member2(") {
			which = "member2"
		} else if strings.Contains(k, "member(member(") {
			which = "member.member"
		}
		if strings.Contains(k, "url(header:\"Destination\")") || strings.Contains(k, "destpath") {
			return "destination." + which
		}
		return which
	case strings.Contains(k, "url(header:\"Destination\")") || strings.Contains(k, "destpath"):
		return "destination"
	case strings.Contains(k, "r.URL.Path") || strings.Contains(k, "reqpath"):
		return "target"
	}
	return "other"
}

// osError builds the abstract error value the real call returns.
func (fx *fsExplorer) osError(in *Interp, call, errno string, paths ...Val) Val {
	p := in.c.P
	errnoV := Iface{Dyn: in.errType("errno"), V: &ErrObj{Kind: "errno", Errno: errno, Msg: kStr(errno)}}
	mk := func(pkg, typ string, set func(s Struct, st *types.Struct)) Val {
		t := p.lookupType(pkg, typ)
		if t == nil {
			in.undecided("type %s.%s not loaded", pkg, typ)
		}
		s := zeroOf(t).(Struct)
		set(s, t.Underlying().(*types.Struct))
		return Iface{Dyn: types.NewPointer(t), V: Ptr{&Cell{V: s, T: t}}}
	}
	setField := func(s Struct, st *types.Struct, name string, v Val) {
		for i := 0; i < st.NumFields(); i++ {
			if st.Field(i).Name() == name {
				s.F[i].Set(v)
			}
		}
	}
	op := strings.ToLower(strings.TrimPrefix(call, "os."))
	if call == "os.Rename" {
		return mk("os", "LinkError", func(s Struct, st *types.Struct) {
			setField(s, st, "Op", kStr("rename"))
			if len(paths) > 0 {
				setField(s, st, "Old", paths[0])
			}
			if len(paths) > 1 {
				setField(s, st, "New", paths[1])
			}
			setField(s, st, "Err", errnoV)
		})
	}
	return mk("io/fs", "PathError", func(s Struct, st *types.Struct) {
		setField(s, st, "Op", kStr(op))
		if len(paths) > 0 {
			setField(s, st, "Path", paths[0])
		}
		setField(s, st, "Err", errnoV)
	})
}

// structErrFields: for *fs.PathError / *os.LinkError / *os.SyscallError
// values represented as real structs.
func osStructErr(v Val) (kind string, s Struct, ok bool) {
	iv, isI := v.(Iface)
	if !isI {
		return "", Struct{}, false
	}
	ptr, isP := iv.V.(Ptr)
	if !isP {
		return "", Struct{}, false
	}
	st, isS := ptr.C.Get().(Struct)
	if !isS {
		return "", Struct{}, false
	}
	n := namedOf(st.T)
	if n == nil || n.Obj().Pkg() == nil {
		return "", Struct{}, false
	}
	switch n.Obj().Pkg().Path() + "." + n.Obj().Name() {
	case "io/fs.PathError", "os.LinkError", "os.SyscallError":
		return n.Obj().Name(), st, true
	}
	return "", Struct{}, false
}

func structFieldByName(s Struct, name string) Val {
	st := s.T.Underlying().(*types.Struct)
	for i := 0; i < st.NumFields(); i++ {
		if st.Field(i).Name() == name {
			return s.F[i].Get()
		}
	}
	return nil
}

// fsModels returns the model function for one run.
func (fx *fsExplorer) model(in *Interp, site ssa.CallInstruction, name string, args []Val) (Val, bool) {
	cc := site.Common()
	res := cc.Signature().Results()
	pos := in.c.P.instrPos(site)
	outcome := func(call string, key string, role string) string {
		set := errnoSets[call]
		fx.nCalls[call]++
		k := fmt.Sprintf("%s(%s)", call, key)
		if call != "os.Stat" && call != "os.Lstat" {
			k = fmt.Sprintf("%s#%d(%s)", call, fx.nCalls[call], key)
		} else {
			k += fmt.Sprintf("@%d", fx.epoch)
		}
		o := set[in.chooseLabeled(k, set)]
		fx.os = append(fx.os, osOutcome{Call: call, Role: role, Outcome: o, Pos: pos})
		return o
	}
	fileInfo := func(pathKey, kind string) Val {
		return Iface{Dyn: types.Typ[types.Invalid], V: Opaque{"fi(" + pathKey + "):" + kind, res.At(0).Type()}}
	}
	switch name {
	case "(context.Context).Err":
		// a cancelled context is a fault of the environment, like a failing
		// operating-system call
		cancelled := Iface{Dyn: types.Typ[types.Invalid], V: Opaque{"global:context.Canceled", errorType}}
		if fx.nCalls["ctx-cancelled"] > 0 {
			return cancelled, true // once cancelled, cancelled for good: one fault
		}
		fx.nCalls[name]++
		k := fmt.Sprintf("ctx.Err#%d", fx.nCalls[name])
		o := []string{"live", "cancelled"}[in.chooseLabeled(k, []string{"live", "cancelled"})]
		if o == "live" {
			return kNil, true
		}
		fx.nCalls["ctx-cancelled"]++
		fx.os = append(fx.os, osOutcome{Call: "ctx.Err", Role: "other", Outcome: "cancelled", Pos: pos})
		return Iface{Dyn: types.Typ[types.Invalid], V: Opaque{"global:context.Canceled", errorType}}, true
	case "path/filepath.Join":
		hp := false
		rooted := false
		var ks []string
		for i, e := range sliceArgs(in, args[0], site) {
			if hostPath(e) {
				hp = true
				if i == 0 {
					rooted = true // root + something
				}
			}
			ks = append(ks, keyOf(e))
		}
		return SymStr{Key: "join(" + strings.Join(ks, ",") + ")", HostPath: hp, Rooted: rooted}, true
	case "path/filepath.Rel":
		// a path that is the root followed by something is made relative
		// without fail; for any other path (the target of a link, an
		// absolute form) Rel may fail — its error text quotes both paths —
		// or climb out with ../ and end in the real location
		if t, ok := args[1].(SymStr); ok && (t.Rooted || !hostPath(args[0])) {
			return Tuple{[]Val{SymStr{Key: "rel(" + keyOf(args[1]) + ")"}, kNil}}, true
		}
		if in.truth(LazyBool{"fails:rel(" + keyOf(args[1]) + ")"}) {
			return Tuple{[]Val{kStr(""), in.mkErr(&ErrObj{Kind: "new", Msg: SymStr{Key: "Rel: can't make " + keyOf(args[1]) + " relative to " + keyOf(args[0]), HostPath: true}})}}, true
		}
		return Tuple{[]Val{SymStr{Key: "rel(" + keyOf(args[1]) + ")", HostPath: hostPath(args[1])}, kNil}}, true
	case "path/filepath.ToSlash", "path/filepath.FromSlash", "path.Clean":
		if s, ok := args[0].(SymStr); ok {
			return SymStr{Key: s.Key, HostPath: s.HostPath, Rooted: s.Rooted}, true
		}
		return args[0], true
	case "path.IsAbs":
		return kTrue, true // refusals of the sanitiser are C03's table
	case "strings.Contains", "strings.ContainsRune", "strings.IndexRune", "strings.IndexByte":
		if name == "strings.Contains" || name == "strings.ContainsRune" {
			return kFalse, true
		}
		return kInt(-1), true
	case "os.Stat", "os.Lstat":
		role := pathRole(args[0])
		o := outcome("os.Stat", keyOf(args[0]), role)
		in.effect("os.Stat", site.Pos(), args[0], kStr(o))
		if o == "file" || o == "dir" {
			return Tuple{[]Val{fileInfo(keyOf(args[0]), o), kNil}}, true
		}
		return Tuple{[]Val{kNil, fx.osError(in, "os.Stat", o, args[0])}}, true
	case "os.Open", "os.Create", "os.OpenFile":
		role := pathRole(args[0])
		tr := ""
		if name == "os.OpenFile" && len(args) >= 2 {
			tr = "?"
			if fl, ok := in.concretise(args[1]); ok {
				tr = "keep"
				if fl&int64(os.O_TRUNC) != 0 {
					tr = "trunc"
				}
				if fl&int64(os.O_WRONLY|os.O_RDWR) == 0 {
					tr = "readonly"
				} else if fl&int64(os.O_CREATE) != 0 {
					// os.Create IS os.OpenFile(O_RDWR|O_CREATE|O_TRUNC): one
					// name for both, so that rows and keys do not depend on
					// which spelling the code uses
					name = "os.Create"
				}
			}
		}
		excl := false
		if len(args) >= 2 && tr != "" {
			if fl, ok := in.concretise(args[1]); ok && fl&int64(os.O_EXCL) != 0 {
				excl = true
			}
		}
		var o string
		if excl {
			// O_EXCL: the open may also fail because the file is there
			set := append(append([]string{}, errnoSets[name]...), "EEXIST")
			fx.nCalls[name]++
			k := fmt.Sprintf("%s#%d(%s)excl", name, fx.nCalls[name], keyOf(args[0]))
			o = set[in.chooseLabeled(k, set)]
			fx.os = append(fx.os, osOutcome{Call: name, Role: role, Outcome: o, Pos: pos})
		} else {
			o = outcome(name, keyOf(args[0]), role)
		}
		if tr == "" && name == "os.Create" {
			tr = "trunc"
		}
		fx.os[len(fx.os)-1].Trunc = tr
		fx.os[len(fx.os)-1].Excl = excl
		in.effect(name, site.Pos(), args[0], kStr(o))
		if o == "ok" {
			if name != "os.Open" {
				fx.epoch++
			}
			return Tuple{[]Val{Opaque{"file(" + keyOf(args[0]) + ")", res.At(0).Type()}, kNil}}, true
		}
		return Tuple{[]Val{kNil, fx.osError(in, "os.Open", o, args[0])}}, true
	case "os.Mkdir", "os.Remove", "os.RemoveAll":
		role := pathRole(args[0])
		o := outcome(name, keyOf(args[0]), role)
		in.effect(name, site.Pos(), args[0], kStr(o))
		if o == "ok" {
			fx.epoch++
			return kNil, true
		}
		return fx.osError(in, name, o, args[0]), true
	case "os.Rename":
		o := outcome(name, keyOf(args[0])+","+keyOf(args[1]), pathRole(args[0]))
		fx.os[len(fx.os)-1].Role2 = pathRole(args[1])
		in.effect(name, site.Pos(), args[0], args[1], kStr(o))
		if o == "ok" {
			fx.epoch++
			return kNil, true
		}
		return fx.osError(in, name, o, args[0], args[1]), true
	case "io.Copy":
		o := outcome("io.Copy", keyOf(args[0]), "other")
		in.effect("io.Copy", site.Pos(), kStr(o))
		switch o {
		case "ok":
			return Tuple{[]Val{kInt(0), kNil}}, true
		case "write-error", "write-ENOSPC":
			// a failing write to an *os.File is a *PathError naming the file;
			// a full disk is the class code is most likely to single out
			hp := SymStr{Key: "writtenfile", HostPath: true}
			errno := "EIO"
			if o == "write-ENOSPC" {
				errno = "ENOSPC"
			}
			return Tuple{[]Val{kInt(0), fx.osError(in, "os.Write", errno, hp)}}, true
		}
		return Tuple{[]Val{kInt(0), in.mkErr(&ErrObj{Kind: "ext", Msg: kStr("unexpected EOF"), Key: "body-read-error"})}}, true
	case "(*os.File).Name":
		// the name the file was opened with: the absolute host path
		return SymStr{Key: "name(" + keyOf(args[0]) + ")", HostPath: true, Rooted: true}, true
	case "(*os.File).Close":
		// only the explicit (non-deferred) close matters for the result
		if _, isDefer := site.(*ssa.Defer); isDefer {
			return kNil, true
		}
		o := outcome("File.Close", keyOf(args[0]), "other")
		if o == "ok" {
			return kNil, true
		}
		return fx.osError(in, "os.Close", "EIO", SymStr{Key: "closedfile", HostPath: true}), true
	case "path/filepath.Walk":
		return fx.walk(in, site, args), true
	case "net/http.ServeContent":
		in.effect("ServeContent", site.Pos(), args[2])
		return nil, true
	case "mime.TypeByExtension", "path.Ext":
		return SymStr{Key: "mimetype"}, true
	case "strconv.FormatInt":
		return SymStr{Key: "size"}, true
	case "(time.Time).Format", "(time.Time).UnixNano":
		if name == "(time.Time).Format" {
			return SymStr{Key: "timestamp"}, true
		}
		return SymInt{"nanos"}, true
	}
	// os.FileInfo methods
	if cc.IsInvoke() && len(args) >= 1 {
		if iv, ok := args[0].(Iface); ok {
			if o, ok := iv.V.(Opaque); ok && strings.HasPrefix(o.Key, "fi(") {
				switch cc.Method.Name() {
				case "IsDir":
					return kBool(strings.HasSuffix(o.Key, ":dir")), true
				case "Size":
					return SymInt{"size"}, true
				case "ModTime":
					return TimeV{"mtime"}, true
				case "Mode":
					return Opaque{"mode", res.At(0).Type()}, true
				}
			}
		}
		if cc.Method.Name() == "Close" {
			return kNil, true
		}
	}
	if name == "bound:Close" {
		return kNil, true
	}
	return nil, false
}

// walk models filepath.Walk over a root and at most one member.
func (fx *fsExplorer) walk(in *Interp, site ssa.CallInstruction, args []Val) Val {
	root := args[0]
	cb := args[1]
	call := func(pth Val, fi Val, err Val) Val {
		switch f := cb.(type) {
		case Closure:
			return in.Call(f.Fn, []Val{pth, fi, err}, f.Bind)
		case FuncV:
			return in.Call(f.Fn, []Val{pth, fi, err}, nil)
		}
		in.undecided("Walk callback is %T", cb)
		return nil
	}
	isSkipDir := func(v Val) bool {
		sn, ok := sentinelName(v)
		return ok && (strings.HasSuffix(sn, "SkipDir") || strings.HasSuffix(sn, "SkipAll"))
	}
	fiT := in.c.P.lookupType("io/fs", "FileInfo")
	set := errnoSets["os.Lstat"]
	k := fmt.Sprintf("os.Stat(%s)@%d", keyOf(root), fx.epoch)
	o := set[in.chooseLabeled(k, set)]
	fx.os = append(fx.os, osOutcome{Call: "Walk.lstat", Role: pathRole(root), Outcome: o, Pos: in.c.P.instrPos(site)})
	in.effect("filepath.Walk", site.Pos(), root, kStr(o))
	if o != "file" && o != "dir" {
		r := call(root, kNil, fx.osError(in, "os.Lstat", o, root))
		if isSkipDir(r) {
			return kNil
		}
		return r
	}
	r := call(root, Iface{Dyn: types.Typ[types.Invalid], V: Opaque{"fi(" + keyOf(root) + "):" + o, fiT}}, kNil)
	if !isNilVal(r) {
		if isSkipDir(r) {
			return kNil
		}
		return r
	}
	if o == "dir" && in.truth(LazyBool{"dir-has-member(" + keyOf(root) + ")"}) {
		hp := hostPath(root)
		rooted := false
		if rs, ok := root.(SymStr); ok {
			rooted = rs.Rooted
		}
		member := SymStr{Key: "member(" + keyOf(root) + ")", HostPath: hp, Rooted: rooted}
		mk := []string{"file", "dir"}[in.chooseLabeled("member-kind("+keyOf(root)+")", []string{"file", "dir"})]
		r2 := call(member, Iface{Dyn: types.Typ[types.Invalid], V: Opaque{"fi(" + member.Key + "):" + mk, fiT}}, kNil)
		if !isNilVal(r2) && !isSkipDir(r2) {
			return r2
		}
		// thorough tier: one level deeper (a member of the member directory)
		// and a second member of the root, with filepath.Walk's SkipDir
		// semantics (on a directory: skip its children; on a file: skip the
		// remaining members of its parent)
		if fx.c.Thorough() {
			if mk == "dir" && isNilVal(r2) && in.truth(LazyBool{"dir-has-member(" + member.Key + ")"}) {
				g := SymStr{Key: "member(" + member.Key + ")", HostPath: hp, Rooted: rooted}
				r3 := call(g, Iface{Dyn: types.Typ[types.Invalid], V: Opaque{"fi(" + g.Key + "):file", fiT}}, kNil)
				if !isNilVal(r3) && !isSkipDir(r3) {
					return r3
				}
			}
			if mk == "file" && isSkipDir(r2) {
				return kNil
			}
			if in.truth(LazyBool{"dir-has-second-member(" + keyOf(root) + ")"}) {
				m2 := SymStr{Key: "member2(" + keyOf(root) + ")", HostPath: hp, Rooted: rooted}
				r4 := call(m2, Iface{Dyn: types.Typ[types.Invalid], V: Opaque{"fi(" + m2.Key + "):file", fiT}}, kNil)
				if !isNilVal(r4) && !isSkipDir(r4) {
					return r4
				}
			}
		}
	}
	return kNil
}

var fsMethods = []string{"OPTIONS", "GET", "HEAD", "PUT", "DELETE", "MKCOL", "COPY", "MOVE", "PROPFIND"}

// exploreFileServer runs the exploration once and caches it on the Ctx.
func exploreFileServer(c *Ctx, r *RuleResult) []*fsRun {
	if c.fsRuns != nil {
		return c.fsRuns
	}
	p := c.P
	fn := p.MustFunc(r, pkgWebdav, "(*Handler).ServeHTTP")
	lfs := p.NamedType(pkgWebdav, "LocalFileSystem")
	if fn == nil || lfs == nil {
		return nil
	}
	var runs []*fsRun
	var fx *fsExplorer
	spec := DTXSpec{Name: "file server", Entry: fn,
		Sym: SymSpec{NonNil: func(k string) bool { return true }, MaxLen: func(string, types.Type) int { return 1 }, IntDomain: func(string) []int64 { return []int64{0, 7} },
			Override: func(key string, t types.Type) Val {
				switch key {
				case "h.FileSystem":
					return Iface{Dyn: lfs, V: SymStr{Key: "root", HostPath: true}}
				case "r.Method":
					return nil
				}
				return nil
			}},
		Setup: func(in *Interp) {
			fx = &fsExplorer{c: c, nCalls: map[string]int{}}
			in.Models = append(in.Models, fx.model, httpServerModels)
			in.OpenExternal = func(n *types.Named) bool {
				if openHTTPServer(n) {
					return true
				}
				pp := n.Obj().Pkg().Path() + "." + n.Obj().Name()
				return pp == "io/fs.PathError" || pp == "os.LinkError" || pp == "os.SyscallError"
			}
			in.MaxSteps = 2000000
		},
		Args: func(in *Interp) []Val {
			// the method is one of the nine the file server implements
			m := fsMethods[in.chooseLabeled("method", fsMethods)]
			req := in.symOf(fn.Params[2].Type(), "r")
			if ptr, ok := req.(Ptr); ok {
				if s, ok := ptr.C.Get().(Struct); ok {
					st := s.T.Underlying().(*types.Struct)
					for i := 0; i < st.NumFields(); i++ {
						if st.Field(i).Name() == "Method" {
							s.F[i].Set(kStr(m))
						}
					}
				}
			}
			return []Val{in.symOf(fn.Params[0].Type(), "h"), Opaque{"w", fn.Params[1].Type()}, req}
		},
		Observe: func(in *Interp, res Val, pan *panicOutcome) string {
			run := &fsRun{Method: fsMethods[in.ch.memo["method"]], OS: fx.os, Headers: map[string]string{}}
			if pan != nil {
				run.Status = "panic"
				runs = append(runs, run)
				return "panic"
			}
			run.Status = responseOf(in, in.Trace)
			if run.Status == "none" {
				run.Status = "200"
			}
			for _, e := range in.Trace {
				if os.Getenv("GWFSTRACE") == run.Method {
					fmt.Printf("   effect: %s\n", e.String())
				}
				switch e.Name {
				case "http.Error":
					if hostPath(e.Args[1]) {
						run.Leak, run.LeakText = true, keyOf(e.Args[1])
					}
				case "Header.Set", "Header.Add":
					if hostPath(e.Args[1]) {
						run.Leak, run.LeakText = true, "header "+keyOf(e.Args[0])+": "+keyOf(e.Args[1])
					}
				case "ServeContent":
					run.Served = true
					if hostPath(e.Args[0]) {
						run.Leak, run.LeakText = true, "ServeContent name "+keyOf(e.Args[0])
					}
				case "xml.Encode.value":
					// the multi-status body: every string in it (hrefs!)
					if where, ok := deepHostPath(in, e.Args[0], "body", 0); ok {
						run.Leak, run.LeakText = true, "XML body, "+where
					}
				}
			}
			if os.Getenv("GWFSTRACE") == run.Method {
				fmt.Printf("   valuation: %s -> %s\n", valuationString(in.ch.valuation()), run.Status)
			}
			run.Val = valuationString(in.ch.valuation())
			for k, v := range in.ch.valuation() {
				if strings.HasPrefix(k, "eq(") && strings.Contains(k, "header:") && v == "equal" {
					run.Headers[k] = v
				}
				if strings.Contains(k, "r.URL.Path") && strings.Contains(k, "header:\"Destination\"") && !strings.HasPrefix(k, "os.") {
					if run.PathRel == nil {
						run.PathRel = map[string]string{}
					}
					run.PathRel[k] = v
				}
			}
			// equal through a constant: both were found equal to the same text
			{
				srcC, dstC := map[string]bool{}, map[string]bool{}
				for k, v := range in.ch.valuation() {
					if v != "equal" || !strings.HasPrefix(k, "eq(c:") {
						continue
					}
					i := strings.Index(k, ",s:")
					if i < 0 {
						continue
					}
					konst, sym := k[len("eq(c:"):i], k[i+3:]
					hasS, hasD := strings.Contains(sym, "r.URL.Path"), strings.Contains(sym, "header:\"Destination\"")
					if hasS && !hasD {
						srcC[konst] = true
					} else if hasD && !hasS {
						dstC[konst] = true
					}
				}
				for kc := range srcC {
					if dstC[kc] {
						if run.PathRel == nil {
							run.PathRel = map[string]string{}
						}
						run.PathRel["eq(both equal the constant "+kc+")"] = "equal"
					}
				}
			}
			for _, o := range fx.os {
				if o.Outcome == "ok" {
					switch o.Call {
					case "os.Create", "os.OpenFile", "os.Mkdir", "os.Remove", "os.RemoveAll", "os.Rename":
						run.Mutated = append(run.Mutated, o.Call+"("+o.Role+")")
					}
				}
			}
			runs = append(runs, run)
			return run.Status
		},
		MaxRuns: 400000,
	}
	res := runDTX(c, spec)
	r.Count("file_server_runs", res.Runs)
	seenU := map[string]bool{}
	for _, l := range res.Undecided {
		if !seenU[l.Undecided] {
			seenU[l.Undecided] = true
			r.Undecided("fileserver|"+l.Undecided, p.Pos(fn.Pos()), "file-server exploration: a needed path left the interpreted fragment: "+l.Undecided+" (valuation: "+valuationString(l.Valuation)+")")
		}
	}
	if res.Truncated {
		r.Undecided("fileserver|truncated", p.Pos(fn.Pos()), "file-server exploration: budget exhausted")
	}
	c.fsRuns = runs
	return runs
}

// firstFault returns the OS outcome that decided a failing response: the last
// failing outcome of the run (earlier "failures" of os.Stat are observations
// of the resource state — an absent destination, a new file — not faults).
// nil when the request succeeded or failed without any failing OS call.
func (run *fsRun) firstFault() *osOutcome {
	if !(strings.HasPrefix(run.Status, "4") || strings.HasPrefix(run.Status, "5")) {
		return nil
	}
	// the first failing call that is not a state observation decides (what
	// fails after it is clean-up); otherwise the last failing observation
	for i := range run.OS {
		o := &run.OS[i]
		if o.Call == "os.Stat" || o.Call == "Walk.lstat" {
			continue
		}
		switch o.Outcome {
		case "ok", "file", "dir":
			continue
		}
		return o
	}
	for i := len(run.OS) - 1; i >= 0; i-- {
		o := &run.OS[i]
		switch o.Outcome {
		case "ok", "file", "dir":
			continue
		}
		return o
	}
	return nil
}

// context: the state observations before the deciding fault.
func (run *fsRun) context() string {
	var parts []string
	f := run.firstFault()
	for i := range run.OS {
		o := &run.OS[i]
		if o == f {
			break
		}
		if o.Call == "os.Stat" || o.Call == "Walk.lstat" {
			parts = append(parts, o.Role+"="+o.Outcome)
		}
	}
	return strings.Join(parts, ",")
}

func (run *fsRun) describe() string {
	var parts []string
	for _, o := range run.OS {
		parts = append(parts, fmt.Sprintf("%s[%s]=%s", o.Call, o.Role, o.Outcome))
	}
	return run.Method + ": " + strings.Join(parts, " ")
}

func fsFaultRules(c *Ctx, pr *PropertyRun, prop string) {
	switch prop {
	case "C01":
		r := NewRule("C01", "C01.refusal-status", "for every method and every OS call it makes, the status answered when that call fails with each errno class equals the RFC 4918 scenario table (E2 fault exploration)")
		r.Exhaustive = true
		r.Bounds = "one resource plus at most one member per directory; every errno class of checker/p_fs.go errnoSets"
		pr.Rules = append(pr.Rules, r)
		runs := exploreFileServer(c, r)
		c01Refusals(c, r, runs)
		fr := NewRule("C01", "C01.no-5xx-without-fault", "a request during which nothing goes wrong in the operating system is never answered 5xx: a call that cannot succeed in the state the request itself observed or produced (rename onto a still existing collection, create on a collection, mkdir on an existing name) is the code's own doing (E2 fault exploration replayed over an abstract per-resource state)")
		fr.Exhaustive = true
		fr.Bounds = r.Bounds
		pr.Rules = append(pr.Rules, fr)
		c01Forced(c, fr, runs)
		truncateRule(c, pr, "C01", runs)
		rl := NewRule("C01", "C01.refusal-leaves-tree", "a request that is refused (4xx/5xx) with nothing wrong in the operating system leaves the tree as it was: in the resource-tree model a refused request changes nothing (the fault-free part of C02.no-failure-after-effect)")
		rl.Exhaustive = true
		rl.Bounds = r.Bounds
		pr.Rules = append(pr.Rules, rl)
		c02Traces(c, rl, runs, true)
		rc := NewRule("C01", "C01.refusal-codes", "with no failing operating-system call a request is refused only with the statuses the statement gives for that method (400/404/405/412/415 as applicable)")
		rc.Exhaustive = true
		pr.Rules = append(pr.Rules, rc)
		codeDecidedRefusals(c, rc, runs, nil)
	case "C17":
		r := NewRule("C17", "C17.no-host-path", "no response text, header or content name contains the host path, for every method, OS call and errno class (E2 fault exploration with a host-path taint bit on strings)")
		r.Exhaustive = true
		r.Bounds = "as C01.refusal-status"
		pr.Rules = append(pr.Rules, r)
		runs := exploreFileServer(c, r)
		c17Leaks(c, r, runs)
	case "C02":
		r := NewRule("C02", "C02.no-failure-after-effect", "no run reports a failure (4xx/5xx) after a destructive OS call has succeeded (trace property of the E2 fault exploration)")
		r.Exhaustive = true
		r.Bounds = "as C01.refusal-status"
		pr.Rules = append(pr.Rules, r)
		runs := exploreFileServer(c, r)
		c02Traces(c, r, runs, false)
	}
}

// scenario table (DESIGN.md Appendix A): required status for the first
// failing OS call of a request; "" = not constrained by the statement.
func requiredStatus(method string, f *osOutcome, run *fsRun) (want []string, why string) {
	e := f.Outcome
	switch f.Call {
	case "os.Stat", "Walk.lstat":
		if f.Role == "target" {
			switch e {
			case "ENOENT", "ENOTDIR":
				switch method {
				case "GET", "HEAD", "PROPFIND", "DELETE", "COPY", "MOVE":
					return []string{"404"}, "a missing target or source is 404"
				}
			}
		}
		if f.Role == "destination" && e == "ENOTDIR" && (method == "COPY" || method == "MOVE") {
			// the destination cannot even be examined because an ancestor of
			// it is a file: there is no parent collection to create it in
			return []string{"409"}, "a destination below something that is not a collection has no parent collection: 409"
		}
	case "os.Create", "os.OpenFile":
		if method == "PUT" || (method == "COPY" && strings.HasPrefix(f.Role, "destination")) {
			switch e {
			case "EISDIR":
				if method == "PUT" {
					return []string{"405"}, "PUT on a collection is 405"
				}
			case "ENOENT", "ENOTDIR":
				return []string{"409"}, "a missing parent collection is 409"
			}
		}
	case "os.Mkdir":
		switch e {
		case "EEXIST":
			if method == "MKCOL" {
				return []string{"405"}, "MKCOL on an existing resource is 405"
			}
		case "ENOENT", "ENOTDIR":
			return []string{"409"}, "a missing parent collection is 409"
		}
	case "os.Rename":
		switch e {
		case "EINVAL":
			return []string{"400", "403", "409", "412", "422", "502", "4xx"}, "moving a collection into itself is some 4xx"
		case "ENOENT", "ENOTDIR":
			// missing source (404) or missing destination parent (409): the
			// rename alone cannot tell. When the request has itself seen
			// the source, it is the destination's parent that is missing
			for i := range run.OS {
				o := &run.OS[i]
				if o == f {
					break
				}
				if o.Call == "os.Stat" && o.Role == "target" && (o.Outcome == "file" || o.Outcome == "dir") {
					return []string{"409"}, "the source was seen to exist, so the destination's parent collection is missing: 409"
				}
			}
			return []string{"404", "409"}, "missing source is 404, missing destination parent is 409"
		}
	}
	return nil, ""
}

func c01Refusals(c *Ctx, r *RuleResult, runs []*fsRun) {
	type row struct {
		key  string
		run  *fsRun
		want []string
		why  string
	}
	seen := map[string]bool{}
	var keys []string
	rows := map[string]row{}
	for _, run := range runs {
		f := run.firstFault()
		// code-decided refusals
		if run.Method == "GET" || run.Method == "HEAD" {
			if len(run.OS) > 0 && run.OS[0].Call == "os.Stat" && run.OS[0].Outcome == "dir" {
				k := run.Method + "|target is a collection"
				if !seen[k] {
					seen[k] = true
					r.Role("code-decided-refusal")
					ok := run.Status == "405" && len(run.OS) == 1
					r.Ob(ok)
					if !ok {
						r.Violation("refusal|"+k, "-", fmt.Sprintf("%s of a collection must be answered 405 before the file is opened; observed %s after %s", run.Method, run.Status, run.describe()), nil)
					}
				}
			}
		}
		if f == nil {
			continue
		}
		want, why := requiredStatus(run.Method, f, run)
		k := fmt.Sprintf("%s|%s|%s[%s]|%s", run.Method, run.context(), f.Call, f.Role, f.Outcome)
		r.Role("fault-row")
		if seen[k+"|"+run.Status] {
			continue
		}
		seen[k+"|"+run.Status] = true
		if want == nil {
			r.Sample(map[string]interface{}{"row": k, "status": run.Status, "constrained": false})
			continue
		}
		ok := false
		for _, w := range want {
			if w == run.Status || (w == "4xx" && strings.HasPrefix(run.Status, "4")) {
				ok = true
			}
		}
		r.Ob(ok)
		r.Sample(map[string]interface{}{"row": k, "status": run.Status, "required": want, "ok": ok})
		if !ok {
			kk := fmt.Sprintf("refusal|%s|%s[%s]|%s|got=%s", run.Method, f.Call, f.Role, f.Outcome, run.Status)
			keys = append(keys, kk)
			rows[kk] = row{kk, run, want, why}
		}
	}
	sort.Strings(keys)
	for _, k := range keys {
		rw := rows[k]
		f := rw.run.firstFault()
		r.Violation(k, f.Pos, fmt.Sprintf("%s: when %s on the %s fails with %s the server answers %s; the statement requires %s (%s). Trace: %s", rw.run.Method, f.Call, f.Role, f.Outcome, rw.run.Status, strings.Join(rw.want, " or "), rw.why, rw.run.describe()), nil)
	}
	r.RequireRole("fault-row", "code-decided-refusal")
}

// truncateRule (C01, C05): every file opened for writing on behalf of PUT or
// COPY is truncated.
func truncateRule(c *Ctx, pr *PropertyRun, prop string, runs []*fsRun) {
	tr := NewRule(prop, prop+".replace-truncates", "every file opened for writing on behalf of PUT or COPY is truncated (os.Create, or os.OpenFile with O_TRUNC): a shorter replacement must not keep the tail of the old content")
	pr.Rules = append(pr.Rules, tr)
	if runs == nil {
		runs = exploreFileServer(c, tr)
	}
	seenT := map[string]bool{}
	for _, run := range runs {
		for _, o := range run.OS {
			if (o.Call != "os.Create" && o.Call != "os.OpenFile") || o.Trunc == "readonly" {
				continue
			}
			k := run.Method + "|" + o.Call + "[" + o.Role + "]|" + o.Pos
			if seenT[k] {
				continue
			}
			seenT[k] = true
			tr.Role("write-open")
			ok := o.Trunc == "trunc"
			tr.Ob(ok)
			if !ok {
				why := "without O_TRUNC"
				if o.Trunc == "?" {
					why = "with flags that are not a compile-time constant"
				}
				tr.Violation("no-truncate|"+run.Method+"|"+o.Role, o.Pos, fmt.Sprintf("%s opens the %s for writing %s: replacing a file by shorter content leaves the tail of the old content in place (GET no longer returns what was PUT)", run.Method, o.Role, why), nil)
			}
		}
	}
	tr.RequireRole("write-open")
}

// c01Forced: a scenario in which nothing goes wrong in the operating system
// must not be answered 5xx. A failing call that could not have succeeded in
// the state the request itself observed or produced is the code's own doing.
func c01Forced(c *Ctx, r *RuleResult, runs []*fsRun) {
	seen := map[string]bool{}
	for _, run := range runs {
		_, feasible, faults, forced := run.replay()
		if feasible && faults == 0 && len(forced) == 0 && strings.HasPrefix(run.Status, "5") {
			// nothing failed at all and the answer is still 5xx: some test of
			// the code's own (on a name, a path it computed) turned a
			// well-formed request on a healthy file system into a server error
			r.Role("fault-free-run")
			k := run.Method + "|no failing call|got=" + run.Status
			if !seen[k] {
				seen[k] = true
				r.Ob(false)
				r.Violation("fault-free-5xx|"+k, "-", fmt.Sprintf("%s is answered %s although no operating-system call failed: a test in the code itself turns a request that names a resource on a healthy file system into a server error. Trace: %s", run.Method, run.Status, run.describe()), nil)
			}
			continue
		}
		if !feasible || faults > 0 || len(forced) == 0 {
			continue
		}
		r.Role("forced-failure")
		f := run.OS[forced[0].Idx]
		k := fmt.Sprintf("%s|%s[%s]|%s", run.Method, f.Call, f.Role, f.Outcome)
		if f.Role2 != "" {
			k = fmt.Sprintf("%s|%s[%s->%s]|%s", run.Method, f.Call, f.Role, f.Role2, f.Outcome)
		}
		if seen[k+run.Status] {
			continue
		}
		seen[k+run.Status] = true
		ok := !strings.HasPrefix(run.Status, "5")
		// ... and when it is not a server error it must be a refusal the
		// statement knows for that very situation (the resource the request
		// has seen makes the operation impossible: PUT on a collection, MKCOL
		// on an existing name). Any other call sequence that cannot succeed
		// in the state the request observed refuses a request the
		// resource-tree model carries out.
		legit := map[string]string{"PUT|os.Create|EISDIR": "405", "MKCOL|os.Mkdir|EEXIST": "405"}
		if ok {
			want, known := legit[run.Method+"|"+f.Call+"|"+f.Outcome]
			if !known || want != run.Status {
				r.Ob(false)
				r.Violation("forced-refusal|"+k+"|got="+run.Status, f.Pos, fmt.Sprintf("%s: %s is reached although %s, so it can only fail (%s) and the request is refused with %s — with nothing wrong in the operating system. In the resource-tree model this request is carried out (COPY/MOVE replace an existing destination of either kind when Overwrite allows it): the code's own sequence of calls cannot do what the request asks in this state. Trace: %s", run.Method, f.Call, forced[0].Why, f.Outcome, run.Status, run.describe()), nil)
				continue
			}
		}
		r.Ob(ok)
		r.Sample(map[string]interface{}{"scenario": k, "status": run.Status, "why": forced[0].Why})
		if !ok {
			r.Violation("forced-failure|"+k+"|got="+run.Status, f.Pos, fmt.Sprintf("%s: %s is reached although %s, so it can only fail (%s) and the request is answered %s — with nothing wrong in the operating system. The statement requires the request to be carried out or refused with its 4xx code. Trace: %s", run.Method, f.Call, forced[0].Why, f.Outcome, run.Status, run.describe()), nil)
		}
	}
	r.RequireRole("forced-failure")
}

// deepHostPath looks for a host-path-tainted string anywhere inside a value.
func deepHostPath(in *Interp, v Val, where string, depth int) (string, bool) {
	if depth > 10 || v == nil {
		return "", false
	}
	switch x := v.(type) {
	case SymStr:
		if x.HostPath {
			return where + " = " + x.Key, true
		}
	case Iface:
		return deepHostPath(in, x.V, where, depth+1)
	case Ptr:
		if x.C != nil {
			return deepHostPath(in, x.C.Get(), where, depth+1)
		}
	case Struct:
		st, _ := x.T.Underlying().(*types.Struct)
		for i, f := range x.F {
			name := fmt.Sprint(i)
			if st != nil && i < st.NumFields() {
				name = st.Field(i).Name()
			}
			if w, ok := deepHostPath(in, f.Get(), where+"."+name, depth+1); ok {
				return w, true
			}
		}
	case Slice:
		for i, c := range x.E {
			if w, ok := deepHostPath(in, c.Get(), fmt.Sprintf("%s[%d]", where, i), depth+1); ok {
				return w, true
			}
		}
	case LazySlice:
		for i, c := range in.materialise(x).E {
			if w, ok := deepHostPath(in, c.Get(), fmt.Sprintf("%s[%d]", where, i), depth+1); ok {
				return w, true
			}
		}
	}
	return "", false
}

// codeDecidedRefusals: the statuses with which a request is refused when NO
// operating-system call fails (the code decides from what it observed: the
// state of the resources and the headers). The table is the statement's:
// anything else — a 409 for a failed precondition, a 403 out of nowhere — is
// a wrong answer.
var allowedRefusals = map[string]map[string]string{
	"OPTIONS":  {"400": "unmappable path"},
	"GET":      {"400": "unmappable path", "404": "missing resource", "405": "GET of a collection"},
	"HEAD":     {"400": "unmappable path", "404": "missing resource", "405": "HEAD of a collection"},
	"PROPFIND": {"400": "unmappable path, bad Depth, bad body", "404": "missing resource"},
	"PUT":      {"400": "unmappable path, tag that is not a quoted string", "412": "failed If-Match / If-None-Match"},
	"DELETE":   {"400": "unmappable path, tag that is not a quoted string", "404": "missing resource", "412": "failed If-Match / If-None-Match"},
	"MKCOL":    {"400": "unmappable path", "405": "the resource already exists", "415": "MKCOL with a body"},
	"COPY":     {"400": "unmappable path, bad Depth/Overwrite/Destination", "404": "missing source", "412": "Overwrite F and the destination exists"},
	"MOVE":     {"400": "unmappable path, bad Depth/Overwrite/Destination", "404": "missing source", "412": "Overwrite F and the destination exists"},
}

// overlapObserved: some test relating the source path to the destination
// path (equality, prefix, same file) came out positive in this run.
func (run *fsRun) overlapObserved() bool {
	for k, v := range run.PathRel {
		if (strings.HasPrefix(k, "eq(") && v == "equal") || (!strings.HasPrefix(k, "eq(") && v == "true") {
			return true
		}
	}
	return false
}

func codeDecidedRefusals(c *Ctx, r *RuleResult, runs []*fsRun, methods map[string]bool) {
	seen := map[string]bool{}
	for _, run := range runs {
		if methods != nil && !methods[run.Method] {
			continue
		}
		if !strings.HasPrefix(run.Status, "4") {
			continue
		}
		_, feasible, faults, forced := run.replay()
		if !feasible || faults > 0 || len(forced) > 0 {
			continue
		}
		r.Role("code-decided-refusal")
		k := run.Method + "|" + run.Status
		_, ok := allowedRefusals[run.Method][run.Status]
		if !ok && run.Status == "403" && (run.Method == "COPY" || run.Method == "MOVE") && run.overlapObserved() {
			// "403 when source and destination coincide (some 4xx when one
			// contains the other)": the refusal is the code's answer to a
			// comparison of the two paths that came out 'same' or 'inside'
			ok = true
			k += "|source and destination overlap"
		}
		if seen[k] {
			continue
		}
		seen[k] = true
		r.Ob(ok)
		r.Sample(map[string]interface{}{"method": run.Method, "status": run.Status, "allowed": ok, "trace": run.describe()})
		if !ok {
			var al []string
			for st, why := range allowedRefusals[run.Method] {
				al = append(al, st+" ("+why+")")
			}
			sort.Strings(al)
			r.Violation("refusal-code|"+k, "-", fmt.Sprintf("%s is refused with %s although no operating-system call failed; with nothing wrong in the file system the statement knows only %s for %s. Trace: %s (tests relating source and destination in this run: %v)", run.Method, run.Status, strings.Join(al, ", "), run.Method, run.describe(), run.PathRel)+" valuation: "+run.Val, nil)
		}
	}
	// a prefix test between the two paths decides 'inside' only when the
	// prefix ends in a separator: /a does not contain /ab
	seenP := map[string]bool{}
	for _, run := range runs {
		if methods != nil && !methods[run.Method] {
			continue
		}
		for k := range run.PathRel {
			if !strings.HasPrefix(k, "strings.HasPrefix(") {
				continue
			}
			ok := strings.HasSuffix(k, `+"/"))`) || strings.HasSuffix(k, `+"\\"))`)
			if !ok {
				// ... or the prefix was found to end in one already
				// (HasSuffix(p, sep) came out true in this run)
				inner := strings.TrimSuffix(strings.TrimPrefix(k, "strings.HasPrefix("), ")")
				depth, cut := 0, -1
				for i, ch := range inner {
					switch ch {
					case '(', '[':
						depth++
					case ')', ']':
						depth--
					case ',':
						if depth == 0 && cut < 0 {
							cut = i
						}
					}
				}
				if cut >= 0 {
					pfx := inner[cut+1:]
					if strings.Contains(run.Val, `strings.HasSuffix(`+pfx+`,"/")=true`) || strings.Contains(run.Val, `strings.HasSuffix(`+pfx+`,"\\")=true`) {
						ok = true
					}
				}
			}
			// one obligation (and one report) per test, judged on every run
			// in which it is made
			if seenP[k] && ok {
				continue
			}
			if seenP[k+"|bad"] {
				continue
			}
			seenP[k] = true
			if !ok {
				seenP[k+"|bad"] = true
			}
			r.Ob(ok)
			if !ok {
				r.Violation("prefix-without-separator|"+run.Method, "-", fmt.Sprintf("%s decides whether one of source and destination lies inside the other with %s: the prefix does not end in a path separator, so /a is taken to contain /ab and a legitimate request between siblings is refused (or a nested one is not)", run.Method, k), nil)
			}
		}
	}
	r.RequireRole("code-decided-refusal")
}

func c17Leaks(c *Ctx, r *RuleResult, runs []*fsRun) {
	seen := map[string]bool{}
	for _, run := range runs {
		r.Role("response")
		f := run.firstFault()
		k := run.Method + "|success"
		pos := "-"
		if f != nil {
			k = fmt.Sprintf("%s|%s|%s[%s]|%s", run.Method, run.context(), f.Call, f.Role, f.Outcome)
			pos = f.Pos
		} else if strings.HasPrefix(run.Status, "4") || strings.HasPrefix(run.Status, "5") {
			k = run.Method + "|refused " + run.Status
		}
		if os.Getenv("GWFSALL") == run.Method {
			fmt.Printf("   run: status=%s leak=%v %s\n", run.Status, run.Leak, run.describe())
		}
		// EVERY run is examined: runs that share a deciding fault can still
		// differ in what follows it (a second stat that picks another error
		// path); only the reporting is grouped by key
		if seen[k] && (!run.Leak || seen["leak|"+k]) {
			continue
		}
		if !seen[k] {
			r.Ob(!run.Leak)
			if os.Getenv("GWFSROWS") != "" {
				fmt.Printf("   row: %-70s status=%s leak=%v   %s\n", k, run.Status, run.Leak, run.describe())
			}
			r.Sample(map[string]interface{}{"row": k, "status": run.Status, "host_path_in_response": run.Leak})
		} else {
			r.Ob(false)
		}
		seen[k] = true
		if run.Leak {
			seen["leak|"+k] = true
		}
		if run.Leak {
			r.Violation("leak|"+k, pos, fmt.Sprintf("%s: the response (status %s) contains the absolute host path: %s. Trace: %s", run.Method, run.Status, run.LeakText, run.describe()), nil)
		}
	}
	r.RequireRole("response")
}

// netChange replays the successful OS effects of a run over an abstract state
// per resource role and reports the roles whose final state differs from the
// state observed before the first effect ("absent" -> "new-file" -> removed
// again is no change; "file" -> truncated -> removed is).
type forcedFail struct {
	Idx int
	Why string
}

func (run *fsRun) netChange() (changes []string, feasible bool, faults int) {
	changes, feasible, faults, _ = run.replay()
	return
}

// replay also reports the failing calls that could not have succeeded in the
// state the request itself had observed or produced (forced failures: they
// are the code's deterministic behaviour in that scenario, not injected
// faults) — with the errno the operating system gives in that situation.
func (run *fsRun) replay() (changes []string, feasible bool, faults int, forced []forcedFail) {
	type st struct{ init, cur string }
	states := map[string]*st{}
	var order []string
	get := func(role string) *st {
		if s, ok := states[role]; ok {
			return s
		}
		s := &st{init: "unknown", cur: "unknown"}
		// an entry below a directory this request has just made is not there yet
		if i := strings.LastIndex(role, "."); i > 0 {
			if ps, ok := states[role[:i]]; ok && (ps.cur == "new-dir" || ps.cur == "replaced-by-new-dir") {
				s.init, s.cur = "absent", "absent"
			}
		}
		states[role] = s
		order = append(order, role)
		return s
	}
	touched := map[string]bool{}
	feasible = true
	kindOf := func(cur string) string {
		switch cur {
		case "file", "new-file", "truncated", "overwritten-in-place":
			return "file"
		case "dir", "new-dir", "replaced-by-new-dir":
			return "dir"
		case "absent", "removed":
			return "ENOENT"
		}
		return ""
	}
	for idx, o := range run.OS {
		switch o.Call {
		case "ctx.Err":
			// a cancelled context is one event with the read error it
			// usually surfaces as: it does not make a second fault
			if faults == 0 {
				faults++
			}
			continue
		case "os.Stat", "Walk.lstat":
			s := get(o.Role)
			if !touched[o.Role] && s.init == "unknown" {
				switch o.Outcome {
				case "file", "dir":
					s.init, s.cur = o.Outcome, o.Outcome
				case "ENOENT":
					s.init, s.cur = "absent", "absent"
				default:
					faults++ // ENOTDIR, EACCES: the resource cannot even be examined
				}
			} else if k := kindOf(s.cur); k != "" && k != o.Outcome {
				// a later observation that contradicts what the request itself
				// has done so far: not a sequential execution
				if o.Outcome == "file" || o.Outcome == "dir" || o.Outcome == "ENOENT" {
					feasible = false
				} else {
					faults++
				}
			}
			continue
		}
		if o.Outcome != "ok" {
			why := ""
			switch o.Call {
			case "os.Rename":
				a, b := kindOf(get(o.Role).cur), kindOf(get(o.Role2).cur)
				switch {
				case b == "dir" && (o.Outcome == "ENOTEMPTY" || o.Outcome == "EEXIST"):
					why = "the " + o.Role2 + " still exists as a collection and os.Rename cannot replace a directory"
				case a == "dir" && b == "file" && o.Outcome == "ENOTDIR":
					why = "the " + o.Role + " is a collection and the " + o.Role2 + " still exists as a file"
				case a == "" && get(o.Role).cur == "unknown" && b == "file" && o.Outcome == "ENOTDIR":
					// the source has never been examined: it may well be a
					// collection, and then this rename cannot succeed
					why = "the " + o.Role + " (never examined) may be a collection while the " + o.Role2 + " still exists as a file"
				case a == "ENOENT" && o.Outcome == "ENOENT":
					why = "the " + o.Role + " does not exist"
				}
			case "os.Create", "os.OpenFile":
				if kindOf(get(o.Role).cur) == "dir" && o.Outcome == "EISDIR" && o.Trunc != "readonly" {
					why = "the " + o.Role + " is a collection"
				}
				if k := kindOf(get(o.Role).cur); (k == "dir" || k == "file") && o.Outcome == "EEXIST" && o.Excl {
					why = "the " + o.Role + " already exists and the open is exclusive (O_EXCL)"
				}
			case "os.Mkdir":
				if k := kindOf(get(o.Role).cur); (k == "dir" || k == "file") && o.Outcome == "EEXIST" {
					why = "the " + o.Role + " already exists"
				}
			case "os.Remove":
				if kindOf(get(o.Role).cur) == "ENOENT" && o.Outcome == "ENOENT" {
					why = "the " + o.Role + " does not exist"
				}
			}
			if why != "" {
				forced = append(forced, forcedFail{idx, why})
			} else {
				faults++
			}
			continue
		}
		switch o.Call {
		case "os.Create", "os.OpenFile":
			if o.Trunc == "readonly" {
				continue
			}
			s := get(o.Role)
			touched[o.Role] = true
			if o.Excl {
				switch kindOf(s.cur) {
				case "file", "dir":
					feasible = false // EEXIST
				}
			}
			switch s.cur {
			case "dir", "new-dir", "replaced-by-new-dir":
				feasible = false // EISDIR
			case "absent", "new-file", "removed":
				if s.cur == "removed" {
					s.cur = "truncated" // replaced by a fresh file: the old content is gone
				} else {
					s.cur = "new-file"
				}
			default:
				if o.Call == "os.OpenFile" && o.Trunc == "keep" {
					s.cur = "overwritten-in-place"
				} else {
					s.cur = "truncated"
				}
			}
		case "os.Mkdir":
			s := get(o.Role)
			touched[o.Role] = true
			switch kindOf(s.cur) {
			case "file", "dir":
				feasible = false // EEXIST
			}
			if s.cur == "removed" {
				s.cur = "replaced-by-new-dir"
			} else {
				s.cur = "new-dir"
			}
		case "os.Remove", "os.RemoveAll":
			s := get(o.Role)
			touched[o.Role] = true
			switch s.cur {
			case "new-file", "new-dir":
				s.cur = "absent"
			case "absent":
				if o.Call == "os.Remove" {
					feasible = false // ENOENT
				}
			case "removed", "replaced-by-new-dir":
				s.cur = "removed"
			default:
				s.cur = "removed"
			}
		case "os.Rename":
			a, b := get(o.Role), get(o.Role2)
			if kb := kindOf(b.cur); kb == "dir" || (kb == "file" && kindOf(a.cur) == "dir") || kindOf(a.cur) == "ENOENT" {
				feasible = false // os.Rename cannot replace a directory, nor a file by a directory, nor move what is not there
			}
			touched[o.Role], touched[o.Role2] = true, true
			switch a.cur {
			case "new-file", "new-dir":
				a.cur = "absent"
			default:
				a.cur = "removed"
			}
			if b.cur == "absent" {
				b.cur = "new"
			} else {
				b.cur = "replaced"
			}
		}
	}
	for _, role := range order {
		s := states[role]
		if !touched[role] || s.cur == s.init {
			continue
		}
		changes = append(changes, role+":"+s.init+"->"+s.cur)
	}
	return changes, feasible, faults, forced
}

func c02Traces(c *Ctx, r *RuleResult, runs []*fsRun, faultFreeOnly bool) {
	seen := map[string]bool{}
	for _, run := range runs {
		r.Role("run")
		if !(strings.HasPrefix(run.Status, "4") || strings.HasPrefix(run.Status, "5")) {
			continue
		}
		if len(run.Mutated) == 0 {
			if faultFreeOnly {
				// a refusal that touched nothing (counted once per method and status)
				if _, feasible, faults, forced := run.replay(); feasible && faults == 0 && len(forced) == 0 && !seen["clean|"+run.Method+"|"+run.Status] {
					seen["clean|"+run.Method+"|"+run.Status] = true
					r.Ob(true)
				}
			}
			continue
		}
		changes, feasible, faults := run.netChange()
		if !feasible {
			r.Role("not-a-sequential-execution")
			continue
		}
		if faultFreeOnly && faults > 0 {
			continue
		}
		if faults > 1 {
			// the property is about one thing going wrong; a cleanup that
			// fails as well is the operating system refusing the repair
			r.Role("more-than-one-fault")
			continue
		}
		if len(changes) == 0 {
			// everything that was done was undone again (a new file created
			// and removed): the tree is what it was
			r.Role("undone")
			continue
		}
		// the fault that made the request fail: the first failing call after
		// the first effect, else the last failing call before it
		var trigger *osOutcome
		lastOK := -1
		for i := range run.OS {
			if run.OS[i].Outcome == "ok" {
				switch run.OS[i].Call {
				case "os.Create", "os.OpenFile", "os.Mkdir", "os.Remove", "os.RemoveAll", "os.Rename":
					if lastOK < 0 {
						lastOK = i
					}
				}
			}
		}
		failing := func(o *osOutcome) bool {
			switch o.Outcome {
			case "ok", "file", "dir":
				return false
			}
			return true
		}
		for i := lastOK + 1; i < len(run.OS) && trigger == nil; i++ {
			if failing(&run.OS[i]) {
				trigger = &run.OS[i]
			}
		}
		when := ""
		if trigger == nil {
			for i := lastOK - 1; i >= 0 && trigger == nil; i-- {
				if failing(&run.OS[i]) {
					trigger = &run.OS[i]
				}
			}
			when = " (failed earlier)"
		}
		if trigger == nil {
			trigger = &osOutcome{Call: "no OS fault", Role: "-", Pos: "-"}
			when = ""
		}
		// with no fault at all the failure is the code's deterministic answer
		// to a state it observed (a missing source, ...): name that state
		if faults == 0 && trigger.Call != "no OS fault" {
			when += " (no fault: " + trigger.Outcome + ")"
		}
		// entries created below a destination this request has itself made
		// are one thing — what a copy that breaks off leaves behind — however
		// deep the walk got; any other change of a member keeps its own name
		var kc []string
		partial := false
		for _, ch := range changes {
			if strings.HasPrefix(ch, "destination.") && (strings.HasSuffix(ch, ":absent->new-file") || strings.HasSuffix(ch, ":absent->new-dir")) {
				if !partial {
					partial = true
					kc = append(kc, "partial-copy-below")
				}
				continue
			}
			kc = append(kc, ch)
		}
		trole := trigger.Role
		if strings.Contains(trole, "member") {
			if strings.HasPrefix(trole, "destination.") {
				trole = "destination member"
			} else {
				trole = "source member"
			}
		}
		k := fmt.Sprintf("%s|%s|%s[%s]%s", run.Method, strings.Join(kc, ","), trigger.Call, trole, when)
		if seen[k] {
			continue
		}
		seen[k] = true
		r.Ob(false)
		r.Violation("effect-then-failure|"+k, trigger.Pos, fmt.Sprintf("%s answers %s although the tree has changed (%s) after %s: the request is reported as failed but stored data was changed or destroyed. Trace: %s", run.Method, run.Status, strings.Join(changes, ", "), strings.Join(run.Mutated, ", "), run.describe()), nil)
	}
	r.RequireRole("run")
}
