package main

// E7 (part): call graph with reflection roots.
//
// encoding/xml invokes MarshalXML / UnmarshalXML / MarshalText /
// UnmarshalText (and the attribute variants) through reflection, so no
// call-graph construction sees those edges. We add an edge from every call of
// the xml encoder/decoder families made in the module to every module method
// that implements one of those interfaces.

import (
	"go/types"
	"sort"

	"golang.org/x/tools/go/callgraph"
	"golang.org/x/tools/go/callgraph/cha"
	"golang.org/x/tools/go/callgraph/vta"
	"golang.org/x/tools/go/ssa"
)

type CGEdge struct {
	Site   ssa.CallInstruction // nil for synthetic (reflection / closure creation) edges
	Caller *ssa.Function
	Callee *ssa.Function
	Kind   string // static | dynamic | reflect | closure
}

type CallGraph struct {
	Out  map[*ssa.Function][]*CGEdge
	In   map[*ssa.Function][]*CGEdge
	Algo string
}

var xmlReflectMethods = map[string]bool{
	"MarshalXML": true, "UnmarshalXML": true, "MarshalText": true, "UnmarshalText": true,
	"MarshalXMLAttr": true, "UnmarshalXMLAttr": true,
}

// xmlCodecCalls: callee full names that drive the reflection-based codec.
var xmlEncodeCalls = map[string]bool{
	"(*encoding/xml.Encoder).Encode": true, "(*encoding/xml.Encoder).EncodeElement": true,
	"encoding/xml.Marshal": true, "encoding/xml.MarshalIndent": true,
}
var xmlDecodeCalls = map[string]bool{
	"(*encoding/xml.Decoder).Decode": true, "(*encoding/xml.Decoder).DecodeElement": true,
	"encoding/xml.Unmarshal": true,
}

func isMarshalName(n string) bool {
	return n == "MarshalXML" || n == "MarshalText" || n == "MarshalXMLAttr"
}

// reflectTargets lists the module methods encoding/xml may call by reflection.
func (p *Program) reflectTargets() (enc, dec []*ssa.Function) {
	for _, fn := range p.ModFns {
		if fn.Signature.Recv() == nil || fn.Synthetic != "" {
			continue
		}
		if !xmlReflectMethods[fn.Name()] {
			continue
		}
		if isMarshalName(fn.Name()) {
			enc = append(enc, fn)
		} else {
			dec = append(dec, fn)
		}
	}
	return
}

func (c *Ctx) CG() *CallGraph {
	if c.cg != nil {
		return c.cg
	}
	p := c.P
	var g *callgraph.Graph
	algo := "cha"
	base := cha.CallGraph(p.Prog)
	if c.Thorough() {
		g = vta.CallGraph(p.AllFns, base)
		algo = "vta(cha)"
	} else {
		g = base
	}
	cg := &CallGraph{Out: map[*ssa.Function][]*CGEdge{}, In: map[*ssa.Function][]*CGEdge{}, Algo: algo}
	add := func(e *CGEdge) {
		cg.Out[e.Caller] = append(cg.Out[e.Caller], e)
		cg.In[e.Callee] = append(cg.In[e.Callee], e)
	}
	for fn, node := range g.Nodes {
		if fn == nil {
			continue
		}
		for _, e := range node.Out {
			kind := "dynamic"
			if e.Site != nil && e.Site.Common().StaticCallee() != nil {
				kind = "static"
			}
			add(&CGEdge{Site: e.Site, Caller: fn, Callee: e.Callee.Func, Kind: kind})
		}
	}
	enc, dec := p.reflectTargets()
	for _, fn := range p.ModFns {
		for _, b := range fn.Blocks {
			for _, in := range b.Instrs {
				switch in := in.(type) {
				case ssa.CallInstruction:
					name := calleeName(in.Common())
					if xmlEncodeCalls[name] {
						for _, t := range enc {
							add(&CGEdge{Site: in, Caller: fn, Callee: t, Kind: "reflect"})
						}
					}
					if xmlDecodeCalls[name] {
						for _, t := range dec {
							add(&CGEdge{Site: in, Caller: fn, Callee: t, Kind: "reflect"})
						}
					}
				case *ssa.MakeClosure:
					// the closure may be invoked by whoever receives it; CHA/VTA
					// resolve that by signature. Keep a creation edge as well so
					// that closures passed to external code (filepath.Walk,
					// sort.Slice, go statements) stay reachable.
					add(&CGEdge{Caller: fn, Callee: in.Fn.(*ssa.Function), Kind: "closure"})
				}
			}
		}
	}
	c.cg = cg
	return cg
}

// Reach returns the functions reachable from the roots. If within != nil only
// functions satisfying it are expanded (they are still included when reached).
func (cg *CallGraph) Reach(roots []*ssa.Function, expand func(*ssa.Function) bool) map[*ssa.Function]*CGEdge {
	seen := map[*ssa.Function]*CGEdge{}
	var work []*ssa.Function
	for _, r := range roots {
		if r == nil {
			continue
		}
		if _, ok := seen[r]; !ok {
			seen[r] = nil
			work = append(work, r)
		}
	}
	for len(work) > 0 {
		fn := work[0]
		work = work[1:]
		if expand != nil && !expand(fn) {
			continue
		}
		es := cg.Out[fn]
		for _, e := range es {
			if _, ok := seen[e.Callee]; !ok {
				seen[e.Callee] = e
				work = append(work, e.Callee)
			}
		}
	}
	return seen
}

// PathTo renders the call chain root → ... → fn found by Reach.
func pathTo(seen map[*ssa.Function]*CGEdge, fn *ssa.Function) []string {
	var rev []string
	for i := 0; fn != nil && i < 64; i++ {
		rev = append(rev, fnKey(fn))
		e := seen[fn]
		if e == nil {
			break
		}
		fn = e.Caller
	}
	for i, j := 0, len(rev)-1; i < j; i, j = i+1, j-1 {
		rev[i], rev[j] = rev[j], rev[i]
	}
	return rev
}

// SCCs of the graph restricted to module functions (Tarjan).
func (cg *CallGraph) moduleSCCs(p *Program) [][]*ssa.Function {
	index := map[*ssa.Function]int{}
	low := map[*ssa.Function]int{}
	on := map[*ssa.Function]bool{}
	var stack []*ssa.Function
	var out [][]*ssa.Function
	n := 0
	var strong func(v *ssa.Function)
	strong = func(v *ssa.Function) {
		index[v] = n
		low[v] = n
		n++
		stack = append(stack, v)
		on[v] = true
		for _, e := range cg.Out[v] {
			w := e.Callee
			if !p.InModule(w) {
				continue
			}
			if _, ok := index[w]; !ok {
				strong(w)
				if low[w] < low[v] {
					low[v] = low[w]
				}
			} else if on[w] && index[w] < low[v] {
				low[v] = index[w]
			}
		}
		if low[v] == index[v] {
			var comp []*ssa.Function
			for {
				w := stack[len(stack)-1]
				stack = stack[:len(stack)-1]
				on[w] = false
				comp = append(comp, w)
				if w == v {
					break
				}
			}
			selfLoop := false
			if len(comp) == 1 {
				for _, e := range cg.Out[v] {
					if e.Callee == v {
						selfLoop = true
					}
				}
			}
			if len(comp) > 1 || selfLoop {
				sort.Slice(comp, func(i, j int) bool { return fnKey(comp[i]) < fnKey(comp[j]) })
				out = append(out, comp)
			}
		}
	}
	for _, fn := range p.ModFns {
		if _, ok := index[fn]; !ok {
			strong(fn)
		}
	}
	sort.Slice(out, func(i, j int) bool { return fnKey(out[i][0]) < fnKey(out[j][0]) })
	return out
}

// ---------------------------------------------------------------------------
// entry-point sets (all exported)

func (p *Program) serverEntries() []*ssa.Function {
	var out []*ssa.Function
	for _, e := range [][2]string{
		{pkgWebdav, "(*Handler).ServeHTTP"},
		{pkgCaldav, "(*Handler).ServeHTTP"},
		{pkgCarddav, "(*Handler).ServeHTTP"},
		{pkgWebdav, "ServePrincipal"},
	} {
		if fn := p.Func(e[0], e[1]); fn != nil {
			out = append(out, fn)
		}
	}
	return out
}

// exportedMethods returns the exported methods (pointer receiver method set)
// of a named type, as SSA functions.
func (p *Program) exportedMethods(pkgPath, typeName string) []*ssa.Function {
	n := p.NamedType(pkgPath, typeName)
	if n == nil {
		return nil
	}
	ms := p.Prog.MethodSets.MethodSet(types.NewPointer(n))
	var out []*ssa.Function
	for i := 0; i < ms.Len(); i++ {
		sel := ms.At(i)
		if !sel.Obj().Exported() {
			continue
		}
		if fn := p.Prog.MethodValue(sel); fn != nil {
			out = append(out, fn)
		}
	}
	return out
}

func (p *Program) clientEntries() []*ssa.Function {
	var out []*ssa.Function
	out = append(out, p.exportedMethods(pkgWebdav, "Client")...)
	out = append(out, p.exportedMethods(pkgCaldav, "Client")...)
	out = append(out, p.exportedMethods(pkgCarddav, "Client")...)
	out = append(out, p.exportedMethods(pkgInternal, "Client")...)
	return out
}
