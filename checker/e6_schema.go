package main

// E6 schema — the wire schema implied by the xml struct tags, derived with a
// model of encoding/xml's typeinfo rules (encoding/xml/typeinfo.go and
// marshal.go of the installed toolchain):
//
//   tag = "[ns ]name[,flag...]"; "a>b>c" parent chains; flags attr, chardata,
//   cdata, innerxml, comment, any, omitempty; an empty name means the Go field
//   name; the XMLName of the field's (element) type takes precedence over the
//   field tag and must agree with it in the local name (else a run-time
//   marshal error); a name without namespace is written without xmlns (so it
//   inherits the nearest ancestor's namespace lexically) and is read from any
//   namespace.

import (
	"fmt"
	"go/types"
	"golang.org/x/tools/go/ssa"
	"reflect"
	"sort"
	"strings"
)

type xmlName struct{ Space, Local string }

func (n xmlName) String() string { return n.Space + " " + n.Local }

type xmlField struct {
	GoName    string
	Label     string // "pkg.T.f"
	Space     string // explicit namespace of the tag ("" = none)
	Local     string
	Parents   []string // a>b> chain (without the leaf)
	Attr      bool
	Chardata  bool
	CDATA     bool // written as a CDATA section
	Any       bool
	InnerXML  bool
	Comment   bool
	Omitempty bool
	Slice     bool
	Pointer   bool
	Elem      *types.Named // named struct element type (through pointer/slice), if wire struct
	ElemName  *xmlName     // XMLName of Elem, if any
	Type      types.Type
	TextCodec bool // elem type implements Marshal/UnmarshalText
}

type xmlStruct struct {
	Named  *types.Named
	Label  string
	Name   *xmlName // from the XMLName field tag
	Fields []xmlField
	Custom bool // has its own MarshalXML/UnmarshalXML: tags do not describe the wire form
	Errors []string
}

func hasMethod(t types.Type, name string) bool {
	for _, tt := range []types.Type{t, types.NewPointer(t)} {
		ms := types.NewMethodSet(tt)
		for i := 0; i < ms.Len(); i++ {
			if ms.At(i).Obj().Name() == name {
				return true
			}
		}
	}
	return false
}

// xmlNameOfType reads the XMLName tag of a struct type (no recursion).
func xmlNameOfType(n *types.Named) *xmlName {
	st, ok := n.Underlying().(*types.Struct)
	if !ok {
		return nil
	}
	for i := 0; i < st.NumFields(); i++ {
		if st.Field(i).Name() != "XMLName" {
			continue
		}
		tag, has := reflect.StructTag(st.Tag(i)).Lookup("xml")
		if !has {
			return nil
		}
		sp := ""
		if j := strings.Index(tag, " "); j >= 0 {
			sp, tag = tag[:j], tag[j+1:]
		}
		name := strings.Split(tag, ",")[0]
		if name == "" {
			return nil
		}
		return &xmlName{sp, name}
	}
	return nil
}

func parseXMLStruct(n *types.Named) *xmlStruct {
	st, ok := n.Underlying().(*types.Struct)
	if !ok {
		return nil
	}
	xs := &xmlStruct{Named: n, Label: typeLabel(n)}
	xs.Custom = hasMethod(n, "UnmarshalXML") || hasMethod(n, "MarshalXML")
	for i := 0; i < st.NumFields(); i++ {
		f := st.Field(i)
		tagAll := reflect.StructTag(st.Tag(i))
		tag, has := tagAll.Lookup("xml")
		if tag == "-" {
			continue
		}
		if !f.Exported() && !f.Embedded() {
			continue
		}
		xf := xmlField{GoName: f.Name(), Label: xs.Label + "." + f.Name(), Type: f.Type()}
		if j := strings.Index(tag, " "); j >= 0 {
			xf.Space, tag = tag[:j], tag[j+1:]
		}
		tokens := strings.Split(tag, ",")
		for _, fl := range tokens[1:] {
			switch fl {
			case "attr":
				xf.Attr = true
			case "chardata", "cdata":
				xf.Chardata = true
				xf.CDATA = fl == "cdata"
			case "innerxml":
				xf.InnerXML = true
			case "comment":
				xf.Comment = true
			case "any":
				xf.Any = true
			case "omitempty":
				xf.Omitempty = true
			default:
				xs.Errors = append(xs.Errors, fmt.Sprintf("%s: unknown xml tag flag %q", xf.Label, fl))
			}
		}
		name := tokens[0]
		if f.Name() == "XMLName" {
			if !has || name == "" {
				continue
			}
			xs.Name = &xmlName{xf.Space, name}
			continue
		}
		if name == "" && !xf.Chardata && !xf.InnerXML && !xf.Comment && !xf.Any {
			name = f.Name()
		}
		parts := strings.Split(name, ">")
		xf.Local = parts[len(parts)-1]
		xf.Parents = parts[:len(parts)-1]
		t := f.Type()
		for {
			switch u := t.(type) {
			case *types.Pointer:
				xf.Pointer = true
				t = u.Elem()
				continue
			case *types.Slice:
				if b, ok := u.Elem().Underlying().(*types.Basic); ok && b.Kind() == types.Byte {
					break
				}
				xf.Slice = true
				t = u.Elem()
				continue
			}
			break
		}
		if en := namedOf(t); en != nil {
			if hasMethod(en, "UnmarshalText") || hasMethod(en, "MarshalText") {
				xf.TextCodec = true
			}
			if _, isStruct := en.Underlying().(*types.Struct); isStruct && !xf.TextCodec {
				xf.Elem = en
				xf.ElemName = xmlNameOfType(en)
			}
		}
		xs.Fields = append(xs.Fields, xf)
	}
	return xs
}

// wireStructs lists every xml-tagged struct type declared in the library.
func (p *Program) wireStructs() []*xmlStruct {
	var out []*xmlStruct
	for _, ip := range libPkgs {
		pk := p.Mod[ip]
		sc := pk.Types.Scope()
		for _, name := range sc.Names() {
			tn, ok := sc.Lookup(name).(*types.TypeName)
			if !ok {
				continue
			}
			n, ok := tn.Type().(*types.Named)
			if !ok || !isWireStruct(n) {
				continue
			}
			if xs := parseXMLStruct(n); xs != nil {
				out = append(out, xs)
			}
		}
	}
	sort.Slice(out, func(i, j int) bool { return out[i].Label < out[j].Label })
	return out
}

// effective element name of a child field when written inside parent
// namespace parentNS.
func (f *xmlField) written(parentNS string) xmlName {
	if f.ElemName != nil {
		return *f.ElemName
	}
	if f.Space != "" {
		return xmlName{f.Space, f.Local}
	}
	return xmlName{parentNS, f.Local}
}

// ---------------------------------------------------------------------------
// RFC oracle

type rfcChild struct {
	Name xmlName
	Card byte // '1' exactly one, '?' optional, '*' any number, '+' one or more
	Rank int  // position in the content model's sequence (alternatives of a choice share one)
}

type rfcElem struct {
	Name     xmlName
	Attrs    []string   // allowed attribute local names
	ReqAttrs []string   // required attributes
	Children []rfcChild // allowed children (content model flattened; alternatives are '?')
	Any      bool       // ANY content
	Text     bool       // #PCDATA
	Src      string
}

const (
	nsDAV     = "DAV:"
	nsCalDAV  = "urn:ietf:params:xml:ns:caldav"
	nsCardDAV = "urn:ietf:params:xml:ns:carddav"
)

// el builds an oracle entry from a compact description:
//
//	children: "ns-prefix:local<card>" separated by spaces, prefixes D: C: A:
func el(ns, local, children, attrs, src string, flags ...string) rfcElem {
	e := rfcElem{Name: xmlName{ns, local}, Src: src}
	pre := map[string]string{"D": nsDAV, "C": nsCalDAV, "A": nsCardDAV}
	group := 0
	for _, c := range strings.Fields(children) {
		// "(x|y|z)" : alternatives of one choice share an order rank
		inGroup := false
		if strings.HasPrefix(c, "(") {
			group++
			for _, alt := range strings.Split(strings.Trim(c, "()"), "|") {
				card := byte('1')
				switch alt[len(alt)-1] {
				case '?', '*', '+':
					card = alt[len(alt)-1]
					alt = alt[:len(alt)-1]
				}
				i := strings.Index(alt, ":")
				e.Children = append(e.Children, rfcChild{xmlName{pre[alt[:i]], alt[i+1:]}, card, group})
			}
			inGroup = true
		}
		if inGroup {
			continue
		}
		group++
		card := byte('1')
		switch c[len(c)-1] {
		case '?', '*', '+':
			card = c[len(c)-1]
			c = c[:len(c)-1]
		}
		i := strings.Index(c, ":")
		e.Children = append(e.Children, rfcChild{xmlName{pre[c[:i]], c[i+1:]}, card, group})
	}
	for _, a := range strings.Fields(attrs) {
		if strings.HasSuffix(a, "!") {
			a = strings.TrimSuffix(a, "!")
			e.ReqAttrs = append(e.ReqAttrs, a)
		}
		e.Attrs = append(e.Attrs, a)
	}
	for _, f := range flags {
		switch f {
		case "any":
			e.Any = true
		case "text":
			e.Text = true
		}
	}
	return e
}

// rfcTable is transcribed from the DTD fragments of RFC 4918 §14/§15,
// RFC 3744 §4, RFC 5397 §3, RFC 5323 §5.17, RFC 5689 §5.1, RFC 6578 §6,
// RFC 4791 §5.2/§6.2/§9 and RFC 6352 §6.2/§10. Alternatives of a choice are
// entered as optional ('?'); mutual exclusion is a matter of values, not of
// schema, and is checked by the decoders (C13).
var rfcTable = func() map[xmlName][]rfcElem {
	list := []rfcElem{
		// RFC 4918
		el(nsDAV, "multistatus", "D:response* D:responsedescription? D:sync-token?", "", "RFC 4918 §14.16, RFC 6578 §6.4"),
		el(nsDAV, "response", "D:href+ (D:status?|D:propstat*) D:error? D:responsedescription? D:location?", "", "RFC 4918 §14.24"),
		el(nsDAV, "propstat", "D:prop D:status D:error? D:responsedescription?", "", "RFC 4918 §14.22"),
		el(nsDAV, "prop", "", "", "RFC 4918 §14.18", "any"),
		el(nsDAV, "error", "", "", "RFC 4918 §14.5", "any"),
		el(nsDAV, "location", "D:href", "", "RFC 4918 §14.9"),
		el(nsDAV, "propfind", "(D:propname?|D:allprop?|D:prop?) D:include?", "", "RFC 4918 §14.20"),
		el(nsDAV, "include", "", "", "RFC 4918 §14.8", "any"),
		el(nsDAV, "propertyupdate", "(D:remove*|D:set*)", "", "RFC 4918 §14.19"),
		el(nsDAV, "remove", "D:prop", "", "RFC 4918 §14.23"),
		el(nsDAV, "set", "D:prop", "", "RFC 4918 §14.26"),
		el(nsDAV, "resourcetype", "", "", "RFC 4918 §15.9", "any"),
		el(nsDAV, "getcontentlength", "", "", "RFC 4918 §15.4", "text"),
		el(nsDAV, "getcontenttype", "", "", "RFC 4918 §15.5", "text"),
		el(nsDAV, "getlastmodified", "", "", "RFC 4918 §15.7", "text"),
		el(nsDAV, "getetag", "", "", "RFC 4918 §15.6", "text"),
		el(nsDAV, "displayname", "", "", "RFC 4918 §15.2", "text"),
		// RFC 5397, RFC 3744
		el(nsDAV, "current-user-principal", "(D:unauthenticated?|D:href?)", "", "RFC 5397 §3"),
		el(nsDAV, "alternate-URI-set", "D:href*", "", "RFC 3744 §4.1"),
		el(nsDAV, "principal-URL", "D:href", "", "RFC 3744 §4.2"),
		el(nsDAV, "group-membership", "D:href*", "", "RFC 3744 §4.4"),
		// RFC 6578, RFC 5323
		el(nsDAV, "sync-collection", "D:sync-token D:sync-level D:limit? D:prop", "", "RFC 6578 §6.1"),
		el(nsDAV, "limit", "D:nresults", "", "RFC 5323 §5.17"),
		// RFC 5689
		el(nsDAV, "mkcol", "D:set+", "", "RFC 5689 §5.1"),
		// RFC 4791
		el(nsCalDAV, "calendar-home-set", "D:href*", "", "RFC 4791 §6.2.1"),
		el(nsCalDAV, "calendar-description", "", "lang", "RFC 4791 §5.2.1", "text"),
		el(nsCalDAV, "supported-calendar-component-set", "C:comp+", "", "RFC 4791 §5.2.3"),
		el(nsCalDAV, "supported-calendar-data", "C:calendar-data+", "", "RFC 4791 §5.2.4"),
		el(nsCalDAV, "max-resource-size", "", "", "RFC 4791 §5.2.5", "text"),
		el(nsCalDAV, "calendar-query", "(D:allprop?|D:propname?|D:prop?) C:filter C:timezone?", "", "RFC 4791 §9.5"),
		el(nsCalDAV, "calendar-multiget", "(D:allprop?|D:propname?|D:prop?) D:href+", "", "RFC 4791 §9.10"),
		el(nsCalDAV, "filter", "C:comp-filter", "", "RFC 4791 §9.7"),
		el(nsCalDAV, "comp-filter", "(C:is-not-defined?|C:time-range?) C:prop-filter* C:comp-filter*", "name!", "RFC 4791 §9.7.1"),
		el(nsCalDAV, "prop-filter", "(C:is-not-defined?|C:time-range?|C:text-match?) C:param-filter*", "name!", "RFC 4791 §9.7.2"),
		el(nsCalDAV, "param-filter", "(C:is-not-defined?|C:text-match?)", "name!", "RFC 4791 §9.7.3"),
		el(nsCalDAV, "text-match", "", "collation negate-condition", "RFC 4791 §9.7.5", "text"),
		el(nsCalDAV, "time-range", "", "start end", "RFC 4791 §9.9"),
		// calendar-data has three forms (§9.6): supported-data (empty, attrs),
		// request (comp/expand/...), response (text).
		el(nsCalDAV, "calendar-data", "C:comp? (C:expand?|C:limit-recurrence-set?) C:limit-freebusy-set?", "content-type version", "RFC 4791 §9.6", "text"),
		el(nsCalDAV, "comp", "(C:allprop?|C:prop*) (C:allcomp?|C:comp*)", "name!", "RFC 4791 §9.6.1"),
		el(nsCalDAV, "prop", "", "name! novalue", "RFC 4791 §9.6.4"),
		el(nsCalDAV, "expand", "", "start! end!", "RFC 4791 §9.6.5"),
		// RFC 6352
		el(nsCardDAV, "addressbook-home-set", "D:href*", "", "RFC 6352 §7.1.1"),
		el(nsCardDAV, "addressbook-description", "", "lang", "RFC 6352 §6.2.1", "text"),
		el(nsCardDAV, "supported-address-data", "A:address-data-type+", "", "RFC 6352 §6.2.2"),
		el(nsCardDAV, "address-data-type", "", "content-type version", "RFC 6352 §6.2.2"),
		el(nsCardDAV, "max-resource-size", "", "", "RFC 6352 §6.2.3", "text"),
		el(nsCardDAV, "addressbook-query", "(D:allprop?|D:propname?|D:prop?) A:filter A:limit?", "", "RFC 6352 §10.3"),
		el(nsCardDAV, "addressbook-multiget", "(D:allprop?|D:propname?|D:prop?) D:href+", "", "RFC 6352 §8.7 / §10.7"),
		el(nsCardDAV, "filter", "A:prop-filter*", "test", "RFC 6352 §10.5"),
		el(nsCardDAV, "prop-filter", "(A:is-not-defined?|A:text-match*) A:param-filter*", "name! test", "RFC 6352 §10.5.1"),
		el(nsCardDAV, "param-filter", "(A:is-not-defined?|A:text-match?)", "name!", "RFC 6352 §10.5.2"),
		el(nsCardDAV, "text-match", "", "collation negate-condition match-type", "RFC 6352 §10.5.4", "text"),
		el(nsCardDAV, "limit", "A:nresults", "", "RFC 6352 §10.6"),
		el(nsCardDAV, "address-data", "(A:allprop?|A:prop*)", "content-type version", "RFC 6352 §10.4", "text"),
		el(nsCardDAV, "prop", "", "name! novalue", "RFC 6352 §10.4.2"),
	}
	m := map[xmlName][]rfcElem{}
	for _, e := range list {
		m[e.Name] = append(m[e.Name], e)
	}
	return m
}()

// leaf elements that appear only as children (no struct of their own).
var rfcLeafText = map[xmlName]bool{
	{nsDAV, "href"}: true, {nsDAV, "status"}: true, {nsDAV, "responsedescription"}: true,
	{nsDAV, "sync-token"}: true, {nsDAV, "sync-level"}: true, {nsDAV, "nresults"}: true,
	{nsCardDAV, "nresults"}: true, {nsDAV, "displayname"}: true,
}

// checkSchema compares every wire struct selected by keep with the oracle.
// hasMarshalAttrOmittingZero: the type implements xml.MarshalerAttr with a
// return of the zero xml.Attr (which encoding/xml does not write).
func hasMarshalAttrOmittingZero(p *Program, t types.Type) bool {
	n := namedOf(t)
	if n == nil {
		return false
	}
	for _, ptr := range []bool{false, true} {
		var rt types.Type = n
		if ptr {
			rt = types.NewPointer(n)
		}
		sel := p.Prog.MethodSets.MethodSet(rt).Lookup(n.Obj().Pkg(), "MarshalXMLAttr")
		if sel == nil {
			continue
		}
		fn := p.Prog.MethodValue(sel)
		if fn == nil || len(fn.Blocks) == 0 {
			continue
		}
		for _, b := range fn.Blocks {
			ret, ok := b.Instrs[len(b.Instrs)-1].(*ssa.Return)
			if !ok || len(ret.Results) != 2 {
				continue
			}
			if k, isK := ret.Results[0].(*ssa.Const); isK && k.Value == nil && isNilConst(ret.Results[1]) {
				return true // zero-value struct constant
			}
			if ld, isLd := ret.Results[0].(*ssa.UnOp); isLd {
				if al, isAl := ld.X.(*ssa.Alloc); isAl {
					// a local xml.Attr that is never written: the zero value
					written := false
					for _, ref := range *al.Referrers() {
						switch ref.(type) {
						case *ssa.Store, *ssa.FieldAddr:
							written = true
						}
					}
					if !written && isNilConst(ret.Results[1]) {
						return true
					}
				}
			}
		}
	}
	return false
}

func checkSchema(p *Program, r *RuleResult, keep func(*xmlStruct) bool, strictCard func(*xmlStruct) bool, strictOrder func(*xmlStruct) bool) {
	for _, xs := range p.wireStructs() {
		if !keep(xs) {
			continue
		}
		pos := p.Pos(xs.Named.Obj().Pos())
		for _, e := range xs.Errors {
			r.Ob(false)
			r.Violation("tag|"+xs.Label+"|"+e, pos, "malformed xml struct tag: "+e, nil)
		}
		if xs.Custom && xs.Name == nil {
			r.Note("%s has custom (Un)MarshalXML and no XMLName: its wire form is code, not tags (covered by the flow rules)", xs.Label)
			continue
		}
		if xs.Name == nil {
			// a struct without XMLName takes its element name from the field
			// that holds it: fine when every such field names it
			named, unnamed := 0, 0
			for _, other := range p.wireStructs() {
				for i := range other.Fields {
					f := &other.Fields[i]
					if f.Elem == xs.Named {
						if f.Local != "" {
							named++
						} else {
							unnamed++
						}
					}
				}
			}
			if named > 0 && unnamed == 0 {
				r.Ob(true)
				r.Note("%s has no XMLName: it is named by the %d field(s) that hold it", xs.Label, named)
				continue
			}
			r.Ob(false)
			r.Violation("noname|"+xs.Label, pos, "wire struct "+xs.Label+" has xml-tagged fields but no XMLName tag, and is not (only) held by fields that name it: its element name would be its Go type name", nil)
			continue
		}
		r.Role("wire-struct")
		cands := rfcTable[*xs.Name]
		if len(cands) == 0 {
			if strings.HasPrefix(xs.Name.Space, "urn:verif") {
				continue
			}
			// an element the transcribed tables do not have: other
			// specifications define elements in these namespaces too (RFC 3253
			// supported-report-set, RFC 4331 quota, vendor extensions) — that
			// is a violation only when it looks like a slip: the local name
			// exists in ANOTHER namespace of the tables (namespace mix-up) or
			// differs from a known name of its namespace by a letter or two
			why := ""
			for kn := range rfcTable {
				if kn.Local == xs.Name.Local && kn.Space != xs.Name.Space {
					why = fmt.Sprintf("the tables know <%s>: the namespace looks mixed up", kn)
				}
				if kn.Space == xs.Name.Space && kn.Local != xs.Name.Local && editDistanceAtMost(kn.Local, xs.Name.Local, 2) && len(kn.Local) > 4 {
					why = fmt.Sprintf("the tables know <%s>: the name looks misspelt", kn)
				}
			}
			if why == "" {
				r.Ob(true)
				r.Note("%s declares <%s>, which is not in the transcribed RFC tables (an element of another specification or an extension): not checked", xs.Label, xs.Name)
				continue
			}
			r.Ob(false)
			r.Violation("unknown-element|"+xs.Label+"|"+xs.Name.String(), pos, fmt.Sprintf("wire struct %s declares element <%s>, which none of RFC 4918/3744/5397/5323/5689/6578/4791/6352 defines; %s", xs.Label, xs.Name, why), nil)
			continue
		}
		spec := cands[0]
		r.Ob(true)
		allowedAttr := map[string]bool{}
		for _, a := range spec.Attrs {
			allowedAttr[a] = true
		}
		childSpec := map[xmlName]rfcChild{}
		for _, c := range spec.Children {
			childSpec[c.Name] = c
		}
		seenChild := map[xmlName]bool{}
		seenAttr := map[string]bool{}
		hasText := false
		for i := range xs.Fields {
			f := &xs.Fields[i]
			fpos := pos
			switch {
			case f.Attr:
				// omitempty on a struct-typed attribute does nothing
				// (encoding/xml's isEmptyValue knows no structs): an unset
				// optional attribute is written with its zero value unless
				// the type leaves it out itself (xml.MarshalerAttr)
				if f.Omitempty {
					if st, isStruct := f.Type.Underlying().(*types.Struct); isStruct && st != nil {
						r.Role("omitempty-attribute-of-struct-type")
						ok := hasMarshalAttrOmittingZero(p, f.Type)
						r.Ob(ok)
						if !ok {
							r.Violation("ineffective-omitempty|"+xs.Name.String()+"|"+f.Local, fpos, fmt.Sprintf("%s is an optional attribute (omitempty) of a struct type: encoding/xml never considers a struct empty, so an unset value is written as the zero value (a time-range bound in year 1) and an independent reader takes it for a real one; the type must leave the attribute out itself (xml.MarshalerAttr)", f.Label), nil)
						}
					}
				}
				r.Role("attribute")
				seenAttr[f.Local] = true
				ok := allowedAttr[f.Local] && f.Space == ""
				r.Ob(ok)
				r.Sample(map[string]interface{}{"struct": xs.Label, "element": xs.Name.String(), "attribute": f.Local, "allowed_by": spec.Src})
				if !ok {
					r.Violation("attr|"+xs.Name.String()+"|"+f.Space+" "+f.Local, fpos, fmt.Sprintf("%s maps to attribute %q of <%s>; %s allows only %v", f.Label, strings.TrimSpace(f.Space+" "+f.Local), xs.Name, spec.Src, spec.Attrs), nil)
				}
			case f.Chardata:
				hasText = true
				if f.CDATA {
					// Inside a CDATA section nothing can be escaped: a carriage
					// return is written raw and every XML parser normalises it
					// to a line feed (XML 1.0 §2.11); ,chardata writes &#xD;.
					r.Role("cdata-text")
					r.Ob(false)
					r.Violation("cdata|"+xs.Name.String(), fpos, fmt.Sprintf("%s is written as a CDATA section: a carriage return in the text cannot be escaped there and reaches the reader as a line feed (text altered in transit); use ,chardata", f.Label), nil)
				}
				r.Ob(spec.Text || spec.Any)
				if !spec.Text && !spec.Any {
					r.Violation("text|"+xs.Name.String(), fpos, fmt.Sprintf("%s carries character data but <%s> has no text content in %s", f.Label, xs.Name, spec.Src), nil)
				}
			case f.Any:
				r.Ob(spec.Any)
				if !spec.Any {
					r.Violation("any|"+xs.Name.String(), fpos, fmt.Sprintf("%s accepts any child but <%s> has a fixed content model in %s", f.Label, xs.Name, spec.Src), nil)
				}
			case f.InnerXML:
				// ,innerxml copies the field into the document verbatim, with
				// no escaping: a '&' or '<' in the value makes the whole
				// document malformed
				r.Role("innerxml-field")
				r.Ob(false)
				r.Violation("innerxml|"+xs.Name.String(), fpos, fmt.Sprintf("%s is written with ,innerxml: the value is copied into the document unescaped, so a '&' or '<' in it makes the whole body malformed XML; use ,chardata", f.Label), nil)
			case f.Comment:
				// not used by the library today
			default:
				r.Role("child-element")
				// a>b>c chains: the leaf's parent is not this element; check
				// the chain step by step.
				parentNS := xs.Name.Space
				cur := spec
				okChain := true
				for _, par := range f.Parents {
					pn := xmlName{parentNS, par}
					found := false
					for _, c := range cur.Children {
						if c.Name == pn {
							found = true
						}
					}
					if !found && !cur.Any {
						okChain = false
						break
					}
					if nx := rfcTable[pn]; len(nx) > 0 {
						cur = nx[0]
					} else {
						cur = rfcElem{Any: true}
					}
				}
				w := f.written(parentNS)
				// local-name conflict between tag and the type's XMLName is a
				// run-time marshal error in encoding/xml
				if f.ElemName != nil && f.Local != f.ElemName.Local {
					r.Ob(false)
					r.Violation("conflict|"+f.Label, fpos, fmt.Sprintf("tag name %q of %s conflicts with XMLName %q of its type: encoding/xml refuses the struct at run time", f.Local, f.Label, f.ElemName.Local), nil)
					continue
				}
				if f.ElemName != nil && f.Space != "" && f.Space != f.ElemName.Space {
					r.Ob(false)
					r.Violation("ns-conflict|"+f.Label, fpos, fmt.Sprintf("tag namespace %q of %s differs from namespace %q of its type's XMLName: written as the latter, but read only as the former", f.Space, f.Label, f.ElemName.Space), nil)
					continue
				}
				if len(f.Parents) > 0 {
					seenChild[xmlName{parentNS, f.Parents[0]}] = true
					r.Ob(okChain)
					if !okChain {
						r.Violation("chain|"+xs.Name.String()+"|"+strings.Join(f.Parents, ">")+">"+f.Local, fpos, fmt.Sprintf("%s: parent chain %s is not a path of <%s> in %s", f.Label, strings.Join(f.Parents, ">"), xs.Name, spec.Src), nil)
					}
					if cur.Any {
						continue
					}
					cs := map[xmlName]rfcChild{}
					for _, c := range cur.Children {
						cs[c.Name] = c
					}
					_, ok := cs[w]
					r.Ob(ok)
					if !ok {
						r.Violation("child|"+xs.Name.String()+"|"+w.String(), fpos, fmt.Sprintf("%s is written as <%s> under %s, which %s does not allow there", f.Label, w, strings.Join(f.Parents, ">"), cur.Src), nil)
					}
					continue
				}
				seenChild[w] = true
				// an element the RFC declares EMPTY carries its meaning by
				// being there: a bool or string field reads the conformant
				// empty form as false/"" and writes text into it
				if why, isEmpty := rfcEmptyElements[w.Local]; isEmpty {
					if _, isBasic := f.Type.Underlying().(*types.Basic); isBasic {
						r.Role("empty-element")
						r.Ob(false)
						r.Violation("empty-as-value|"+xs.Name.String()+"|"+w.String(), fpos, fmt.Sprintf("%s maps the EMPTY element <%s> (%s) to the Go type %s: the conformant form <%s/> decodes to the zero value (the flag is lost) and a set value is written as text inside the element; presence must be the value (*struct{})", f.Label, w, why, f.Type.String(), w.Local), nil)
						continue
					}
					r.Role("empty-element")
					r.Ob(true)
				}
				c, ok := childSpec[w]
				if spec.Any {
					ok = true
				}
				r.Ob(ok)
				r.Sample(map[string]interface{}{"struct": xs.Label, "element": xs.Name.String(), "child": w.String(), "allowed_by": spec.Src})
				if !ok {
					r.Violation("child|"+xs.Name.String()+"|"+w.String(), fpos, fmt.Sprintf("%s is written as child <%s> of <%s>; %s does not allow that element there (allowed: %s)", f.Label, w, xs.Name, spec.Src, childNames(spec)), nil)
					continue
				}
				if !spec.Any && (c.Card == '*' || c.Card == '+') && !f.Slice {
					if strictCard != nil && strictCard(xs) {
						r.Ob(false)
						r.Violation("card|"+xs.Name.String()+"|"+w.String(), fpos, fmt.Sprintf("%s is a single value but <%s> may occur repeatedly in <%s> (%s): further occurrences of a request element are lost", f.Label, w, xs.Name, spec.Src), nil)
					} else {
						r.Note("observation (not a violation of the property): %s holds one value although %s allows <%s> to repeat in <%s>; the public API has a single value there", f.Label, spec.Src, w, xs.Name)
					}
				}
			}
		}
		// child order: encoding/xml writes children in field order; the RFC
		// content models are sequences
		if !spec.Any {
			rank := map[xmlName]int{}
			for _, c := range spec.Children {
				rank[c.Name] = c.Rank
			}
			last, lastName := -1, ""
			for i := range xs.Fields {
				f := &xs.Fields[i]
				if f.Attr || f.Chardata || f.Any || f.InnerXML || f.Comment {
					continue
				}
				var w xmlName
				if len(f.Parents) > 0 {
					w = xmlName{xs.Name.Space, f.Parents[0]}
				} else {
					w = f.written(xs.Name.Space)
				}
				rk, known := rank[w]
				if !known {
					continue
				}
				ok := rk >= last
				if strictOrder == nil || !strictOrder(xs) {
					// RFC 4918 §14 / RFC 4791 §1.1 / RFC 6352 §3: "element
					// ordering is irrelevant unless explicitly stated" — a
					// deviation is only worth a note unless the property
					// itself names child order.
					if !ok {
						r.Note("observation (not a violation of the property): %s is written after <%s> although the DTD fragment of <%s> in %s lists <%s> first; the RFCs declare element ordering irrelevant", f.Label, lastName, xs.Name, spec.Src, w)
					}
					if rk > last {
						last, lastName = rk, w.String()
					}
					continue
				}
				r.Role("child-order")
				r.Ob(ok)
				if !ok {
					r.Violation("order|"+xs.Name.String()+"|"+w.String(), pos, fmt.Sprintf("%s is written after <%s> although the content model of <%s> in %s puts <%s> first (%s): a reader that validates the RFC's sequence rejects the document", f.Label, lastName, xs.Name, spec.Src, w, childNames(spec)), nil)
				}
				if rk > last {
					last, lastName = rk, w.String()
				}
			}
		}
		// required children / attributes must be representable
		for _, c := range spec.Children {
			if c.Card == '1' || c.Card == '+' {
				r.Ob(seenChild[c.Name])
				if !seenChild[c.Name] {
					r.Violation("missing-child|"+xs.Name.String()+"|"+c.Name.String(), pos, fmt.Sprintf("%s has no field for <%s>, which %s requires in <%s>", xs.Label, c.Name, spec.Src, xs.Name), nil)
				}
			}
		}
		for _, a := range spec.ReqAttrs {
			r.Ob(seenAttr[a])
			if !seenAttr[a] {
				r.Violation("missing-attr|"+xs.Name.String()+"|"+a, pos, fmt.Sprintf("%s has no field for attribute %q, which %s requires on <%s>", xs.Label, a, spec.Src, xs.Name), nil)
			}
		}
		_ = hasText
	}
}

func childNames(e rfcElem) string {
	var out []string
	for _, c := range e.Children {
		out = append(out, "<"+c.Name.String()+">"+string(c.Card))
	}
	return strings.Join(out, " ")
}

// xmlPathOf maps every wire field label to its RFC-level identity
// "<ns local>/@attr", "<ns local>/<ns child>", "<ns local>/#text", so that
// rules can name wire fields by what the RFC calls them rather than by Go
// identifiers (robust against renaming struct fields).
func (p *Program) xmlPaths() (byLabel map[string]string, byPath map[string]string) {
	byLabel = map[string]string{}
	byPath = map[string]string{}
	for _, xs := range p.wireStructs() {
		if xs.Name == nil {
			continue
		}
		for i := range xs.Fields {
			f := &xs.Fields[i]
			var path string
			switch {
			case f.Attr:
				path = "<" + xs.Name.String() + ">/@" + f.Local
			case f.Chardata:
				path = "<" + xs.Name.String() + ">/#text"
			case f.Any:
				path = "<" + xs.Name.String() + ">/*"
			default:
				w := f.written(xs.Name.Space)
				path = "<" + xs.Name.String() + ">/" + strings.Join(append(append([]string{}, f.Parents...), "<"+w.String()+">"), "/")
			}
			byLabel[f.Label] = path
			byPath[path] = f.Label
		}
	}
	return
}

// rfcUnsignedText: elements whose text is a non-negative integer in the RFCs
// (1*DIGIT). A Go field of a signed type accepts "-1" from the wire, and the
// code behind it then treats the request as one without that element instead
// of refusing it.
var rfcUnsignedText = map[string]string{
	"nresults":          "RFC 5323 §5.17 / RFC 6352 §10.6 / RFC 6578 §6.4: nresults is 1*DIGIT",
	"max-resource-size": "RFC 4791 §5.2.5 / RFC 6352 §6.2.3: a positive integer",
	"getcontentlength":  "RFC 4918 §15.4: 1*DIGIT",
}

func unsignedElementsRule(c *Ctx, pr *PropertyRun, prop string) {
	p := c.P
	r := NewRule(prop, prop+".unsigned-elements", "elements whose RFC type is a non-negative integer (nresults, max-resource-size, getcontentlength) are decoded into unsigned Go fields, so that a negative value is refused by the decoder (E6)")
	pr.Rules = append(pr.Rules, r)
	for _, xs := range p.wireStructs() {
		for i := range xs.Fields {
			f := &xs.Fields[i]
			why, ok := rfcUnsignedText[f.Local]
			if !ok || f.Attr {
				continue
			}
			b, isBasic := f.Type.Underlying().(*types.Basic)
			if !isBasic || b.Info()&types.IsInteger == 0 {
				continue
			}
			r.Role("numeric-element")
			good := b.Info()&types.IsUnsigned != 0
			r.Ob(good)
			r.Sample(map[string]interface{}{"field": f.Label, "element": f.Local, "go_type": f.Type.String(), "ok": good})
			if !good {
				r.Violation("signed|"+f.Label, p.Pos(xs.Named.Obj().Pos()), fmt.Sprintf("%s decodes <%s> into the signed type %s (%s): a negative value is accepted by the decoder instead of being refused as malformed", f.Label, f.Local, f.Type.String(), why), nil)
			}
		}
	}
	r.RequireRole("numeric-element")
}

// rfcEmptyElements: elements declared EMPTY (by local name; the namespaces
// that define them are CalDAV, CardDAV and DAV).
var rfcEmptyElements = map[string]string{
	"is-not-defined": "RFC 4791 §9.7.4 / RFC 6352 §10.5.3: <!ELEMENT is-not-defined EMPTY>",
	"allprop":        "RFC 4918 §14.2 / RFC 4791 §9.6.2: EMPTY",
	"propname":       "RFC 4918 §14.18: EMPTY",
	"allcomp":        "RFC 4791 §9.6.3: EMPTY",
}

// addressableMarshalersRule: encoding/xml finds a pointer-receiver
// MarshalText/MarshalXML/MarshalXMLAttr only on a value it can address. A wire
// struct handed to the encoder BY VALUE inside an interface is not
// addressable: such a marshaler of one of its (value-typed) fields is
// silently skipped and the field is written empty, under status 200.
func addressableMarshalersRule(c *Ctx, pr *PropertyRun, prop string) {
	p := c.P
	r := NewRule(prop, prop+".addressable-marshalers", "no wire struct with a value-typed field whose marshaler has a pointer receiver is converted to an interface by value: encoding/xml could not call the marshaler and would write the field empty (E6)")
	pr.Rules = append(pr.Rules, r)
	wire := map[*types.Named]bool{}
	for _, xs := range p.wireStructs() {
		wire[xs.Named] = true
	}
	ptrOnly := func(t types.Type) string {
		n := namedOf(t)
		if n == nil {
			return ""
		}
		if _, isPtr := t.(*types.Pointer); isPtr {
			return ""
		}
		for _, m := range []string{"MarshalText", "MarshalXML", "MarshalXMLAttr"} {
			inPtr := p.Prog.MethodSets.MethodSet(types.NewPointer(n)).Lookup(nil, m) != nil
			inVal := p.Prog.MethodSets.MethodSet(n).Lookup(nil, m) != nil
			if inPtr && !inVal {
				return n.Obj().Name() + "." + m
			}
		}
		return ""
	}
	var offending func(t types.Type, depth int) string
	offending = func(t types.Type, depth int) string {
		if depth > 3 {
			return ""
		}
		st, ok := t.Underlying().(*types.Struct)
		if !ok {
			return ""
		}
		for i := 0; i < st.NumFields(); i++ {
			ft := st.Field(i).Type()
			if st.Field(i).Name() == "XMLName" {
				continue
			}
			if w := ptrOnly(ft); w != "" {
				return st.Field(i).Name() + " (" + w + " has a pointer receiver)"
			}
			if _, isStruct := ft.Underlying().(*types.Struct); isStruct {
				if _, isPtr := ft.(*types.Pointer); !isPtr {
					if w := offending(ft, depth+1); w != "" {
						return st.Field(i).Name() + "." + w
					}
				}
			}
		}
		return ""
	}
	for _, fn := range p.ModFns {
		if !inLib(fn) || len(fn.Blocks) == 0 {
			continue
		}
		eachInstr(fn, func(_ *ssa.BasicBlock, in ssa.Instruction) {
			mi, ok := in.(*ssa.MakeInterface)
			if !ok {
				return
			}
			n := namedOf(mi.X.Type())
			if n == nil || !wire[n] {
				return
			}
			if _, isPtr := mi.X.Type().Underlying().(*types.Pointer); isPtr {
				return
			}
			r.Role("wire-struct-by-value")
			w := offending(n, 0)
			r.Ob(w == "")
			if w != "" {
				r.Violation("value-marshaler|"+fnKey(fn)+"|"+n.Obj().Name(), p.instrPos(mi), fmt.Sprintf("%s hands a %s to an interface by value; its field %s: encoding/xml cannot address the field of a value held in an interface, skips the marshaler and writes the element empty — pass a pointer", fnKey(fn), n.Obj().Name(), w), nil)
			}
		})
	}
	if p.Control {
		r.ExpectControl("value-marshaler|internal.zzVerifControlByValue")
	}
}

// editDistanceAtMost: Levenshtein distance of a and b is <= k (k small).
func editDistanceAtMost(a, b string, k int) bool {
	if d := len(a) - len(b); d > k || -d > k {
		return false
	}
	prev := make([]int, len(b)+1)
	for j := range prev {
		prev[j] = j
	}
	for i := 1; i <= len(a); i++ {
		cur := make([]int, len(b)+1)
		cur[0] = i
		for j := 1; j <= len(b); j++ {
			c := prev[j-1]
			if a[i-1] != b[j-1] {
				c++
			}
			if prev[j]+1 < c {
				c = prev[j] + 1
			}
			if cur[j-1]+1 < c {
				c = cur[j-1] + 1
			}
			cur[j] = c
		}
		prev = cur
	}
	return prev[len(b)] <= k
}

// eagerEncodingRule: the iCalendar / vCard text of an object is produced while
// the answer is being BUILT (inside the property function, whose error becomes
// that property's status), not while it is being WRITTEN: a custom
// MarshalXML/MarshalText that runs a fallible encoder fails after the 207
// status has been sent, and the body breaks off in the middle.
func eagerEncodingRule(c *Ctx, pr *PropertyRun, prop string) {
	p := c.P
	r := NewRule(prop, prop+".eager-encoding", "no MarshalXML/MarshalText method of the library runs the iCalendar or vCard encoder (or any other fallible third-party encoder): property values are encoded before the response is started, so a failure is one property's status, not a truncated body (E4)")
	pr.Rules = append(pr.Rules, r)
	for _, fn := range p.ModFns {
		if !inLib(fn) || len(fn.Blocks) == 0 || fn.Signature.Recv() == nil {
			continue
		}
		switch fn.Name() {
		case "MarshalXML", "MarshalText", "MarshalXMLAttr":
		default:
			continue
		}
		r.Role("marshal-method")
		bad := ""
		seen := map[*ssa.Function]bool{}
		var visit func(f *ssa.Function, depth int)
		visit = func(f *ssa.Function, depth int) {
			if seen[f] || depth > 3 {
				return
			}
			seen[f] = true
			eachCall(f, func(site ssa.CallInstruction) {
				n := calleeName(site.Common())
				if n == "(*"+pkgIcal+".Encoder).Encode" || n == "(*"+pkgVcard+".Encoder).Encode" {
					bad = n
				}
				if callee := site.Common().StaticCallee(); callee != nil && inLib(callee) && callee.Name() != "MarshalXML" {
					visit(callee, depth+1)
				}
			})
		}
		visit(fn, 0)
		r.Ob(bad == "")
		if bad != "" {
			r.Violation("lazy-encoding|"+fnKey(fn), p.Pos(fn.Pos()), fmt.Sprintf("%s runs %s: it is called while the multi-status is being written, after the 207 status has gone out — when the encoder refuses the object the body breaks off and the remaining resources and properties are lost; encode in the property function, where the error becomes that property's status", fnKey(fn), bad), nil)
		}
	}
	r.RequireRole("marshal-method")
}
