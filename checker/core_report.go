package main

// Obligations, findings, known-findings matching, evidence files.

import (
	"encoding/json"
	"fmt"
	"os"
	"path/filepath"
	"sort"
	"strings"
	"time"
)

// Finding kinds.
const (
	KindViolation  = "violation"  // the rule is broken by a construct of /repo
	KindUndecided  = "undecided"  // the analysis met something outside its fragment
	KindUnresolved = "unresolved" // an anchor / role could not be found (would pass vacuously)
	KindControl    = "control"    // a positive control that did NOT fire: the check is broken
)

type Finding struct {
	Property string                 `json:"property"`
	Rule     string                 `json:"rule"`
	Key      string                 `json:"key"` // semantic, line-free: rule|function|discriminator
	Kind     string                 `json:"kind"`
	Pos      string                 `json:"pos"`
	Msg      string                 `json:"msg"`
	Detail   map[string]interface{} `json:"detail,omitempty"`
	control  bool                   // located in the injected control file
}

type RuleResult struct {
	ID          string         `json:"id"`
	Doc         string         `json:"doc"`
	Obligations int            `json:"obligations"`
	Discharged  int            `json:"discharged"`
	Roles       map[string]int `json:"roles,omitempty"`
	Counts      map[string]int `json:"counts,omitempty"`
	Samples     []interface{}  `json:"samples,omitempty"`
	Notes       []string       `json:"notes,omitempty"`
	Exhaustive  bool           `json:"exhaustive,omitempty"`
	Bounds      string         `json:"bounds,omitempty"`
	Findings    []Finding      `json:"-"`

	controlsWanted map[string]bool // control key substrings that must be reported
	controlsSeen   map[string]bool
	prop           string
}

func NewRule(prop, id, doc string) *RuleResult {
	return &RuleResult{ID: id, Doc: doc, Roles: map[string]int{}, Counts: map[string]int{}, prop: prop,
		controlsWanted: map[string]bool{}, controlsSeen: map[string]bool{}}
}

// Ob records one obligation; ok = discharged.
func (r *RuleResult) Ob(ok bool) {
	r.Obligations++
	if ok {
		r.Discharged++
	}
}

func (r *RuleResult) Role(name string) { r.Roles[name]++ }
func (r *RuleResult) Count(name string, n int) {
	r.Counts[name] += n
}

func (r *RuleResult) Sample(s interface{}) {
	if len(r.Samples) < 12 {
		r.Samples = append(r.Samples, s)
	}
}

func (r *RuleResult) Note(format string, a ...interface{}) {
	r.Notes = append(r.Notes, fmt.Sprintf(format, a...))
}

func (r *RuleResult) Violation(key, pos, msg string, detail map[string]interface{}) {
	r.Findings = append(r.Findings, Finding{Property: r.prop, Rule: r.ID, Key: r.ID + "|" + key, Kind: KindViolation, Pos: pos, Msg: msg, Detail: detail,
		control: strings.Contains(pos, controlFileName) || strings.Contains(key, "zzVerifControl") || strings.Contains(key, "zzverifcontrol")})
}

func (r *RuleResult) Undecided(key, pos, msg string) {
	r.Findings = append(r.Findings, Finding{Property: r.prop, Rule: r.ID, Key: r.ID + "|undecided|" + key, Kind: KindUndecided, Pos: pos, Msg: msg,
		control: strings.Contains(pos, controlFileName) || strings.Contains(key, "zzVerifControl")})
}

func (r *RuleResult) Unresolved(msg string) {
	r.Findings = append(r.Findings, Finding{Property: r.prop, Rule: r.ID, Key: r.ID + "|unresolved|" + msg, Kind: KindUnresolved, Pos: "-", Msg: msg})
}

// RequireRole fails the rule (as unresolved) when a declared role found no
// instance: a rule that matches nothing would otherwise pass vacuously.
func (r *RuleResult) RequireRole(names ...string) {
	for _, n := range names {
		if r.Roles[n] == 0 {
			r.Unresolved("role '" + n + "' matched no construct in the current tree (rule would pass vacuously)")
		}
	}
}

// ExpectControl declares that a finding whose key contains sub must be
// reported from the control file; otherwise the check is broken.
func (r *RuleResult) ExpectControl(sub string) { r.controlsWanted[sub] = true }

// ---------------------------------------------------------------------------

type KnownFinding struct {
	Property string `json:"property"`
	Key      string `json:"key"`
	What     string `json:"what"`
	Witness  string `json:"witness,omitempty"`
	// Tier "thorough": the rows that show this finding are explored by the
	// thorough tier only (a deeper walk); the quick tier lists it without
	// re-finding it
	Tier string `json:"tier,omitempty"`
}

type KnownFile struct {
	Known []KnownFinding `json:"known"`
	Fixed []string       `json:"fixed"`
}

func verifDir() string {
	if d := os.Getenv("VERIF_DIR"); d != "" {
		return d
	}
	return "/verif"
}

func loadKnown() (*KnownFile, error) {
	b, err := os.ReadFile(filepath.Join(verifDir(), "known_findings.json"))
	if err != nil {
		if os.IsNotExist(err) {
			return &KnownFile{}, nil
		}
		return nil, err
	}
	var k KnownFile
	if err := json.Unmarshal(b, &k); err != nil {
		return nil, fmt.Errorf("known_findings.json: %v", err)
	}
	return &k, nil
}

// ---------------------------------------------------------------------------

type PropertyRun struct {
	ID          string
	Tier        string
	Rules       []*RuleResult
	Explanation string   // which clauses are decided and which are not
	Assumptions []string // trusted base
	Trusted     []string
	Funcs       int
	Packages    []string
	Configs     []string
	start       time.Time
}

type outcome struct {
	violations []Finding
	known      []Finding
	controls   int
}

func (pr *PropertyRun) finish(known *KnownFile, controlsOn bool) (outcome, error) {
	var out outcome
	knownKeys := map[string]KnownFinding{}
	for _, k := range known.Known {
		if k.Property == pr.ID {
			knownKeys[k.Key] = k
		}
	}
	seenKey := map[string]bool{}
	for _, r := range pr.Rules {
		for _, f := range r.Findings {
			if f.control {
				out.controls++
				for sub := range r.controlsWanted {
					if strings.Contains(f.Key, sub) {
						r.controlsSeen[sub] = true
					}
				}
				continue
			}
			if seenKey[f.Key] {
				continue
			}
			seenKey[f.Key] = true
			if _, ok := knownKeys[f.Key]; ok && f.Kind == KindViolation {
				out.known = append(out.known, f)
				continue
			}
			out.violations = append(out.violations, f)
		}
		if controlsOn {
			var subs []string
			for sub := range r.controlsWanted {
				subs = append(subs, sub)
			}
			sort.Strings(subs)
			for _, sub := range subs {
				if !r.controlsSeen[sub] {
					out.violations = append(out.violations, Finding{Property: pr.ID, Rule: r.ID, Key: r.ID + "|control-missing|" + sub, Kind: KindControl, Pos: controlFileName,
						Msg: "positive control '" + sub + "' was not reported by the rule: the check is broken and its silence means nothing"})
				}
			}
		}
	}
	sort.Slice(out.violations, func(i, j int) bool { return out.violations[i].Key < out.violations[j].Key })
	sort.Slice(out.known, func(i, j int) bool { return out.known[i].Key < out.known[j].Key })
	return out, nil
}

func (pr *PropertyRun) writeEvidence(out outcome, cmd string) error {
	obl, dis := 0, 0
	var samples []interface{}
	rules := []interface{}{}
	exhaustiveAll := true
	for _, r := range pr.Rules {
		obl += r.Obligations
		dis += r.Discharged
		nviol, nknown := 0, 0
		for _, f := range out.violations {
			if f.Rule == r.ID {
				nviol++
			}
		}
		for _, f := range out.known {
			if f.Rule == r.ID {
				nknown++
			}
		}
		rules = append(rules, map[string]interface{}{
			"id": r.ID, "doc": r.Doc, "obligations": r.Obligations, "discharged": r.Discharged,
			"roles": r.Roles, "counts": r.Counts, "notes": r.Notes, "exhaustive_over_declared_domain": r.Exhaustive,
			"bounds": r.Bounds, "violations": nviol, "known_findings": nknown,
		})
		if !r.Exhaustive {
			exhaustiveAll = false
		}
		for i, s := range r.Samples {
			if i >= 4 {
				break
			}
			samples = append(samples, map[string]interface{}{"rule": r.ID, "obligation": s})
		}
	}
	if len(samples) == 0 {
		samples = append(samples, "no obligations were generated")
	}
	var knownOut []interface{}
	for _, f := range out.known {
		knownOut = append(knownOut, map[string]interface{}{"key": f.Key, "pos": f.Pos, "msg": f.Msg})
	}
	var violOut []interface{}
	for _, f := range out.violations {
		violOut = append(violOut, map[string]interface{}{"key": f.Key, "kind": f.Kind, "pos": f.Pos, "msg": f.Msg})
	}
	seed := 0
	fmt.Sscanf(os.Getenv("VERIF_SEED"), "%d", &seed)
	ev := map[string]interface{}{
		"property_id": pr.ID,
		"tier":        pr.Tier,
		"seed":        seed,
		"level":       "other",
		"coverage": map[string]interface{}{
			"explanation":        pr.Explanation,
			"obligations":        obl,
			"discharged":         dis,
			"known_findings":     knownOut,
			"new_violations":     violOut,
			"rules":              rules,
			"samples":            samples,
			"functions_analysed": pr.Funcs,
			"packages":           pr.Packages,
			"build_configs":      pr.Configs,
			"checker_cmd":        cmd,
			"trusted_base":       pr.Trusted,
			"exhaustive":         exhaustiveAll,
			"controls_fired":     out.controls,
			"technique":          "static analysis of /repo's current source (go/types + go/ssa); no code of /repo is executed",
		},
		"assumptions": pr.Assumptions,
		"wall_s":      time.Since(pr.start).Seconds(),
		"violations":  len(out.violations),
	}
	dir := filepath.Join(verifDir(), "evidence")
	if err := os.MkdirAll(dir, 0o755); err != nil {
		return err
	}
	b, err := json.MarshalIndent(ev, "", " ")
	if err != nil {
		return err
	}
	return os.WriteFile(filepath.Join(dir, pr.ID+".json"), append(b, '\n'), 0o644)
}

// writeReports writes one replayable report per violation and returns the paths.
func (pr *PropertyRun) writeReports(out outcome) []string {
	dir := filepath.Join(verifDir(), "reports")
	os.MkdirAll(dir, 0o755)
	// clear old reports of this property
	old, _ := filepath.Glob(filepath.Join(dir, pr.ID+"-*.json"))
	for _, f := range old {
		os.Remove(f)
	}
	var paths []string
	for i, f := range out.violations {
		p := filepath.Join(dir, fmt.Sprintf("%s-%d.json", pr.ID, i+1))
		b, _ := json.MarshalIndent(map[string]interface{}{
			"property": pr.ID, "tier": pr.Tier, "rule": f.Rule, "key": f.Key, "kind": f.Kind, "pos": f.Pos, "msg": f.Msg, "detail": f.Detail,
			"replay": "bin/gwcheck -replay " + p,
		}, "", " ")
		os.WriteFile(p, append(b, '\n'), 0o644)
		paths = append(paths, p)
	}
	return paths
}
