package main

// No re-parsing of decoded paths (E4, who-may-call with argument provenance).
// Resource paths inside the library are DECODED strings (r.URL.Path, the
// backend's paths, the caller's paths). url.Parse is for ENCODED text: a
// header value, the text of an href element, the endpoint the user configured.
// Parsing a decoded path re-interprets `?`, `#` and `%xx` that are ordinary
// characters of a name: the path changes, or the request is never sent.

import (
	"fmt"
	"go/types"

	"golang.org/x/tools/go/ssa"
)

func encodedTextOrigin(p *Program, v ssa.Value, fn *ssa.Function, depth int) (bool, string) {
	if depth > 3 {
		return false, "derivation too deep"
	}
	switch x := v.(type) {
	case *ssa.Call:
		n := calleeName(x.Common())
		if n == "(net/http.Header).Get" {
			return true, "header value"
		}
		if n == "strings.TrimSpace" || n == "strings.Trim" || n == "strings.TrimPrefix" || n == "strings.TrimSuffix" {
			return encodedTextOrigin(p, x.Common().Args[0], fn, depth+1)
		}
		return false, "result of " + n
	case *ssa.Convert:
		return encodedTextOrigin(p, x.X, fn, depth+1)
	case *ssa.ChangeType:
		return encodedTextOrigin(p, x.X, fn, depth+1)
	case *ssa.Phi:
		for _, e := range x.Edges {
			if ok, why := encodedTextOrigin(p, e, fn, depth+1); !ok {
				return false, why
			}
		}
		return true, "every incoming value is encoded text"
	case *ssa.Parameter:
		// the wire text handed to a TextUnmarshaler
		if fn.Name() == "UnmarshalText" && fn.Signature.Recv() != nil {
			return true, "text of an XML element or attribute"
		}
		// the endpoint the user configures (exported constructor of the client)
		if fn.Object() != nil && fn.Object().Exported() && fn.Signature.Recv() == nil && fn.Signature.Results().Len() >= 1 {
			if pt, ok := fn.Signature.Results().At(0).Type().(*types.Pointer); ok {
				if n := namedOf(pt.Elem()); n != nil && n.Obj().Name() == "Client" {
					return true, "endpoint given to the client constructor " + fn.Name()
				}
			}
		}
		// a helper: every caller passes encoded text
		callers := 0
		idx := -1
		for i, prm := range fn.Params {
			if prm == x {
				idx = i
			}
		}
		for _, g := range p.ModFns {
			if !inLib(g) {
				continue
			}
			var bad string
			eachCall(g, func(site ssa.CallInstruction) {
				if site.Common().StaticCallee() != fn || idx < 0 || idx >= len(site.Common().Args) {
					return
				}
				callers++
				if ok, why := encodedTextOrigin(p, site.Common().Args[idx], g, depth+1); !ok && bad == "" {
					bad = why
				}
			})
			if bad != "" {
				return false, "caller " + fnKey(g) + " passes " + bad
			}
		}
		if callers > 0 {
			return true, "every caller passes encoded text"
		}
		return false, "parameter " + x.Name() + " of " + fnKey(fn)
	case *ssa.UnOp:
		return false, "a stored value (" + x.String() + ")"
	}
	return false, fmt.Sprintf("%T", v)
}

func urlParseRule(c *Ctx, pr *PropertyRun, prop string, inPkg func(string) bool) {
	p := c.P
	r := NewRule(prop, prop+".no-reparse", "url.Parse (and URL.Parse) is applied only to encoded text — a header value, the text of an href element, the configured endpoint — never to a decoded resource path, where `?`, `#` and `%xx` are ordinary characters of the name; no path goes through URL reference resolution or JoinPath (E4)")
	pr.Rules = append(pr.Rules, r)
	for _, fn := range p.ModFns {
		if !inLib(fn) || fnPkg(fn) == nil || len(fn.Blocks) == 0 {
			continue
		}
		isCtl := p.isControlFn(fn)
		if !isCtl && inPkg != nil && !inPkg(fnPkg(fn).Path()) {
			continue
		}
		eachCall(fn, func(site ssa.CallInstruction) {
			n := calleeName(site.Common())
			var textArgs []ssa.Value
			switch n {
			case "net/url.Parse", "net/url.ParseRequestURI":
				textArgs = site.Common().Args[:1]
			case "(*net/url.URL).Parse":
				// resolves a reference given as URL text against the receiver
				textArgs = site.Common().Args[1:2]
			case "(*net/url.URL).JoinPath", "net/url.JoinPath":
				// the elements are taken as already escaped and the result is
				// decoded and cleaned
				r.Role("url-resolution-site")
				r.Ob(false)
				r.Violation("resolve|"+fnKey(fn), p.instrPos(site), fmt.Sprintf("%s joins path elements with %s, which takes them as percent-encoded text and cleans the result: a decoded name containing `%%` is changed, cut or dropped", fnKey(fn), n), nil)
				return
			case "(*net/url.URL).ResolveReference":
				// RFC 3986 resolution also removes dot segments of absolute paths
				r.Role("url-resolution-site")
				r.Ob(false)
				r.Violation("resolve|"+fnKey(fn), p.instrPos(site), fmt.Sprintf("%s passes a path through URL reference resolution (ResolveReference): dot segments are removed and paths merged, so the path that comes out is not the path that was given", fnKey(fn)), nil)
				return
			default:
				return
			}
			if !isCtl {
				r.Role("url-parse-site")
			}
			ok, why := encodedTextOrigin(p, textArgs[0], fn, 0)
			r.Ob(ok)
			r.Sample(map[string]interface{}{"function": fnKey(fn), "argument": why, "ok": ok, "pos": p.instrPos(site)})
			if !ok {
				r.Violation("reparse|"+fnKey(fn), p.instrPos(site), fmt.Sprintf("%s parses %s as a URL: a decoded resource path is not URL text — a name containing `?`, `#` or `%%` followed by two hex digits is cut or changed, and `%%` followed by anything else is refused", fnKey(fn), why), nil)
			}
		})
	}
	r.RequireRole("url-parse-site")
	if p.Control {
		r.ExpectControl("reparse|")
	}
}
