package main

// Loop-variable capture (E4). The module's go.mod says `go 1.13`, so a range
// or for variable is ONE variable for the whole loop. A closure created in the
// loop body that captures it and outlives the iteration (stored in a map or
// slice, returned, handed to a call) sees the value of the LAST iteration.
// Every such capture is a defect wherever the closure is run later.

import (
	"fmt"

	"golang.org/x/tools/go/ssa"
)

func blockReaches(from, to *ssa.BasicBlock) bool {
	seen := map[*ssa.BasicBlock]bool{}
	work := append([]*ssa.BasicBlock{}, from.Succs...)
	for len(work) > 0 {
		b := work[len(work)-1]
		work = work[:len(work)-1]
		if seen[b] {
			continue
		}
		seen[b] = true
		if b == to {
			return true
		}
		work = append(work, b.Succs...)
	}
	return false
}

func loopCaptureRule(c *Ctx, pr *PropertyRun, prop string) {
	p := c.P
	r := NewRule(prop, prop+".loop-capture", "no closure that outlives its loop iteration captures the loop's own variable (one variable per loop under this module's Go version): it would see the last iteration's value (E4)")
	pr.Rules = append(pr.Rules, r)
	for _, fn := range p.ModFns {
		if !inLib(fn) || len(fn.Blocks) == 0 {
			continue
		}
		eachInstr(fn, func(b *ssa.BasicBlock, in ssa.Instruction) {
			mc, ok := in.(*ssa.MakeClosure)
			if !ok || !blockReaches(b, b) {
				return // not in a loop
			}
			r.Role("closure-in-loop")
			for _, bv := range mc.Bindings {
				al, ok := bv.(*ssa.Alloc)
				if !ok {
					continue
				}
				// the variable lives across iterations: allocated outside the cycle
				if blockReaches(b, al.Block()) {
					continue
				}
				// ... and is assigned inside it
				assignedInLoop := false
				for _, ref := range *al.Referrers() {
					if st, ok := ref.(*ssa.Store); ok && st.Addr == ssa.Value(al) {
						if st.Block() == b || (blockReaches(st.Block(), b) && blockReaches(b, st.Block())) {
							assignedInLoop = true
						}
					}
				}
				if !assignedInLoop {
					continue
				}
				// the closure outlives the iteration
				escapes := false
				for _, ref := range *mc.Referrers() {
					switch x := ref.(type) {
					case *ssa.MapUpdate, *ssa.Store, *ssa.Return, *ssa.MakeInterface, *ssa.ChangeType, *ssa.Go, *ssa.Defer:
						escapes = true
					case *ssa.Call:
						if x.Common().Value != ssa.Value(mc) { // passed as an argument
							escapes = true
						}
					}
				}
				r.Ob(!escapes)
				if escapes {
					r.Violation("loop-capture|"+fnKey(fn)+"|"+al.Comment, p.instrPos(mc), fmt.Sprintf("%s creates, inside a loop, a closure that captures the loop variable %q and keeps it beyond the iteration: when it is run later it sees the value of the last iteration (one variable per loop under `go 1.13`)", fnKey(fn), al.Comment), nil)
				}
			}
		})
	}
	r.RequireRole("closure-in-loop")
	if p.Control {
		r.ExpectControl("loop-capture|")
	}
}
