package main

// C08.wire-decode — documents the library's own client never writes. The
// round-trip rule composes the server's decoder with the client's encoder, so
// it only sees the shapes the client produces (calendar-data always with a
// comp). RFC 4791 §9.6 makes comp and expand independent: this table takes the
// server's calendar-data decoder alone, over comp present/absent x expand
// present/absent.

import (
	"go/types"

	"golang.org/x/tools/go/ssa"
)

func c08WireDecode(c *Ctx, pr *PropertyRun) {
	p := c.P
	r := NewRule("C08", "C08.wire-decode", "the server's calendar-data decoder, over comp present/absent x expand present/absent: the component selection is the decoded comp or 'everything', and the expansion range is attached exactly when the document has one (E2)")
	r.Exhaustive = true
	pr.Rules = append(pr.Rules, r)
	wireT := p.NamedType(pkgCaldav, "calendarDataReq")
	pubT := p.NamedType(pkgCaldav, "CalendarCompRequest")
	if wireT == nil || pubT == nil {
		r.Unresolved("calendarDataReq / CalendarCompRequest not found")
		return
	}
	fn := p.uniqueFunc(pkgCaldav, func(f *ssa.Function) bool {
		s := f.Signature
		return s.Recv() == nil && s.Params().Len() == 1 && s.Results().Len() == 2 && isNamedPtr(s.Params().At(0).Type(), pkgCaldav, "calendarDataReq") && isNamedPtr(s.Results().At(0).Type(), pkgCaldav, "CalendarCompRequest")
	})
	if fn == nil {
		r.Undecided("wire-decode", "-", "no single function (*calendarDataReq) (*CalendarCompRequest, error) found")
		return
	}
	compFn := p.uniqueFunc(pkgCaldav, func(f *ssa.Function) bool {
		s := f.Signature
		return s.Recv() == nil && s.Params().Len() == 1 && s.Results().Len() == 2 && isNamedPtr(s.Params().At(0).Type(), pkgCaldav, "comp") && isNamedPtr(s.Results().At(0).Type(), pkgCaldav, "CalendarCompRequest")
	})
	in0 := &Interp{c: c}
	spec := DTXSpec{Name: "calendar-data decoder", Entry: fn,
		Sym: SymSpec{NonNil: func(k string) bool { return k == "cd" },
			Override: func(key string, t types.Type) Val {
				// time.Time and the module's named instants (dateWithUTCTime)
				if isTimeType(t) {
					return TimeV{key}
				}
				if n := namedOf(t); n != nil && inModuleType(n) {
					if tt := in0.c.P.lookupType("time", "Time"); tt != nil && types.Identical(n.Underlying(), tt.Underlying()) {
						return TimeV{key}
					}
				}
				return nil
			}},
		Setup: func(in *Interp) {
			in.Models = append(in.Models, func(in *Interp, site ssa.CallInstruction, name string, args []Val) (Val, bool) {
				if compFn != nil && name == fullFnName(compFn) {
					if in.truth(LazyBool{"comp-invalid"}) {
						return Tuple{[]Val{kNil, markerErr(in)}}, true
					}
					st := zeroOf(pubT).(Struct)
					stt := pubT.Underlying().(*types.Struct)
					for i := 0; i < stt.NumFields(); i++ {
						if stt.Field(i).Name() == "Name" {
							st.F[i].Set(SymStr{Key: "decoded-comp"})
						}
					}
					return Tuple{[]Val{Ptr{&Cell{V: st, T: pubT}}, kNil}}, true
				}
				return nil, false
			})
		},
		Args: func(in *Interp) []Val { return []Val{in.symOf(fn.Params[0].Type(), "cd")} },
		Observe: func(in *Interp, res Val, pan *panicOutcome) string {
			if pan != nil {
				return "panic"
			}
			t := res.(Tuple)
			if !isNilVal(t.E[1]) {
				return "error"
			}
			base := "everything"
			if keyOf(fieldVal(t.E[0], "Name")) == "decoded-comp" {
				base = "decoded comp"
			} else if !truthOf(in, fieldVal(t.E[0], "AllProps")) || !truthOf(in, fieldVal(t.E[0], "AllComps")) {
				base = "neither the decoded comp nor everything"
			}
			ex := fieldVal(t.E[0], "Expand")
			if isNilVal(ex) {
				return base + ", no expansion"
			}
			return base + ", expand " + keyOf(fieldVal(ex, "Start")) + ".." + keyOf(fieldVal(ex, "End"))
		},
		Oracle: func(env *OracleEnv) ([]string, bool) {
			base := "everything"
			if env.Bool("cd.Comp!=nil") {
				if env.Bool("comp-invalid") {
					return []string{"error"}, true
				}
				base = "decoded comp"
			}
			if env.Bool("cd.Expand!=nil") {
				return []string{base + ", expand cd.Expand.Start..cd.Expand.End"}, true
			}
			return []string{base + ", no expansion"}, true
		}}
	res := runDTX(c, spec)
	reportDTX(c, r, spec, res, "calendar-data")
	r.Role("decision-table")
	if res.Runs < 5 {
		r.Unresolved("the calendar-data decoder's table has fewer than 5 rows")
	}
	r.RequireRole("decision-table")
}
