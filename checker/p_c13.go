package main

func init() { register("C13", runC13) }

func runC13(c *Ctx, pr *PropertyRun) {
	pr.Explanation = "stub"
	r := NewRule("C13", "C13.stub", "stub")
	cg := c.CG()
	seen := cg.Reach(c.P.serverEntries(), nil)
	r.Count("reachable", len(seen))
	r.Ob(true)
	pr.Rules = append(pr.Rules, r)
}
