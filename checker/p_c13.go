package main

// C13 — servers answer every request without panicking; malformed input gets
// 4xx.
//
// Decided (necessary structural clauses): every request-caused error origin
// that can reach ServeError carries a 4xx label (E3); explicit panics
// reachable from the handlers equal a reviewed table whose mechanical
// justifications are re-checked; optional pointers and constant indexes on
// request-decoded structures are guarded; input-driven recursion carries a
// depth bound; fallible parse calls have their error checked before the
// value is used and before any mutating backend call.
// Not decided: panics inside encoding/xml, go-ical, go-vcard, net/http.

import (
	"fmt"
	"go/token"
	"go/types"
	"os"
	"sort"
	"strings"

	"golang.org/x/tools/go/ssa"
)

func init() { register("C13", runC13) }

func runC13(c *Ctx, pr *PropertyRun) {
	pr.Explanation = "Decided (necessary structural clauses): (1) every error origin caused by the request (a parse/decode failure of request data, or an error constructed under a request-dependent condition) that can reach ServeError/http.Error is labelled with a 4xx status; " +
		"(2) the explicit panic statements reachable from the three handlers and ServePrincipal equal a reviewed table, and the mechanical part of each justification is re-checked; (3) every dereference of an optional (pointer) field of a request-decoded wire struct and every constant index is dominated by its guard; " +
		"(4) every call-graph cycle that reads from an input stream carries a depth bound; (5) the error of every fallible parse of request data is tested before its value is used, and these tests dominate the first mutating backend call. " +
		"NOT decided: panics inside encoding/xml, go-ical, go-vcard, net/http; implicit panics outside the two guard rules; that a response is complete."
	pr.Assumptions = append(pr.Assumptions,
		"call graph: static callees + CHA for interface calls, plus explicit edges from xml encode/decode calls to every module (Un)MarshalXML/(Un)MarshalText method (encoding/xml calls them by reflection)",
		"http.ResponseWriter, *http.Request and the options handed to exported entry points are non-nil")
	pr.Trusted = append(pr.Trusted, "golang.org/x/tools/go/ssa v0.29.0", "golang.org/x/tools/go/callgraph/cha")

	c13Panics(c, pr, "C13", c.P.serverEntries(), map[string]string{
		"(*internal.RawXMLValue).TokenReader": "marshal-only values (field out != nil) are created only by EncodeRawXMLElement and only ever encoded; mechanical part: who writes field out",
		"(*internal.RawXMLValue).MarshalXML":  "field tok never holds an xml.EndElement; mechanical part: every store into tok is a StartElement or a CopyToken of a token that failed the EndElement type test",
	})
	c13Recursion(c, pr, "C13", c.P.serverEntries())
	c13Guards(c, pr, "C13", c.P.serverEntries())
	c13ParseChecked(c, pr)
	c13ReqErrors(c, pr)
	// refusals of malformed headers and bodies before any backend call: the
	// dispatch table shared with C01
	c01Dispatch(c, pr, "C13")
	serveErrorTable(c, pr, "C13")
	// numeric request elements are unsigned: the decoder refuses a negative value
	unsignedElementsRule(c, pr, "C13")
	typedNilRule(c, pr, "C13")
	validateBeforeAnswerRule(c, pr, "C13")
	// enumerated attribute values outside the RFC's lists are refused by the
	// decoders — and what is stored is the value that was tested (shared
	// with C08/C09.enums)
	{
		en := NewRule("C13", "C13.enums", "the decoders of enumerated request attributes (negate-condition, test, match-type) accept exactly the RFC's values, store the accepted value itself and refuse everything else (E2)")
		en.Exhaustive = true
		pr.Rules = append(pr.Rules, en)
		enumRule(c, en, pkgCaldav, "negateCondition", map[string]string{"yes": "true", "no": "false"})
		enumRule(c, en, pkgCarddav, "negateCondition", map[string]string{"yes": "true", "no": "false"})
		enumRule(c, en, pkgCarddav, "filterTest", map[string]string{"anyof": "anyof", "allof": "allof"})
		enumRule(c, en, pkgCarddav, "matchType", map[string]string{"equals": "equals", "contains": "contains", "starts-with": "starts-with", "ends-with": "ends-with"})
		enumTypedAttributesRule(c, en)
	}

	// a request path or Destination that does not denote a resource (NUL,
	// not absolute after cleaning) is refused with 4xx by the sanitiser: its
	// decision table (shared with C03.sanitiser-shape)
	shape := NewRule("C13", "C13.path-refusal", "decision table of localPath: 4xx exactly for names with NUL or whose path.Clean form is not absolute; nothing else is refused and nothing else accepted (E2, shared with C03)")
	shape.Exhaustive = true
	pr.Rules = append(pr.Rules, shape)
	if san := c.P.MustFunc(shape, pkgWebdav, "(LocalFileSystem).localPath"); san != nil {
		c03Shape(c, shape, san, c.P)
	}
}

func moduleOnly(p *Program) func(*ssa.Function) bool {
	return func(fn *ssa.Function) bool { return p.InModule(fn) }
}

// ---------------------------------------------------------------------------
// explicit panics

// rawPanicClass recognises the two reviewed panics of RawXMLValue by their
// guards: "marshal-only" (reached only where field out is non-nil) and
// "end-element" (reached only where field tok holds an xml.EndElement).
func rawPanicClass(p *Program, pn *ssa.Panic) string {
	raw := p.NamedType(pkgInternal, "RawXMLValue")
	if raw == nil {
		return ""
	}
	fieldOf := func(v ssa.Value) string {
		for i := 0; i < 4; i++ {
			switch x := v.(type) {
			case *ssa.UnOp:
				if fa, ok := x.X.(*ssa.FieldAddr); ok {
					if pt, ok := fa.X.Type().Underlying().(*types.Pointer); ok && namedOf(pt.Elem()) == raw {
						return fieldName(fa.X.Type(), fa.Field)
					}
				}
				return ""
			case *ssa.ChangeType:
				v = x.X
			case *ssa.Field:
				if namedOf(x.X.Type()) == raw {
					return fieldName(x.X.Type(), x.Field)
				}
				return ""
			default:
				return ""
			}
		}
		return ""
	}
	b := pn.Block()
	for _, blk := range pn.Parent().Blocks {
		iff, ok := blk.Instrs[len(blk.Instrs)-1].(*ssa.If)
		if !ok {
			continue
		}
		switch cond := iff.Cond.(type) {
		case *ssa.BinOp:
			if cond.Op != token.NEQ && cond.Op != token.EQL {
				continue
			}
			var v ssa.Value
			if isNilConst(cond.Y) {
				v = cond.X
			} else if isNilConst(cond.X) {
				v = cond.Y
			}
			if v == nil || fieldOf(v) != "out" {
				continue
			}
			edge := 0
			if cond.Op == token.EQL {
				edge = 1
			}
			if edgeDominates(blk, edge, b) {
				return "marshal-only"
			}
		case *ssa.Extract:
			ta, ok := cond.Tuple.(*ssa.TypeAssert)
			if !ok || cond.Index != 1 {
				continue
			}
			n := namedOf(ta.AssertedType)
			if n == nil || n.Obj().Pkg() == nil || n.Obj().Pkg().Path() != "encoding/xml" || n.Obj().Name() != "EndElement" {
				continue
			}
			if fieldOf(ta.X) == "tok" && edgeDominates(blk, 0, b) {
				return "end-element"
			}
		}
	}
	return ""
}

func c13Panics(c *Ctx, pr *PropertyRun, prop string, entries []*ssa.Function, justified map[string]string) {
	p := c.P
	r := NewRule(prop, prop+".no-explicit-panic", "explicit panic statements reachable from the entry points equal the reviewed table; each entry's mechanical justification is re-checked (E7 PANIC-REACH)")
	pr.Rules = append(pr.Rules, r)
	if len(entries) == 0 {
		r.Unresolved("no entry points resolved")
		return
	}
	cg := c.CG()
	ctl := controlFuncs(p, pkgInternal, "zzVerifControlPanic")
	seen := cg.Reach(append(append([]*ssa.Function{}, entries...), ctl...), moduleOnly(p))
	r.Count("reachable_module_functions", countIf(seen, p.InModule))
	total := 0
	for _, fn := range p.ModFns {
		if !inLib(fn) {
			continue
		}
		ps := explicitPanics(fn)
		total += len(ps)
		if len(ps) == 0 {
			continue
		}
		_, reach := seen[fn]
		r.Role("explicit-panic")
		r.Sample(map[string]interface{}{"function": fnKey(fn), "reachable": reach, "pos": p.Pos(ps[0].Pos())})
		if !reach {
			r.Ob(true)
			continue
		}
		why, ok := justified[fnKey(fn)]
		if !ok {
			// the reviewed panics are recognised by what guards them, not by
			// the name of the function they sit in: a panic that has moved
			// into a helper is still the reviewed one
			allClassified := true
			var cls string
			for _, pn := range ps {
				k := rawPanicClass(p, pn)
				if k == "" {
					allClassified = false
				}
				cls = k
			}
			if allClassified {
				for name, w := range justified {
					if (cls == "marshal-only" && strings.HasSuffix(name, ".TokenReader")) || (cls == "end-element" && strings.HasSuffix(name, ".MarshalXML")) {
						why, ok = w+" (recognised by its guard in "+fnKey(fn)+")", true
					}
				}
			}
		}
		if !ok {
			r.Ob(false)
			r.Violation("panic|"+fnKey(fn), p.Pos(ps[0].Pos()), "explicit panic in "+fnKey(fn)+" is reachable from an entry point and is not in the reviewed table; call chain: "+strings.Join(pathTo(seen, fn), " -> "), nil)
			continue
		}
		r.Note("justified: %s — %s", fnKey(fn), why)
		r.Ob(true)
	}
	r.Count("explicit_panics_in_library", total)
	r.RequireRole("explicit-panic")
	if p.Control {
		r.ExpectControl("zzVerifControlPanic")
	}

	// mechanical justifications
	raw := p.NamedType(pkgInternal, "RawXMLValue")
	if raw == nil {
		r.Unresolved("type internal.RawXMLValue not found")
		return
	}
	tokRuleCtx = c
	// (a) field out: non-nil stores only in EncodeRawXMLElement
	// (b) field tok: StartElement, or CopyToken of a token that is not EndElement
	for _, fn := range p.ModFns {
		if p.isControlFn(fn) {
			continue
		}
		eachInstr(fn, func(b *ssa.BasicBlock, in ssa.Instruction) {
			st, ok := in.(*ssa.Store)
			if !ok {
				return
			}
			fa, ok := st.Addr.(*ssa.FieldAddr)
			if !ok || namedOf(fa.X.Type()) != raw {
				return
			}
			switch fieldName(fa.X.Type(), fa.Field) {
			case "out":
				r.Role("store-out")
				ok := isNilConst(st.Val) || fn.Name() == "EncodeRawXMLElement"
				r.Ob(ok)
				if !ok {
					r.Violation("out-written|"+fnKey(fn), p.instrPos(st), "RawXMLValue.out is given a non-nil value outside EncodeRawXMLElement: a value that is later decoded (Decode/TokenReader) would panic with 'marshal-only XML value'", nil)
				}
			case "tok":
				r.Role("store-tok")
				ok := tokStoreSafe(st.Val, b)
				r.Ob(ok)
				if !ok {
					r.Violation("tok-endelement|"+fnKey(fn), p.instrPos(st), "RawXMLValue.tok may be assigned an xml.EndElement here (the value is neither an xml.StartElement nor the copy of a token that failed the EndElement type test): MarshalXML panics on such a value", nil)
				}
			}
		})
	}
	r.RequireRole("store-out", "store-tok")
}

func countIf(m map[*ssa.Function]*CGEdge, f func(*ssa.Function) bool) int {
	n := 0
	for fn := range m {
		if f(fn) {
			n++
		}
	}
	return n
}

// tokStoreSafe: v is (an interface holding) an xml.StartElement, or
// xml.CopyToken(t) where t failed `t.(xml.EndElement)` on a dominating edge,
// or nil/zero.
func tokStoreSafe(v ssa.Value, at *ssa.BasicBlock) bool {
	switch x := v.(type) {
	case *ssa.MakeInterface:
		return isNamed(x.X.Type(), "encoding/xml", "StartElement")
	case *ssa.Const:
		return x.Value == nil
	case *ssa.Call:
		if f := x.Call.StaticCallee(); f != nil && fullFnName(f) == "encoding/xml.CopyToken" && len(x.Call.Args) == 1 {
			return notEndElementAt(x.Call.Args[0], at)
		}
	case *ssa.Phi:
		for _, e := range x.Edges {
			if !tokStoreSafe(e, at) {
				return false
			}
		}
		return true
	}
	return false
}

// notEndElementAt: a comma-ok type assertion of t to xml.EndElement exists
// whose false edge dominates block at.
var tokRuleCtx *Ctx

func notEndElementAt(t ssa.Value, at *ssa.BasicBlock) bool {
	// a helper that is handed the token: the test was made by its callers,
	// every one of them
	if prm, ok := t.(*ssa.Parameter); ok && tokRuleCtx != nil {
		fn := prm.Parent()
		if fn != nil && !externallyCallable(fn) && fn.Parent() == nil {
			idx := paramIndex(fn, prm)
			n, all := 0, true
			for _, e := range tokRuleCtx.CG().In[fn] {
				if e.Site == nil || !tokRuleCtx.P.InModule(e.Caller) || e.Kind == "closure" || e.Kind == "reflect" {
					continue
				}
				cc := e.Site.Common()
				var args []ssa.Value
				if cc.IsInvoke() {
					args = append(args, cc.Value)
				}
				args = append(args, cc.Args...)
				if idx >= len(args) {
					all = false
					continue
				}
				n++
				if !notEndElementAt(args[idx], e.Site.Block()) {
					all = false
				}
			}
			if n > 0 && all {
				return true
			}
		}
	}
	for _, ref := range *t.Referrers() {
		ta, ok := ref.(*ssa.TypeAssert)
		if !ok || !ta.CommaOk || !isNamed(ta.AssertedType, "encoding/xml", "EndElement") {
			continue
		}
		for _, r2 := range *ta.Referrers() {
			ex, ok := r2.(*ssa.Extract)
			if !ok || ex.Index != 1 {
				continue
			}
			for _, r3 := range *ex.Referrers() {
				if iff, ok := r3.(*ssa.If); ok && edgeDominates(iff.Block(), 1, at) {
					return true
				}
			}
		}
	}
	return false
}

// ---------------------------------------------------------------------------
// input-driven recursion

var streamReadCalls = map[string]bool{
	"(*encoding/xml.Decoder).Token": true, "(*encoding/xml.Decoder).RawToken": true,
	"(*bufio.Reader).ReadByte": true, "(*bufio.Reader).ReadRune": true, "(*bufio.Reader).ReadString": true,
}

func readsStream(fn *ssa.Function) (string, bool) {
	found := ""
	eachCall(fn, func(site ssa.CallInstruction) {
		cc := site.Common()
		n := calleeName(cc)
		if streamReadCalls[n] {
			found = n
		}
		if cc.IsInvoke() && (cc.Method.Name() == "Read" || cc.Method.Name() == "Token") {
			// io.Reader.Read / xml.TokenReader.Token on an interface value
			if cc.Method.Name() == "Read" {
				found = n
			}
			// a token reader handed in as a parameter is an input stream; one
			// the function keeps in its own state walks a captured tree
			if _, isParam := cc.Value.(*ssa.Parameter); isParam && cc.Method.Name() == "Token" {
				found = n
			}
		}
	})
	return found, found != ""
}

func c13Recursion(c *Ctx, pr *PropertyRun, prop string, entries []*ssa.Function) {
	p := c.P
	r := NewRule(prop, prop+".recursion", "every call-graph cycle reachable from the entry points that reads from an input stream carries a depth bound (E7 INPUT-RECURSION-BOUNDED)")
	pr.Rules = append(pr.Rules, r)
	cg := c.CG()
	ctl := controlFuncs(p, pkgInternal, "zzVerifControlRecurse")
	seen := cg.Reach(append(append([]*ssa.Function{}, entries...), ctl...), moduleOnly(p))
	sccs := cg.moduleSCCs(p)
	r.Count("cycles_in_module", len(sccs))
	for _, comp := range sccs {
		inComp := map[*ssa.Function]bool{}
		reach := false
		var names []string
		for _, f := range comp {
			inComp[f] = true
			names = append(names, fnKey(f))
			if _, ok := seen[f]; ok {
				reach = true
			}
		}
		r.Role("cycle")
		var reader *ssa.Function
		what := ""
		for _, f := range comp {
			if w, ok := readsStream(f); ok {
				reader, what = f, w
				break
			}
		}
		r.Sample(map[string]interface{}{"cycle": names, "reachable": reach, "reads_stream": what})
		if !reach || reader == nil {
			r.Ob(true)
			continue
		}
		r.Role("stream-reading-cycle")
		// every cycle of the component passes through a depth-guarded call
		// (counter incremented, comparison with the bound dominating it); the
		// other calls of the component hand the counter on (a helper between
		// two levels of the recursion)
		ok := true
		var badSite ssa.CallInstruction
		rest := map[*ssa.Function][]*ssa.Function{} // edges that are not guarded
		for _, f := range comp {
			for _, e := range cg.Out[f] {
				if !inComp[e.Callee] || e.Site == nil || e.Kind == "reflect" || e.Kind == "closure" {
					continue
				}
				if depthGuarded(f, e.Site) {
					continue
				}
				if !carriesCounter(f, e.Site) {
					ok = false
					badSite = e.Site
					continue
				}
				rest[f] = append(rest[f], e.Callee)
				if badSite == nil {
					badSite = e.Site
				}
			}
		}
		if ok {
			// the unguarded edges alone must not close a cycle
			state := map[*ssa.Function]int{}
			var visit func(f *ssa.Function) bool
			visit = func(f *ssa.Function) bool {
				switch state[f] {
				case 1:
					return false
				case 2:
					return true
				}
				state[f] = 1
				for _, g := range rest[f] {
					if !visit(g) {
						return false
					}
				}
				state[f] = 2
				return true
			}
			guardedSomewhere := false
			for _, f := range comp {
				for _, e := range cg.Out[f] {
					if inComp[e.Callee] && e.Site != nil && depthGuarded(f, e.Site) {
						guardedSomewhere = true
					}
				}
				if !visit(f) {
					ok = false
				}
			}
			if !guardedSomewhere {
				ok = false
			}
		}
		r.Ob(ok)
		if !ok {
			r.Violation("unbounded|"+strings.Join(names, ","), p.instrPos(badSite),
				fmt.Sprintf("recursion %v consumes the input stream (%s in %s) with no depth bound: the recursive call here is not dominated by a comparison of a depth counter that the call increments; nesting depth is chosen by the peer, so the goroutine stack (and the process) can be exhausted", names, what, fnKey(reader)), nil)
		}
	}
	r.RequireRole("cycle")
	if p.Control {
		r.ExpectControl("zzVerifControlRecurse")
	}
}

// carriesCounter: the call hands an integer parameter of the caller on
// (unchanged or incremented) — the depth counter travels through a helper.
func carriesCounter(f *ssa.Function, site ssa.CallInstruction) bool {
	params := map[ssa.Value]bool{}
	for _, p := range f.Params {
		if b, ok := p.Type().Underlying().(*types.Basic); ok && b.Info()&types.IsInteger != 0 {
			params[p] = true
		}
	}
	for _, a := range site.Common().Args {
		if params[a] {
			return true
		}
		if bin, ok := a.(*ssa.BinOp); ok && bin.Op == token.ADD {
			if _, isC := constInt(bin.Y); isC && params[bin.X] {
				return true
			}
			if _, isC := constInt(bin.X); isC && params[bin.Y] {
				return true
			}
		}
	}
	return false
}

// depthGuarded: the call passes `p + k` (k > 0) for an integer parameter p of
// the caller, and a comparison of p (or p+k) with a constant dominates the
// call on one of its edges.
func depthGuarded(f *ssa.Function, site ssa.CallInstruction) bool {
	params := map[ssa.Value]bool{}
	for _, p := range f.Params {
		if b, ok := p.Type().Underlying().(*types.Basic); ok && b.Info()&types.IsInteger != 0 {
			params[p] = true
		}
	}
	if len(params) == 0 {
		return false
	}
	for _, a := range site.Common().Args {
		bin, ok := a.(*ssa.BinOp)
		if !ok || (bin.Op != token.ADD && bin.Op != token.SUB) {
			continue
		}
		var prm ssa.Value
		if params[bin.X] {
			if _, ok := constInt(bin.Y); ok {
				prm = bin.X
			}
		} else if params[bin.Y] && bin.Op == token.ADD {
			if _, ok := constInt(bin.X); ok {
				prm = bin.Y
			}
		}
		if prm == nil {
			continue
		}
		// a dominating comparison of prm (or the incremented value) with a constant
		for _, cand := range []ssa.Value{prm, bin} {
			for _, ref := range *cand.Referrers() {
				cmp, ok := ref.(*ssa.BinOp)
				if !ok {
					continue
				}
				switch cmp.Op {
				case token.LSS, token.LEQ, token.GTR, token.GEQ, token.EQL, token.NEQ:
				default:
					continue
				}
				other := cmp.Y
				if other == cand {
					other = cmp.X
				}
				if _, isConst := constInt(other); !isConst {
					if _, isGlobalLoad := other.(*ssa.UnOp); !isGlobalLoad {
						continue
					}
				}
				for _, r2 := range *cmp.Referrers() {
					if iff, ok := r2.(*ssa.If); ok {
						if edgeDominates(iff.Block(), 0, site.Block()) || edgeDominates(iff.Block(), 1, site.Block()) {
							return true
						}
					}
				}
			}
		}
	}
	return false
}

// ---------------------------------------------------------------------------
// guards: optional pointers of wire structs, constant indexes

func isWireLike(n *types.Named) bool {
	if n == nil {
		return false
	}
	if isWireStruct(n) {
		return true
	}
	// request roots with custom UnmarshalXML (reportReq)
	return inModuleType(n) && n.Obj().Name() == "reportReq"
}

// optionalWirePtr: v is the value of a pointer-typed field of a wire struct.
func optionalWirePtr(v ssa.Value) (string, bool) {
	var xt types.Type
	var idx int
	switch x := v.(type) {
	case *ssa.UnOp:
		fa, ok := x.X.(*ssa.FieldAddr)
		if x.Op != token.MUL || !ok {
			return "", false
		}
		xt, idx = fa.X.Type(), fa.Field
	case *ssa.Field:
		xt, idx = x.X.Type(), x.Field
	default:
		return "", false
	}
	k, named, ft := fieldKey(xt, idx)
	if named == nil || !isWireLike(named) {
		return "", false
	}
	if _, ok := ft.Underlying().(*types.Pointer); !ok {
		return "", false
	}
	return k, true
}

// derefsOf lists the pointer values an instruction dereferences.
func derefsOf(in ssa.Instruction) []ssa.Value {
	switch x := in.(type) {
	case *ssa.FieldAddr:
		return []ssa.Value{x.X}
	case *ssa.UnOp:
		if x.Op == token.MUL {
			return []ssa.Value{x.X}
		}
	case *ssa.Store:
		return []ssa.Value{x.Addr}
	}
	return nil
}

// mustNonNilParams computes, to a fixpoint, the pointer parameters of module
// functions that are dereferenced without a dominating nil test.
func mustNonNilParams(fns []*ssa.Function) map[*ssa.Parameter]ssa.Instruction {
	out := map[*ssa.Parameter]ssa.Instruction{}
	tests := map[*ssa.Function][]nilTest{}
	for _, fn := range fns {
		tests[fn] = nilTestsOf(fn)
	}
	changed := true
	for changed {
		changed = false
		for _, fn := range fns {
			for _, b := range fn.Blocks {
				for _, in := range b.Instrs {
					mark := func(v ssa.Value) {
						prm, ok := v.(*ssa.Parameter)
						if !ok || out[prm] != nil {
							return
						}
						if _, isPtr := prm.Type().Underlying().(*types.Pointer); !isPtr {
							return
						}
						if guardedNonNil(tests[fn], prm, b) {
							return
						}
						out[prm] = in
						changed = true
					}
					for _, d := range derefsOf(in) {
						mark(d)
					}
					if site, ok := in.(ssa.CallInstruction); ok {
						if callee := site.Common().StaticCallee(); callee != nil && len(callee.Blocks) > 0 {
							for i, a := range site.Common().Args {
								if i < len(callee.Params) && out[callee.Params[i]] != nil {
									mark(a)
								}
							}
						}
					}
				}
			}
		}
	}
	return out
}

func c13Guards(c *Ctx, pr *PropertyRun, prop string, entries []*ssa.Function) {
	p := c.P
	r := NewRule(prop, prop+".guards", "every dereference of an optional (pointer) field of a request-decoded wire struct, and every constant index into a slice, is dominated by its guard (E4 OPTIONAL-POINTER-GUARDED, CONST-INDEX-GUARDED)")
	pr.Rules = append(pr.Rules, r)
	cg := c.CG()
	ctl := controlFuncs(p, pkgInternal, "zzVerifControlGuard")
	seen := cg.Reach(append(append([]*ssa.Function{}, entries...), ctl...), moduleOnly(p))
	var fns []*ssa.Function
	for fn := range seen {
		if p.InModule(fn) && len(fn.Blocks) > 0 {
			fns = append(fns, fn)
		}
	}
	sort.Slice(fns, func(i, j int) bool { return fnKey(fns[i]) < fnKey(fns[j]) })
	r.Count("functions", len(fns))
	must := mustNonNilParams(fns)
	r.Count("params_dereferenced_unguarded", len(must))
	for _, fn := range fns {
		nt := nilTestsOf(fn)
		lt := lenTestsOf(fn)
		for _, b := range fn.Blocks {
			for _, in := range b.Instrs {
				check := func(v ssa.Value, how string) {
					k, ok := optionalWirePtr(v)
					if !ok {
						return
					}
					r.Role("optional-pointer-use")
					g := guardedNonNil(nt, v, b)
					r.Ob(g)
					r.Sample(map[string]interface{}{"function": fnKey(fn), "field": k, "use": how, "guarded": g, "pos": p.instrPos(in)})
					if !g {
						r.Violation("nil-deref|"+fnKey(fn)+"|"+k, p.instrPos(in), fmt.Sprintf("optional element %s is dereferenced (%s) in %s without a dominating nil test: a request that omits the element makes the handler panic", k, how, fnKey(fn)), nil)
					}
				}
				for _, d := range derefsOf(in) {
					check(d, "direct")
				}
				if site, ok := in.(ssa.CallInstruction); ok {
					if callee := site.Common().StaticCallee(); callee != nil && len(callee.Blocks) > 0 {
						for i, a := range site.Common().Args {
							if i < len(callee.Params) && must[callee.Params[i]] != nil {
								check(a, "passed to "+fnKey(callee)+", which dereferences it unconditionally")
							}
						}
					}
				}
				// slice expressions x[lo:hi] on strings and slices: the bounds
				// must be guaranteed by a dominating length test
				if sx, isSl := in.(*ssa.Slice); isSl && (sx.Low != nil || sx.High != nil) {
					xt := sx.X.Type().Underlying()
					_, isS := xt.(*types.Slice)
					bs, isB := xt.(*types.Basic)
					if isS || (isB && bs.Info()&types.IsString != 0) {
						need, known := int64(0), true
						lo := int64(0)
						if sx.Low != nil {
							if c, ok := constInt(sx.Low); ok {
								lo = c
							} else if m, ok := lenMinusConst(sx.Low, sx.X); ok {
								need = m
							} else if !nonNegIndexResult(sx.Low, b) {
								known = false
							}
						}
						switch {
						case sx.High == nil:
							if lo > need {
								need = lo
							}
						default:
							if c, ok := constInt(sx.High); ok {
								if c > need {
									need = c
								}
							} else if m, ok := lenMinusConst(sx.High, sx.X); ok {
								if lo+m > need {
									need = lo + m
								}
							} else if !nonNegIndexResult(sx.High, b) {
								known = false
							}
						}
						if known {
							r.Role("slice-bounds")
							ok := need == 0
							why := "bounds hold for every length"
							if !ok {
								if ok2, w := knownLongEnough(sx.X, need-1); ok2 {
									ok, why = true, w
								} else {
									ok = guardedIndex(lt, sx.X, need-1, b)
									why = "dominating len test"
									if !ok && need == 1 && inductiveNonEmpty(lt, sx.X, map[ssa.Value]bool{}) {
										ok, why = true, "non-empty on every way into the loop and around it"
									}
								}
							}
							r.Ob(ok)
							r.Sample(map[string]interface{}{"function": fnKey(fn), "slice_needs_len": need, "guard": why, "ok": ok, "pos": p.instrPos(in)})
							if !ok {
								r.Violation(fmt.Sprintf("slice-bounds|%s|%d", fnKey(fn), need), p.instrPos(in), fmt.Sprintf("the slice expression in %s needs at least %d element(s)/byte(s) but is not dominated by a length test that guarantees them: a shorter input panics (slice bounds out of range)", fnKey(fn), need), nil)
							}
						}
					}
				}
				// constant index
				var sl ssa.Value
				var idxV ssa.Value
				switch x := in.(type) {
				case *ssa.IndexAddr:
					sl, idxV = x.X, x.Index
				case *ssa.Index:
					sl, idxV = x.X, x.Index
				}
				if sl == nil {
					continue
				}
				if _, isSlice := sl.Type().Underlying().(*types.Slice); !isSlice {
					if _, isStr := sl.Type().Underlying().(*types.Basic); !isStr {
						continue // arrays and pointers to arrays are bounds-checked by the compiler's types
					}
				}
				k, isConst := constInt(idxV)
				if !isConst {
					// x[len(x)-m]: the element exists iff len(x) >= m
					if m, ok := lenMinusConst(idxV, sl); ok && m >= 1 {
						k, isConst = m-1, true
					}
				}
				if !isConst {
					continue
				}
				r.Role("constant-index")
				ok, why := knownLongEnough(sl, k)
				if !ok {
					ok = guardedIndex(lt, sl, k, b)
					why = "dominating len test"
				}
				if !ok && k == 0 && inductiveNonEmpty(lt, sl, map[ssa.Value]bool{}) {
					ok, why = true, "non-empty on every way into the loop and around it"
				}
				r.Ob(ok)
				r.Sample(map[string]interface{}{"function": fnKey(fn), "index": k, "guard": why, "ok": ok, "pos": p.instrPos(in)})
				if !ok {
					r.Violation(fmt.Sprintf("index|%s|%d", fnKey(fn), k), p.instrPos(in), fmt.Sprintf("constant index [%d] in %s is not dominated by a length test that guarantees the element exists", k, fnKey(fn)), nil)
				}
			}
		}
	}
	r.RequireRole("optional-pointer-use", "constant-index")
	if p.Control {
		r.ExpectControl("zzVerifControlGuard")
		r.ExpectControl("slice-bounds|internal.zzVerifControlGuardSlice")
	}
}

// lenMinusConst: v is len(x) - m for the same x (by value or access path).
func lenMinusConst(v ssa.Value, x ssa.Value) (int64, bool) {
	bin, ok := v.(*ssa.BinOp)
	if !ok || bin.Op != token.SUB {
		return 0, false
	}
	m, ok := constInt(bin.Y)
	if !ok {
		return 0, false
	}
	call, ok := bin.X.(*ssa.Call)
	if !ok {
		return 0, false
	}
	bi, ok := call.Call.Value.(*ssa.Builtin)
	if !ok || bi.Name() != "len" || len(call.Call.Args) != 1 {
		return 0, false
	}
	a := call.Call.Args[0]
	if a == x {
		return m, true
	}
	pa, oka := accessPath(a)
	px, okx := accessPath(x)
	if oka && okx && pa != "" && pa == px {
		return m, true
	}
	return 0, false
}

// nonNegIndexResult: v is the result of a strings/bytes Index function and the
// block is dominated by a test that excludes the negative "not found" value.
func nonNegIndexResult(v ssa.Value, at *ssa.BasicBlock) bool {
	call, ok := v.(*ssa.Call)
	if !ok {
		return false
	}
	n := calleeName(call.Common())
	if !(strings.HasPrefix(n, "strings.Index") || strings.HasPrefix(n, "strings.LastIndex") || strings.HasPrefix(n, "bytes.Index") || strings.HasPrefix(n, "bytes.LastIndex")) {
		return false
	}
	for _, ref := range *call.Referrers() {
		bin, ok := ref.(*ssa.BinOp)
		if !ok || bin.X != ssa.Value(call) {
			continue
		}
		c, ok := constInt(bin.Y)
		if !ok {
			continue
		}
		for _, r2 := range *bin.Referrers() {
			iff, ok := r2.(*ssa.If)
			if !ok {
				continue
			}
			nonNegEdge := -1
			switch {
			case bin.Op == token.LSS && c == 0: // i < 0
				nonNegEdge = 1
			case bin.Op == token.GEQ && c == 0:
				nonNegEdge = 0
			case bin.Op == token.EQL && c == -1:
				nonNegEdge = 1
			case bin.Op == token.NEQ && c == -1:
				nonNegEdge = 0
			case bin.Op == token.GTR && c == -1:
				nonNegEdge = 0
			}
			if nonNegEdge >= 0 && edgeDominates(iff.Block(), nonNegEdge, at) {
				return true
			}
		}
	}
	return false
}

// inductiveNonEmpty: a slice that has at least one element by construction:
// a literal, an append of at least one element, or a variable (phi) every
// incoming value of which is such a slice or arrives over an edge dominated
// by a length test that guarantees an element (loop invariant by induction:
// a value under examination is assumed non-empty on the back edge).
func inductiveNonEmpty(lt []lenTest, v ssa.Value, seen map[ssa.Value]bool) bool {
	if _, isPhi := v.(*ssa.Phi); isPhi {
		if seen[v] {
			return true
		}
		seen[v] = true
	}
	if ok, _ := knownLongEnough(v, 0); ok {
		return true
	}
	switch x := v.(type) {
	case *ssa.Call:
		if bi, ok := x.Call.Value.(*ssa.Builtin); ok && bi.Name() == "append" && len(x.Call.Args) == 2 {
			if ok, _ := knownLongEnough(x.Call.Args[1], 0); ok {
				return true
			}
			return inductiveNonEmpty(lt, x.Call.Args[0], seen)
		}
	case *ssa.Phi:
		for i, e := range x.Edges {
			if inductiveNonEmpty(lt, e, seen) {
				continue
			}
			if i < len(x.Block().Preds) && guardedIndex(lt, e, 0, x.Block().Preds[i]) {
				continue
			}
			return false
		}
		return true
	}
	return false
}

// knownLongEnough: slices whose length is known from their construction.
func knownLongEnough(sl ssa.Value, idx int64) (bool, string) {
	switch x := sl.(type) {
	case *ssa.Slice:
		if a, ok := x.X.(*ssa.Alloc); ok {
			if pt, ok := a.Type().Underlying().(*types.Pointer); ok {
				if arr, ok := pt.Elem().Underlying().(*types.Array); ok && arr.Len() > idx {
					return true, "slice of a fixed-size array"
				}
			}
		}
	case *ssa.MakeSlice:
		if n, ok := constInt(x.Len); ok && n > idx {
			return true, "make with constant length"
		}
	case *ssa.Call:
		if f := x.Call.StaticCallee(); f != nil {
			switch fullFnName(f) {
			case "strings.Split", "strings.SplitN":
				if idx == 0 {
					return true, "strings.Split returns at least one element for a non-empty separator"
				}
			}
		}
	}
	return false, ""
}

// ---------------------------------------------------------------------------
// parse results checked, and before mutation

// parseCalls: the frozen list of fallible parse/decode calls (resolved by
// full name of the types.Func).
var parseCalls = map[string]bool{
	"github.com/emersion/go-webdav/internal.ParseDepth":     true,
	"github.com/emersion/go-webdav/internal.ParseOverwrite": true,
	"net/url.Parse": true, "mime.ParseMediaType": true,
	"(*encoding/xml.Decoder).Decode": true, "(*encoding/xml.Decoder).DecodeElement": true, "(*encoding/xml.Decoder).Token": true,
	"(*github.com/emersion/go-ical.Decoder).Decode":  true,
	"(*github.com/emersion/go-vcard.Decoder).Decode": true,
	"strconv.Atoi": true, "strconv.ParseInt": true, "strconv.ParseUint": true, "strconv.Unquote": true, "strconv.ParseBool": true,
	"time.Parse": true, "net/http.ParseTime": true,
	"github.com/emersion/go-webdav/internal.DecodeXMLRequest":      true,
	"(*github.com/emersion/go-webdav/internal.Prop).Decode":        true,
	"(*github.com/emersion/go-webdav/internal.RawXMLValue).Decode": true,
	"(*github.com/emersion/go-webdav/internal.ETag).UnmarshalText": true,
	"(github.com/emersion/go-webdav.ConditionalMatch).ETag":        true,
	"(github.com/emersion/go-webdav.ConditionalMatch).MatchETag":   true,
}

// derivedParsers: functions of the library that hand a parse result on to
// their caller together with an error result (a helper around ParseDepth,
// ...). Their callers owe the same test. Computed to a fixpoint.
var derivedParsersCache map[*Program]map[string]bool

func isParseName(p *Program, name string) bool {
	if parseCalls[name] {
		return true
	}
	if derivedParsersCache == nil {
		derivedParsersCache = map[*Program]map[string]bool{}
	}
	d, ok := derivedParsersCache[p]
	if !ok {
		d = map[string]bool{}
		derivedParsersCache[p] = d
		for round := 0; round < 4; round++ {
			changed := false
			for _, fn := range p.ModFns {
				if !inLib(fn) || len(fn.Blocks) == 0 || p.isControlFn(fn) || errorResultIndex(fn.Signature) < 0 || d[fullFnName(fn)] || parseCalls[fullFnName(fn)] {
					continue
				}
				hands := false
				eachCall(fn, func(site ssa.CallInstruction) {
					call, ok := site.(*ssa.Call)
					if !ok {
						return
					}
					n := calleeName(call.Common())
					if !parseCalls[n] && !d[n] {
						return
					}
					for _, r := range *call.Referrers() {
						ex, ok := r.(*ssa.Extract)
						if !ok || isErrorType(ex.Type()) {
							continue
						}
						for _, u := range *ex.Referrers() {
							if _, isRet := u.(*ssa.Return); isRet {
								hands = true
							}
						}
					}
				})
				if hands {
					d[fullFnName(fn)] = true
					changed = true
				}
			}
			if !changed {
				break
			}
		}
	}
	return d[name]
}

var mutatingBackend = map[string]bool{
	"PutCalendarObject": true, "PutAddressObject": true, "CreateCalendar": true, "CreateAddressBook": true,
	"DeleteCalendarObject": true, "DeleteAddressObject": true, "DeleteAddressBook": true,
	"Create": true, "RemoveAll": true, "Mkdir": true, "Copy": true, "Move": true,
}

func isMutatingBackendCall(site ssa.CallInstruction) bool {
	cc := site.Common()
	if !cc.IsInvoke() || !mutatingBackend[cc.Method.Name()] {
		return false
	}
	n := namedOf(cc.Value.Type())
	if n == nil || !inModuleType(n) {
		return false
	}
	return n.Obj().Name() == "Backend" || n.Obj().Name() == "FileSystem"
}

func c13ParseChecked(c *Ctx, pr *PropertyRun) {
	p := c.P
	r := NewRule("C13", "C13.parse-checked", "the error of every fallible parse/decode of request data is tested before the parsed value is used, and in functions that call a mutating backend operation these tests dominate it (E4 RESULT-CHECKED, parse-before-mutate)")
	pr.Rules = append(pr.Rules, r)
	cg := c.CG()
	ctl := controlFuncs(p, pkgInternal, "zzVerifControlParse")
	seen := cg.Reach(append(p.serverEntries(), ctl...), moduleOnly(p))
	var fns []*ssa.Function
	for fn := range seen {
		if p.InModule(fn) && len(fn.Blocks) > 0 {
			fns = append(fns, fn)
		}
	}
	sort.Slice(fns, func(i, j int) bool { return fnKey(fns[i]) < fnKey(fns[j]) })
	for _, fn := range fns {
		var parses []*ssa.Call
		var muts []ssa.CallInstruction
		eachCall(fn, func(site ssa.CallInstruction) {
			if isMutatingBackendCall(site) {
				muts = append(muts, site)
			}
			call, ok := site.(*ssa.Call)
			if !ok {
				return
			}
			if isParseName(p, calleeName(call.Common())) {
				parses = append(parses, call)
			}
		})
		for _, call := range parses {
			name := calleeName(call.Common())
			r.Role("parse-call")
			if ok, why := harmlessOnError(call); ok {
				r.Note("exempt %s in %s: %s", name, fnKey(fn), why)
				continue
			}
			errVal, bad, dropped := uncheckedUses(call)
			ok := !dropped && len(bad) == 0
			r.Ob(ok)
			r.Sample(map[string]interface{}{"function": fnKey(fn), "parse": name, "error_checked_before_use": ok, "pos": p.instrPos(call)})
			if dropped {
				r.Violation("dropped|"+fnKey(fn)+"|"+name, p.instrPos(call), fmt.Sprintf("the error of %s is discarded in %s: malformed input is accepted as if it were valid", name, fnKey(fn)), nil)
			} else if len(bad) > 0 {
				r.Violation("unchecked|"+fnKey(fn)+"|"+name, p.instrPos(bad[0]), fmt.Sprintf("a result of %s is used in %s on a path where its error has not been tested", name, fnKey(fn)), nil)
			}
			for _, m := range muts {
				r.Role("parse-before-mutate")
				dom := errVal != nil && failureCannotReach(errVal, call.Block(), m.Block())
				r.Ob(dom)
				if !dom {
					r.Violation("mutate-before-parse|"+fnKey(fn)+"|"+name+"|"+m.Common().Method.Name(), p.instrPos(m), fmt.Sprintf("backend.%s is reached in %s on a path where %s has not succeeded: a malformed request may create, update or delete", m.Common().Method.Name(), fnKey(fn), name), nil)
				}
			}
		}
	}
	r.RequireRole("parse-call", "parse-before-mutate")
	if p.Control {
		r.ExpectControl("zzVerifControlParse")
	}
}

// requestTaint runs E1 in taint mode: sources are the fields of
// *http.Request / url.URL and every field of a request-decoded wire struct.
func requestTaint(c *Ctx, entries []*ssa.Function, extra []*ssa.Function) *FFResult {
	isSrc := func(n *types.Named) bool {
		if isWireLike(n) {
			return true
		}
		if n.Obj().Pkg() == nil {
			return false
		}
		switch n.Obj().Pkg().Path() + "." + n.Obj().Name() {
		case "net/http.Request", "net/url.URL":
			return true
		}
		return false
	}
	return RunFieldFlow(c, FFConfig{Entries: entries, IsSource: isSrc, ExtraScope: extra,
		CutCall: func(site ssa.CallInstruction) bool {
			switch calleeName(site.Common()) {
			case "reflect.TypeOf", "reflect.ValueOf":
				return true
			}
			return false
		}})
}

func tainted(t *FFResult, v ssa.Value) bool {
	for l := range t.vals[v] {
		if !l.isAddr() {
			return true
		}
	}
	return false
}

func c13ReqErrors(c *Ctx, pr *PropertyRun) {
	p := c.P
	r := NewRule("C13", "C13.req-errors-4xx", "every request-caused error origin that can reach ServeError carries a 4xx status label (E3: request taint + error provenance with summaries)")
	pr.Rules = append(pr.Rules, r)
	serveErr := p.MustFunc(r, pkgInternal, "ServeError")
	if serveErr == nil {
		return
	}
	entries := p.serverEntries()
	ctl := controlFuncs(p, pkgInternal, "zzVerifControlErr")
	taint := requestTaint(c, entries, ctl)
	r.Count("taint_scope_functions", len(taint.Scope))
	debugExplain(taint)
	if q := os.Getenv("GWVALS"); q != "" {
		for v, ls := range taint.vals {
			if v.Parent() != nil && fnKey(v.Parent())+":"+v.Name() == q {
				fmt.Println("   vals:", q, labelNames(ls))
			}
		}
	}
	ep := newErrProv(c)
	type sinkItem struct {
		site ssa.CallInstruction
		it   provItem
	}
	var items []sinkItem
	cg := c.CG()
	seen := cg.Reach(append(append([]*ssa.Function{}, entries...), ctl...), moduleOnly(p))
	var fns []*ssa.Function
	for fn := range seen {
		if p.InModule(fn) && len(fn.Blocks) > 0 {
			fns = append(fns, fn)
		}
	}
	sort.Slice(fns, func(i, j int) bool { return fnKey(fns[i]) < fnKey(fns[j]) })
	ep.solve(func() {
		items = items[:0]
		for _, fn := range fns {
			eachCall(fn, func(site ssa.CallInstruction) {
				if site.Common().StaticCallee() != serveErr || len(site.Common().Args) < 2 {
					return
				}
				for _, it := range ep.prov(fn, site.Common().Args[1], site.Block(), map[ssa.Value]bool{}) {
					items = append(items, sinkItem{site, it})
				}
			})
		}
	})
	ctrlCache := map[*ssa.Function]map[*ssa.BasicBlock][]ctrlDep{}
	underTaintedCond := func(o *errOrigin) (string, bool) {
		if o.Site == nil || o.Site.Block() == nil {
			return "", false
		}
		cd := ctrlCache[o.Fn]
		if cd == nil {
			cd = transitiveControlDeps(o.Fn)
			ctrlCache[o.Fn] = cd
		}
		for _, d := range cd[o.Site.Block()] {
			if cond := ifCond(d.Branch); cond != nil && tainted(taint, cond) {
				return p.instrPos(d.Branch.Instrs[len(d.Branch.Instrs)-1]), true
			}
		}
		return "", false
	}
	dedup := map[string]bool{}
	nReq := 0
	for _, si := range items {
		it := si.it
		if it.O == nil {
			continue // parameter of an entry point
		}
		o := it.O
		r.Role("origin-reaching-ServeError")
		class, why := "OTHER", ""
		switch o.Kind {
		case "ext":
			class = "EXTERNAL"
			if parseCalls[o.Callee] {
				if site, ok := o.Site.(ssa.CallInstruction); ok {
					cc := site.Common()
					args := append([]ssa.Value{}, cc.Args...)
					if cc.IsInvoke() {
						args = append(args, cc.Value)
					}
					for _, a := range args {
						if tainted(taint, a) {
							class, why = "REQ", "parse/decode of request data"
						}
					}
				}
			}
		case "new", "lit":
			if at, ok := underTaintedCond(o); ok {
				class, why = "REQ", "constructed under a request-dependent condition ("+at+")"
			}
		case "backend":
			class = "BACKEND"
		}
		k := o.key() + "|" + fmt.Sprint(it.Code) + "|" + it.Via
		if p.isControlPos(si.site.Pos()) {
			k += "|zzVerifControlErr"
		}
		if dedup[k] {
			continue
		}
		dedup[k] = true
		labelled := it.Code >= 400 && it.Code < 500
		r.Sample(map[string]interface{}{"origin": o.key(), "pos": posOf(p, o), "class": class, "label": it.Code, "via": it.Via})
		if class != "REQ" {
			continue
		}
		nReq++
		r.Role("request-caused-origin")
		if it.Code == -1 {
			r.Ob(true)
			r.Note("origin %s is labelled with a non-constant status code (via %s): accepted", o.key(), it.Via)
			continue
		}
		r.Ob(labelled)
		if !labelled {
			lab := "no status label (ServeError answers 500)"
			if it.Code != 0 {
				lab = fmt.Sprintf("status %d", it.Code)
			}
			vk := "unlabelled|" + o.key() + "|via=" + it.Via
			if p.isControlPos(si.site.Pos()) {
				vk += "|zzVerifControlErr"
			}
			r.Violation(vk, posOf(p, o),
				fmt.Sprintf("request-caused error (%s: %s in %s) reaches ServeError with %s; returned through: %s", why, o.Callee, fnKey(o.Fn), lab, it.Via),
				map[string]interface{}{"origin": o.key(), "via": it.Via, "sink": p.instrPos(si.site)})
		}
	}
	r.Count("origins", len(dedup))
	r.Count("request_caused", nReq)
	r.RequireRole("origin-reaching-ServeError", "request-caused-origin")
	if p.Control {
		r.ExpectControl("zzVerifControlErr")
	}
}

func lastVia(v string) string {
	parts := strings.Split(v, " > ")
	return parts[len(parts)-1]
}

func posOf(p *Program, o *errOrigin) string {
	if o.Site != nil {
		return p.instrPos(o.Site)
	}
	return p.Pos(o.Fn.Pos())
}

// validateBeforeAnswerRule: a handler that answers with a multi-status has
// looked at the whole request first. Every call that checks a part of the
// decoded request (an in-module function fed from the request value only,
// whose error the handler hands on) lies on every path to every answer: an
// answer moved in front of the checks (a shortcut for "nothing is asked for")
// accepts requests the checks refuse with 400.
func validateBeforeAnswerRule(c *Ctx, pr *PropertyRun, prop string) {
	p := c.P
	r := NewRule(prop, prop+".validate-before-answer", "in every handler that writes a multi-status, each check of the decoded request dominates each answer (a check inside a loop counts through the loop's entry) (E4)")
	pr.Rules = append(pr.Rules, r)
	answer := p.MustFunc(r, pkgInternal, "ServeMultiStatus")
	if answer == nil {
		return
	}
	for _, fn := range p.ModFns {
		if !inLib(fn) || len(fn.Blocks) == 0 || fn.Parent() != nil {
			continue
		}
		var answers []ssa.CallInstruction
		eachCall(fn, func(site ssa.CallInstruction) {
			if site.Common().StaticCallee() == answer {
				answers = append(answers, site)
			}
		})
		if len(answers) == 0 {
			continue
		}
		// the request: parameters that point to a wire struct of the module
		var reqs []*ssa.Parameter
		for _, prm := range fn.Params {
			if pt, ok := prm.Type().(*types.Pointer); ok {
				if n := namedOf(pt.Elem()); n != nil && inModuleType(n) && !isSharedType(n) {
					if _, isStruct := n.Underlying().(*types.Struct); isStruct {
						reqs = append(reqs, prm)
					}
				}
			}
		}
		if len(reqs) == 0 {
			continue
		}
		var fromReq func(v ssa.Value, depth int, seen map[ssa.Value]bool) bool
		fromReq = func(v ssa.Value, depth int, seen map[ssa.Value]bool) bool {
			if v == nil || depth > 10 || seen[v] {
				return false
			}
			seen[v] = true
			switch x := v.(type) {
			case *ssa.Parameter:
				for _, q := range reqs {
					if q == x {
						return true
					}
				}
				return false
			case *ssa.FieldAddr:
				return fromReq(x.X, depth+1, seen)
			case *ssa.Field:
				return fromReq(x.X, depth+1, seen)
			case *ssa.IndexAddr:
				return fromReq(x.X, depth+1, seen)
			case *ssa.Index:
				return fromReq(x.X, depth+1, seen)
			case *ssa.UnOp:
				return fromReq(x.X, depth+1, seen)
			case *ssa.Slice:
				return fromReq(x.X, depth+1, seen)
			case *ssa.ChangeType:
				return fromReq(x.X, depth+1, seen)
			case *ssa.Phi:
				for _, e := range x.Edges {
					if fromReq(e, depth+1, seen) {
						return true
					}
				}
			case *ssa.Alloc:
				for _, ref := range refsOf(x) {
					if st, ok := ref.(*ssa.Store); ok && st.Addr == ssa.Value(x) && fromReq(st.Val, depth+1, seen) {
						return true
					}
				}
			}
			return false
		}
		// transitive closure of the (plain) control dependences
		direct := controlDeps(fn)
		tcd := map[*ssa.BasicBlock][]ctrlDep{}
		for _, b := range fn.Blocks {
			seenD := map[ctrlDep]bool{}
			work := append([]ctrlDep{}, direct[b]...)
			for len(work) > 0 {
				d := work[len(work)-1]
				work = work[:len(work)-1]
				if seenD[d] {
					continue
				}
				seenD[d] = true
				tcd[b] = append(tcd[b], d)
				work = append(work, direct[d.Branch]...)
			}
		}
		eachCall(fn, func(site ssa.CallInstruction) {
			call, ok := site.(*ssa.Call)
			if !ok {
				return
			}
			g := call.Common().StaticCallee()
			if g == nil || !inLib(g) || g == answer {
				return
			}
			res := g.Signature.Results()
			if res.Len() == 0 || !isErrorType(res.At(res.Len()-1).Type()) {
				return
			}
			// fed from the request only
			n := 0
			for _, a := range call.Common().Args {
				if fromReq(a, 0, map[ssa.Value]bool{}) {
					n++
				}
			}
			if n == 0 || errSwallowed(call) {
				return
			}
			// the test of the check's error, and its "no error" side
			var tests []ctrlDep
			var ev ssa.Value
			if tup, isTup := call.Type().(*types.Tuple); isTup {
				for _, ref := range refsOf(call) {
					if ex, ok := ref.(*ssa.Extract); ok && isErrorType(tup.At(ex.Index).Type()) {
						ev = ex
					}
				}
			} else {
				ev = call
			}
			if ev == nil {
				return
			}
			for _, a := range append([]ssa.Value{ev}, storedAliases(ev)...) {
				for _, ref := range refsOf(a) {
					bo, ok := ref.(*ssa.BinOp)
					if !ok || (bo.Op != token.NEQ && bo.Op != token.EQL) {
						continue
					}
					for _, r2 := range refsOf(bo) {
						if iff, ok := r2.(*ssa.If); ok {
							nilSide := 1
							if bo.Op == token.EQL {
								nilSide = 0
							}
							tests = append(tests, ctrlDep{iff.Block(), nilSide})
						}
					}
				}
			}
			if len(tests) == 0 {
				return
			}
			r.Role("request-check")
			for _, a := range answers {
				ab := a.Block()
				ok := false
				for _, t := range tests {
					// the answer is written only after the check came out
					// well: it hangs (transitively) on the no-error side of
					// the check's test, or that side dominates it
					if t.Branch.Succs[t.Succ].Dominates(ab) {
						ok = true
					}
					for _, d := range tcd[ab] {
						if d == t {
							ok = true
						}
					}
				}
				r.Ob(ok)
				if !ok {
					r.Violation("answer-before-check|"+fnKey(fn)+"|"+fnKey(g), p.instrPos(a), fmt.Sprintf("%s can write its multi-status answer at %s without the check of the request by %s (%s) having come out well: the answer does not depend on that check's outcome, so a request the check refuses with 4xx is answered 207 on that path", fnKey(fn), p.instrPos(a), fnKey(g), p.instrPos(call)), nil)
				}
			}
		})
	}
	r.RequireRole("request-check")
}

func instrIndex(in ssa.Instruction) int {
	for i, x := range in.Block().Instrs {
		if x == in {
			return i
		}
	}
	return -1
}
