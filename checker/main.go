// gwcheck decides structural clauses of the go-webdav properties C01..C19 by
// static analysis of /repo's current working tree. It never runs code of
// /repo. See /verif/DESIGN.md.
package main

import (
	"encoding/json"
	"flag"
	"fmt"
	"os"
	"runtime/debug"
	"sort"
	"strings"
	"time"
)

type Ctx struct {
	P      *Program
	Tier   string
	cg     *CallGraph // lazily built
	eff    *effectsInfo
	fsRuns []*fsRun
}

func (c *Ctx) Thorough() bool { return c.Tier == "thorough" }

type propDef struct {
	ID  string
	Run func(c *Ctx, pr *PropertyRun)
}

var registry = map[string]*propDef{}

func register(id string, run func(c *Ctx, pr *PropertyRun)) {
	registry[id] = &propDef{ID: id, Run: run}
}

func main() {
	prop := flag.String("property", "", "property id (C01..C19)")
	tier := flag.String("tier", "", "quick|thorough (default: $VERIF_TIER or quick)")
	replay := flag.String("replay", "", "re-evaluate the rule instance of a report file")
	list := flag.Bool("list", false, "list registered properties")
	all := flag.Bool("all", false, "run every registered property in one process (developer use)")
	noControls := flag.Bool("no-controls", false, "do not inject positive controls (developer use)")
	verbose := flag.Bool("v", false, "print every finding's detail")
	flag.Parse()

	if *tier == "" {
		*tier = os.Getenv("VERIF_TIER")
	}
	if *tier != "thorough" {
		*tier = "quick"
	}
	if *list {
		var ids []string
		for id := range registry {
			ids = append(ids, id)
		}
		sort.Strings(ids)
		fmt.Println(strings.Join(ids, " "))
		return
	}
	if *replay != "" {
		os.Exit(doReplay(*replay, *tier))
	}
	var ids []string
	if *all {
		for id := range registry {
			ids = append(ids, id)
		}
		sort.Strings(ids)
	} else if *prop != "" {
		ids = strings.Split(*prop, ",")
	} else {
		fmt.Fprintln(os.Stderr, "usage: gwcheck -property Cnn [-tier quick|thorough] | -replay report.json | -list")
		os.Exit(2)
	}
	rc := 0
	var prog *Program
	for _, id := range ids {
		def := registry[id]
		if def == nil {
			fmt.Printf("gwcheck: property %s is not claimed by any check\n", id)
			rc = 2
			continue
		}
		r, p := runProperty(def, *tier, !*noControls, *verbose, prog, "")
		prog = p
		if r != 0 {
			rc = 1
		}
	}
	profStop()
	os.Exit(rc)
}

// runProperty runs one property end to end. filterKey != "" = replay mode:
// only that key decides the exit status.
func runProperty(def *propDef, tier string, controls, verbose bool, reuse *Program, filterKey string) (rc int, prog *Program) {
	start := time.Now()
	pr := &PropertyRun{ID: def.ID, Tier: tier, start: start}
	fail := func(kind, msg string) (int, *Program) {
		// fail closed: an analysis that could not complete is reported, never
		// silently passed.
		out := outcome{violations: []Finding{{Property: def.ID, Rule: def.ID + ".analysis", Key: def.ID + ".analysis|" + kind, Kind: KindUndecided, Pos: "-", Msg: msg}}}
		pr.Explanation = "the analysis could not be completed: " + msg
		paths := pr.writeReports(out)
		pr.writeEvidence(out, cmdLine())
		fmt.Printf("gwcheck %s: ANALYSIS FAILED (%s): %s\n", def.ID, kind, msg)
		fmt.Printf("VIOLATION property=%s replay=%s\n", def.ID, paths[0])
		return 1, reuse
	}
	known, err := loadKnown()
	if err != nil {
		return fail("known-findings", err.Error())
	}
	prog = reuse
	if prog == nil {
		opt := LoadOptions{}
		if controls {
			opt.Controls = controlSources
		}
		prog, err = Load(opt)
		if err != nil {
			return fail("load", err.Error())
		}
	}
	c := &Ctx{P: prog, Tier: tier}
	pr.Funcs = len(prog.ModFns)
	for ip := range prog.Mod {
		pr.Packages = append(pr.Packages, ip)
	}
	sort.Strings(pr.Packages)
	pr.Configs = []string{"GOOS=" + prog.GOOS + " GOARCH=amd64 CGO_ENABLED=0"}

	panicked := func() (msg string) {
		defer func() {
			if r := recover(); r != nil {
				msg = fmt.Sprintf("analyser panic: %v\n%s", r, debug.Stack())
			}
		}()
		def.Run(c, pr)
		return ""
	}()
	if panicked != "" {
		return fail("panic", panicked)
	}
	out, err := pr.finish(known, prog.Control)
	if err != nil {
		return fail("finish", err.Error())
	}
	if filterKey != "" {
		var keep []Finding
		for _, f := range out.violations {
			if f.Key == filterKey {
				keep = append(keep, f)
			}
		}
		out.violations = keep
	}
	paths := pr.writeReports(out)
	if filterKey == "" {
		if err := pr.writeEvidence(out, cmdLine()); err != nil {
			fmt.Printf("gwcheck %s: cannot write evidence: %v\n", def.ID, err)
			return 1, prog
		}
	}
	obl, dis := 0, 0
	for _, r := range pr.Rules {
		obl += r.Obligations
		dis += r.Discharged
		fmt.Printf("  rule %-28s obligations=%d discharged=%d roles=%v %s\n", r.ID, r.Obligations, r.Discharged, compactMap(r.Roles), compactMap(r.Counts))
	}
	for _, f := range out.known {
		what := f.Msg
		for _, k := range known.Known {
			if k.Property == def.ID && k.Key == f.Key {
				what = k.What
			}
		}
		fmt.Printf("KNOWN-FINDING: property=%s %s [%s @ %s]\n", def.ID, what, f.Key, f.Pos)
	}
	// listed findings this run did not come across: those the file marks as
	// visible to the thorough tier only are listed all the same; any other is
	// worth a remark (the defect may be gone: the entry would then be stale)
	refound := map[string]bool{}
	for _, f := range out.known {
		refound[f.Key] = true
	}
	for _, k := range known.Known {
		if k.Property != def.ID || refound[k.Key] {
			continue
		}
		if k.Tier == "thorough" && tier != "thorough" {
			fmt.Printf("KNOWN-FINDING: property=%s %s [%s] (listed; its rows are explored by the thorough tier only)\n", def.ID, k.What, k.Key)
		} else {
			fmt.Printf("  note: the listed finding %q was not reproduced by this run\n", k.Key)
		}
	}
	for i, f := range out.violations {
		fmt.Printf("  %s: %s: %s\n    key=%s\n", strings.ToUpper(f.Kind), f.Pos, f.Msg, f.Key)
		if verbose && f.Detail != nil {
			b, _ := json.MarshalIndent(f.Detail, "    ", " ")
			fmt.Printf("    %s\n", b)
		}
		fmt.Printf("VIOLATION property=%s replay=%s\n", def.ID, paths[i])
	}
	fmt.Printf("gwcheck %s tier=%s: %d rules, %d obligations (%d discharged), %d known finding(s), %d violation(s), %d control(s) fired, %.1fs\n",
		def.ID, tier, len(pr.Rules), obl, dis, len(out.known), len(out.violations), out.controls, time.Since(start).Seconds())
	if len(out.violations) > 0 {
		return 1, prog
	}
	return 0, prog
}

func compactMap(m map[string]int) string {
	if len(m) == 0 {
		return ""
	}
	var ks []string
	for k := range m {
		ks = append(ks, k)
	}
	sort.Strings(ks)
	var sb strings.Builder
	for i, k := range ks {
		if i > 0 {
			sb.WriteString(" ")
		}
		fmt.Fprintf(&sb, "%s=%d", k, m[k])
	}
	return sb.String()
}

// debugExplain: GWEXPLAIN="sink<-label" prints the flow chain (developer aid).
func debugExplain(res *FFResult) {
	if os.Getenv("GWDUMP") != "" {
		var ls []string
		for l := range res.LabelSinks {
			ls = append(ls, l)
		}
		sort.Strings(ls)
		for _, l := range ls {
			if os.Getenv("GWDUMP") == "n" {
				fmt.Printf("   flow: %-45s -> %d sinks\n", l, len(res.LabelSinks[l]))
				continue
			}
			fmt.Printf("   flow: %-45s -> %s\n", l, strings.Join(sortedKeys(res.LabelSinks[l]), " "))
		}
	}
	if q := os.Getenv("GWEXPLAINV"); q != "" {
		parts := strings.SplitN(q, "<-", 2)
		if id, ok := labIDs[parts[1]]; ok {
			for _, l := range res.eng.explain(parts[0], id) {
				fmt.Println("   explainv:", l)
			}
		}
	}
	if s := os.Getenv("GWEVENTS"); s != "" {
		debugEvents(res, s)
	}
	q := os.Getenv("GWEXPLAIN")
	if q == "" {
		return
	}
	parts := strings.SplitN(q, "<-", 2)
	if len(parts) != 2 {
		return
	}
	for _, l := range res.Explain(parts[0], parts[1]) {
		fmt.Println("   explain:", l)
	}
}

func cmdLine() string { return "bin/gwcheck " + strings.Join(os.Args[1:], " ") }

func doReplay(path, tier string) int {
	b, err := os.ReadFile(path)
	if err != nil {
		fmt.Println("replay:", err)
		return 2
	}
	var rep struct {
		Property string `json:"property"`
		Key      string `json:"key"`
		Tier     string `json:"tier"`
	}
	if err := json.Unmarshal(b, &rep); err != nil {
		fmt.Println("replay:", err)
		return 2
	}
	def := registry[rep.Property]
	if def == nil {
		fmt.Println("replay: unknown property", rep.Property)
		return 2
	}
	if rep.Tier != "" {
		tier = rep.Tier
	}
	rc, _ := runProperty(def, tier, true, true, nil, rep.Key)
	if rc == 0 {
		fmt.Printf("replay: %s is no longer reported on the current tree\n", rep.Key)
	}
	return rc
}

func debugEvents(res *FFResult, sink string) {
	for _, ev := range res.Events {
		if ev.Sink == sink {
			var ls []string
			for id, b := range ev.Labels {
				ls = append(ls, fmt.Sprintf("%s/%d/%d", id.String(), b, ev.Data[id]))
			}
			sort.Strings(ls)
			fmt.Printf("   event %s in %s: %v\n", sink, fnKey(ev.Fn), ls)
		}
	}
}
