package main

// (*Response).DecodeProp — shared by C10 ("property split over several propstat
// elements") and C14 ("per-resource status"): the property is taken from the
// first propstat that CONTAINS it, whatever precedes it; its status decides.

import (
	"fmt"
	"go/types"
	"strings"

	"golang.org/x/tools/go/ssa"
)

func decodePropTable(c *Ctx, pr *PropertyRun, prop string) {
	p := c.P
	r := NewRule(prop, prop+".decode-prop", "Response.DecodeProp takes a property from the first propstat that contains it — a failing propstat that does not contain it is skipped — and reports that propstat's status, the response's status, or 'missing' (E2)")
	r.Exhaustive = true
	r.Bounds = "<= 2 propstat elements, each containing the property or not, each with a good or a failing status"
	pr.Rules = append(pr.Rules, r)
	fn := p.MustFunc(r, pkgInternal, "(*Response).DecodeProp")
	respErr := p.MustFunc(r, pkgInternal, "(*Response).Err")
	statusErr := p.MustFunc(r, pkgInternal, "(*Status).Err")
	propGet := p.MustFunc(r, pkgInternal, "(*Prop).Get")
	rawDecode := p.MustFunc(r, pkgInternal, "(*RawXMLValue).Decode")
	if fn == nil || respErr == nil || statusErr == nil || propGet == nil || rawDecode == nil {
		return
	}
	rawT := p.NamedType(pkgInternal, "RawXMLValue")
	idxOf := func(k string) string { // "...PropStats[1]..." -> "1"
		if i := strings.Index(k, "PropStats["); i >= 0 {
			rest := k[i+len("PropStats["):]
			if j := strings.Index(rest, "]"); j >= 0 {
				return rest[:j]
			}
		}
		return "?"
	}
	spec := DTXSpec{Name: "Response.DecodeProp", Entry: fn,
		Sym: SymSpec{NonNil: func(k string) bool { return true }, MaxLen: func(key string, _ types.Type) int {
			if strings.HasSuffix(key, ".PropStats") {
				return 2
			}
			return 1
		}},
		Setup: func(in *Interp) {
			in.Models = append(in.Models, func(in *Interp, site ssa.CallInstruction, name string, args []Val) (Val, bool) {
				switch name {
				case fullFnName(respErr):
					if in.truth(LazyBool{"response-failed"}) {
						return in.mkErr(&ErrObj{Kind: "new", Msg: kStr("response status"), Key: "response-status"}), true
					}
					return kNil, true
				case fullFnName(statusErr):
					i := idxOf(keyOf(fieldVal(args[0], "Code")))
					if in.truth(LazyBool{"bad-status(" + i + ")"}) {
						return in.mkErr(&ErrObj{Kind: "new", Msg: kStr("propstat status " + i), Key: "propstat-status(" + i + ")"}), true
					}
					return kNil, true
				case fullFnName(propGet):
					i := idxOf(keyOf(fieldVal(args[0], "Raw")))
					if in.truth(LazyBool{"contains(" + i + ")"}) {
						st := zeroOf(rawT).(Struct)
						return Ptr{&Cell{V: st, T: rawT, Name: "raw(" + i + ")"}}, true
					}
					return kNil, true
				case fullFnName(rawDecode):
					k := "?"
					if pp, ok := args[0].(Ptr); ok {
						k = pp.C.Name
					}
					in.effect("decode", site.Pos(), kStr(k))
					if in.truth(LazyBool{"decode-fails"}) {
						return in.mkErr(&ErrObj{Kind: "new", Msg: kStr("decode error"), Key: "decode-error"}), true
					}
					return kNil, true
				}
				if strings.HasSuffix(name, ".valueXMLName") {
					nt := site.Common().Signature().Results().At(0).Type()
					st := zeroOf(nt).(Struct)
					st.F[0].Set(SymStr{Key: "name.Space"})
					st.F[1].Set(SymStr{Key: "name.Local"})
					return Tuple{[]Val{st, kNil}}, true
				}
				return nil, false
			})
		},
		Args: func(in *Interp) []Val {
			it := fn.Params[1].Type().(*types.Slice).Elem()
			v := Iface{Dyn: types.Typ[types.Invalid], V: Opaque{"value", it}}
			return []Val{in.symOf(fn.Params[0].Type(), "resp"), Slice{E: []*Cell{{V: v, T: it}}, NonNil: true}}
		},
		Observe: func(in *Interp, res Val, pan *panicOutcome) string {
			if pan != nil {
				return "panic"
			}
			var eff []string
			for _, e := range in.Trace {
				if e.Name == "decode" {
					eff = append(eff, e.String())
				}
			}
			out := strings.Join(eff, " ")
			if isNilVal(res) {
				return out + " => nil"
			}
			// innermost cause
			cur := res
			for i := 0; i < 6; i++ {
				if code, _, ok := httpErrOf(in, cur); ok {
					return out + fmt.Sprintf(" => HTTPError(%d)", code)
				}
				w, ok := in.unwrapErr(cur, nil)
				if !ok {
					break
				}
				cur = w
			}
			if iv, ok := cur.(Iface); ok {
				if eo, ok := iv.V.(*ErrObj); ok {
					return out + " => " + keyOfErr(eo)
				}
			}
			return out + " => error"
		},
		Oracle: func(env *OracleEnv) ([]string, bool) {
			if env.Bool("response-failed") {
				return []string{" => response-status"}, true
			}
			n := env.Len("resp.PropStats", 2)
			for i := 0; i < n; i++ {
				is := itoa(i)
				if !env.Bool("contains(" + is + ")") {
					continue
				}
				if env.Bool("bad-status(" + is + ")") {
					return []string{" => propstat-status(" + is + ")"}, true
				}
				d := `decode("raw(` + is + `)")`
				if env.Bool("decode-fails") {
					return []string{d + " => decode-error"}, true
				}
				return []string{d + " => nil"}, true
			}
			return []string{" => HTTPError(404)"}, true
		}}
	res := runDTX(c, spec)
	reportDTX(c, r, spec, res, "DecodeProp")
	r.Role("decision-table")
	if res.Runs < 10 {
		r.Unresolved("the DecodeProp table has fewer than 10 rows")
	}
	r.RequireRole("decision-table")
	decodePropOptionalRule(c, pr, prop, fn)
}

// decodePropOptionalRule: DecodeProp stops at the first value it cannot
// deliver. A caller that asks for several optional properties in one call and
// tolerates the error (not found) therefore never reads the properties named
// after the missing one: an object with a tag but no modification time comes
// back without its tag.
func decodePropOptionalRule(c *Ctx, pr *PropertyRun, prop string, decodeProp *ssa.Function) {
	p := c.P
	r := NewRule(prop, prop+".decode-prop-optional", "a DecodeProp call whose error is tolerated (the property is optional) asks for one property only: with several, the first missing one hides the rest (E4)")
	pr.Rules = append(pr.Rules, r)
	for _, fn := range p.ModFns {
		if !inLib(fn) || len(fn.Blocks) == 0 {
			continue
		}
		eachCall(fn, func(site ssa.CallInstruction) {
			call, ok := site.(*ssa.Call)
			if !ok || call.Common().StaticCallee() != decodeProp || len(call.Common().Args) < 2 {
				return
			}
			r.Role("decode-prop-call")
			n := len(variadicElems(call.Common().Args[1]))
			// a helper that forwards its own variadic parameter: as many as
			// its callers hand it
			if prm, isPrm := call.Common().Args[1].(*ssa.Parameter); isPrm {
				idx := paramIndex(fn, prm)
				for _, e := range c.CG().In[fn] {
					if e.Site == nil || !p.InModule(e.Caller) {
						continue
					}
					cc := e.Site.Common()
					var all []ssa.Value
					if cc.IsInvoke() {
						all = append(all, cc.Value)
					}
					all = append(all, cc.Args...)
					if idx < len(all) {
						if m := len(variadicElems(all[idx])); m > n {
							n = m
						}
					}
				}
			}
			ok = n <= 1 || !errToleratedAnywhere(call)
			r.Ob(ok)
			if !ok {
				r.Violation("optional-group|"+fnKey(fn), p.instrPos(call), fmt.Sprintf("%s asks DecodeProp for %d properties in one call and goes on when it reports an error: DecodeProp stops at the first property that is missing, so the properties named after it are never read although the response carries them", fnKey(fn), n), nil)
			}
		})
	}
	r.RequireRole("decode-prop-call")
}

// decodeRequestTable: internal.DecodeXMLRequest refuses a request only for a
// content type that is not XML or for a body its XML decoder rejects. What
// follows the root element — white space, comments, processing instructions
// (XML 1.0 §2.8: Misc*) — is part of a well-formed document and must not be a
// reason of its own to refuse it.
func decodeRequestTable(c *Ctx, pr *PropertyRun, prop string) {
	p := c.P
	r := NewRule(prop, prop+".decode-request", "DecodeXMLRequest accepts every document its XML decoder accepts, whatever Misc (white space, comments, processing instructions) follows the root element; it refuses only a non-XML content type or a decoder error, with 400 (E2)")
	r.Exhaustive = true
	r.Bounds = "<= 2 tokens after the root element, each white space, a comment or a processing instruction, then end of input or a read error"
	pr.Rules = append(pr.Rules, r)
	fn := p.MustFunc(r, pkgInternal, "DecodeXMLRequest")
	if fn == nil {
		return
	}
	kinds := []string{"CharData", "Comment", "ProcInst", "EOF", "error"}
	var nTok int
	spec := DTXSpec{Name: "DecodeXMLRequest", Entry: fn,
		// a request may be of any size (a multiget with thousands of hrefs):
		// the announced length is small, large or unknown (-1)
		Sym: SymSpec{NonNil: func(string) bool { return true }, IntDomain: func(string) []int64 { return []int64{-1, 100, 1 << 40} }},
		Setup: func(in *Interp) {
			nTok = 0
			in.Models = append(in.Models, func(in *Interp, site ssa.CallInstruction, name string, args []Val) (Val, bool) {
				switch name {
				case "(*encoding/xml.Decoder).Token", "(*encoding/xml.Decoder).RawToken":
					i := nTok
					nTok++
					k := "EOF"
					if i < 2 {
						k = kinds[in.chooseLabeled(fmt.Sprintf("after-root#%d", i), kinds)]
					}
					switch k {
					case "EOF":
						return Tuple{[]Val{kNil, Iface{Dyn: types.Typ[types.Invalid], V: Opaque{"global:io.EOF", errorType}}}}, true
					case "error":
						return Tuple{[]Val{kNil, in.mkErr(&ErrObj{Kind: "ext", Msg: kStr("read error"), Key: "read-error"})}}, true
					}
					return Tuple{[]Val{in.xmlTok(k, fmt.Sprintf("blank%d", i)), kNil}}, true
				case "bytes.TrimSpace":
					// character data after the root element is white space
					return Slice{}, true
				case "strings.TrimSpace":
					return kStr(""), true
				}
				return nil, false
			}, httpServerModels)
			in.OpenExternal = openHTTPServer
		},
		Args: func(in *Interp) []Val {
			return []Val{in.symOf(fn.Params[0].Type(), "r"), Iface{Dyn: types.Typ[types.Invalid], V: Opaque{"target", fn.Params[1].Type()}}}
		},
		Observe: func(in *Interp, res Val, pan *panicOutcome) string {
			if pan != nil {
				return "panic"
			}
			if isNilVal(res) {
				return "accepted"
			}
			if code, _, ok := httpErrOf(in, res); ok {
				return fmt.Sprintf("error %d", code)
			}
			return "error"
		},
		Oracle: func(env *OracleEnv) ([]string, bool) {
			ct := "mediatype(header:\"Content-Type\")"
			isXML := false
			if !env.Bool("fails:" + ct) {
				isXML = env.Eq(S(ct), K("application/xml")) || env.Eq(S(ct), K("text/xml"))
			}
			if !isXML || env.Bool("fails:xml.Decode") {
				return []string{"error 400"}, true
			}
			// a read error after the root element: the statement is silent
			for i := 0; i < 2; i++ {
				k := fmt.Sprintf("after-root#%d", i)
				if !env.Decided(k) {
					break
				}
				switch kinds[env.ch.choose(k, len(kinds), nil)] {
				case "error":
					return nil, false
				case "EOF":
					i = 2
				}
			}
			return []string{"accepted"}, true
		}}
	res := runDTX(c, spec)
	reportDTX(c, r, spec, res, "decode-request")
	r.Role("decision-table")
	if res.Runs < 3 {
		r.Unresolved("the table of DecodeXMLRequest has fewer than 3 rows")
	}
}
