package main

// C12.classifier — the level classifier's shape (E2): which expression of the
// request path decides the level. The table is extracted from the SSA with
// path.Clean, strings.TrimPrefix and strings.Split as uninterpreted functions
// and compared with the statement's definition: the level is the number of
// segments of the cleaned path below the prefix (root for none).

import (
	"fmt"
	"go/types"
	"strings"

	"golang.org/x/tools/go/ssa"
)

func c12Classifier(c *Ctx, pr *PropertyRun, prop string) {
	p := c.P
	r := NewRule(prop, prop+".classifier", "the level classifier computes: clean the path, take the prefix off, make it start with a slash; \"/\" is the root, otherwise the level is the number of slash-separated segments below the prefix (E2, path.Clean / TrimPrefix / Split uninterpreted)")
	r.Exhaustive = true
	pr.Rules = append(pr.Rules, r)
	for _, pkg := range []string{pkgCaldav, pkgCarddav} {
		bt := p.NamedType(pkg, "backend")
		if bt == nil {
			r.Unresolved("adapter type of " + pkg + " not found")
			continue
		}
		fn := p.uniqueFunc(pkg, func(f *ssa.Function) bool {
			if recvNamed(f) != bt || f.Signature.Params().Len() != 1 || f.Signature.Results().Len() != 1 {
				return false
			}
			n := namedOf(f.Signature.Results().At(0).Type())
			return n != nil && !n.Obj().Exported() && isIntKind(n) && types.Identical(f.Signature.Params().At(0).Type(), types.Typ[types.String])
		})
		if fn == nil {
			r.Undecided("classifier|"+pkg, "-", "no single method of the adapter taking a path and returning the package's level type found")
			continue
		}
		short := strings.TrimPrefix(pkg, modulePath+"/")
		spec := DTXSpec{Name: short + " level classifier", Entry: fn,
			Sym: SymSpec{NonNil: func(string) bool { return true }, OpaqueLen: true},
			Setup: func(in *Interp) {
				in.Models = append(in.Models, func(in *Interp, site ssa.CallInstruction, name string, args []Val) (Val, bool) {
					switch name {
					case "path.Clean", "path/filepath.Clean", "path/filepath.ToSlash":
						return SymStr{Key: name + "(" + keyOf(args[0]) + ")"}, true
					case "strings.TrimPrefix", "strings.TrimSuffix", "strings.TrimLeft", "strings.TrimRight", "strings.Trim":
						return SymStr{Key: name + "(" + keyOf(args[0]) + "," + keyOf(args[1]) + ")"}, true
					case "strings.Split":
						return Opaque{"strings.Split(" + keyOf(args[0]) + "," + keyOf(args[1]) + ")", site.Common().Signature().Results().At(0).Type()}, true
					case "strings.Count":
						return SymInt{"strings.Count(" + keyOf(args[0]) + "," + keyOf(args[1]) + ")"}, true
					}
					return nil, false
				})
			},
			Args: func(in *Interp) []Val {
				return []Val{in.symOf(fn.Params[0].Type(), "b"), SymStr{Key: "reqPath"}}
			},
			Observe: func(in *Interp, res Val, pan *panicOutcome) string {
				if pan != nil {
					return "panic"
				}
				return keyOf(res)
			},
			Oracle: func(env *OracleEnv) ([]string, bool) {
				t := `strings.TrimPrefix(path.Clean(reqPath),b.Prefix)`
				pth := t
				if !env.Bool(`strings.HasPrefix(` + t + `,"/")`) {
					pth = `("/"+` + t + `)`
				}
				if env.Eq(S(pth), K("/")) {
					return []string{"0"}, true
				}
				// the number of segments of a path that starts with a slash:
				// len(Split(P,"/"))-1 and Count(P,"/") are the same number
				return []string{fmt.Sprintf(`(len(strings.Split(%s,"/"))-1)`, pth), fmt.Sprintf(`strings.Count(%s,"/")`, pth)}, true
			}}
		res := runDTX(c, spec)
		reportDTX(c, r, spec, res, short)
		r.Role("decision-table")
		if res.Runs < 3 {
			r.Unresolved("the classifier's table has fewer than 3 rows")
		}
	}
	r.RequireRole("decision-table")
}
