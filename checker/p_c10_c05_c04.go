package main

// C10 — calendars, address books and their objects reach the client unchanged.
// C05 — WebDAV client and server agree on names, metadata and content.
// C04 — If-Match / If-None-Match preconditions are honoured exactly.
//
// The structural clauses of these three are mostly field-to-field flows (E1
// PAIR rules: a specific expected correspondence, which guards against swaps
// and dropped assignments), plus a few decision tables (E2) and schema (E6).

import (
	"fmt"
	"go/token"
	"go/types"
	"sort"
	"strings"

	"golang.org/x/tools/go/ssa"
)

func init() {
	register("C10", runC10)
	register("C05", runC05)
	register("C04", runC04)
}

// headerSinks: Header.Set/Add with a constant key -> sink "header:<Key>";
// encoders -> "body-encode"; NewPropFindResponse / NewErrorResponse path ->
// "response-href".
func responseCallSinks(site ssa.CallInstruction) map[int]string {
	cc := site.Common()
	name := calleeName(cc)
	switch name {
	case "(net/http.Header).Set", "(net/http.Header).Add":
		if k, ok := constString(cc.Args[1]); ok {
			return map[int]string{2: "header:" + k}
		}
	case "(*" + pkgIcal + ".Encoder).Encode", "(*" + pkgVcard + ".Encoder).Encode":
		return map[int]string{1: "body-encode"}
	case pkgInternal + ".NewPropFindResponse", pkgInternal + ".NewErrorResponse", pkgInternal + ".NewOKResponse":
		return map[int]string{0: "response-href"}
	case "net/http.NewRequest":
		return map[int]string{1: "request-url", 2: "request-body"}
	case "net/http.ServeContent":
		return map[int]string{2: "content-name", 3: "content-modtime", 4: "content-body"}
	case "io.Copy":
		return map[int]string{1: "io-copy-src"}
	}
	return nil
}

func headerGetSource(site ssa.CallInstruction) string {
	cc := site.Common()
	if calleeName(cc) == "(net/http.Header).Get" && len(cc.Args) == 2 {
		if k, ok := constString(cc.Args[1]); ok {
			return "header:" + k
		}
	}
	return ""
}

type flowPair struct {
	source, sink string
	unaltered    bool
	why          string
}

func requireFlows(p *Program, r *RuleResult, res *FFResult, side string, pairs []flowPair) {
	for _, fp := range pairs {
		r.Role("expected-flow")
		labs := res.SinkLabels[fp.sink]
		bits, ok := labs.has(fp.source)
		if ok && fp.unaltered {
			ok = false
			for _, s := range unalteredSinks(res, fp.source) {
				if s == fp.sink {
					ok = true
				}
			}
			_ = bits
		}
		r.Ob(ok)
		r.Sample(map[string]interface{}{"side": side, "source": fp.source, "sink": fp.sink, "flows": ok})
		if !ok {
			pos := "-"
			if ps, okp := res.Stores[fp.sink]; okp {
				pos = p.Pos(ps)
			} else if ps, okp := res.Reads[fp.source]; okp {
				pos = p.Pos(ps)
			}
			got := labelNames(labs)
			var short []string
			for _, g := range got {
				if !strings.HasPrefix(g, "param:") {
					short = append(short, g)
				}
			}
			if len(short) > 8 {
				short = short[:8]
			}
			how := "does not flow"
			if fp.unaltered {
				how = "does not flow unaltered"
			}
			r.Violation("flow|"+side+"|"+fp.source+"->"+fp.sink, pos, fmt.Sprintf("%s: %s %s into %s (%s); what arrives there instead: %v", side, fp.source, how, fp.sink, fp.why, short), nil)
		}
	}
}

func isNamedIn(n *types.Named, pkg string, names ...string) bool {
	if n == nil || n.Obj().Pkg() == nil || n.Obj().Pkg().Path() != pkg {
		return false
	}
	for _, nm := range names {
		if n.Obj().Name() == nm {
			return true
		}
	}
	return false
}

// ---------------------------------------------------------------------------
// C10

func runC10(c *Ctx, pr *PropertyRun) {
	p := c.P
	pr.Explanation = "Decided (structural clauses): (1) server flow (E1): for Calendar, AddressBook, CalendarObject and AddressObject each attribute the statement names — path, display name, description, entity tag, modification time, size limit, supported component set, content — flows from the backend's value into the matching property of the PROPFIND/REPORT response and, for objects, into the GET/HEAD/PUT headers and the body encoder; the pairs are specific, so a swap (name/description) or a dropped assignment is reported; (2) client flow (E1): every named field of the values the client returns from discovery, Get, MultiGet, Query, Put and SyncCollection is written from the matching wire property or header, and PUT hands the caller's calendar/card to the encoder; " +
		"(3) multiget: for <= 2 hrefs, each found / failing, the response list has exactly one entry per href in order, an error entry carrying the backend's status through NewErrorResponse, a failing href not aborting the others (E2); (4) every wire struct of the three packages agrees with the RFC element tables (E6; child order of DAV: elements is only noted, RFC 4918 §14 declares it irrelevant). NOT decided: the iCalendar/vCard text round trip (go-ical/go-vcard), string escaping, lexical variants of incoming documents."
	pr.Assumptions = append(pr.Assumptions, "flows are may-flows over the SSA; AddressBook.SupportedAddressData and ContentLength of objects are outside the statement's list (the server hard-codes the former)")
	pr.Trusted = append(pr.Trusted, "golang.org/x/tools/go/ssa v0.29.0", "RFC tables in checker/e6_schema.go")

	srv := NewRule("C10", "C10.server-flow", "backend values reach the matching response property, header and body encoder (E1 PAIR)")
	cli := NewRule("C10", "C10.client-flow", "wire properties and headers reach the matching field of the values the client returns; PUT sends the caller's object (E1 PAIR)")
	pr.Rules = append(pr.Rules, srv, cli)
	for _, pkg := range []string{pkgCaldav, pkgCarddav} {
		dn := davNamesOf(pkg)
		sh := dn.short
		entry := p.MustFunc(srv, pkg, "(*Handler).ServeHTTP")
		if entry == nil {
			continue
		}
		pubSrc := func(n *types.Named) bool { return isNamedIn(n, pkg, dn.collType, dn.objType) }
		wireSink := func(n *types.Named) bool { return isWireStruct(n) || isHref(n) }
		res := RunFieldFlow(c, FFConfig{Entries: []*ssa.Function{entry}, IsSource: pubSrc, IsSink: wireSink, CallSink: responseCallSinks})
		debugExplain(res)
		srv.Count("functions_"+sh, len(res.Scope))
		descT, dataT, content := sh+".calendarDescription.Description", sh+".calendarDataResp.Data", "Data"
		if pkg == pkgCarddav {
			descT, dataT, content = sh+".addressbookDescription.Description", sh+".addressDataResp.Data", "Card"
		}
		C, O := sh+"."+dn.collType, sh+"."+dn.objType
		pairs := []flowPair{
			{C + ".Path", "response-href", true, "the collection's href"},
			{C + ".Name", "internal.DisplayName.Name", true, "DAV:displayname"},
			{C + ".Description", descT, true, "the description property"},
			{C + ".MaxResourceSize", sh + ".maxResourceSize.Size", true, "max-resource-size"},
			{O + ".Path", "response-href", true, "the object's href"},
			{O + ".ETag", "internal.GetETag.ETag", true, "DAV:getetag"},
			{O + ".ETag", "header:ETag", false, "the ETag header of GET/HEAD/PUT"},
			{O + ".ModTime", "internal.GetLastModified.LastModified", true, "DAV:getlastmodified"},
			{O + ".ModTime", "header:Last-Modified", false, "the Last-Modified header"},
			{O + ".Path", "header:Location", true, "the Location header of PUT"},
			{O + "." + content, "body-encode", true, "the GET body"},
		}
		if pkg == pkgCaldav {
			pairs = append(pairs, flowPair{C + ".SupportedComponentSet", "caldav.comp.Name", true, "supported-calendar-component-set"})
		}
		requireFlows(p, srv, res, sh+" server", pairs)
		// the content reaches the calendar-data/address-data property through
		// the encoder and its buffer: follow memory written by external
		// callees (coarser, so only this pair is read off this run)
		resOut := RunFieldFlow(c, FFConfig{Entries: []*ssa.Function{entry}, IsSource: pubSrc, IsSink: wireSink, CallSink: responseCallSinks, OutParams: true})
		requireFlows(p, srv, resOut, sh+" server", []flowPair{{O + "." + content, dataT, false, "the calendar-data/address-data property"}})

		// client side, one run per public method: what each method returns
		// must be written from the matching wire property or header
		wireSrc := func(n *types.Named) bool {
			return isWireStruct(n) || isHref(n) || isNamedIn(n, "net/url", "URL")
		}
		pubSink := func(n *types.Named) bool { return isNamedIn(n, pkg, dn.collType, dn.objType, "SyncResponse") }
		clientSources := func(site ssa.CallInstruction) string {
			if l := headerGetSource(site); l != "" {
				return l
			}
			switch calleeName(site.Common()) {
			case "(*" + pkgIcal + ".Decoder).Decode", "(*" + pkgVcard + ".Decoder).Decode":
				return "body-decode"
			}
			return ""
		}
		contentField := O + "." + content
		collPairs := []flowPair{
			{"internal.Href.Path", C + ".Path", true, "the collection's path is the response href"},
			{"internal.DisplayName.Name", C + ".Name", true, "display name"},
			{descT, C + ".Description", true, "description"},
			{sh + ".maxResourceSize.Size", C + ".MaxResourceSize", true, "size limit"},
		}
		if pkg == pkgCaldav {
			collPairs = append(collPairs, flowPair{"caldav.comp.Name", C + ".SupportedComponentSet", true, "supported component set"})
		}
		msPairs := []flowPair{
			{"internal.Href.Path", O + ".Path", true, "the object's path is the response href"},
			{"internal.GetETag.ETag", O + ".ETag", true, "entity tag from the multistatus"},
			{"internal.GetLastModified.LastModified", O + ".ModTime", true, "modification time from the multistatus"},
			{dataT, contentField, false, "the object's content"},
		}
		hdrPairs := []flowPair{
			{"header:ETag", O + ".ETag", false, "entity tag from the response headers"},
			{"header:Last-Modified", O + ".ModTime", false, "modification time from the response headers"},
		}
		find, query, multiGet := "FindCalendars", "QueryCalendar", "MultiGetCalendar"
		if pkg == pkgCarddav {
			find, query, multiGet = "FindAddressBooks", "QueryAddressBook", "MultiGetAddressBook"
		}
		table := map[string][]flowPair{
			find:      collPairs,
			query:     msPairs,
			multiGet:  msPairs,
			dn.getObj: append(append([]flowPair{}, hdrPairs...), flowPair{"body-decode", contentField, true, "the decoded response body"}, flowPair{"net/url.URL.Path", O + ".Path", true, "the path the object was fetched from"}),
			dn.putObj: append(append([]flowPair{}, hdrPairs...), flowPair{"header:Location", O + ".Path", false, "the path the server stored the object under"}, flowPair{"param:(*" + sh + ".Client)." + dn.putObj + "#2:path", O + ".Path", true, "the path the object was put to"}),
		}
		if pkg == pkgCarddav {
			table["SyncCollection"] = []flowPair{
				{"internal.Href.Path", O + ".Path", true, "the object's path is the response href"},
				{"internal.GetETag.ETag", O + ".ETag", true, "entity tag from the multistatus"},
				{"internal.GetLastModified.LastModified", O + ".ModTime", true, "modification time from the multistatus"},
				{"internal.MultiStatus.SyncToken", "carddav.SyncResponse.SyncToken", true, "the sync token for next time"},
				{"internal.Href.Path", "carddav.SyncResponse.Deleted", true, "deleted members"},
			}
		}
		var mnames []string
		for m := range table {
			mnames = append(mnames, m)
		}
		sort.Strings(mnames)
		for _, m := range mnames {
			fn := p.MustFunc(cli, pkg, "(*Client)."+m)
			if fn == nil {
				continue
			}
			res2 := RunFieldFlow(c, FFConfig{Entries: []*ssa.Function{fn}, IsSource: wireSrc, IsSink: pubSink, CallSource: clientSources, CallSink: responseCallSinks, ParamLabels: true})
			debugExplain(res2)
			cli.Count("functions_"+sh+"."+m, len(res2.Scope))
			requireFlows(p, cli, res2, sh+" Client."+m, table[m])
			if m == dn.putObj {
				// PUT: the caller's object reaches the body encoder
				cli.Role("expected-flow")
				okPut := false
				for l := range res2.SinkLabels["body-encode"] {
					if strings.HasPrefix(l.String(), "param:(*"+sh+".Client)."+dn.putObj+"#") {
						okPut = true
					}
				}
				cli.Ob(okPut)
				if !okPut {
					cli.Violation("flow|"+sh+" client|put-body", p.Pos(fn.Pos()), "(*Client)."+dn.putObj+" does not hand the caller's object to the encoder that fills the request body", nil)
				}
			}
		}
	}
	srv.RequireRole("expected-flow")
	cli.RequireRole("expected-flow")

	pg := NewRule("C10", "C10.presence-guards", "where a property, header or returned field is emitted only if the value is present, the emission sits on the non-zero side of the test of that same value (E4 contradiction rule)")
	pr.Rules = append(pr.Rules, pg)
	presenceGuardRule(c, pg, func(pp string) bool { return pp != pkgWebdav }, func(n *types.Named) bool {
		return isWireStruct(n) || isHref(n) || isNamedIn(n, pkgCaldav, "Calendar", "CalendarObject") || isNamedIn(n, pkgCarddav, "AddressBook", "AddressObject", "SyncResponse") || isNamedIn(n, pkgWebdav, "FileInfo")
	})
	pg.RequireRole("guarded-emission")
	if p.Control {
		pg.ExpectControl("presence-polarity")
	}

	pk := NewRule("C10", "C10.property-tables", "every entry of the servers' PROPFIND property tables is registered under the name of the element it writes (E6)")
	pr.Rules = append(pr.Rules, pk)
	propKeyRule(c, pk, func(pp string) bool { return pp == pkgCaldav || pp == pkgCarddav })
	pk.RequireRole("property-table-entry")
	if p.Control {
		pk.ExpectControl("propkey")
	}

	propSetTables(c, pr, "C10", []string{pkgCaldav, pkgCarddav})
	freshPropTableRule(c, pr, "C10")
	urlParseRule(c, pr, "C10", nil)
	c10Multiget(c, pr)
	c10ErrorResponse(c, pr)
	decodePropTable(c, pr, "C10")
	// what the client makes of per-resource statuses (deleted members of a
	// sync-collection, failing multiget entries): the tables of C14
	c14TablesFor(c, pr, "C10")
	// per-response holders are fresh (a tolerated 404 leaves the zero value)
	freshHolderRule(c, pr, "C10")
	// what is decoded for one property type is not another type's cached answer
	cacheKeysRule(c, pr, "C10")
	addressableMarshalersRule(c, pr, "C10")
	redirectCodesRule(c, pr, "C10")
	locationAlwaysRule(c, pr, "C10")
	// tags, dates and hrefs are written and read by inverse pairs, in the
	// multistatus and in the headers (shared with C16.pairs)
	c16Pairs(c, pr, "C10", func(what string) bool {
		return strings.HasPrefix(what, "entity tag") || what == "HTTP date" || what == "href" || what == "status line"
	})
	utcRule(c, pr, "C10")

	sch := NewRule("C10", "C10.schema", "every wire struct of internal, webdav, caldav and carddav agrees with the RFC element tables (names, namespaces, attributes, required children; child order only noted: the RFCs declare it irrelevant) (E6)")
	pr.Rules = append(pr.Rules, sch)
	checkSchema(p, sch, func(xs *xmlStruct) bool { return !strings.HasPrefix(xs.Named.Obj().Name(), "zzVerifControl") }, nil, nil)
	sch.RequireRole("wire-struct", "child-element")
}

// c10ErrorResponse: NewErrorResponse reports the backend's own status for a
// bare *HTTPError, for one wrapped with %w (errors.As semantics), and 500 for
// anything else.
func c10ErrorResponse(c *Ctx, pr *PropertyRun) {
	p := c.P
	r := NewRule("C10", "C10.error-response", "NewErrorResponse carries the backend's own status: the code of an *HTTPError, bare or wrapped, else 500 (E2)")
	r.Exhaustive = true
	pr.Rules = append(pr.Rules, r)
	fn := p.MustFunc(r, pkgInternal, "NewErrorResponse")
	if fn == nil {
		return
	}
	shapes := []string{"bare", "wrapped", "wrapped-twice", "other"}
	spec := DTXSpec{Name: "internal.NewErrorResponse", Entry: fn,
		Args: func(in *Interp) []Val {
			var err Val
			switch shapes[in.chooseLabeled("error-shape", shapes)] {
			case "bare":
				err = markerErr(in)
			case "wrapped":
				err = in.mkErr(&ErrObj{Kind: "wrap", Msg: kStr("backend: wrapped"), Wrapped: markerErr(in), Key: "wrapped"})
			case "wrapped-twice":
				inner := in.mkErr(&ErrObj{Kind: "wrap", Msg: kStr("backend: wrapped"), Wrapped: markerErr(in), Key: "wrapped"})
				err = in.mkErr(&ErrObj{Kind: "wrap", Msg: kStr("outer"), Wrapped: inner, Key: "wrapped2"})
			default:
				err = in.mkErr(&ErrObj{Kind: "new", Msg: kStr("some failure"), Key: "plain"})
			}
			return []Val{SymStr{Key: "path"}, err}
		},
		Observe: func(in *Interp, res Val, pan *panicOutcome) string {
			if pan != nil {
				return "panic"
			}
			st := fieldVal(res, "Status")
			if isNilVal(st) {
				return "no status"
			}
			code, _ := in.concretise(fieldVal(st, "Code"))
			href := "?"
			if hs := elemsOf(in, fieldVal(res, "Hrefs")); len(hs) == 1 {
				href = keyOf(fieldVal(hs[0], "Path"))
			}
			return fmt.Sprintf("status %d for %s", code, href)
		},
		Oracle: func(env *OracleEnv) ([]string, bool) {
			if shapes[env.Choice("error-shape", len(shapes))] == "other" {
				return []string{"status 500 for path"}, true
			}
			return []string{fmt.Sprintf("status %d for path", markerStatus)}, true
		}}
	res := runDTX(c, spec)
	reportDTX(c, r, spec, res, "NewErrorResponse")
	r.Role("decision-table")
	if res.Runs < 4 {
		r.Unresolved("the NewErrorResponse table has fewer than 4 rows")
	}
	r.RequireRole("decision-table")
}

// serveErrorTable: ServeError answers with the status of an *HTTPError found
// anywhere in the error's chain (errors.As semantics), else 500. Every rule
// that follows a labelled error to ServeError relies on this.
func serveErrorTable(c *Ctx, pr *PropertyRun, prop string) {
	p := c.P
	r := NewRule(prop, prop+".serve-error", "ServeError answers with the status of an *HTTPError found anywhere in the error chain — bare, wrapped once or twice with %w — and 500 for anything else (E2)")
	r.Exhaustive = true
	pr.Rules = append(pr.Rules, r)
	fn := p.MustFunc(r, pkgInternal, "ServeError")
	if fn == nil {
		return
	}
	shapes := []string{"bare", "wrapped", "wrapped-twice", "other"}
	spec := DTXSpec{Name: "internal.ServeError", Entry: fn,
		Setup: func(in *Interp) { in.Models = append(in.Models, httpServerModels) },
		Args: func(in *Interp) []Val {
			var err Val
			switch shapes[in.chooseLabeled("error-shape", shapes)] {
			case "bare":
				err = markerErr(in)
			case "wrapped":
				err = in.mkErr(&ErrObj{Kind: "wrap", Msg: kStr("context: wrapped"), Wrapped: markerErr(in), Key: "wrapped"})
			case "wrapped-twice":
				inner := in.mkErr(&ErrObj{Kind: "wrap", Msg: kStr("context: wrapped"), Wrapped: markerErr(in), Key: "wrapped"})
				err = in.mkErr(&ErrObj{Kind: "wrap", Msg: kStr("outer"), Wrapped: inner, Key: "wrapped2"})
			default:
				err = in.mkErr(&ErrObj{Kind: "new", Msg: kStr("some failure"), Key: "plain"})
			}
			return []Val{Opaque{"w", fn.Params[0].Type()}, err}
		},
		Observe: func(in *Interp, res Val, pan *panicOutcome) string {
			if pan != nil {
				return "panic"
			}
			for _, e := range in.Trace {
				switch e.Name {
				case "WriteHeader":
					code, _ := in.concretise(e.Args[0])
					return fmt.Sprintf("status %d", code)
				case "http.Error":
					code, _ := in.concretise(e.Args[0])
					return fmt.Sprintf("status %d", code)
				}
			}
			return "no status written"
		},
		Oracle: func(env *OracleEnv) ([]string, bool) {
			if shapes[env.Choice("error-shape", len(shapes))] == "other" {
				return []string{"status 500"}, true
			}
			return []string{fmt.Sprintf("status %d", markerStatus)}, true
		}}
	res := runDTX(c, spec)
	reportDTX(c, r, spec, res, "ServeError")
	r.Role("decision-table")
	if res.Runs < 4 {
		r.Unresolved("the ServeError table has fewer than 4 rows")
	}
	r.RequireRole("decision-table")
}

func c10Multiget(c *Ctx, pr *PropertyRun) {
	p := c.P
	r := NewRule("C10", "C10.multiget", "multiget answers every requested href exactly once, in order, with the object or with the backend's own error status; NewErrorResponse carries the status (E2)")
	r.Exhaustive = true
	nHrefs := 2
	if c.Thorough() {
		nHrefs = 4
	}
	r.Bounds = fmt.Sprintf("hrefs <= %d, each found or failing", nHrefs)
	pr.Rules = append(pr.Rules, r)
	for _, pkg := range []string{pkgCaldav, pkgCarddav} {
		dn := davNamesOf(pkg)
		srvRoot := p.MustFunc(r, pkg, "(*Handler).ServeHTTP")
		if srvRoot == nil {
			continue
		}
		wire := "calendarMultiget"
		if pkg == pkgCarddav {
			wire = "addressbookMultiget"
		}
		handler := fnTakingPtr(c, srvRoot, pkg, wire)
		if handler == nil {
			r.Undecided("handler|"+dn.short, p.Pos(srvRoot.Pos()), "no Handler method taking *"+wire+" found")
			continue
		}
		objT := p.NamedType(pkg, dn.objType)
		spec := DTXSpec{Name: dn.short + " multiget", Entry: handler,
			Sym: SymSpec{NonNil: func(k string) bool { return !strings.HasSuffix(k, ".Prop") }, MaxLen: func(key string, _ types.Type) int {
				if strings.HasSuffix(key, ".Hrefs") {
					return nHrefs
				}
				return 0
			}, IntDomain: func(string) []int64 { return []int64{0, 7} },
				Override: func(key string, t types.Type) Val {
					if strings.HasSuffix(key, "multiget.Prop") {
						return kNil
					}
					return nil
				}},
			Setup: func(in *Interp) {
				in.OpenExternal = func(n *types.Named) bool { return n.Obj().Pkg().Path() == "net/url" && n.Obj().Name() == "URL" }
				in.Models = append(in.Models, func(in *Interp, site ssa.CallInstruction, name string, args []Val) (Val, bool) {
					cc := site.Common()
					switch {
					case cc.IsInvoke() && strings.HasSuffix(name, "Backend)."+dn.getObj):
						k := keyOf(args[2])
						if in.truth(LazyBool{"found(" + k + ")"}) {
							return Tuple{[]Val{in.symPointee(objT, "obj("+k+")"), kNil}}, true
						}
						return Tuple{[]Val{kNil, markerErr(in)}}, true
					case name == pkgInternal+".NewPropFindResponse":
						in.effect("object", site.Pos(), args[0])
						respT := in.c.P.NamedType(pkgInternal, "Response")
						return Tuple{[]Val{Ptr{&Cell{V: zeroOf(respT), T: respT}}, kNil}}, true
					case name == pkgInternal+".ServeMultiStatus":
						// the responses, in order
						for _, rv := range elemsOf(in, fieldVal(args[1], "Responses")) {
							st := fieldVal(rv, "Status")
							if !isNilVal(st) {
								code, _ := in.concretise(fieldVal(st, "Code"))
								href := "?"
								if hs := elemsOf(in, fieldVal(rv, "Hrefs")); len(hs) == 1 {
									href = keyOf(fieldVal(hs[0], "Path"))
								}
								in.effect("error-entry", site.Pos(), kStr(href), kInt(code))
							} else {
								in.effect("entry", site.Pos())
							}
						}
						return kNil, true
					case cc.IsInvoke() && cc.Method.Name() == "CurrentUserPrincipal":
						return Tuple{[]Val{SymStr{Key: "principal"}, kNil}}, true
					}
					return nil, false
				}, httpServerModels)
			},
			Args: func(in *Interp) []Val {
				var args []Val
				for i, prm := range handler.Params {
					switch {
					case i == 0:
						args = append(args, in.symOf(prm.Type(), "h"))
					case isNamedPtr(prm.Type(), pkg, wire):
						args = append(args, in.symOf(prm.Type(), "multiget"))
					default:
						args = append(args, Opaque{prm.Name(), prm.Type()})
					}
				}
				return args
			},
			Observe: func(in *Interp, res Val, pan *panicOutcome) string {
				if pan != nil {
					return "panic"
				}
				var seq []string
				for _, e := range in.Trace {
					switch e.Name {
					case "object", "error-entry", "entry":
						seq = append(seq, e.String())
					}
				}
				return strings.Join(seq, " ") + " => " + boolErrNil(res)
			},
			Oracle: func(env *OracleEnv) ([]string, bool) {
				n := env.Len("multiget.Hrefs", nHrefs)
				var built, final []string
				for i := 0; i < n; i++ {
					k := fmt.Sprintf("multiget.Hrefs[%d].Path", i)
					if env.Bool("found(" + k + ")") {
						built = append(built, "object(obj("+k+").Path)")
						final = append(final, "entry()")
					} else {
						final = append(final, fmt.Sprintf("error-entry(\"%s\", %d)", k, markerStatus))
					}
				}
				return []string{strings.Join(append(built, final...), " ") + " => nil"}, true
			}}
		res := runDTX(c, spec)
		reportDTX(c, r, spec, res, dn.short)
		r.Role("decision-table")
		if res.Runs < 5 {
			r.Unresolved("multiget table of " + dn.short + " has fewer than 5 rows")
		}
	}
	r.RequireRole("decision-table")
}

// ---------------------------------------------------------------------------
// C05

func runC05(c *Ctx, pr *PropertyRun) {
	p := c.P
	pr.Explanation = "Decided (structural clauses): (1) FileInfo flows (E1): on the server all six FileInfo fields flow into the PROPFIND response (Path -> href, IsDir -> resourcetype, Size, ModTime, MIMEType, ETag -> their properties) and four into the GET/HEAD headers; on the client all six fields of the FileInfo returned by Stat/ReadDir are written from the matching wire property; (2) requests: http.NewRequest is called only from internal.(*Client).NewRequest with ResolveHref(name).String() as its URL, and every Destination header is ResolveHref(dest).String(); ResolveHref's table: a leading slash is taken as is, anything else is joined to the endpoint path; " +
		"(3) options (E2): the client's Copy/Move/ReadDir send Overwrite: F exactly for NoOverwrite, Depth: 0 exactly for NoRecursive and infinity otherwise, Depth 1/infinity for ReadDir(recursive), which the server tables of C01 map back to the same option values (the composition is the identity); (4) each wire primitive is written and read by an inverse pair (shared with C16.pairs). NOT decided: fidelity of the escaping layers on particular characters and byte-for-byte upload content — run-time behaviour of net/url, encoding/xml, net/http."
	pr.Assumptions = append(pr.Assumptions, "flows are may-flows over the SSA")
	pr.Trusted = append(pr.Trusted, "golang.org/x/tools/go/ssa v0.29.0")
	fiT := p.NamedType(pkgWebdav, "FileInfo")
	flow := NewRule("C05", "C05.fileinfo", "all FileInfo fields flow to the matching property/header on the server and from the matching property on the client (E1 PAIR)")
	pr.Rules = append(pr.Rules, flow)
	if entry := p.MustFunc(flow, pkgWebdav, "(*Handler).ServeHTTP"); entry != nil && fiT != nil {
		res := RunFieldFlow(c, FFConfig{Entries: []*ssa.Function{entry}, IsSource: func(n *types.Named) bool { return n == fiT },
			IsSink: func(n *types.Named) bool { return isWireStruct(n) || isHref(n) }, CallSink: responseCallSinks})
		debugExplain(res)
		requireFlows(p, flow, res, "webdav server", []flowPair{
			{"webdav.FileInfo.Path", "response-href", true, "the href of the PROPFIND response"},
			{"webdav.FileInfo.IsDir", "internal.ResourceType.Raw", false, "DAV:resourcetype"},
			{"webdav.FileInfo.Size", "internal.GetContentLength.Length", true, "DAV:getcontentlength"},
			{"webdav.FileInfo.Size", "header:Content-Length", false, "the Content-Length header"},
			{"webdav.FileInfo.ModTime", "internal.GetLastModified.LastModified", true, "DAV:getlastmodified"},
			{"webdav.FileInfo.ModTime", "header:Last-Modified", false, "the Last-Modified header"},
			{"webdav.FileInfo.MIMEType", "internal.GetContentType.Type", true, "DAV:getcontenttype"},
			{"webdav.FileInfo.MIMEType", "header:Content-Type", true, "the Content-Type header"},
			{"webdav.FileInfo.ETag", "internal.GetETag.ETag", true, "DAV:getetag"},
			{"webdav.FileInfo.ETag", "header:ETag", false, "the ETag header"},
		})
	}
	var centries []*ssa.Function
	for _, n := range []string{"(*Client).Stat", "(*Client).ReadDir"} {
		if fn := p.MustFunc(flow, pkgWebdav, n); fn != nil {
			centries = append(centries, fn)
		}
	}
	if len(centries) > 0 && fiT != nil {
		res := RunFieldFlow(c, FFConfig{Entries: centries, IsSource: func(n *types.Named) bool { return isWireStruct(n) || isHref(n) },
			IsSink: func(n *types.Named) bool { return n == fiT }})
		debugExplain(res)
		requireFlows(p, flow, res, "webdav client", []flowPair{
			{"internal.Href.Path", "webdav.FileInfo.Path", true, "the path by which the resource can be addressed again"},
			{"internal.GetContentLength.Length", "webdav.FileInfo.Size", true, "size"},
			{"internal.GetLastModified.LastModified", "webdav.FileInfo.ModTime", true, "modification time"},
			{"internal.GetContentType.Type", "webdav.FileInfo.MIMEType", true, "content type"},
			{"internal.GetETag.ETag", "webdav.FileInfo.ETag", true, "entity tag"},
		})
	}
	c05Kind(c, flow, fiT)
	flow.RequireRole("expected-flow", "kind-store")

	pg := NewRule("C05", "C05.presence-guards", "where a property, header or FileInfo field is emitted only if the value is present, the emission sits on the non-zero side of the test of that same value (E4 contradiction rule)")
	pr.Rules = append(pr.Rules, pg)
	presenceGuardRule(c, pg, func(pp string) bool { return pp == pkgWebdav }, func(n *types.Named) bool {
		return isWireStruct(n) || isHref(n) || n == fiT
	})
	pg.RequireRole("guarded-emission")
	if p.Control {
		pg.ExpectControl("presence-polarity")
	}

	pk := NewRule("C05", "C05.property-tables", "every entry of the file server's PROPFIND property table is registered under the name of the element it writes (E6)")
	pr.Rules = append(pr.Rules, pk)
	propKeyRule(c, pk, func(pp string) bool { return pp == pkgWebdav })
	pk.RequireRole("property-table-entry")
	if p.Control {
		pk.ExpectControl("propkey")
	}

	propSetTables(c, pr, "C05", []string{pkgWebdav})
	freshPropTableRule(c, pr, "C05")
	c05ReadDir(c, pr, "C05")
	// every listed resource gets a FileInfo of its own: one variable filled
	// in place per entry keeps what the previous entry had (a collection
	// after a file carries the file's size, type and tag)
	freshHolderRule(c, pr, "C05")
	streamedLengthRule(c, pr, "C05")
	// optional properties (entity tag, content type) are asked for one at a time
	if dp := c.P.Func(pkgInternal, "(*Response).DecodeProp"); dp != nil {
		decodePropOptionalRule(c, pr, "C05", dp)
	}
	truncateRule(c, pr, "C05", nil)

	urlParseRule(c, pr, "C05", nil)

	// requests
	req := NewRule("C05", "C05.requests", "every request URL and Destination header is ResolveHref(name).String(); ResolveHref's table (WHO-MAY-CALL + E2)")
	pr.Rules = append(pr.Rules, req)
	resolve := p.MustFunc(req, pkgInternal, "(*Client).ResolveHref")
	newReq := p.MustFunc(req, pkgInternal, "(*Client).NewRequest")
	isResolvedString := func(v ssa.Value) bool {
		call, ok := v.(*ssa.Call)
		if !ok || calleeName(call.Common()) != "(*net/url.URL).String" {
			return false
		}
		inner, ok := call.Common().Args[0].(*ssa.Call)
		return ok && inner.Common().StaticCallee() == resolve
	}
	for _, fn := range p.ModFns {
		if !inLib(fn) || p.isControlFn(fn) {
			continue
		}
		eachCall(fn, func(site ssa.CallInstruction) {
			cc := site.Common()
			name := calleeName(cc)
			switch {
			case name == "net/http.NewRequest" || name == "net/http.NewRequestWithContext":
				req.Role("request-construction")
				ui := 1
				if name == "net/http.NewRequestWithContext" {
					ui = 2
				}
				ok := fn == newReq && isResolvedString(cc.Args[ui])
				req.Ob(ok)
				if !ok {
					req.Violation("raw-request|"+fnKey(fn), p.instrPos(site), fnKey(fn)+" builds an HTTP request whose URL is not ResolveHref(name).String() inside internal.(*Client).NewRequest: relative names are not resolved against the endpoint (or are escaped differently)", nil)
				}
			case (name == "(net/http.Header).Set" || name == "(net/http.Header).Add") && len(cc.Args) == 3:
				if k, ok := constString(cc.Args[1]); ok && k == "Destination" {
					req.Role("destination-header")
					ok := isResolvedString(cc.Args[2])
					req.Ob(ok)
					if !ok {
						req.Violation("raw-destination|"+fnKey(fn), p.instrPos(site), fnKey(fn)+" sets the Destination header to something other than ResolveHref(dest).String(): the destination is not the named resource", nil)
					}
				}
			}
		})
	}
	req.RequireRole("request-construction", "destination-header")
	if resolve != nil {
		spec := DTXSpec{Name: "ResolveHref", Entry: resolve,
			Sym: SymSpec{NonNil: func(string) bool { return true }},
			Setup: func(in *Interp) {
				in.OpenExternal = func(n *types.Named) bool { return n.Obj().Pkg().Path() == "net/url" && n.Obj().Name() == "URL" }
				in.Models = append(in.Models, func(in *Interp, site ssa.CallInstruction, name string, args []Val) (Val, bool) {
					if name == "(*net/url.URL).ResolveReference" {
						// RFC 3986 reference resolution is NOT path.Join: it
						// drops the last segment of a base without trailing
						// slash; kept apart as its own function of the inputs
						ut := in.c.P.lookupType("net/url", "URL")
						st := zeroOf(ut).(Struct)
						base, ref := args[0], args[1]
						setF := func(name string, v Val) {
							stt := ut.Underlying().(*types.Struct)
							for i := 0; i < stt.NumFields(); i++ {
								if stt.Field(i).Name() == name {
									st.F[i].Set(v)
								}
							}
						}
						setF("Path", SymStr{Key: "rfc3986-resolve(" + keyOf(fieldVal(base, "Path")) + "," + keyOf(fieldVal(ref, "Path")) + ")"})
						setF("Host", fieldVal(base, "Host"))
						setF("Scheme", fieldVal(base, "Scheme"))
						return Ptr{&Cell{V: st, T: ut}}, true
					}
					if name == "path.Join" {
						var ks []string
						for _, e := range sliceArgs(in, args[0], site) {
							ks = append(ks, keyOf(e))
						}
						return SymStr{Key: "path.Join(" + strings.Join(ks, ",") + ")"}, true
					}
					return nil, false
				})
			},
			Args: func(in *Interp) []Val { return []Val{in.symOf(resolve.Params[0].Type(), "c"), SymStr{Key: "p"}} },
			Observe: func(in *Interp, res Val, pan *panicOutcome) string {
				if pan != nil {
					return "panic"
				}
				return "Path=" + keyOf(fieldVal(res, "Path")) + " Host=" + keyOf(fieldVal(res, "Host")) + " Scheme=" + keyOf(fieldVal(res, "Scheme"))
			},
			Oracle: func(env *OracleEnv) ([]string, bool) {
				pth := "path.Join(c.endpoint.Path,p)"
				if env.Bool("strings.HasPrefix(p,\"/\")") {
					pth = "p"
				}
				return []string{"Path=" + pth + " Host=c.endpoint.Host Scheme=c.endpoint.Scheme"}, true
			}}
		res := runDTX(c, spec)
		reportDTX(c, req, spec, res, "ResolveHref")
	}

	// options
	opt := NewRule("C05", "C05.options", "the client's Copy/Move/ReadDir send exactly the headers that the server tables of C01 map back to the same option values (E2)")
	opt.Exhaustive = true
	pr.Rules = append(pr.Rules, opt)
	icPropFind := p.Func(pkgInternal, "(*Client).PropFind")
	clientModels := func(captured *[]string) ModelFn {
		return func(in *Interp, site ssa.CallInstruction, name string, args []Val) (Val, bool) {
			switch {
			case name == "(*"+pkgInternal+".Client).NewRequest":
				*captured = append(*captured, "request "+keyOf(args[1])+" "+keyOf(args[2]))
				return Tuple{[]Val{in.symPointee(p.lookupType("net/http", "Request"), "req"), kNil}}, true
			case name == "(net/http.Header).Set" || name == "(net/http.Header).Add":
				*captured = append(*captured, keyOf(args[1])+"="+keyOf(args[2]))
				return nil, true
			case name == "(*"+pkgInternal+".Client).Do":
				return Tuple{[]Val{kNil, markerErr(in)}}, true
			case name == "(*"+pkgInternal+".Client).ResolveHref":
				return in.symPointee(p.lookupType("net/url", "URL"), "resolved("+keyOf(args[1])+")"), true
			case name == "(*net/url.URL).String":
				return SymStr{Key: "str(" + keyOf(args[0]) + ")"}, true
			case name == "(*net/http.Request).WithContext":
				return args[0], true
			case icPropFind != nil && name == fullFnName(icPropFind):
				*captured = append(*captured, "PROPFIND "+keyOf(args[2])+" depth="+keyOf(args[3]))
				return Tuple{[]Val{kNil, markerErr(in)}}, true
			}
			return nil, false
		}
	}
	for _, m := range []string{"Copy", "Move", "ReadDir"} {
		fn := p.MustFunc(opt, pkgWebdav, "(*Client)."+m)
		if fn == nil {
			continue
		}
		var captured []string
		method := m
		spec := DTXSpec{Name: "Client." + m, Entry: fn,
			Sym: SymSpec{NonNil: func(k string) bool { return k != "options" }},
			Setup: func(in *Interp) {
				captured = nil
				in.OpenExternal = func(n *types.Named) bool { return n.Obj().Pkg().Path() == "net/http" && n.Obj().Name() == "Request" }
				in.Models = append(in.Models, clientModels(&captured))
			},
			Args: func(in *Interp) []Val {
				var args []Val
				nstr := 0
				for i, prm := range fn.Params {
					switch {
					case i == 0:
						args = append(args, in.symOf(prm.Type(), "c"))
					case isOptionsPtr(prm.Type()):
						args = append(args, in.symOf(prm.Type(), "options"))
					case types.Identical(prm.Type().Underlying(), types.Typ[types.Bool]):
						args = append(args, LazyBool{"recursive"})
					case types.Identical(prm.Type().Underlying(), types.Typ[types.String]):
						// by position (the public API is positional): the
						// first string is the resource, the second the
						// destination
						nstr++
						args = append(args, SymStr{Key: []string{"", "name", "dest", "str3"}[nstr]})
					default:
						args = append(args, Opaque{prm.Name(), prm.Type()})
					}
				}
				return args
			},
			Observe: func(in *Interp, res Val, pan *panicOutcome) string {
				if pan != nil {
					return "panic"
				}
				return strings.Join(captured, "; ")
			},
			Oracle: func(env *OracleEnv) ([]string, bool) {
				switch method {
				case "ReadDir":
					d := "1"
					if env.Bool("recursive") {
						d = "-1"
					}
					return []string{"PROPFIND name depth=" + d}, true
				case "Copy":
					noOW, noRec := false, false
					if env.Bool("options!=nil") {
						noOW, noRec = env.Bool("options.NoOverwrite"), env.Bool("options.NoRecursive")
					}
					ow := map[bool]string{true: "F", false: "T"}[noOW]
					d := map[bool]string{true: "0", false: "infinity"}[noRec]
					h := []string{"\"Depth\"=\"" + d + "\"", "\"Destination\"=str(&resolved(dest))", "\"Overwrite\"=\"" + ow + "\""}
					return []string{"request \"COPY\" name; " + sortedJoin(h)}, true
				default:
					noOW := false
					if env.Bool("options!=nil") {
						noOW = env.Bool("options.NoOverwrite")
					}
					ow := map[bool]string{true: "F", false: "T"}[noOW]
					h := []string{"\"Destination\"=str(&resolved(dest))", "\"Overwrite\"=\"" + ow + "\""}
					return []string{"request \"MOVE\" name; " + sortedJoin(h)}, true
				}
			}}
		// header order is irrelevant
		baseObs := spec.Observe
		spec.Observe = func(in *Interp, res Val, pan *panicOutcome) string {
			s := baseObs(in, res, pan)
			parts := strings.Split(s, "; ")
			if len(parts) > 1 {
				return parts[0] + "; " + sortedJoin(parts[1:])
			}
			return s
		}
		res := runDTX(c, spec)
		reportDTX(c, opt, spec, res, "Client."+m)
		opt.Role("decision-table")
	}
	opt.RequireRole("decision-table")

	// the wire codecs of names, tags and dates are inverse pairs (shared with C16.pairs)
	c16Pairs(c, pr, "C05", func(what string) bool {
		return strings.HasPrefix(what, "entity tag") || what == "HTTP date" || what == "href" || what == "status line"
	})
	// modification times are written as UTC (shared with C16.utc): a literal
	// "GMT"/"Z" layout applied to an instant in another zone shifts it
	utcRule(c, pr, "C05")

	// the server half of the same chain: header -> backend arguments ->
	// FileSystem options (the tables of C01, repeated here so that the end to
	// end claim 'exactly the requested options' is decided by this check)
	c01Dispatch(c, pr, "C05")
	// the server's listing: the collection and its members, each once,
	// whatever order the file system lists them in (shared with C11.scope)
	{
		sl := NewRule("C05", "C05.server-listing", "backend.PropFind emits one response per entry the file system lists (the collection itself included by the file system), for every Depth (E2)")
		sl.Exhaustive = true
		pr.Rules = append(pr.Rules, sl)
		c11WebdavScope(c, sl)
	}
	tempPatternRule(c, pr, "C05")
	c01Adapter(c, pr, "C05")
}

// c05Kind: on the client FileInfo.IsDir is decided by the resourcetype the
// server sent: every store to it (outside the server-side producer) is either
// the result of (*ResourceType).Is(CollectionName) or the constant true/false
// on the matching edge of a branch on that call, and the ResourceType tested
// was filled by (*Response).DecodeProp.
func c05Kind(c *Ctx, r *RuleResult, fiT *types.Named) {
	p := c.P
	isFn := p.MustFunc(r, pkgInternal, "(*ResourceType).Is")
	if isFn == nil || fiT == nil {
		return
	}
	isCollectionTest := func(v ssa.Value) (*ssa.Call, bool) {
		call, ok := v.(*ssa.Call)
		if !ok || call.Common().StaticCallee() != isFn {
			return nil, false
		}
		ld, ok := call.Common().Args[1].(*ssa.UnOp)
		if !ok {
			return nil, false
		}
		g, ok := ld.X.(*ssa.Global)
		if !ok || g.Name() != "CollectionName" {
			return nil, false
		}
		// the receiver was handed to DecodeProp
		recv := call.Common().Args[0]
		decoded := false
		// forward slice within the function: interface boxing, the varargs
		// array, slicing
		seen := map[ssa.Value]bool{}
		work := []ssa.Value{recv}
		for len(work) > 0 && !decoded {
			v := work[len(work)-1]
			work = work[:len(work)-1]
			if seen[v] || v.Referrers() == nil {
				continue
			}
			seen[v] = true
			for _, u := range *v.Referrers() {
				switch u := u.(type) {
				case ssa.CallInstruction:
					if strings.HasSuffix(calleeName(u.Common()), ".Response).DecodeProp") {
						decoded = true
					}
				case *ssa.MakeInterface:
					work = append(work, u)
				case *ssa.Slice:
					work = append(work, u)
				case *ssa.Store:
					if u.Val == v {
						if ia, ok := u.Addr.(*ssa.IndexAddr); ok {
							work = append(work, ia.X)
						}
					}
				}
			}
		}
		return call, decoded
	}
	serverProducer := p.Func(pkgWebdav, "fileInfoFromOS")
	for _, fn := range p.ModFns {
		if !inLib(fn) || p.isControlFn(fn) || fnPkg(fn) == nil || fnPkg(fn).Path() != pkgWebdav || fn == serverProducer {
			continue
		}
		eachInstr(fn, func(b *ssa.BasicBlock, in ssa.Instruction) {
			st, ok := in.(*ssa.Store)
			if !ok {
				return
			}
			fa, ok := st.Addr.(*ssa.FieldAddr)
			if !ok || namedOf(fa.X.Type()) != fiT || fieldName(fa.X.Type(), fa.Field) != "IsDir" {
				return
			}
			r.Role("kind-store")
			good := false
			if _, dec := isCollectionTest(st.Val); dec {
				good = true
			} else if k, ok := st.Val.(*ssa.Const); ok && k.Value != nil {
				want := k.Value.String() == "true"
				for _, blk := range fn.Blocks {
					cond := ifCond(blk)
					if cond == nil {
						continue
					}
					if _, dec := isCollectionTest(cond); !dec {
						continue
					}
					si := 1
					if want {
						si = 0
					}
					if edgeDominates(blk, si, b) {
						good = true
					}
				}
			}
			r.Ob(good)
			r.Sample(map[string]interface{}{"store": p.instrPos(st), "function": fnKey(fn), "decided_by_resourcetype": good})
			if !good {
				r.Violation("kind|"+fnKey(fn), p.instrPos(st), fnKey(fn)+" assigns FileInfo.IsDir, but not as the outcome of ResourceType.Is(CollectionName) on the resourcetype decoded from the response: the client reports a kind the server did not send", nil)
			}
		})
	}
}

func isOptionsPtr(t types.Type) bool {
	pt, ok := t.Underlying().(*types.Pointer)
	if !ok {
		return false
	}
	n := namedOf(pt.Elem())
	return n != nil && strings.HasSuffix(n.Obj().Name(), "Options")
}

// definitelyNonEmpty: the string value cannot be empty — a Sprintf whose
// constant format contains a verb applied to numbers or a literal character,
// an integer formatter, a quoting function, a non-empty constant, or a
// concatenation with one such part.
func definitelyNonEmpty(v ssa.Value, depth int) bool {
	if depth > 4 {
		return false
	}
	switch x := v.(type) {
	case *ssa.Const:
		s, ok := constString(x)
		return ok && s != ""
	case *ssa.Convert:
		return definitelyNonEmpty(x.X, depth+1)
	case *ssa.ChangeType:
		return definitelyNonEmpty(x.X, depth+1)
	case *ssa.BinOp:
		return x.Op == token.ADD && (definitelyNonEmpty(x.X, depth+1) || definitelyNonEmpty(x.Y, depth+1))
	case *ssa.Call:
		switch calleeName(x.Common()) {
		case "fmt.Sprintf":
			f, ok := constString(x.Common().Args[0])
			if !ok {
				return false
			}
			// a numeric verb applied to a number always prints at least one
			// digit; %q always prints the quotes
			var va []ssa.Value
			if len(x.Common().Args) > 1 {
				va = variadicElems(x.Common().Args[1])
			}
			ai := 0
			for i := 0; i+1 < len(f); i++ {
				if f[i] != '%' {
					continue
				}
				i++
				for i < len(f) && strings.ContainsRune("+-# 0123456789.", rune(f[i])) {
					i++
				}
				if i >= len(f) || f[i] == '%' {
					continue
				}
				var at types.Type
				if ai < len(va) && va[ai] != nil {
					at = va[ai].Type()
				}
				ai++
				if f[i] == 'q' {
					return true
				}
				if b, ok := underlyingBasic(at); ok && b.Info()&types.IsNumeric != 0 && strings.ContainsRune("xXdobv", rune(f[i])) {
					return true
				}
			}
			// literal text besides the verbs
			lit := f
			for _, verb := range []string{"%s", "%v", "%x", "%d", "%X", "%o", "%b"} {
				lit = strings.ReplaceAll(lit, verb, "")
			}
			return lit != "" && !strings.Contains(lit, "%")
		case "strconv.FormatInt", "strconv.FormatUint", "strconv.Itoa", "strconv.Quote", "strconv.QuoteToASCII",
			"strconv.AppendInt", "strconv.AppendUint", "strconv.AppendQuote", "strconv.AppendQuoteToASCII", "strconv.AppendBool":
			// at least one digit / the quotes are written (Append*: appended)
			return true
		}
	}
	return false
}

// variadicElems: the values stored into the slice literal the compiler builds
// for a variadic call, by index (interface conversions taken off).
func variadicElems(v ssa.Value) []ssa.Value {
	sl, ok := v.(*ssa.Slice)
	if !ok {
		return nil
	}
	al, ok := sl.X.(*ssa.Alloc)
	if !ok {
		return nil
	}
	var out []ssa.Value
	for _, ref := range refsOf(al) {
		ia, ok := ref.(*ssa.IndexAddr)
		if !ok {
			continue
		}
		idx, isConst := constInt(ia.Index)
		if !isConst {
			continue
		}
		for _, r2 := range refsOf(ia) {
			if st, ok := r2.(*ssa.Store); ok && st.Addr == ssa.Value(ia) {
				val := st.Val
				if mi, ok := val.(*ssa.MakeInterface); ok {
					val = mi.X
				}
				for int64(len(out)) <= idx {
					out = append(out, nil)
				}
				out[idx] = val
			}
		}
	}
	return out
}

func underlyingBasic(t types.Type) (*types.Basic, bool) {
	if t == nil {
		return nil, false
	}
	b, ok := t.Underlying().(*types.Basic)
	return b, ok
}

func sortedJoin(xs []string) string {
	ys := append([]string{}, xs...)
	sort.Strings(ys)
	return strings.Join(ys, "; ")
}

// ---------------------------------------------------------------------------
// C04

func runC04(c *Ctx, pr *PropertyRun) {
	p := c.P
	pr.Explanation = "Decided: (1) the precondition truth table (E2), extracted from checkConditionalMatches and from the public ConditionalMatch.MatchETag: resource state {absent, present with a non-empty tag}, each header {unset, *, a quoted string equal to the current tag, a quoted string different from it, not a quoted string}: the operation is allowed iff (If-Match unset or (present and (* or equal))) and (If-None-Match unset or absent or (different and not *)); otherwise 412; 400 for a tag that is not a quoted string when there is a resource to compare it with; when both headers fail differently either code is accepted; that the check comes before any destructive call is C02.precondition-first, re-checked here; " +
		"(2) headers to options (E1): in the WebDAV, CalDAV and CardDAV adapters the value of Header.Get(\"If-Match\") reaches the option field IfMatch and \"If-None-Match\" reaches IfNoneMatch, through conversions only, and the options reach the backend call; (3) one tag codec: FileInfo.ETag has a single producer, every ETag header and getetag property is written from it through ETag.String / the ETag type (shared with C16.pairs). NOT decided: equality of the tag strings actually produced for the same unmodified resource (needs the file's mtime at run time); arbitrary tag bytes through %q/Unquote (standard-library contract)."
	pr.Assumptions = append(pr.Assumptions, "a present resource has a non-empty entity tag — not taken on trust: decided by C04.one-codec (every store to FileInfo.ETag in its single producer is definitely non-empty)", "strconv.Unquote is modelled as: fails, or yields an opaque string")
	pr.Trusted = append(pr.Trusted, "golang.org/x/tools/go/ssa v0.29.0")

	tbl := NewRule("C04", "C04.table", "precondition truth table of checkConditionalMatches and ConditionalMatch.MatchETag (E2)")
	tbl.Exhaustive = true
	pr.Rules = append(pr.Rules, tbl)
	unquote := unquoteModel
	headerVerdict := func(env *OracleEnv, h string, present bool) string { // allowed | 412 | 400, for If-Match semantics "matches"
		// returns: "unset", "match", "nomatch", "malformed"
		if env.Eq(S(h), K("")) {
			return "unset"
		}
		if !present {
			return "nomatch"
		}
		if env.Eq(S(h), K("*")) {
			return "match"
		}
		if env.Bool("malformed(" + h + ")") {
			return "malformed"
		}
		if env.Eq(S("unquoted("+h+")"), S("fi.ETag")) {
			return "match"
		}
		return "nomatch"
	}
	if fn := p.MustFunc(tbl, pkgWebdav, "checkConditionalMatches"); fn != nil {
		spec := DTXSpec{Name: "checkConditionalMatches", Entry: fn,
			Sym:   SymSpec{},
			Setup: func(in *Interp) { in.Models = append(in.Models, unquote) },
			Args: func(in *Interp) []Val {
				return []Val{in.symOf(fn.Params[0].Type(), "fi"), SymStr{Key: "ifMatch"}, SymStr{Key: "ifNoneMatch"}}
			},
			Observe: func(in *Interp, res Val, pan *panicOutcome) string {
				if pan != nil {
					return "panic"
				}
				if isNilVal(res) {
					return "allowed"
				}
				if code, _, ok := httpErrOf(in, res); ok {
					return fmt.Sprint(code)
				}
				return "500"
			},
			Oracle: func(env *OracleEnv) ([]string, bool) {
				present := env.Bool("fi!=nil")
				if present && env.Eq(S("fi.ETag"), K("")) {
					return nil, false // a present resource has a non-empty tag
				}
				im := headerVerdict(env, "ifMatch", present)
				inm := headerVerdict(env, "ifNoneMatch", present)
				var fails []string
				switch im {
				case "nomatch":
					fails = append(fails, "412")
				case "malformed":
					fails = append(fails, "400")
				}
				switch inm {
				case "match":
					fails = append(fails, "412")
				case "malformed":
					fails = append(fails, "400")
				}
				if len(fails) == 0 {
					return []string{"allowed"}, true
				}
				return fails, true
			}}
		res := runDTX(c, spec)
		reportDTX(c, tbl, spec, res, "checkConditionalMatches")
		tbl.Role("decision-table")
		if res.Runs < 15 {
			tbl.Unresolved("the precondition table has fewer than 15 rows")
		}
	}
	matchETagTable(c, tbl, unquote)

	preconditionFirstRule(c, pr, "C04")

	// end to end: what reaches the client when the precondition fails is 412
	// (or 400 for a tag that is not a quoted string), whatever the adapter
	// between the file system and the HTTP layer makes of the error
	rc := NewRule("C04", "C04.refusal-codes", "with no failing operating-system call PUT and DELETE are refused only with 400, 404 (DELETE of a missing resource) or 412 — explored through the whole file server (E2)")
	rc.Exhaustive = true
	pr.Rules = append(pr.Rules, rc)
	codeDecidedRefusals(c, rc, exploreFileServer(c, rc), map[string]bool{"PUT": true, "DELETE": true})

	// ... and nothing has changed when it does: a PUT or DELETE refused with
	// 412/400 while every operating-system call succeeded leaves the tree as
	// it was (the net change per resource of the explored run is empty)
	ne := NewRule("C04", "C04.refusal-no-effect", "a PUT or DELETE answered 412 or 400 with no failing operating-system call has no net effect on the tree — explored through the whole file server (E2)")
	ne.Exhaustive = true
	pr.Rules = append(pr.Rules, ne)
	{
		seen := map[string]bool{}
		for _, run := range exploreFileServer(c, ne) {
			if (run.Method != "PUT" && run.Method != "DELETE") || (run.Status != "412" && run.Status != "400") {
				continue
			}
			changes, feasible, faults := run.netChange()
			if !feasible || faults > 0 {
				continue
			}
			ne.Role("refused-run")
			// the refusal is the precondition check's: nothing but
			// observations (stat) has been attempted when it is given — a 412
			// that comes out of a failing open or remove is the operating
			// system deciding a precondition the check had let through
			for _, o := range run.OS {
				switch o.Call {
				case "os.Stat", "os.Lstat", "Walk.lstat":
					continue
				}
				k := run.Method + "|" + run.Status + "|after " + o.Call + "=" + o.Outcome
				ne.Ob(false)
				if !seen[k] {
					seen[k] = true
					ne.Violation("refusal-after-attempt|"+k, o.Pos, fmt.Sprintf("%s is refused with %s after %s[%s] was attempted (%s) although nothing is wrong with the operating system: the precondition check had let the request through and the refusal comes from a later call — for some header values the request is refused although its preconditions hold. Trace: %s", run.Method, run.Status, o.Call, o.Role, o.Outcome, run.describe()), nil)
				}
				break
			}
			ne.Ob(len(changes) == 0)
			if len(changes) == 0 {
				continue
			}
			k := run.Method + "|" + run.Status + "|" + strings.Join(changes, ",")
			if seen[k] {
				continue
			}
			seen[k] = true
			ne.Violation("refused-but-changed|"+k, "-", fmt.Sprintf("%s is refused with %s although every operating-system call succeeded, and the tree has changed (%s): a failed precondition must leave everything as it was. Trace: %s", run.Method, run.Status, strings.Join(changes, ", "), run.describe()), nil)
		}
		ne.RequireRole("refused-run")
	}

	// the option fields arrive at the check in the right positions
	arg := NewRule("C04", "C04.check-args", "LocalFileSystem hands options.IfMatch to the check's If-Match parameter and options.IfNoneMatch to its If-None-Match parameter, unaltered, together with the Stat result of the resource (E1 PAIR)")
	pr.Rules = append(pr.Rules, arg)
	checkFn := p.Func(pkgWebdav, "checkConditionalMatches")
	for _, a := range [][2]string{{"(LocalFileSystem).Create", "CreateOptions"}, {"(LocalFileSystem).RemoveAll", "RemoveAllOptions"}} {
		entry := p.MustFunc(arg, pkgWebdav, a[0])
		ot := p.NamedType(pkgWebdav, a[1])
		if entry == nil || ot == nil {
			continue
		}
		res := RunFieldFlow(c, FFConfig{Entries: []*ssa.Function{entry}, IsSource: func(n *types.Named) bool { return n == ot }, CallSink: func(site ssa.CallInstruction) map[int]string {
			if f := site.Common().StaticCallee(); f != nil && f == checkFn {
				return map[int]string{1: "check:ifMatch", 2: "check:ifNoneMatch"}
			}
			return nil
		}})
		debugExplain(res)
		tl := typeLabel(ot)
		requireFlows(p, arg, res, a[0], []flowPair{
			{tl + ".IfMatch", "check:ifMatch", true, "the If-Match parameter of the check"},
			{tl + ".IfNoneMatch", "check:ifNoneMatch", true, "the If-None-Match parameter of the check"},
		})
		for _, sw := range [][2]string{{tl + ".IfMatch", "check:ifNoneMatch"}, {tl + ".IfNoneMatch", "check:ifMatch"}} {
			arg.Role("no-swap")
			_, bad := res.SinkLabels[sw[1]].has(sw[0])
			arg.Ob(!bad)
			if bad {
				arg.Violation("swapped|"+a[0]+"|"+sw[0], "-", fmt.Sprintf("%s: %s arrives at %s: the two preconditions are evaluated against each other's header", a[0], sw[0], sw[1]), nil)
			}
		}
	}
	arg.RequireRole("expected-flow", "no-swap")

	// headers -> options
	hdr := NewRule("C04", "C04.headers", "If-Match / If-None-Match header values reach the option fields of the same name unaltered, and the options reach the backend (E1 PAIR + UNALTERED)")
	pr.Rules = append(pr.Rules, hdr)
	type adapter struct{ pkg, optType, backendCall string }
	for _, a := range []adapter{{pkgWebdav, "CreateOptions", "Create"}, {pkgWebdav, "RemoveAllOptions", "RemoveAll"}, {pkgCaldav, "PutCalendarObjectOptions", "PutCalendarObject"}, {pkgCarddav, "PutAddressObjectOptions", "PutAddressObject"}} {
		entry := p.MustFunc(hdr, a.pkg, "(*Handler).ServeHTTP")
		ot := p.NamedType(a.pkg, a.optType)
		if entry == nil || ot == nil {
			hdr.Unresolved("option type " + a.optType + " not found")
			continue
		}
		res := RunFieldFlow(c, FFConfig{Entries: []*ssa.Function{entry}, IsSink: func(n *types.Named) bool { return n == ot }, CallSource: headerGetSource, CallSink: backendArgSinks(a.pkg)})
		debugExplain(res)
		tl := typeLabel(ot)
		requireFlows(p, hdr, res, tl, []flowPair{
			{"header:If-Match", tl + ".IfMatch", true, "the If-Match header value"},
			{"header:If-None-Match", tl + ".IfNoneMatch", true, "the If-None-Match header value"},
		})
		// and not swapped
		for _, sw := range [][2]string{{"header:If-Match", tl + ".IfNoneMatch"}, {"header:If-None-Match", tl + ".IfMatch"}} {
			hdr.Role("no-swap")
			_, bad := res.SinkLabels[sw[1]].has(sw[0])
			hdr.Ob(!bad)
			if bad {
				hdr.Violation("swapped|"+tl+"|"+sw[0], "-", fmt.Sprintf("%s flows into %s: the two conditional headers are swapped", sw[0], sw[1]), nil)
			}
		}
		// the option struct that was filled is the one handed to the backend
		for _, fn := range res.Scope {
			eachInstr(fn, func(_ *ssa.BasicBlock, in ssa.Instruction) {
				st, ok := in.(*ssa.Store)
				if !ok {
					return
				}
				fa, ok := st.Addr.(*ssa.FieldAddr)
				if !ok || namedOf(fa.X.Type()) != ot {
					return
				}
				f := fieldName(fa.X.Type(), fa.Field)
				if f != "IfMatch" && f != "IfNoneMatch" {
					return
				}
				hdr.Role("options-reach-backend")
				reaches := false
				eachCall(fn, func(site ssa.CallInstruction) {
					cc := site.Common()
					if !cc.IsInvoke() || cc.Method.Name() != a.backendCall {
						return
					}
					for _, arg := range cc.Args {
						if arg == fa.X {
							reaches = true
						}
					}
				})
				hdr.Ob(reaches)
				if !reaches {
					hdr.Violation("options-dropped|"+tl+"|"+f, p.instrPos(st), fmt.Sprintf("%s fills %s.%s but does not hand that options value to the backend's %s: the precondition is never evaluated", fnKey(fn), tl, f, a.backendCall), nil)
				}
			})
		}
	}
	hdr.RequireRole("expected-flow", "no-swap", "options-reach-backend")

	// one producer of FileInfo.ETag on the server side
	one := NewRule("C04", "C04.one-codec", "FileInfo.ETag has a single producer on the server side (fileInfoFromOS); headers and properties are written from it (E4 WHO-MAY-ACCESS; the quoting pair is C16.pairs)")
	pr.Rules = append(pr.Rules, one)
	fiT := p.NamedType(pkgWebdav, "FileInfo")
	prod := p.MustFunc(one, pkgWebdav, "fileInfoFromOS")
	// the server side: everything reachable from the handler and from the
	// file system's methods (what the client builds from a response is not a
	// producer of tags)
	var serverRoots []*ssa.Function
	if h := p.Func(pkgWebdav, "(*Handler).ServeHTTP"); h != nil {
		serverRoots = append(serverRoots, h)
	}
	lfsT := p.NamedType(pkgWebdav, "LocalFileSystem")
	for _, fn := range p.ModFns {
		if lfsT != nil && recvNamed(fn) == lfsT {
			serverRoots = append(serverRoots, fn)
		}
	}
	serverSide := c.CG().Reach(serverRoots, moduleOnly(p))
	for _, fn := range p.ModFns {
		if !inLib(fn) || p.isControlFn(fn) {
			continue
		}
		eachInstr(fn, func(_ *ssa.BasicBlock, in ssa.Instruction) {
			st, ok := in.(*ssa.Store)
			if !ok {
				return
			}
			fa, ok := st.Addr.(*ssa.FieldAddr)
			if !ok || namedOf(fa.X.Type()) != fiT || fieldName(fa.X.Type(), fa.Field) != "ETag" {
				return
			}
			one.Role("etag-store")
			_, onServer := serverSide[fn]
			ok = fn == prod || !onServer
			one.Ob(ok)
			if !ok {
				one.Violation("second-producer|"+fnKey(fn), p.instrPos(st), fnKey(fn)+" assigns FileInfo.ETag: with two producers PUT, GET, HEAD and PROPFIND can announce different tags for the same unmodified resource", nil)
			}
		})
	}
	// the single producer fills the tag unconditionally with a non-empty
	// text: the conditional logic reads an empty tag as "no such resource"
	if prod != nil {
		one.Role("etag-always-filled")
		filled := false
		blanked := ""
		eachInstr(prod, func(b *ssa.BasicBlock, in ssa.Instruction) {
			st, ok := in.(*ssa.Store)
			if !ok {
				return
			}
			fa, ok := st.Addr.(*ssa.FieldAddr)
			if !ok || namedOf(fa.X.Type()) != fiT || fieldName(fa.X.Type(), fa.Field) != "ETag" {
				return
			}
			// unconditional: the store's block dominates every return
			dom := true
			for _, rb := range prod.Blocks {
				if len(rb.Instrs) > 0 {
					if _, isRet := rb.Instrs[len(rb.Instrs)-1].(*ssa.Return); isRet && !b.Dominates(rb) {
						dom = false
					}
				}
			}
			nonEmpty := definitelyNonEmpty(st.Val, 0)
			if dom && nonEmpty {
				filled = true
			}
			if !nonEmpty {
				// a later (conditional) store can blank the tag again
				blanked = p.instrPos(st)
			}
		})
		if blanked != "" {
			filled = false
		}
		one.Ob(filled)
		if !filled {
			one.Violation("etag-may-be-empty|"+fnKey(prod), p.Pos(prod.Pos()), fnKey(prod)+" does not give every resource a non-empty entity tag on every path: checkConditionalMatches and MatchETag read an empty tag as 'no such resource', so If-Match/If-None-Match on such a resource are evaluated as if it were absent", nil)
		}
	}

	// every ETag header is written through the one quoting function
	etagString := p.MustFunc(one, pkgInternal, "(ETag).String")
	for _, fn := range p.ModFns {
		if !inLib(fn) || p.isControlFn(fn) {
			continue
		}
		eachCall(fn, func(site ssa.CallInstruction) {
			cc := site.Common()
			name := calleeName(cc)
			if (name != "(net/http.Header).Set" && name != "(net/http.Header).Add") || len(cc.Args) != 3 {
				return
			}
			if k, ok := constString(cc.Args[1]); !ok || k != "ETag" {
				return
			}
			one.Role("etag-header")
			call, ok := cc.Args[2].(*ssa.Call)
			ok = ok && etagString != nil && call.Common().StaticCallee() == etagString
			one.Ob(ok)
			if !ok {
				one.Violation("raw-etag-header|"+fnKey(fn), p.instrPos(site), fnKey(fn)+" writes an ETag header that is not produced by internal.ETag.String: the tag announced here is not the quoted form the other announcements (and the conditional-header parser) use", nil)
			}
		})
	}
	one.RequireRole("etag-store", "etag-header", "etag-always-filled")

	// the quoting pair itself (shared with C16.pairs)
	c16Pairs(c, pr, "C04", func(what string) bool { return strings.HasPrefix(what, "entity tag") })
}

// matchETagTable: the public ConditionalMatch.MatchETag over {*, a quoted
// string equal to / different from the tag, not a quoted string} x {resource
// present, absent} (shared by C04.table and C16.conditional-match).
func matchETagTable(c *Ctx, r *RuleResult, unquote ModelFn) {
	p := c.P
	if fn := p.MustFunc(r, pkgWebdav, "(ConditionalMatch).MatchETag"); fn != nil {
		spec := DTXSpec{Name: "ConditionalMatch.MatchETag", Entry: fn,
			Setup: func(in *Interp) { in.Models = append(in.Models, unquote) },
			Args:  func(in *Interp) []Val { return []Val{SymStr{Key: "val"}, SymStr{Key: "etag"}} },
			Observe: func(in *Interp, res Val, pan *panicOutcome) string {
				if pan != nil {
					return "panic"
				}
				t := res.(Tuple)
				if !isNilVal(t.E[1]) {
					return "error"
				}
				return describeVal(in, t.E[0])
			},
			Oracle: func(env *OracleEnv) ([]string, bool) {
				// "true exactly for * or an equal tag against an existing resource"
				if env.Eq(S("etag"), K("")) {
					return []string{"false"}, true
				}
				if env.Eq(S("val"), K("*")) {
					return []string{"true"}, true
				}
				if env.Bool("malformed(val)") {
					return []string{"error"}, true
				}
				if env.Eq(S("unquoted(val)"), S("etag")) {
					return []string{"true"}, true
				}
				return []string{"false"}, true
			}}
		res := runDTX(c, spec)
		reportDTX(c, r, spec, res, "MatchETag")
		r.Role("decision-table")
	}

}

// unquoteModel: strconv.Unquote fails, or yields an opaque string.
func unquoteModel(in *Interp, site ssa.CallInstruction, name string, args []Val) (Val, bool) {
	if name == "strconv.Unquote" {
		k := keyOf(args[0])
		if in.truth(LazyBool{"malformed(" + k + ")"}) {
			return Tuple{[]Val{kStr(""), in.mkErr(&ErrObj{Kind: "ext", Msg: kStr("invalid syntax"), Key: "unquote-error"})}}, true
		}
		return Tuple{[]Val{SymStr{Key: "unquoted(" + k + ")"}, kNil}}, true
	}
	return nil, false
}

// streamedLengthRule: when the file server streams a body itself (what Open
// returned cannot seek, so http.ServeContent is not used), it has announced
// the length first. Without Content-Length the response is chunked, a read
// error half-way ends it like a complete one, and the client's Open returns a
// shortened body with a clean EOF: not "exactly the backend's bytes".
func streamedLengthRule(c *Ctx, pr *PropertyRun, prop string) {
	p := c.P
	r := NewRule(prop, prop+".streamed-length", "every io.Copy of a stored body to the ResponseWriter is dominated by Header().Set(\"Content-Length\", …) (E4)")
	pr.Rules = append(pr.Rules, r)
	for _, fn := range p.ModFns {
		if !inLib(fn) || len(fn.Blocks) == 0 || fnPkg(fn).Path() != pkgWebdav {
			continue
		}
		var sets []ssa.CallInstruction
		isLenSet := func(cc *ssa.CallCommon) bool {
			if n := calleeName(cc); (n == "(net/http.Header).Set" || n == "(net/http.Header).Add") && len(cc.Args) == 3 {
				if k, ok := constString(cc.Args[1]); ok && strings.EqualFold(k, "Content-Length") {
					return true
				}
			}
			return false
		}
		// a helper of the module that sets the length on every path through it
		setsAlways := func(g *ssa.Function) bool {
			if g == nil || !inLib(g) || len(g.Blocks) == 0 {
				return false
			}
			found := false
			eachCall(g, func(s2 ssa.CallInstruction) {
				if !isLenSet(s2.Common()) {
					return
				}
				all := true
				for _, b := range g.Blocks {
					if _, isRet := b.Instrs[len(b.Instrs)-1].(*ssa.Return); isRet && b != g.Recover && !s2.Block().Dominates(b) {
						all = false
					}
				}
				if all {
					found = true
				}
			})
			return found
		}
		eachCall(fn, func(site ssa.CallInstruction) {
			if isLenSet(site.Common()) || setsAlways(site.Common().StaticCallee()) {
				sets = append(sets, site)
			}
		})
		eachCall(fn, func(site ssa.CallInstruction) {
			cc := site.Common()
			if n := calleeName(cc); n != "io.Copy" && n != "io.CopyBuffer" && n != "io.CopyN" {
				return
			}
			// destination: the ResponseWriter parameter
			dst := cc.Args[0]
			if ci, ok := dst.(*ssa.ChangeInterface); ok {
				dst = ci.X
			}
			if mi, ok := dst.(*ssa.MakeInterface); ok {
				dst = mi.X
			}
			prm, ok := dst.(*ssa.Parameter)
			if !ok || !isNamedType(prm.Type(), "net/http", "ResponseWriter") {
				return
			}
			r.Role("streamed-body")
			ok = false
			for _, st := range sets {
				if st.Block() == site.Block() {
					ok = ok || instrIndex(st) < instrIndex(site)
				} else if st.Block().Dominates(site.Block()) {
					ok = true
				}
			}
			r.Ob(ok)
			if !ok {
				r.Violation("no-length|"+fnKey(fn), p.instrPos(site), fmt.Sprintf("%s streams a stored body to the client with no Content-Length set on every path before it: the response is chunked, and a read error in the middle ends it exactly like a complete body — the client reads fewer bytes than the backend stores, without an error", fnKey(fn)), nil)
			}
		})
	}
	r.RequireRole("streamed-body")
}

func isNamedType(t types.Type, pkg, name string) bool {
	n := namedOf(t)
	return n != nil && n.Obj().Pkg() != nil && n.Obj().Pkg().Path() == pkg && n.Obj().Name() == name
}
