package main

// Package-level tables (E2). A module variable that is initialised once in
// the package initialiser and never written afterwards (a lookup table of
// codes, sentinel errors, functions) is evaluated by interpreting the slice
// of the initialiser that builds it. Anything else stays an opaque symbol.

import (
	"go/types"
	"sync"

	"golang.org/x/tools/go/ssa"
)

var globalUseIndex struct {
	once sync.Once
	uses map[*ssa.Global][]ssa.Instruction
}

func (p *Program) globalUses(g *ssa.Global) []ssa.Instruction {
	globalUseIndex.once.Do(func() {
		globalUseIndex.uses = map[*ssa.Global][]ssa.Instruction{}
		var ops [16]*ssa.Value
		var visit func(fn *ssa.Function)
		visit = func(fn *ssa.Function) {
			eachInstr(fn, func(_ *ssa.BasicBlock, ins ssa.Instruction) {
				for _, op := range ins.Operands(ops[:0]) {
					if op == nil || *op == nil {
						continue
					}
					if gg, ok := (*op).(*ssa.Global); ok {
						globalUseIndex.uses[gg] = append(globalUseIndex.uses[gg], ins)
					}
				}
			})
			for _, an := range fn.AnonFuncs {
				visit(an)
			}
		}
		for _, fn := range p.ModFns {
			if fn.Parent() == nil {
				visit(fn)
			}
		}
	})
	return globalUseIndex.uses[g]
}

func storeRoot(v ssa.Value) ssa.Value {
	for i := 0; i < 16; i++ {
		switch x := v.(type) {
		case *ssa.FieldAddr:
			v = x.X
		case *ssa.IndexAddr:
			v = x.X
		case *ssa.Slice:
			v = x.X
		case *ssa.ChangeType:
			v = x.X
		default:
			return v
		}
	}
	return v
}

// writtenOnlyInInit: every store to the variable (or through it) is in the
// package initialiser, and its address is not handed out.
func (p *Program) writtenOnlyInInit(g *ssa.Global, initFn *ssa.Function) bool {
	for _, ins := range p.globalUses(g) {
		if ins.Parent() == initFn {
			continue
		}
		switch x := ins.(type) {
		case *ssa.UnOp:
			// a load: what is loaded must not be written through
			for _, ref := range refsOf(x) {
				switch y := ref.(type) {
				case *ssa.MapUpdate:
					if y.Map == ssa.Value(x) {
						return false
					}
				case *ssa.IndexAddr:
					for _, r2 := range refsOf(y) {
						if st, ok := r2.(*ssa.Store); ok && st.Addr == ssa.Value(y) {
							return false
						}
					}
				}
			}
		case *ssa.FieldAddr, *ssa.IndexAddr:
			v := ins.(ssa.Value)
			for _, ref := range refsOf(v) {
				if st, ok := ref.(*ssa.Store); ok && st.Addr == v {
					return false
				}
				if _, isCall := ref.(ssa.CallInstruction); isCall {
					return false
				}
			}
		default:
			return false // stored to, passed to a call, captured
		}
	}
	return true
}

// evalGlobalFromInit interprets the slice of the package initialiser that
// builds g. ok == false: not evaluated (the caller falls back to a symbol).
func (in *Interp) evalGlobalFromInit(g *ssa.Global) (val Val, ok bool) {
	if g.Pkg == nil {
		return nil, false
	}
	initFn := g.Pkg.Func("init")
	if initFn == nil || !in.c.P.InModule(initFn) || len(initFn.Blocks) == 0 {
		return nil, false
	}
	switch g.Type().(*types.Pointer).Elem().Underlying().(type) {
	case *types.Slice, *types.Map, *types.Array, *types.Struct, *types.Interface:
		// (an interface variable holding the one implementation the
		// initialiser gave it: calls through it are calls of that type)
	default:
		return nil, false
	}
	if !in.c.P.writtenOnlyInInit(g, initFn) {
		return nil, false
	}
	// the slice of the initialiser
	need := map[ssa.Instruction]bool{}
	var work []ssa.Instruction
	add := func(i ssa.Instruction) {
		if i != nil && !need[i] && i.Parent() == initFn {
			need[i] = true
			work = append(work, i)
		}
	}
	var writers = map[ssa.Value][]ssa.Instruction{} // root object -> stores through it
	eachInstr(initFn, func(_ *ssa.BasicBlock, ins ssa.Instruction) {
		switch x := ins.(type) {
		case *ssa.Store:
			r := storeRoot(x.Addr)
			writers[r] = append(writers[r], ins)
		case *ssa.MapUpdate:
			writers[x.Map] = append(writers[x.Map], ins)
		}
	})
	for _, w := range writers[ssa.Value(g)] {
		add(w)
	}
	if len(work) == 0 {
		return nil, false
	}
	var ops [16]*ssa.Value
	for len(work) > 0 {
		ins := work[len(work)-1]
		work = work[:len(work)-1]
		if _, isPhi := ins.(*ssa.Phi); isPhi {
			return nil, false
		}
		for _, op := range ins.Operands(ops[:0]) {
			if op == nil || *op == nil {
				continue
			}
			if oi, isInstr := (*op).(ssa.Instruction); isInstr {
				add(oi)
			}
			switch (*op).(type) {
			case *ssa.Alloc, *ssa.MakeMap, *ssa.MakeSlice:
				for _, w := range writers[*op] {
					add(w)
				}
			}
		}
		if v, isVal := ins.(ssa.Value); isVal {
			switch v.(type) {
			case *ssa.Alloc, *ssa.MakeMap, *ssa.MakeSlice:
				for _, w := range writers[v] {
					add(w)
				}
			}
		}
	}
	defer func() {
		if r := recover(); r != nil {
			if _, isU := r.(undecidedErr); isU {
				val, ok = nil, false
				return
			}
			if _, isP := r.(panicOutcome); isP {
				val, ok = nil, false
				return
			}
			panic(r)
		}
	}()
	// the variable's own cell during the evaluation
	elem := g.Type().(*types.Pointer).Elem()
	cell := &Cell{V: zeroOf(elem), T: elem, Name: in.globals[g].Name}
	saved := in.globals[g]
	in.globals[g] = cell
	defer func() { in.globals[g] = saved }()
	fr := &frame{fn: initFn, env: map[ssa.Value]Val{}}
	nTrace := len(in.Trace)
	for _, b := range initFn.Blocks {
		for _, ins := range b.Instrs {
			if need[ins] {
				in.exec(fr, ins)
			}
		}
	}
	in.Trace = in.Trace[:nTrace]
	return cell.Get(), true
}
