package main

// C07 — CardDAV filter evaluation, limit and projection (RFC 6352 §10.5).
//
// Decided by decision-table extraction (E2) from the exported Match and
// Filter, plus purity (E5). Not decided: the string predicates on real values,
// multi-valued properties, lists longer than the bound.

import (
	"fmt"
	"go/constant"
	"go/token"
	"go/types"
	"strings"

	"golang.org/x/tools/go/ssa"
)

func init() { register("C07", runC07) }

func runC07(c *Ctx, pr *PropertyRun) {
	p := c.P
	nf, nt, nl := 2, 2, 3
	if c.Thorough() {
		nf, nt, nl = 2, 3, 4
	}
	pr.Explanation = fmt.Sprintf("Decided by extracting decision tables from the SSA of the current source (abstract interpretation over finite predicate domains, no execution): (1) carddav.Match for every query with up to %d prop-filters of up to %d text-matches each: outer test and inner test over {anyof, \"\", allof, anything else}, match type over {equals, contains, starts-with, ends-with, \"\", anything else}, negate-condition, is-not-defined, property presence, and each string predicate as an independent truth value; every row is compared with a reference evaluator written from the statement, and the effect trace shows which predicate was asked with which operands; ", nf, nt) +
		fmt.Sprintf("(2) carddav.Filter for lists of up to %d objects, Limit from -1 to beyond the length, per-object match outcome {true,false,error}: the result is the first Limit matches in input order, each passed through the projection; a nil query returns the input; (3) filterProperties: whole object for all-properties or no selection, otherwise a fresh card holding VERSION plus the requested names that are present; (4) purity: Match/Filter and their callees write only to locally allocated memory (E5). ", nl) +
		"Domain side constraints: property names of the filters are pairwise distinct; a vCard is never empty. NOT decided: the predicates on real strings/collations, multi-valued properties (TODO in the code), lists longer than the bound."
	pr.Assumptions = append(pr.Assumptions, "vcard.Card.Get is modelled as presence atom + field with an opaque value", "string predicates are independent atoms (their mutual implications are not needed by the statement)")
	pr.Trusted = append(pr.Trusted, "golang.org/x/tools/go/ssa v0.29.0")

	limitProvenanceRule(c, pr)
	matchErrTrue := false
	match := NewRule("C07", "C07.match", "decision tables of carddav.Match and of its per-filter and per-text-match helpers equal the reference evaluator of RFC 6352 §10.5 as quoted in the statement; each match type asks the right predicate with (value, text) in the right order (E2, compositional)")
	match.Exhaustive = true
	pr.Rules = append(pr.Rules, match)
	if fn := p.MustFunc(match, pkgCarddav, "Match"); fn != nil {
		pfFn := calleeBySignature(c, fn, pkgCarddav, "PropFilter")
		tmFn := calleeBySignature(c, fn, pkgCarddav, "TextMatch")
		if pfFn != nil && tmFn != nil && pfFn != tmFn {
			// compositional: each layer against its own clause of the reference
			match.Bounds = "layered: Match over <= 3 prop-filters (each true/false/error); per filter: presence x is-not-defined x inner test x <= 3 text-matches (each true/false/error); per text-match: match type x negate x predicate"
			match.Note("layers: %s -> %s -> %s", fnKey(fn), fnKey(pfFn), fnKey(tmFn))
			// bottom-up: what a helper's own table shows it can return is the
			// domain of its atom in the layer above
			errTrue := false
			for li := 0; li < 3; li++ {
				var spec DTXSpec
				switch li {
				case 0:
					spec = c07LayerText(c, tmFn)
				case 1:
					spec = c07LayerProp(c, pfFn, tmFn, 3, errTrue)
				case 2:
					spec = c07LayerMatch(c, fn, pfFn, 3, errTrue)
				}
				spec = acceptErrTrue(spec)
				res := runDTX(c, spec)
				reportDTX(c, match, spec, res, spec.Name)
				errTrue = yieldsErrTrue(res)
				if li == 2 {
					matchErrTrue = errTrue
				}
				match.Role("decision-table")
				match.Count("rows_"+spec.Name, res.Runs)
				if res.Runs < 6 {
					match.Unresolved("decision table " + spec.Name + " has fewer than 6 rows")
				}
			}
			if c.Thorough() {
				spec := c07MatchSpec(c, fn, 2, 2)
				spec.MaxRuns = 3000000
				spec.MaxComps = 8000000
				res := runDTX(c, spec)
				reportDTX(c, match, spec, res, "match-monolithic")
			}
		} else {
			match.Bounds = "monolithic: prop-filters <= 2, text-matches <= 1, names distinct"
			match.Note("the per-filter / per-text-match helpers could not be identified by signature; exploring Match as a whole with smaller bounds")
			spec := c07MatchSpec(c, fn, 2, 1)
			res := runDTX(c, spec)
			reportDTX(c, match, spec, res, "match")
			match.Role("decision-table")
		}
	}

	filt := NewRule("C07", "C07.filter", "carddav.Filter returns the first Limit matches in input order, each projected; nil query returns the input; a match error aborts (E2)")
	filt.Exhaustive = true
	filt.Bounds = fmt.Sprintf("objects <= %d, Limit in [-1, %d]", nl, nl+1)
	pr.Rules = append(pr.Rules, filt)
	if fn := p.MustFunc(filt, pkgCarddav, "Filter"); fn != nil {
		spec := c07FilterSpec(c, fn, nl, matchErrTrue)
		res := runDTX(c, spec)
		reportDTX(c, filt, spec, res, "filter")
		filt.Role("decision-table")
		if res.Runs < 20 {
			filt.Unresolved("Filter's decision table has fewer than 20 rows")
		}
	}

	proj := NewRule("C07", "C07.project", "filterProperties keeps the whole object for all-properties or no selection, otherwise builds a fresh card with VERSION plus the requested names present in the input (E2)")
	proj.Exhaustive = true
	proj.Bounds = "requested names <= 2"
	pr.Rules = append(pr.Rules, proj)
	if fn := p.MustFunc(proj, pkgCarddav, "filterProperties"); fn != nil {
		spec := c07ProjectSpec(c, fn)
		res := runDTX(c, spec)
		reportDTX(c, proj, spec, res, "project")
		proj.Role("decision-table")
	}

	pure := NewRule("C07", "C07.pure", "Match, Filter and their in-module callees write only to locally allocated memory (E5)")
	pr.Rules = append(pr.Rules, pure)
	purityRule(c, pure, pkgCarddav, []string{"Match", "Filter"})
	if p.Control {
		pure.ExpectControl("zzVerifControlImpure")
	}
}

// purityRule: no write of the functions reachable from the roots (module
// only) is rooted in a parameter, free variable, global or loaded pointer.
func purityRule(c *Ctx, r *RuleResult, pkg string, roots []string) {
	p := c.P
	var entries []*ssa.Function
	for _, n := range roots {
		if fn := p.MustFunc(r, pkg, n); fn != nil {
			entries = append(entries, fn)
		}
	}
	entries = append(entries, controlFuncs(p, pkg, "zzVerifControlImpure")...)
	seen := c.CG().Reach(entries, moduleOnly(p))
	eff := c.Effects()
	n := 0
	for _, w := range eff.Writes {
		if _, ok := seen[w.Fn]; !ok || !p.InModule(w.Fn) {
			continue
		}
		// only functions of the package under test and their module callees
		n++
		k := rootKind(w.Root)
		r.Role("write-site")
		ok := k == "local" || k == "const"
		if k == "call-result" {
			// writing into the result of a call: fine if the callee returns
			// fresh memory (make/new/composite literal); module callees are
			// themselves checked, external constructors are trusted
			ok = true
		}
		// a write through a parameter of an unexported helper is fine when
		// every caller passes fresh memory; the public entry points must not
		if k == "param" {
			prm := w.Root.(*ssa.Parameter)
			isEntry := false
			for _, e := range entries {
				if e == w.Fn {
					isEntry = true
				}
			}
			if !isEntry {
				ok = allCallersPassFresh(c, w.Fn, prm, seen, 0)
			}
		}
		r.Ob(ok)
		if !ok {
			r.Violation("impure|"+fnKey(w.Fn)+"|"+k+strings.Join(w.Path, ""), p.instrPos(w.In), fmt.Sprintf("%s writes through %s%s (%s): the caller's query or objects are modified", fnKey(w.Fn), k, strings.Join(w.Path, ""), w.Kind), nil)
		}
	}
	r.Count("write_sites", n)
	r.RequireRole("write-site")
}

func allCallersPassFresh(c *Ctx, fn *ssa.Function, prm *ssa.Parameter, scope map[*ssa.Function]*CGEdge, depth int) bool {
	if depth > 4 {
		return false
	}
	idx := paramIndex(fn, prm)
	n := 0
	for _, e := range c.CG().In[fn] {
		if e.Site == nil || e.Kind == "reflect" || e.Kind == "closure" {
			continue
		}
		if _, ok := scope[e.Caller]; !ok {
			continue
		}
		cc := e.Site.Common()
		var all []ssa.Value
		if cc.IsInvoke() {
			all = append(all, cc.Value)
		}
		all = append(all, cc.Args...)
		if idx >= len(all) {
			continue
		}
		n++
		root, _ := valueRoot(all[idx])
		switch rootKind(root) {
		case "local", "call-result", "const":
		case "param":
			if !allCallersPassFresh(c, e.Caller, root.(*ssa.Parameter), scope, depth+1) {
				return false
			}
		default:
			return false
		}
	}
	return n > 0
}

// ---------------------------------------------------------------------------

func vcardModels(in *Interp, site ssa.CallInstruction, name string, args []Val) (Val, bool) {
	switch name {
	case "(" + pkgVcard + ".Card).Get":
		k := keyOf(args[0]) + "[" + keyOf(args[1]) + "]"
		in.effect("Card.Get", site.Pos(), args[1])
		if in.truth(LazyBool{"has(" + k + ")"}) {
			pt := site.Common().Signature().Results().At(0).Type().(*types.Pointer).Elem()
			return in.symPointee(pt, k), true
		}
		return kNil, true
	}
	return nil, false
}

// predicate effects: record which primitive was asked with which operands.
func predicateModels(in *Interp, site ssa.CallInstruction, name string, args []Val) (Val, bool) {
	switch name {
	case "strings.Contains", "strings.HasPrefix", "strings.HasSuffix":
		in.effect(name, site.Pos(), args[0], args[1])
	}
	return nil, false
}

func c07MatchSpec(c *Ctx, fn *ssa.Function, nf, nt int) DTXSpec {
	pf := func(i int) string { return fmt.Sprintf("query.PropFilters[%d]", i) }
	tm := func(i, j int) string { return fmt.Sprintf("%s.TextMatches[%d]", pf(i), j) }
	value := func(i int) string { return "ao.Card[" + pf(i) + ".Name].Value" }
	return DTXSpec{
		Name:  "carddav.Match",
		Entry: fn,
		Sym: SymSpec{
			MaxLen: func(key string, _ types.Type) int {
				if strings.HasSuffix(key, ".TextMatches") {
					return nt
				}
				if strings.HasSuffix(key, ".PropFilters") {
					return nf
				}
				return 1
			},
			NonNil: func(key string) bool { return key == "ao" },
		},
		Setup: func(in *Interp) {
			in.Models = append(in.Models, vcardModels, predicateModels)
			in.OpenExternal = func(n *types.Named) bool {
				return n.Obj().Pkg().Path() == pkgVcard && n.Obj().Name() == "Field"
			}
		},
		Args: func(in *Interp) []Val {
			return []Val{in.symOf(fn.Params[0].Type(), "query"), in.symOf(fn.Params[1].Type(), "ao")}
		},
		Observe: func(in *Interp, res Val, pan *panicOutcome) string {
			if pan != nil {
				return "panic"
			}
			t := res.(Tuple)
			if k, ok := t.E[1].(Konst); !ok || k.V != nil {
				return "error"
			}
			return describeVal(in, t.E[0])
		},
		Oracle: func(env *OracleEnv) ([]string, bool) {
			if !env.Bool("query!=nil") {
				return []string{"true"}, true
			}
			n := env.Len("query.PropFilters", nf)
			// domain: names pairwise distinct
			for i := 0; i < n; i++ {
				for j := 0; j < i; j++ {
					if env.Eq(S(pf(i)+".Name"), S(pf(j)+".Name")) {
						return nil, false
					}
				}
			}
			const (
				rFalse = iota
				rTrue
				rErr
			)
			testOf := func(term string) int { // 0 anyof, 1 allof, 2 unknown
				if env.Eq(term, K("anyof")) || env.Eq(term, K("")) {
					return 0
				}
				if env.Eq(term, K("allof")) {
					return 1
				}
				return 2
			}
			anyStrictErr := false
			text := func(i, j int) int {
				mt := S(tm(i, j) + ".MatchType")
				var ok bool
				v, t := value(i), tm(i, j)+".Text"
				switch {
				case env.Eq(mt, K("equals")):
					ok = env.Eq(S(t), S(v))
				case env.Eq(mt, K("contains")) || env.Eq(mt, K("")):
					ok = env.Pred("strings.Contains", v, t)
				case env.Eq(mt, K("starts-with")):
					ok = env.Pred("strings.HasPrefix", v, t)
				case env.Eq(mt, K("ends-with")):
					ok = env.Pred("strings.HasSuffix", v, t)
				default:
					anyStrictErr = true
					return rErr
				}
				if env.Bool(tm(i, j) + ".NegateCondition") {
					ok = !ok
				}
				if ok {
					return rTrue
				}
				return rFalse
			}
			combine := func(test int, n int, eval func(i int) int) int {
				switch test {
				case 0:
					for i := 0; i < n; i++ {
						switch eval(i) {
						case rErr:
							return rErr
						case rTrue:
							return rTrue
						}
					}
					return rFalse
				case 1:
					for i := 0; i < n; i++ {
						switch eval(i) {
						case rErr:
							return rErr
						case rFalse:
							return rFalse
						}
					}
					return rTrue
				}
				anyStrictErr = true
				return rErr
			}
			prop := func(i int) int {
				present := env.Bool("has(ao.Card[" + pf(i) + ".Name])")
				notDef := env.Bool(pf(i) + ".IsNotDefined")
				if !present {
					if notDef {
						return rTrue
					}
					return rFalse
				}
				if notDef {
					return rFalse
				}
				m := env.Len(pf(i)+".TextMatches", nt)
				if m == 0 {
					return rTrue
				}
				return combine(testOf(S(pf(i)+".Test")), m, func(j int) int { return text(i, j) })
			}
			res := combine(testOf(S("query.FilterTest")), n, prop)
			out := []string{map[int]string{rFalse: "false", rTrue: "true", rErr: "error"}[res]}
			if anyStrictErr && res != rErr {
				// an implementation may also validate eagerly
				out = append(out, "error")
			}
			return out, true
		},
	}
}

func c07FilterSpec(c *Ctx, fn *ssa.Function, nl int, errTrue bool) DTXSpec {
	p := c.P
	matchFn := p.Func(pkgCarddav, "Match")
	projFn := p.Func(pkgCarddav, "filterProperties")
	idxOf := func(v Val) string {
		// the object's identity: the key of its Path field
		switch x := v.(type) {
		case Struct:
			return keyOf(x.F[0].Get())
		case Ptr:
			if s, ok := x.C.Get().(Struct); ok {
				return keyOf(s.F[0].Get())
			}
		}
		return keyOf(v)
	}
	return DTXSpec{
		Name:  "carddav.Filter",
		Entry: fn,
		Sym: SymSpec{
			MaxLen: func(key string, _ types.Type) int {
				if key == "aos" {
					return nl
				}
				return 1
			},
			IntDomain: func(key string) []int64 {
				if key == "query.Limit" {
					var d []int64
					for i := -1; i <= nl+1; i++ {
						d = append(d, int64(i))
					}
					// "effectively unlimited": a limit no list can reach
					d = append(d, 1<<62)
					return d
				}
				return nil
			},
		},
		Setup: func(in *Interp) {
			in.Models = append(in.Models, func(in *Interp, site ssa.CallInstruction, name string, args []Val) (Val, bool) {
				if matchFn != nil && name == fullFnName(matchFn) {
					id := idxOf(args[1])
					in.effect("Match", site.Pos(), kStr(id))
					return helperValued(in, "match("+id+")", errTrue), true
				}
				if projFn != nil && name == fullFnName(projFn) {
					id := idxOf(args[1])
					in.effect("project", site.Pos(), kStr(id), args[0])
					// a request for whole cards hands the object on as it is
					// (decided for the projection itself by C07.project): the
					// caller may as well take that decision once for all objects
					if dr, ok := args[0].(Struct); ok {
						if ap, props := fieldVal(dr, "AllProp"), fieldVal(dr, "Props"); ap != nil && props != nil {
							if in.truth(ap) || len(in.sliceVal(props, site).E) == 0 {
								return copyVal(args[1]), true
							}
						}
					}
					return Opaque{"projected(" + id + ")", site.Common().Signature().Results().At(0).Type()}, true
				}
				return nil, false
			})
		},
		Args: func(in *Interp) []Val {
			return []Val{in.symOf(fn.Params[0].Type(), "query"), in.symOf(fn.Params[1].Type(), "aos")}
		},
		Observe: func(in *Interp, res Val, pan *panicOutcome) string {
			if pan != nil {
				return "panic"
			}
			t := res.(Tuple)
			if k, ok := t.E[1].(Konst); !ok || k.V != nil {
				return "error"
			}
			switch s := t.E[0].(type) {
			case LazySlice:
				return "input:" + s.Key
			case Slice:
				var ids []string
				for _, e := range s.E {
					ids = append(ids, wholeOrKey(e.Get()))
				}
				return "[" + strings.Join(ids, " ") + "]"
			case Konst:
				return "[]"
			}
			return keyOf(t.E[0])
		},
		Oracle: func(env *OracleEnv) ([]string, bool) {
			if !env.Bool("query!=nil") {
				return []string{"input:aos"}, true
			}
			n := env.Len("aos", nl)
			limit := env.Int("query.Limit")
			whole := false
			if env.Decided("query.DataRequest.AllProp") {
				whole = env.Bool("query.DataRequest.AllProp")
				if !whole && env.Decided("len(query.DataRequest.Props)") {
					whole = env.Len("query.DataRequest.Props", 1) == 0
				}
			}
			var out []string
			for i := 0; i < n; i++ {
				id := fmt.Sprintf("aos[%d].Path", i)
				switch helperOutcome(env, "match("+id+")") {
				case 2:
					return []string{"error"}, true
				case 1:
					if whole {
						out = append(out, "whole("+id+")")
					} else {
						out = append(out, "projected("+id+")")
					}
				}
				if limit > 0 && int64(len(out)) >= limit {
					break
				}
			}
			return []string{"[" + strings.Join(out, " ") + "]"}, true
		},
	}
}

// wholeOrKey renders an element of Filter's result: an object of the input
// handed on with every field as it was is "whole(<its path>)".
func wholeOrKey(v Val) string {
	s, ok := v.(Struct)
	if !ok || len(s.F) == 0 {
		return keyOf(v)
	}
	st, ok := s.T.Underlying().(*types.Struct)
	if !ok {
		return keyOf(v)
	}
	first := keyOf(s.F[0].Get())
	prefix := strings.TrimSuffix(first, "."+st.Field(0).Name())
	if prefix == first {
		return keyOf(v)
	}
	for i := range s.F {
		if keyOf(s.F[i].Get()) != prefix+"."+st.Field(i).Name() {
			return keyOf(v)
		}
	}
	return "whole(" + first + ")"
}

func c07ProjectSpec(c *Ctx, fn *ssa.Function) DTXSpec {
	return DTXSpec{
		Name:  "carddav.filterProperties",
		Entry: fn,
		Sym: SymSpec{
			MaxLen: func(key string, _ types.Type) int { return 2 },
			IntDomain: func(key string) []int64 {
				if key == "len(ao.Card)" {
					return []int64{0, 2, 3}
				}
				return nil
			},
		},
		Args: func(in *Interp) []Val {
			return []Val{in.symOf(fn.Params[0].Type(), "req"), in.symOf(fn.Params[1].Type(), "ao")}
		},
		Observe: func(in *Interp, res Val, pan *panicOutcome) string {
			if pan != nil {
				return "panic"
			}
			s, ok := res.(Struct)
			if !ok {
				return keyOf(res)
			}
			card := s.F[4].Get()
			switch m := card.(type) {
			case Opaque:
				return "whole:" + m.Key
			case MapV:
				var ks []string
				for i, k := range m.M.Keys {
					ks = append(ks, keyOf(k)+"<-"+keyOf(m.M.Vals[i].Get()))
				}
				return "fresh{" + strings.Join(ks, " ") + "} path=" + keyOf(s.F[0].Get()) + " etag=" + keyOf(s.F[3].Get())
			}
			return keyOf(card)
		},
		Oracle: func(env *OracleEnv) ([]string, bool) {
			n := env.Len("req.Props", 2)
			if env.Bool("req.AllProp") || n == 0 {
				return []string{"whole:ao.Card"}, true
			}
			if env.Int("len(ao.Card)") == 0 {
				// an empty vCard is outside the domain (a vCard has at least VERSION)
				return nil, false
			}
			// names distinct and different from VERSION keeps the expected rendering canonical
			for i := 0; i < n; i++ {
				if env.Eq(S(fmt.Sprintf("req.Props[%d]", i)), K("VERSION")) {
					return nil, false
				}
			}
			// a name may be requested twice: it is still one property (the
			// presence of one name is one fact, whichever occurrence asks)
			dup := map[int]bool{}
			for i := 0; i < n; i++ {
				for j := 0; j < i; j++ {
					if env.Eq(S(fmt.Sprintf("req.Props[%d]", i)), S(fmt.Sprintf("req.Props[%d]", j))) {
						dup[i] = true
						if env.Bool(fmt.Sprintf("has(ao.Card[req.Props[%d]])", i)) != env.Bool(fmt.Sprintf("has(ao.Card[req.Props[%d]])", j)) {
							return nil, false
						}
					}
				}
			}
			ks := []string{"\"VERSION\"<-ao.Card[\"VERSION\"]"}
			if !env.Bool("has(ao.Card[\"VERSION\"])") {
				ks = []string{"\"VERSION\"<-[]"}
			}
			alts := [][]string{ks}
			for i := 0; i < n; i++ {
				name := fmt.Sprintf("req.Props[%d]", i)
				if dup[i] {
					continue
				}
				if env.Bool("has(ao.Card[" + name + "])") {
					// the value may have been looked up through any
					// occurrence of the (same) name
					srcs := []string{name}
					for j := i + 1; j < n; j++ {
						if dup[j] && env.Eq(S(name), S(fmt.Sprintf("req.Props[%d]", j))) {
							srcs = append(srcs, fmt.Sprintf("req.Props[%d]", j))
						}
					}
					var next [][]string
					for _, a := range alts {
						for _, src := range srcs {
							next = append(next, append(append([]string{}, a...), name+"<-ao.Card["+src+"]"))
						}
					}
					alts = next
				}
			}
			var out []string
			for _, a := range alts {
				out = append(out, "fresh{"+strings.Join(a, " ")+"} path=ao.Path etag=ao.ETag")
			}
			return out, true
		},
	}
}

// calleeBySignature finds the in-module function statically reachable from
// root whose first parameter has the named type and which returns
// (bool, error): helpers are identified by what they take, not by name.
func calleeBySignature(c *Ctx, root *ssa.Function, pkg, firstParamType string) *ssa.Function {
	seen := map[*ssa.Function]bool{root: true}
	work := []*ssa.Function{root}
	var found *ssa.Function
	for len(work) > 0 {
		fn := work[0]
		work = work[1:]
		eachCall(fn, func(site ssa.CallInstruction) {
			f := site.Common().StaticCallee()
			if f == nil || !c.P.InModule(f) || seen[f] || len(f.Blocks) == 0 {
				return
			}
			seen[f] = true
			work = append(work, f)
			if len(f.Params) >= 1 && found == nil {
				n := namedOf(f.Params[0].Type())
				if n != nil && n.Obj().Pkg().Path() == pkg && n.Obj().Name() == firstParamType {
					if _, isPtr := f.Params[0].Type().(*types.Pointer); !isPtr {
						res := f.Signature.Results()
						if res.Len() == 2 && isErrorType(res.At(1).Type()) {
							found = f
						}
					}
				}
			}
		})
	}
	return found
}

const (
	c07False = iota
	c07True
	c07Err
)

var c07Names = []string{"false", "true", "error"}

func c07TestOf(env *OracleEnv, term string) int { // 0 anyof, 1 allof, 2 unknown
	if env.Eq(term, K("anyof")) || env.Eq(term, K("")) {
		return 0
	}
	if env.Eq(term, K("allof")) {
		return 1
	}
	return 2
}

// c07Combine: the sequential reference; strict reports whether an unknown
// test value or an erroring element exists anywhere (an implementation that
// validates eagerly may then answer "error").
func c07Combine(test int, n int, eval func(i int) int) (res int, strictErr bool) {
	for i := 0; i < n; i++ {
		if eval(i) == c07Err {
			strictErr = true
		}
	}
	switch test {
	case 0:
		for i := 0; i < n; i++ {
			switch eval(i) {
			case c07Err:
				return c07Err, true
			case c07True:
				return c07True, strictErr
			}
		}
		return c07False, strictErr
	case 1:
		for i := 0; i < n; i++ {
			switch eval(i) {
			case c07Err:
				return c07Err, true
			case c07False:
				return c07False, strictErr
			}
		}
		return c07True, strictErr
	}
	return c07Err, true
}

func c07Allowed(res int, strict bool) []string {
	out := []string{c07Names[res]}
	if strict && res != c07Err {
		out = append(out, "error")
	}
	return out
}

func boolErrObserve(in *Interp, res Val, pan *panicOutcome) string {
	if pan != nil {
		return "panic"
	}
	t := res.(Tuple)
	if k, ok := t.E[1].(Konst); !ok || k.V != nil {
		// an error that comes with `true`: callers that look at the result
		// first take it for a match — the layers above must be told
		if b, isK := t.E[0].(Konst); isK && b.V != nil && b.V.String() == "true" {
			return "error+true"
		}
		return "error"
	}
	return describeVal(in, t.E[0])
}

// helperOutcome reads a helper atom in an oracle: the optional fourth value
// (an error that comes with true) is an error.
func helperOutcome(env *OracleEnv, key string) int {
	v := env.ch.choose(key, 3, func(i int) string { return c07Names[i] })
	if v > 2 {
		return 2
	}
	return v
}

// acceptErrTrue: for the statement, an error is an error whatever the boolean.
func acceptErrTrue(spec DTXSpec) DTXSpec {
	if spec.Oracle != nil {
		base := spec.Oracle
		spec.Oracle = func(env *OracleEnv) ([]string, bool) {
			a, ok := base(env)
			for _, x := range a {
				if x == "error" {
					return append(append([]string{}, a...), "error+true"), ok
				}
			}
			return a, ok
		}
	}
	return spec
}

func yieldsErrTrue(res *DTXResult) bool {
	for _, l := range res.Leaves {
		if l.Outcome == "error+true" {
			return true
		}
	}
	return false
}

// threeValued models a helper as an atom with outcomes false/true/error.
func threeValued(in *Interp, key string) Val { return helperValued(in, key, false) }

// helperValued: when the helper's own table showed that it can return an
// error together with true, that outcome is part of the atom's domain.
func helperValued(in *Interp, key string, errTrue bool) Val {
	names := c07Names
	if errTrue {
		names = append(append([]string{}, c07Names...), "error+true")
	}
	switch in.chooseLabeled(key, names) {
	case 3:
		return Tuple{[]Val{kTrue, in.mkErr(&ErrObj{Kind: "ext", Msg: kStr("helper error")})}}
	case c07False:
		return Tuple{[]Val{kFalse, kNil}}
	case c07True:
		return Tuple{[]Val{kTrue, kNil}}
	}
	return Tuple{[]Val{kFalse, in.mkErr(&ErrObj{Kind: "ext", Msg: kStr("helper error")})}}
}

func c07LayerMatch(c *Ctx, fn, pfFn *ssa.Function, nf int, errTrue bool) DTXSpec {
	return DTXSpec{
		Name: "Match", Entry: fn,
		Sym: SymSpec{MaxLen: func(string, types.Type) int { return nf }, NonNil: func(k string) bool { return k == "ao" }},
		Setup: func(in *Interp) {
			in.Models = append(in.Models, func(in *Interp, site ssa.CallInstruction, name string, args []Val) (Val, bool) {
				if name == fullFnName(pfFn) {
					s := args[0].(Struct)
					id := keyOf(s.F[0].Get()) // the filter's Name symbol identifies it
					in.effect("propfilter", site.Pos(), kStr(id))
					return helperValued(in, "pf("+id+")", errTrue), true
				}
				return nil, false
			})
		},
		Args: func(in *Interp) []Val {
			return []Val{in.symOf(fn.Params[0].Type(), "query"), in.symOf(fn.Params[1].Type(), "ao")}
		},
		Observe: boolErrObserve,
		Oracle: func(env *OracleEnv) ([]string, bool) {
			if !env.Bool("query!=nil") {
				return []string{"true"}, true
			}
			n := env.Len("query.PropFilters", nf)
			res, strict := c07Combine(c07TestOf(env, S("query.FilterTest")), n, func(i int) int {
				return helperOutcome(env, fmt.Sprintf("pf(query.PropFilters[%d].Name)", i))
			})
			return c07Allowed(res, strict), true
		},
	}
}

func c07LayerProp(c *Ctx, pfFn, tmFn *ssa.Function, nt int, errTrue bool) DTXSpec {
	return DTXSpec{
		Name: "matchPropFilter", Entry: pfFn,
		Sym: SymSpec{MaxLen: func(string, types.Type) int { return nt }, NonNil: func(k string) bool { return k == "ao" }},
		Setup: func(in *Interp) {
			in.Models = append(in.Models, vcardModels, func(in *Interp, site ssa.CallInstruction, name string, args []Val) (Val, bool) {
				if name == fullFnName(tmFn) {
					s := args[0].(Struct)
					id := keyOf(s.F[0].Get()) // the Text symbol identifies the text-match
					in.effect("textmatch", site.Pos(), kStr(id), args[1])
					return helperValued(in, "tm("+id+")", errTrue), true
				}
				return nil, false
			})
			in.OpenExternal = func(n *types.Named) bool { return false }
		},
		Args: func(in *Interp) []Val {
			return []Val{in.symOf(pfFn.Params[0].Type(), "prop"), in.symOf(pfFn.Params[1].Type(), "ao")}
		},
		Observe: boolErrObserve,
		Check: func(env *OracleEnv, obs *Observation) (bool, string, bool) {
			present := env.Bool("has(ao.Card[prop.Name])")
			notDef := env.Bool("prop.IsNotDefined")
			var allowed []string
			switch {
			case !present:
				allowed = []string{c07Names[map[bool]int{true: c07True, false: c07False}[notDef]]}
			case notDef:
				allowed = []string{"false"}
			default:
				m := env.Len("prop.TextMatches", nt)
				if m == 0 {
					allowed = []string{"true"}
				} else {
					res, strict := c07Combine(c07TestOf(env, S("prop.Test")), m, func(j int) int {
						return helperOutcome(env, fmt.Sprintf("tm(prop.TextMatches[%d].Text)", j))
					})
					allowed = c07Allowed(res, strict)
				}
			}
			got := boolErrObserve(obs.In, obs.Ret, obs.Panic)
			ok := false
			for _, a := range allowed {
				if a == got || (a == "error" && got == "error+true") {
					ok = true
				}
			}
			if !ok {
				return false, strings.Join(allowed, " or "), true
			}
			// the looked-up property is the filter's own name, and each
			// text-match is evaluated against the field that was found
			for _, e := range obs.Trace {
				if e.Name == "Card.Get" && keyOf(e.Args[0]) != "prop.Name" {
					return false, "Card.Get(prop.Name)", true
				}
				if e.Name == "textmatch" && keyOf(e.Args[1]) != "&ao.Card[prop.Name]" {
					return false, "text-match evaluated on the field of prop.Name (got " + keyOf(e.Args[1]) + ")", true
				}
			}
			return true, "", true
		},
	}
}

func c07LayerText(c *Ctx, tmFn *ssa.Function) DTXSpec {
	return DTXSpec{
		Name: "matchTextMatch", Entry: tmFn,
		Sym: SymSpec{NonNil: func(k string) bool { return true }},
		Setup: func(in *Interp) {
			in.Models = append(in.Models, predicateModels)
			in.OpenExternal = func(n *types.Named) bool {
				return n.Obj().Pkg().Path() == pkgVcard && n.Obj().Name() == "Field"
			}
		},
		Args: func(in *Interp) []Val {
			return []Val{in.symOf(tmFn.Params[0].Type(), "txt"), in.symOf(tmFn.Params[1].Type(), "field")}
		},
		Observe: boolErrObserve,
		Oracle: func(env *OracleEnv) ([]string, bool) {
			mt := S("txt.MatchType")
			var ok bool
			switch {
			case env.Eq(mt, K("equals")):
				ok = env.Eq(S("txt.Text"), S("field.Value"))
			case env.Eq(mt, K("contains")) || env.Eq(mt, K("")):
				ok = env.Pred("strings.Contains", "field.Value", "txt.Text")
			case env.Eq(mt, K("starts-with")):
				ok = env.Pred("strings.HasPrefix", "field.Value", "txt.Text")
			case env.Eq(mt, K("ends-with")):
				ok = env.Pred("strings.HasSuffix", "field.Value", "txt.Text")
			default:
				return []string{"error"}, true
			}
			if env.Bool("txt.NegateCondition") {
				ok = !ok
			}
			return []string{map[bool]string{true: "true", false: "false"}[ok]}, true
		},
	}
}

// limitProvenanceRule: the number of results Filter stops at is made of the
// query's Limit and the length of the input only. The tables of C07.filter
// are extracted for short lists; a numeric constant on the way to that bound
// (a cap on what is reserved that is also used as the limit) is invisible to
// them and cuts long results short.
func limitProvenanceRule(c *Ctx, pr *PropertyRun) {
	p := c.P
	r := NewRule("C07", "C07.limit-provenance", "every integer compared in carddav.Filter that derives from query.Limit is made of Limit, lengths and the constant 0 only — no other numeric constant reaches the bound the loop stops at (E4 backward slice)")
	pr.Rules = append(pr.Rules, r)
	fn := p.MustFunc(r, pkgCarddav, "Filter")
	if fn == nil {
		return
	}
	isLimitLoad := func(v ssa.Value) bool {
		ld, ok := v.(*ssa.UnOp)
		if !ok || ld.Op != token.MUL {
			return false
		}
		fa, ok := ld.X.(*ssa.FieldAddr)
		if !ok {
			return false
		}
		st, ok := fa.X.Type().(*types.Pointer).Elem().Underlying().(*types.Struct)
		return ok && st.Field(fa.Field).Name() == "Limit"
	}
	type leafset struct {
		limit  bool
		consts []string
	}
	var slice func(v ssa.Value, ls *leafset, seen map[ssa.Value]bool, depth int)
	slice = func(v ssa.Value, ls *leafset, seen map[ssa.Value]bool, depth int) {
		if v == nil || seen[v] || depth > 8 {
			return
		}
		seen[v] = true
		switch x := v.(type) {
		case *ssa.Const:
			if x.Value != nil && x.Value.Kind() == constant.Int {
				if n, ok := constant.Int64Val(x.Value); ok && n != 0 {
					ls.consts = append(ls.consts, x.Value.String())
				}
			}
		case *ssa.Phi:
			for _, e := range x.Edges {
				slice(e, ls, seen, depth+1)
			}
		case *ssa.Convert:
			slice(x.X, ls, seen, depth+1)
		case *ssa.ChangeType:
			slice(x.X, ls, seen, depth+1)
		case *ssa.Call:
			if b, ok := x.Common().Value.(*ssa.Builtin); ok && (b.Name() == "min" || b.Name() == "max") {
				for _, a := range x.Common().Args {
					slice(a, ls, seen, depth+1)
				}
			}
		default:
			if isLimitLoad(v) {
				ls.limit = true
			}
		}
	}
	eachInstr(fn, func(_ *ssa.BasicBlock, in ssa.Instruction) {
		bo, ok := in.(*ssa.BinOp)
		if !ok {
			return
		}
		switch bo.Op {
		case token.LSS, token.LEQ, token.GTR, token.GEQ, token.EQL, token.NEQ:
		default:
			return
		}
		for _, side := range []ssa.Value{bo.X, bo.Y} {
			ls := &leafset{}
			slice(side, ls, map[ssa.Value]bool{}, 0)
			if !ls.limit {
				continue
			}
			r.Role("limit-comparison")
			ok := len(ls.consts) == 0
			r.Ob(ok)
			if !ok {
				r.Violation("limit-constant|"+fnKey(fn), p.instrPos(bo), fmt.Sprintf("%s compares a value that derives from query.Limit and also from the numeric constant(s) %s: the number of results the loop stops at is no longer min(Limit, number of matches) for inputs beyond that constant (the decision tables are extracted for short lists and cannot see it)", fnKey(fn), strings.Join(ls.consts, ", ")), nil)
			}
		}
	})
	r.RequireRole("limit-comparison")
}
