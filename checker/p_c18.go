package main

// C18 — handlers and clients are safe for concurrent use; uploads terminate.
//
// Decided: (1) the library has no mutable state shared between calls: outside
// package initialisers no write is rooted in a package-level variable or in
// the receiver of a Handler/Client/backend-adapter type, and no such root is
// passed to a parameter its callee writes through; (2) the upload protocol of
// Client.Create: one goroutine, one buffered channel, exactly one send on
// every path, Close returns what was received.
// Not decided: interleavings inside net/http and the OS; that Write unblocks
// when the server stops reading (transport contract).

import (
	"fmt"
	"go/token"
	"go/types"
	"strings"

	"golang.org/x/tools/go/ssa"
)

func init() { register("C18", runC18) }

func isSharedType(n *types.Named) bool {
	if n == nil || !inModuleType(n) {
		return false
	}
	switch n.Obj().Name() {
	case "Handler", "Client", "basicAuthHTTPClient", "LocalFileSystem":
		return true
	}
	return false
}

// sharedRoot: the root is a package-level variable or the receiver of a
// method of a shared type.
func sharedRoot(fn *ssa.Function, root ssa.Value) (string, bool) {
	switch r := root.(type) {
	case *ssa.Global:
		if r.Pkg != nil && strings.HasPrefix(r.Pkg.Pkg.Path(), modulePath) {
			return "package variable " + r.Pkg.Pkg.Name() + "." + r.Name(), true
		}
	case *ssa.Parameter:
		if fn.Signature.Recv() != nil && len(fn.Params) > 0 && fn.Params[0] == r {
			if n := recvNamed(fn); isSharedType(n) {
				return "receiver of " + fnKey(fn) + " (a " + typeLabel(n) + " is shared by all concurrent calls)", true
			}
		}
	}
	return "", false
}

func runC18(c *Ctx, pr *PropertyRun) {
	p := c.P
	pr.Explanation = "Decided (structural clauses): (1) no shared mutable library state — outside package initialisers no Store/MapUpdate (and no listed external writer) is rooted in a package-level variable or in the receiver of a Handler/Client type, no such root is handed to a parameter its callee writes through, and no Marshal* method writes through its receiver (the encoder is given shared request templates); " +
		"(2) the upload protocol of Client.Create — the library's only go statement, a channel of constant capacity >= 1, exactly one send on every path through the goroutine, no loop and no other blocking operation in it, and fileWriter.Close returns the received value on the path where closing the pipe succeeded. " +
		"With no shared mutable library state there is no data race on library state. NOT decided: scheduler interleavings inside net/http and the OS, and that Write unblocks when the peer stops reading (the HTTP transport's contract)."
	pr.Assumptions = append(pr.Assumptions, "external functions do not write through their arguments unless listed in checker/e5_effects.go (externalWriters)",
		"a fresh adapter object per request is local to that request (it is an Alloc in ServeHTTP, checked)")
	pr.Trusted = append(pr.Trusted, "golang.org/x/tools/go/ssa v0.29.0")

	r := NewRule("C18", "C18.no-shared-writes", "no write is rooted in a package variable or a Handler/Client receiver outside initialisers, directly or through a callee (E5)")
	pr.Rules = append(pr.Rules, r)
	eff := c.Effects()
	globals := 0
	for _, ip := range libPkgs {
		for _, m := range p.SSAPkg[ip].Members {
			if _, ok := m.(*ssa.Global); ok {
				globals++
			}
		}
	}
	r.Count("package_variables", globals)
	r.Count("write_sites_in_module", len(eff.Writes))
	kinds := map[string]int{}
	for _, w := range eff.Writes {
		if !inLib(w.Fn) {
			continue
		}
		k := rootKind(w.Root)
		kinds[k]++
		r.Role("write-site")
		isInit := w.Fn.Name() == "init" || strings.HasPrefix(w.Fn.Name(), "init#") || (w.Fn.Synthetic != "" && strings.Contains(w.Fn.Synthetic, "initializer"))
		what, shared := sharedRoot(w.Fn, w.Root)
		ok := !shared || (isInit && k == "global")
		r.Ob(ok)
		if k != "local" {
			r.Sample(map[string]interface{}{"function": fnKey(w.Fn), "root": k, "path": strings.Join(w.Path, ""), "kind": w.Kind, "pos": p.instrPos(w.In)})
		}
		if !ok {
			r.Violation("shared-write|"+fnKey(w.Fn)+"|"+what, p.instrPos(w.In), fmt.Sprintf("%s writes to %s%s: concurrent calls race on it and can observe each other's data", fnKey(w.Fn), what, strings.Join(w.Path, "")), nil)
		}
	}
	for k, n := range kinds {
		r.Count("root_"+k, n)
	}
	// an error value the library was handed (found with errors.As or a type
	// assertion) is not the library's to change: a backend may return one
	// shared value from every call, and rewriting its fields changes the
	// answer of every later (and concurrent) request
	for _, fn := range p.ModFns {
		if !inLib(fn) || len(fn.Blocks) == 0 {
			continue
		}
		eachInstr(fn, func(_ *ssa.BasicBlock, in ssa.Instruction) {
			st, ok := in.(*ssa.Store)
			if !ok {
				return
			}
			fa, ok := st.Addr.(*ssa.FieldAddr)
			if !ok {
				return
			}
			// the object: loaded from a local that errors.As filled, or the
			// result of a type assertion on an error
			foreign := ""
			switch x := fa.X.(type) {
			case *ssa.UnOp:
				if al, isAl := x.X.(*ssa.Alloc); isAl {
					for _, ref := range refsOf(al) {
						if call, isCall := ref.(*ssa.Call); isCall && calleeName(call.Common()) == "errors.As" {
							foreign = "found with errors.As"
						}
						if mi, isMI := ref.(*ssa.MakeInterface); isMI {
							for _, r2 := range refsOf(mi) {
								if call, isCall := r2.(*ssa.Call); isCall && calleeName(call.Common()) == "errors.As" {
									foreign = "found with errors.As"
								}
							}
						}
					}
				}
			case *ssa.TypeAssert:
				if isErrorType(x.X.Type()) {
					foreign = "obtained by a type assertion on an error"
				}
			case *ssa.Extract:
				if ta, isTA := x.Tuple.(*ssa.TypeAssert); isTA && isErrorType(ta.X.Type()) {
					foreign = "obtained by a type assertion on an error"
				}
			}
			if foreign == "" {
				return
			}
			r.Role("write-site")
			r.Ob(false)
			r.Violation("foreign-error-write|"+fnKey(fn), p.instrPos(st), fmt.Sprintf("%s writes a field of an error value %s: the value belongs to whoever returned it (a backend may return the same value from every call), so the change shows in every later and concurrent request", fnKey(fn), foreign), nil)
		})
	}
	// call sites handing a shared root to a writing parameter
	cg := c.CG()
	for _, fn := range p.ModFns {
		if !inLib(fn) || len(fn.Blocks) == 0 {
			continue
		}
		isInit := fn.Name() == "init"
		eachCall(fn, func(site ssa.CallInstruction) {
			cc := site.Common()
			var all []ssa.Value
			if cc.IsInvoke() {
				all = append(all, cc.Value)
			}
			all = append(all, cc.Args...)
			var targets []*ssa.Function
			if f := cc.StaticCallee(); f != nil {
				targets = append(targets, f)
			} else {
				for _, e := range cg.Out[fn] {
					if e.Site == site && e.Kind == "dynamic" && p.InModule(e.Callee) {
						targets = append(targets, e.Callee)
					}
				}
			}
			for _, t := range targets {
				if !p.InModule(t) {
					continue
				}
				for i, a := range all {
					if i >= len(t.Params) || eff.ParamWritten[t.Params[i]] == nil {
						continue
					}
					root, path := valueRoot(a)
					what, shared := sharedRoot(fn, root)
					if !shared {
						continue
					}
					r.Role("shared-root-passed")
					ok := isInit
					r.Ob(ok)
					if !ok {
						r.Violation("shared-passed|"+fnKey(fn)+"|"+fnKey(t)+"|"+what, p.instrPos(site), fmt.Sprintf("%s passes %s%s to %s, which writes through that parameter (%s)", fnKey(fn), what, strings.Join(path, ""), fnKey(t), p.instrPos(eff.ParamWritten[t.Params[i]])), nil)
					}
				}
			}
		})
	}
	// Marshal* methods must not write through their receiver
	for _, fn := range p.ModFns {
		if !inLib(fn) || fn.Signature.Recv() == nil || len(fn.Params) == 0 || !isMarshalName(fn.Name()) || fn.Synthetic != "" {
			continue
		}
		r.Role("marshal-method")
		w := eff.ParamWritten[fn.Params[0]]
		r.Ob(w == nil)
		if w != nil {
			r.Violation("marshal-writes|"+fnKey(fn), p.instrPos(w), fnKey(fn)+" writes through its receiver: encoding a shared value (e.g. the package-level PROPFIND template) from two goroutines races", nil)
		}
	}
	r.RequireRole("write-site", "marshal-method")
	if p.Control {
		r.ExpectControl("zzVerifControlShared")
	}

	// fresh adapter per request
	ad := NewRule("C18", "C18.fresh-adapter", "each ServeHTTP builds its backend adapter in a local variable (not stored in the handler)")
	pr.Rules = append(pr.Rules, ad)
	for _, ip := range []string{pkgWebdav, pkgCaldav, pkgCarddav} {
		fn := p.MustFunc(ad, ip, "(*Handler).ServeHTTP")
		if fn == nil {
			continue
		}
		found := false
		bt := p.NamedType(ip, "backend")
		isAdapterAlloc := func(v ssa.Value) bool {
			al, ok := v.(*ssa.Alloc)
			return ok && bt != nil && namedOf(al.Type()) == bt
		}
		eachInstr(fn, func(_ *ssa.BasicBlock, in ssa.Instruction) {
			switch x := in.(type) {
			case *ssa.Alloc:
				if isAdapterAlloc(x) {
					found = true
				}
			case *ssa.Call:
				// a constructor of the library: every return is a fresh adapter
				f := x.Common().StaticCallee()
				if f == nil || len(f.Blocks) == 0 || !inLib(f) || f.Signature.Results().Len() != 1 || namedOf(f.Signature.Results().At(0).Type()) != bt {
					return
				}
				fresh, nret := true, 0
				for _, b := range f.Blocks {
					ret, isRet := b.Instrs[len(b.Instrs)-1].(*ssa.Return)
					if !isRet {
						continue
					}
					nret++
					v := ret.Results[0]
					if ld, isLd := v.(*ssa.UnOp); isLd && ld.Op == token.MUL {
						v = ld.X // returned by value: a load of the local
					}
					if !isAdapterAlloc(v) {
						fresh = false
					}
				}
				if fresh && nret > 0 {
					found = true
				}
			}
		})
		ad.Role("handler")
		ad.Ob(found)
		if !found {
			ad.Violation("no-local-adapter|"+fnKey(fn), p.Pos(fn.Pos()), fnKey(fn)+" does not allocate its backend adapter locally: per-request state would be shared", nil)
		}
	}
	ad.RequireRole("handler")

	noLockAcrossPeerRule(c, pr, "C18")
	addressedOnlyRule(c, pr, "C18")
	c18Upload(c, pr, "C18")
	// Close reports the outcome of the request: what the request layer makes
	// of each status class (shared with C14.status-tables)
	c14TablesFor(c, pr, "C18")
}

func c18Upload(c *Ctx, pr *PropertyRun, prop string) {
	p := c.P
	r := NewRule(prop, prop+".upload", "the upload protocol: only go statement of the library, buffered done channel, exactly one send per goroutine path, no loop, Close returns the received value (E4 + E7)")
	pr.Rules = append(pr.Rules, r)
	create := p.MustFunc(r, pkgWebdav, "(*Client).Create")
	closeFn := p.MustFunc(r, pkgWebdav, "(*fileWriter).Close")
	if create == nil || closeFn == nil {
		return
	}
	// the upload may live in a function Create delegates to (an exported
	// variant taking options): the function reached from Create by static
	// calls that makes the pipe
	{
		seenF := map[*ssa.Function]bool{}
		var find func(fn *ssa.Function, depth int) *ssa.Function
		find = func(fn *ssa.Function, depth int) *ssa.Function {
			if fn == nil || seenF[fn] || depth > 3 || len(fn.Blocks) == 0 {
				return nil
			}
			seenF[fn] = true
			var found *ssa.Function
			eachCall(fn, func(site ssa.CallInstruction) {
				if calleeName(site.Common()) == "io.Pipe" {
					found = fn
				}
			})
			if found != nil {
				return found
			}
			eachCall(fn, func(site ssa.CallInstruction) {
				if callee := site.Common().StaticCallee(); callee != nil && inLib(callee) && found == nil {
					found = find(callee, depth+1)
				}
			})
			return found
		}
		if up := find(create, 0); up != nil {
			create = up
		}
	}
	// all go statements of the library
	for _, fn := range p.ModFns {
		if !inLib(fn) {
			continue
		}
		eachInstr(fn, func(_ *ssa.BasicBlock, in ssa.Instruction) {
			g, ok := in.(*ssa.Go)
			if !ok {
				return
			}
			r.Role("go-statement")
			root := fn
			for root.Parent() != nil {
				root = root.Parent()
			}
			ok = root == create
			r.Ob(ok)
			r.Sample(map[string]interface{}{"go_statement_in": fnKey(fn), "pos": p.instrPos(g)})
			if !ok {
				r.Violation("unreviewed-go|"+fnKey(fn), p.instrPos(g), "go statement in "+fnKey(fn)+": the only reviewed goroutine of the library is the upload in Client.Create; a new one needs its own termination argument", nil)
			}
		})
	}
	r.RequireRole("go-statement")
	// the goroutine in Create
	var gos []*ssa.Go
	eachInstr(create, func(_ *ssa.BasicBlock, in ssa.Instruction) {
		if g, ok := in.(*ssa.Go); ok {
			gos = append(gos, g)
		}
	})
	if len(gos) != 1 {
		r.Ob(false)
		r.Violation("go-count|"+fnKey(create), p.Pos(create.Pos()), fmt.Sprintf("Client.Create has %d go statements, the protocol argument covers exactly one", len(gos)), nil)
		return
	}
	// the goroutine is a closure, or a named function/method of the library
	// that is handed the channel as an argument
	mc, isClosure := gos[0].Call.Value.(*ssa.MakeClosure)
	var body *ssa.Function
	if isClosure {
		body = mc.Fn.(*ssa.Function)
	} else if f := gos[0].Call.StaticCallee(); f != nil && len(f.Blocks) > 0 && inLib(f) {
		body = f
	} else {
		r.Undecided("go-target", p.instrPos(gos[0]), "the go statement starts neither a closure nor a function of the library: protocol not analysable")
		return
	}
	// the channel(s)
	var chans []*ssa.MakeChan
	eachInstr(create, func(_ *ssa.BasicBlock, in ssa.Instruction) {
		if m, ok := in.(*ssa.MakeChan); ok {
			chans = append(chans, m)
		}
	})
	fwT := p.NamedType(pkgWebdav, "fileWriter")
	chanInCtor := false
	if len(chans) == 0 {
		// a constructor of the writer owns the channel
		eachCall(create, func(site ssa.CallInstruction) {
			callee := site.Common().StaticCallee()
			if callee == nil || !inLib(callee) || len(callee.Blocks) == 0 {
				return
			}
			eachInstr(callee, func(_ *ssa.BasicBlock, in ssa.Instruction) {
				m, ok := in.(*ssa.MakeChan)
				if !ok {
					return
				}
				for _, u := range chanUses(m) {
					if st, ok := u.(*ssa.Store); ok {
						if fa, ok := st.Addr.(*ssa.FieldAddr); ok {
							if pt, ok := fa.X.Type().Underlying().(*types.Pointer); ok && namedOf(pt.Elem()) == fwT && fwT != nil {
								chans = append(chans, m)
								chanInCtor = true
							}
						}
					}
				}
			})
		})
	}
	if len(chans) != 1 {
		r.Ob(false)
		r.Violation("chan-count|"+fnKey(create), p.Pos(create.Pos()), fmt.Sprintf("Client.Create makes %d channels, the protocol argument covers exactly one", len(chans)), nil)
		return
	}
	ch := chans[0]
	size, isConst := constInt(ch.Size)
	r.Role("done-channel")
	r.Ob(isConst && size >= 1)
	if !(isConst && size >= 1) {
		r.Violation("unbuffered|"+fnKey(create), p.instrPos(ch), "the done channel must have constant capacity >= 1: with an unbuffered channel the goroutine blocks forever when the caller never calls Close (or Close fails early)", nil)
	}
	// which free variable of the body is the channel
	var chFV ssa.Value
	if isClosure {
		for i, b := range mc.Bindings {
			if chanRoot(b) == ssa.Value(ch) && i < len(body.FreeVars) {
				chFV = body.FreeVars[i]
			}
		}
	} else {
		for i, a := range gos[0].Call.Args {
			if chanRoot(a) == ssa.Value(ch) && i < len(body.Params) {
				chFV = body.Params[i]
			}
		}
	}
	// ... or it reaches the goroutine inside the writer (a method of the
	// writer started as the goroutine): the channel is then the writer's
	// channel field
	viaField := false
	if chFV == nil && !isClosure && fwT != nil {
		for i, a := range gos[0].Call.Args {
			if pt, ok := a.Type().Underlying().(*types.Pointer); ok && namedOf(pt.Elem()) == fwT && i < len(body.Params) {
				chFV = body.Params[i]
				viaField = true
			}
		}
	}
	if chFV == nil {
		r.Ob(false)
		r.Violation("chan-not-captured|"+fnKey(create), p.instrPos(gos[0]), "the goroutine does not get the done channel: Close would wait forever", nil)
		return
	}
	// the channel a send/receive operand denotes
	chanOf := func(v ssa.Value) ssa.Value {
		if viaField {
			// a load of the writer's channel field through the receiver
			for i := 0; i < 4; i++ {
				switch x := v.(type) {
				case *ssa.ChangeType:
					v = x.X
					continue
				case *ssa.UnOp:
					if fa, ok := x.X.(*ssa.FieldAddr); ok && fa.X == chFV {
						if _, isChan := fa.Type().(*types.Pointer).Elem().Underlying().(*types.Chan); isChan {
							return chFV
						}
					}
				}
				break
			}
			return v
		}
		return chanRoot(v)
	}
	_ = chanInCtor
	// a named goroutine function must have no other caller
	if !isClosure {
		for _, g := range p.ModFns {
			if !inLib(g) || g.Synthetic != "" {
				continue // promoted-method wrappers of embedding types are not callers of their own
			}
			eachCall(g, func(site ssa.CallInstruction) {
				if site.Common().StaticCallee() == body && site != ssa.CallInstruction(gos[0]) {
					r.Ob(false)
					r.Violation("goroutine-fn-called|"+fnKey(g), p.instrPos(site), fnKey(body)+", the upload goroutine's function, is also called from "+fnKey(g)+": the exactly-one-send argument no longer covers every use of it", nil)
				}
			})
		}
	}
	// channel escapes only into the closure and the returned fileWriter
	for _, ref := range chanUses(ch) {
		switch x := ref.(type) {
		case *ssa.MakeClosure, *ssa.DebugRef, *ssa.ChangeType, *ssa.Go:
		case *ssa.Store:
			// either the captured local cell, or the fileWriter.done field
			if fa, ok := x.Addr.(*ssa.FieldAddr); ok {
				if n := namedOf(fa.X.Type()); n == nil || n != p.NamedType(pkgWebdav, "fileWriter") {
					r.Ob(false)
					r.Violation("chan-escapes|"+fnKey(create), p.instrPos(x), "the done channel is stored outside the fileWriter: other senders/receivers could break the exactly-one-value protocol", nil)
				}
			}
		default:
			_ = x
		}
	}
	// body: no loops
	r.Role("goroutine-body")
	acyclic := true
	for _, b := range body.Blocks {
		for _, s := range b.Succs {
			if s.Dominates(b) {
				acyclic = false
			}
		}
	}
	r.Ob(acyclic)
	if !acyclic {
		r.Violation("loop|"+fnKey(body), p.Pos(body.Pos()), "the upload goroutine contains a loop: termination after the request completes is no longer evident", nil)
	}
	// sends per path, other blocking operations
	sendsIn := map[*ssa.BasicBlock]int{}
	for _, b := range body.Blocks {
		for _, in := range b.Instrs {
			switch x := in.(type) {
			case *ssa.Send:
				if chanOf(x.Chan) == ssa.Value(chFV) {
					sendsIn[b]++
					// what is sent: nil, or a failure reported by a call — a
					// send of anything else makes Close fail although the
					// request layer accepted the answer (2xx)
					r.Role("sent-value")
					okv := isNilConst(x.X)
					if !okv && isErrorType(x.X.Type()) {
						// the error a call returned, as it is: nil exactly
						// when the call reported none
						// (the error result next to the call's other results:
						// a freshly made error — fmt.Errorf — is not that)
						if e, isEx := x.X.(*ssa.Extract); isEx {
							_, okv = e.Tuple.(*ssa.Call)
						}
						// ... or what a helper of the library hands on, when
						// every return of the helper is nil or such an error
						if c2, isCall := x.X.(*ssa.Call); isCall {
							if callee := c2.Common().StaticCallee(); callee != nil && inLib(callee) {
								okv = returnsOnlyReportedErrors(callee, 0)
							}
						}
					}
					if !okv {
						// dominated by the non-nil edge of a test of an error
						// returned by a call
						for _, tb := range body.Blocks {
							cond := ifCond(tb)
							bin, isBin := cond.(*ssa.BinOp)
							if !isBin || (bin.Op != token.NEQ && bin.Op != token.EQL) {
								continue
							}
							var ev ssa.Value
							if isNilConst(bin.Y) {
								ev = bin.X
							} else if isNilConst(bin.X) {
								ev = bin.Y
							}
							if ev == nil || !isErrorType(ev.Type()) {
								continue
							}
							fromCall := false
							switch e := ev.(type) {
							case *ssa.Call:
								fromCall = true
							case *ssa.Extract:
								_, fromCall = e.Tuple.(*ssa.Call)
							}
							if !fromCall {
								continue
							}
							edge := 0
							if bin.Op == token.EQL {
								edge = 1
							}
							if edgeDominates(tb, edge, b) {
								okv = true
							}
						}
					}
					r.Ob(okv)
					if !okv {
						r.Violation("sent-failure-without-error|"+fnKey(body), p.instrPos(x), "the upload goroutine sends a non-nil value on the done channel on a path where no call has reported an error: Close returns a failure although the request layer accepted the answer (2xx)", nil)
					}
				} else {
					r.Ob(false)
					r.Violation("other-send|"+fnKey(body), p.instrPos(x), "the upload goroutine sends on another channel: it may block forever", nil)
				}
			case *ssa.Select:
				r.Ob(false)
				r.Violation("select|"+fnKey(body), p.instrPos(x), "the upload goroutine contains a select: protocol not covered", nil)
			case *ssa.UnOp:
				if x.Op == token.ARROW {
					r.Ob(false)
					r.Violation("receive|"+fnKey(body), p.instrPos(x), "the upload goroutine receives from a channel: it may block forever", nil)
				}
			}
		}
	}
	if acyclic {
		type mm struct{ min, max int }
		memo := map[*ssa.BasicBlock]mm{}
		var walk func(b *ssa.BasicBlock) mm
		walk = func(b *ssa.BasicBlock) mm {
			if v, ok := memo[b]; ok {
				return v
			}
			res := mm{1 << 30, -1}
			if len(b.Succs) == 0 {
				res = mm{0, 0}
				if _, isPanic := b.Instrs[len(b.Instrs)-1].(*ssa.Panic); isPanic {
					res = mm{1, 1} // a panicking path is not a normal completion
				}
			}
			for _, s := range b.Succs {
				v := walk(s)
				if v.min < res.min {
					res.min = v.min
				}
				if v.max > res.max {
					res.max = v.max
				}
			}
			res.min += sendsIn[b]
			res.max += sendsIn[b]
			memo[b] = res
			return res
		}
		v := walk(body.Blocks[0])
		r.Ob(v.min == 1 && v.max == 1)
		r.Sample(map[string]interface{}{"goroutine": fnKey(body), "min_sends_per_path": v.min, "max_sends_per_path": v.max})
		if v.min < 1 {
			r.Violation("missing-send|"+fnKey(body), p.Pos(body.Pos()), "a path through the upload goroutine ends without sending on the done channel: Close blocks forever on that path", nil)
		}
		if v.max > 1 {
			r.Violation("double-send|"+fnKey(body), p.Pos(body.Pos()), fmt.Sprintf("a path through the upload goroutine sends %d times on the done channel (capacity %d): the goroutine can block forever and outlive Close", v.max, size), nil)
		}
	}
	// the pipe's read end IS the request body (or is wrapped by a type of the
	// library whose Close closes it): the transport closes the body when it
	// stops sending (early answer, dropped connection, cancellation), and that
	// Close is what makes a blocked or later Write on the pipe return. A
	// wrapper without Close (net/http adds a no-op one) cuts that chain: the
	// caller's Write blocks forever.
	eachCall(create, func(site ssa.CallInstruction) {
		if calleeName(site.Common()) != "io.Pipe" {
			return
		}
		call, ok := site.(*ssa.Call)
		if !ok {
			return
		}
		for _, ref := range refsOf(call) {
			ex, ok := ref.(*ssa.Extract)
			if !ok || ex.Index != 0 {
				continue
			}
			r.Role("pipe-read-end")
			direct := false
			var bad []string
			var badPos ssa.Instruction
			var visit func(v ssa.Value, depth int)
			visit = func(v ssa.Value, depth int) {
				if depth > 4 {
					return
				}
				for _, u := range refsOf(v) {
					switch x := u.(type) {
					case *ssa.MakeInterface:
						visit(x, depth+1)
					case *ssa.ChangeInterface:
						visit(x, depth+1)
					case *ssa.Store:
						if x.Val != v {
							continue
						}
						fa, isFA := x.Addr.(*ssa.FieldAddr)
						if !isFA {
							// a local that a closure captures (the goroutine
							// closes the read end when the request fails):
							// what is loaded from it in this function is the
							// same value
							if al, isAl := x.Addr.(*ssa.Alloc); isAl {
								for _, r2 := range refsOf(al) {
									if ld, isLd := r2.(*ssa.UnOp); isLd && ld.X == ssa.Value(al) {
										visit(ld, depth+1)
									}
								}
							}
							continue
						}
						n := namedOf(fa.X.Type())
						if n == nil || n == p.NamedType(pkgWebdav, "fileWriter") {
							continue
						}
						if !closesPipe(p, n) {
							bad = append(bad, "stored in a "+n.Obj().Name()+", which has no Close method that closes the pipe's read end")
							badPos = x
						} else {
							direct = true
						}
					case ssa.CallInstruction:
						cc := x.Common()
						if !cc.IsInvoke() && len(cc.Args) > 0 && cc.Args[0] == v && cc.Signature().Recv() != nil {
							continue // a method of the pipe reader itself
						}
						callee := cc.StaticCallee()
						name := calleeName(cc)
						if callee != nil && p.InModule(callee) || strings.HasPrefix(name, "net/http.NewRequest") {
							direct = true
							continue
						}
						if _, isGo := x.(*ssa.Go); isGo {
							continue
						}
						bad = append(bad, "handed to "+name+", whose result does not close the pipe")
						badPos = x
					}
				}
			}
			visit(ex, 0)
			ok = direct && len(bad) == 0
			r.Ob(ok)
			if !ok {
				pos := p.instrPos(site)
				why := "never handed to the request"
				if len(bad) > 0 {
					why = strings.Join(bad, "; ")
					pos = p.instrPos(badPos)
				}
				r.Violation("pipe-body|"+fnKey(create), pos, "the read end of the upload pipe is "+why+": when the transport stops sending and closes the request body, the pipe stays open and the caller's Write blocks forever", nil)
			}
		}
	})
	r.RequireRole("pipe-read-end")
	// fileWriter.Close: returns <-fw.done on the path where pw.Close() == nil
	r.Role("close-method")
	var recvRet, errRet bool
	var pwClose *ssa.Call
	eachCall(closeFn, func(site ssa.CallInstruction) {
		if call, ok := site.(*ssa.Call); ok && calleeName(call.Common()) == "(*io.PipeWriter).Close" {
			pwClose = call
		}
	})
	// Close made idempotent: its body runs once, through sync.Once, and the
	// outcome is kept in a field of the writer that every call returns
	var onceBody *ssa.Function
	eachCall(closeFn, func(site ssa.CallInstruction) {
		if calleeName(site.Common()) == "(*sync.Once).Do" && len(site.Common().Args) == 2 {
			if mc, ok := site.Common().Args[1].(*ssa.MakeClosure); ok {
				onceBody = mc.Fn.(*ssa.Function)
			}
		}
	})
	if pwClose == nil && onceBody != nil {
		eachCall(onceBody, func(site ssa.CallInstruction) {
			if call, ok := site.(*ssa.Call); ok && calleeName(call.Common()) == "(*io.PipeWriter).Close" {
				pwClose = call
			}
		})
		if pwClose != nil {
			// the value received where closing succeeded is stored into a
			// field; every return of Close is a load of that field
			field := -1
			eachInstr(onceBody, func(b *ssa.BasicBlock, in ssa.Instruction) {
				st, ok := in.(*ssa.Store)
				if !ok {
					return
				}
				un, ok := st.Val.(*ssa.UnOp)
				if !ok || un.Op != token.ARROW || !knownNilAt(pwClose, b) {
					return
				}
				if fa, ok := st.Addr.(*ssa.FieldAddr); ok {
					if pt, ok := fa.X.Type().Underlying().(*types.Pointer); ok && namedOf(pt.Elem()) == fwT {
						field = fa.Field
					}
				}
			})
			okAll := field >= 0
			for _, b := range closeFn.Blocks {
				ret, ok := b.Instrs[len(b.Instrs)-1].(*ssa.Return)
				if !ok || len(ret.Results) != 1 {
					continue
				}
				ld, ok := ret.Results[0].(*ssa.UnOp)
				if !ok || ld.Op != token.MUL {
					okAll = false
					continue
				}
				fa, ok := ld.X.(*ssa.FieldAddr)
				if !ok || fa.Field != field {
					okAll = false
				}
			}
			r.Ob(okAll)
			if !okAll {
				r.Violation("close-result|"+fnKey(closeFn), p.Pos(closeFn.Pos()), "fileWriter.Close runs its body once (sync.Once) but does not return, on every call, the field in which the value received from the done channel is kept", nil)
			}
			goto receives
		}
	}
	if pwClose == nil {
		r.Ob(false)
		r.Violation("no-pipe-close|"+fnKey(closeFn), p.Pos(closeFn.Pos()), "fileWriter.Close does not close the pipe writer: the request body never ends and the request never completes", nil)
		return
	}
	for _, b := range closeFn.Blocks {
		ret, ok := b.Instrs[len(b.Instrs)-1].(*ssa.Return)
		if !ok || len(ret.Results) != 1 {
			continue
		}
		switch x := ret.Results[0].(type) {
		case *ssa.UnOp:
			if x.Op == token.ARROW {
				if knownNilAt(pwClose, b) {
					recvRet = true
				}
			}
		default:
			if ret.Results[0] == ssa.Value(pwClose) && knownNonNilAt(pwClose, b) {
				errRet = true
			} else if !isNilConst(ret.Results[0]) {
				_ = x
			} else if knownNilAt(pwClose, b) {
				// returns nil without waiting for the request
				r.Ob(false)
				r.Violation("close-no-wait|"+fnKey(closeFn), p.instrPos(ret), "fileWriter.Close returns nil without receiving from the done channel: it returns before the server has answered and hides a failed upload", nil)
			}
		}
	}
	r.Ob(recvRet)
	if !recvRet {
		r.Violation("close-result|"+fnKey(closeFn), p.Pos(closeFn.Pos()), "fileWriter.Close has no return of the value received from the done channel on the path where closing the pipe succeeded", nil)
	}
	_ = errRet
receives:
	// the done channel is received from exactly once: in Close, not in a loop
	for _, fn := range p.ModFns {
		if !inLib(fn) {
			continue
		}
		eachInstr(fn, func(b *ssa.BasicBlock, in ssa.Instruction) {
			// a receive in a select statement (blocking or not) takes the
			// one value just as well
			if sel, isSel := in.(*ssa.Select); isSel {
				for _, st := range sel.States {
					if st.Dir != types.RecvOnly {
						continue
					}
					ld, ok := st.Chan.(*ssa.UnOp)
					if !ok {
						continue
					}
					fa, ok := ld.X.(*ssa.FieldAddr)
					if !ok || namedOf(fa.X.Type()) != fwT {
						continue
					}
					if _, isChan := fa.Type().(*types.Pointer).Elem().Underlying().(*types.Chan); !isChan {
						continue
					}
					r.Role("done-receive")
					ok = false
					r.Ob(ok)
					r.Violation("extra-receive|"+fnKey(fn)+"|select", p.instrPos(sel), fnKey(fn)+" receives from the upload's done channel in a select statement: exactly one value is ever sent on it; when this receive takes it, Close (which must receive it and return it) blocks forever afterwards, and when Close's own receive is a select with other cases it may return without the server's answer", nil)
				}
				return
			}
			un, ok := in.(*ssa.UnOp)
			if !ok || un.Op != token.ARROW {
				return
			}
			// a receive from fileWriter.done
			ld, ok := un.X.(*ssa.UnOp)
			if !ok {
				return
			}
			fa, ok := ld.X.(*ssa.FieldAddr)
			if !ok || namedOf(fa.X.Type()) != fwT {
				return
			}
			// the writer's channel field (whatever it is called)
			if _, isChan := fa.Type().(*types.Pointer).Elem().Underlying().(*types.Chan); !isChan {
				return
			}
			r.Role("done-receive")
			inLoop := false
			for _, s := range b.Succs {
				if s.Dominates(b) {
					inLoop = true
				}
			}
			ok = (fn == closeFn || (onceBody != nil && fn == onceBody)) && !inLoop
			r.Ob(ok)
			if !ok {
				r.Violation("extra-receive|"+fnKey(fn), p.instrPos(un), fnKey(fn)+" receives from the upload's done channel: exactly one value is ever sent on it, so Close (which must receive it) blocks forever afterwards", nil)
			}
		})
	}
	pooledObjectsRule(c, r)
	r.RequireRole("done-channel", "goroutine-body", "close-method", "done-receive")
}

// chanRoot: the channel value behind loads of a captured cell / conversions.
func chanRoot(v ssa.Value) ssa.Value {
	for i := 0; i < 8; i++ {
		switch x := v.(type) {
		case *ssa.ChangeType:
			v = x.X
		case *ssa.UnOp:
			if x.Op == token.MUL {
				// load of a local cell: find the single store
				if al, ok := x.X.(*ssa.Alloc); ok {
					for _, r := range *al.Referrers() {
						if st, ok := r.(*ssa.Store); ok && st.Addr == al {
							return chanRoot(st.Val)
						}
					}
				}
				if fv, ok := x.X.(*ssa.FreeVar); ok {
					return fv
				}
				return v
			}
			return v
		case *ssa.Alloc:
			for _, r := range *x.Referrers() {
				if st, ok := r.(*ssa.Store); ok && st.Addr == x {
					return chanRoot(st.Val)
				}
			}
			return v
		default:
			return v
		}
	}
	return v
}

// chanUses: instructions using the channel value directly or through the
// local cell it is stored in.
func chanUses(ch *ssa.MakeChan) []ssa.Instruction {
	var out []ssa.Instruction
	var visit func(v ssa.Value, depth int)
	visit = func(v ssa.Value, depth int) {
		if depth > 4 {
			return
		}
		for _, r := range *v.Referrers() {
			out = append(out, r)
			switch x := r.(type) {
			case *ssa.ChangeType:
				visit(x, depth+1)
			case *ssa.Store:
				if al, ok := x.Addr.(*ssa.Alloc); ok && x.Val == v {
					for _, r2 := range *al.Referrers() {
						if ld, ok := r2.(*ssa.UnOp); ok {
							visit(ld, depth+1)
						} else if _, ok := r2.(*ssa.MakeClosure); ok {
							out = append(out, r2)
						}
					}
				}
			}
		}
	}
	visit(ch, 0)
	return out
}

// closesPipe: the named type (or its pointer) has a Close method, defined in
// the module, that calls Close/CloseWithError of an *io.PipeReader or Close of
// an io.Closer it holds.
func closesPipe(p *Program, n *types.Named) bool {
	for _, t := range []types.Type{n, types.NewPointer(n)} {
		sel := p.Prog.MethodSets.MethodSet(t).Lookup(nil, "Close")
		if sel == nil {
			continue
		}
		fn := p.Prog.MethodValue(sel)
		if fn == nil || len(fn.Blocks) == 0 || !p.InModule(fn) {
			continue
		}
		found := false
		eachCall(fn, func(site ssa.CallInstruction) {
			cc := site.Common()
			switch calleeName(cc) {
			case "(*io.PipeReader).Close", "(*io.PipeReader).CloseWithError":
				found = true
			}
			if cc.IsInvoke() && cc.Method.Name() == "Close" {
				found = true
			}
		})
		if found {
			return true
		}
	}
	return false
}

// pooledObjectsRule: an object handed back to a sync.Pool is not referred to
// by anything the function returns or stores (a request body that aliases a
// pooled buffer is overwritten by the next request built anywhere in the
// process).
func pooledObjectsRule(c *Ctx, r *RuleResult) {
	p := c.P
	if p.Control {
		r.ExpectControl("pooled-object-escapes|internal.zzVerifControlPooled")
	}
	// pooled objects must not outlive their return to the pool
	for _, fn := range p.ModFns {
		if !inLib(fn) || len(fn.Blocks) == 0 {
			continue
		}
		eachCall(fn, func(site ssa.CallInstruction) {
			if calleeName(site.Common()) != "(*sync.Pool).Put" || len(site.Common().Args) < 2 {
				return
			}
			r.Role("pool-put")
			obj := site.Common().Args[1]
			for {
				if mi, ok := obj.(*ssa.MakeInterface); ok {
					obj = mi.X
					continue
				}
				break
			}
			escapes := false
			var visit func(v ssa.Value, depth int)
			visit = func(v ssa.Value, depth int) {
				if depth > 7 {
					return
				}
				for _, ref := range refsOf(v) {
					switch x := ref.(type) {
					case *ssa.Return:
						escapes = true
					case *ssa.MakeInterface:
						visit(x, depth+1)
					case *ssa.Store:
						if x.Val == v {
							if al, isLocal := x.Addr.(*ssa.Alloc); !isLocal {
								escapes = true
							} else {
								// a result spilled to a local because of defer
								for _, r2 := range refsOf(al) {
									if ld, ok := r2.(*ssa.UnOp); ok {
										for _, r3 := range refsOf(ld) {
											if _, isRet := r3.(*ssa.Return); isRet {
												escapes = true
											}
										}
									}
								}
							}
						}
					case *ssa.Call:
						if x == site {
							continue
						}
						// handed to an HTTP request as its body: the transport
						// may still be reading it after Do has returned (an
						// early answer), i.e. after the deferred Put
						for ai, a := range x.Common().Args {
							if a == v && becomesRequestBody(x.Common(), ai, 0) {
								escapes = true
							}
						}
						// handed to a call whose result leaves the function
						for _, a := range x.Common().Args {
							if a == v {
								for _, r2 := range refsOf(x) {
									switch y := r2.(type) {
									case *ssa.Return:
										// (an error the call reports does not
										// refer to the object's memory)
										if x.Type() != nil && !isErrorType(x.Type()) && mayHoldPointer(x.Type()) {
											escapes = true
										}
									case *ssa.Extract:
										if !isErrorType(y.Type()) && mayHoldPointer(y.Type()) {
											visit(y, depth+1)
										}
									}
								}
								// a result that can alias the object's memory
								// (buf.Bytes(), bytes.NewReader(...)) is the
								// object as far as the pool is concerned
								if bi, isB := x.Common().Value.(*ssa.Builtin); isB {
									// append(dst, v...) copies v's elements:
									// only the destination (first argument)
									// is aliased by the result
									if bi.Name() != "append" || x.Common().Args[0] != v {
										continue
									}
								}
								if x.Type() != nil && mayHoldPointer(x.Type()) && !isErrorType(x.Type()) {
									if _, isTuple := x.Type().(*types.Tuple); !isTuple {
										visit(x, depth+1)
									}
								}
							}
						}
					}
				}
			}
			visit(obj, 0)
			r.Ob(!escapes)
			if escapes {
				r.Violation("pooled-object-escapes|"+fnKey(fn), p.instrPos(site), fnKey(fn)+" returns an object to a sync.Pool while a value it returns (or stores) still refers to it: another goroutine can get and overwrite it while it is in use", nil)
			}
		})
	}
}

// returnsOnlyReportedErrors: every return of fn (a function returning only an
// error) is nil, the error result next to another call's results, or the
// result of a library function of which the same holds.
func returnsOnlyReportedErrors(fn *ssa.Function, depth int) bool {
	if fn == nil || len(fn.Blocks) == 0 || depth > 2 || fn.Signature.Results().Len() != 1 || !isErrorType(fn.Signature.Results().At(0).Type()) {
		return false
	}
	var ok func(v ssa.Value, d int) bool
	ok = func(v ssa.Value, d int) bool {
		if d > 4 {
			return false
		}
		if isNilConst(v) {
			return true
		}
		switch x := v.(type) {
		case *ssa.Extract:
			_, isCall := x.Tuple.(*ssa.Call)
			return isCall
		case *ssa.Phi:
			for _, e := range x.Edges {
				if !ok(e, d+1) {
					return false
				}
			}
			return true
		case *ssa.Call:
			if callee := x.Common().StaticCallee(); callee != nil && inLib(callee) {
				return returnsOnlyReportedErrors(callee, depth+1)
			}
		}
		return false
	}
	n := 0
	for _, b := range fn.Blocks {
		ret, isRet := b.Instrs[len(b.Instrs)-1].(*ssa.Return)
		if !isRet {
			continue
		}
		n++
		if len(ret.Results) != 1 || !ok(ret.Results[0], 0) {
			return false
		}
	}
	return n > 0
}

// becomesRequestBody: argument ai of the call is the body of an HTTP request
// (net/http.NewRequest*, or a library function that passes it on as one).
func becomesRequestBody(cc *ssa.CallCommon, ai int, depth int) bool {
	if depth > 2 {
		return false
	}
	callee := cc.StaticCallee()
	if callee == nil {
		return false
	}
	switch fullFnName(callee) {
	case "net/http.NewRequest":
		return ai == 2
	case "net/http.NewRequestWithContext":
		return ai == 3
	}
	if !inLib(callee) || len(callee.Blocks) == 0 || ai >= len(callee.Params) {
		return false
	}
	prm := callee.Params[ai]
	found := false
	eachCall(callee, func(site ssa.CallInstruction) {
		for j, a := range site.Common().Args {
			if a == ssa.Value(prm) && becomesRequestBody(site.Common(), j, depth+1) {
				found = true
			}
		}
	})
	return found
}

// noLockAcrossPeerRule: requests on disjoint resources do not wait for one
// another. A lock that is shared by all requests (a package-level mutex, or
// one in a Handler/Client/LocalFileSystem value) held while the function
// copies from a reader it was given — the request body, whose speed the peer
// decides — makes every other request that needs the lock wait for that peer:
// one stalled upload blocks the DELETE of an unrelated resource.
func noLockAcrossPeerRule(c *Ctx, pr *PropertyRun, prop string) {
	p := c.P
	r := NewRule(prop, prop+".no-lock-across-peer", "no function takes a lock shared by all requests and, before releasing it, reads from a reader it was handed (io.Copy / Read on a parameter) (E4)")
	pr.Rules = append(pr.Rules, r)
	for _, fn := range p.ModFns {
		if !inLib(fn) || len(fn.Blocks) == 0 {
			continue
		}
		var locks []ssa.CallInstruction
		deferredUnlock := false
		eachCall(fn, func(site ssa.CallInstruction) {
			n := calleeName(site.Common())
			switch n {
			case "(*sync.Mutex).Lock", "(*sync.RWMutex).Lock", "(*sync.RWMutex).RLock":
				// shared: rooted in a global or in the receiver of a shared type
				root := site.Common().Args[0]
				for i := 0; i < 6; i++ {
					switch x := root.(type) {
					case *ssa.FieldAddr:
						root = x.X
						continue
					case *ssa.UnOp:
						root = x.X
						continue
					}
					break
				}
				if _, shared := sharedRoot(fn, root); shared {
					if _, isDefer := site.(*ssa.Defer); !isDefer {
						locks = append(locks, site)
					}
				}
			case "(*sync.Mutex).Unlock", "(*sync.RWMutex).Unlock", "(*sync.RWMutex).RUnlock":
				if _, isDefer := site.(*ssa.Defer); isDefer {
					deferredUnlock = true
				}
			}
		})
		r.Role("library-function")
		if len(locks) == 0 {
			r.Ob(true)
			continue
		}
		// a read from a reader parameter after the lock (to the end of the
		// function when the unlock is deferred, else in a block the lock
		// reaches before an unlock — approximated by reachability)
		bad := ""
		eachCall(fn, func(site ssa.CallInstruction) {
			cc := site.Common()
			n := calleeName(cc)
			src := -1
			switch n {
			case "io.Copy", "io.CopyBuffer", "io.CopyN":
				src = 1
			case "io.ReadAll", "io/ioutil.ReadAll", "io.ReadFull":
				src = 0
			}
			if src < 0 || src >= len(cc.Args) {
				return
			}
			v := cc.Args[src]
			if ci, ok := v.(*ssa.ChangeInterface); ok {
				v = ci.X
			}
			if _, isParam := v.(*ssa.Parameter); !isParam {
				return
			}
			for _, l := range locks {
				after := l.Block() == site.Block() && instrIndex(l) < instrIndex(site) || blockReaches(l.Block(), site.Block())
				if after && deferredUnlock {
					bad = p.instrPos(site)
				} else if after {
					// released explicitly: is there an unlock between? (approximation: same block order)
					bad = p.instrPos(site)
				}
			}
		})
		r.Ob(bad == "")
		if bad != "" {
			r.Violation("lock-across-peer|"+fnKey(fn), bad, fmt.Sprintf("%s takes a lock that all requests share (%s) and, still holding it, copies from a reader it was handed: how long that takes is up to the peer, and every request that needs the lock — also for an unrelated resource — waits for it", fnKey(fn), p.instrPos(locks[0])), nil)
		}
	}
	r.RequireRole("library-function")
	if p.Control {
		r.ExpectControl("lock-across-peer|webdav.zzVerifControlLocked")
	}
}
