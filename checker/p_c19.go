package main

// C19 — ValidateCalendarObject enforces the RFC 4791 §4.1 object rules.
// Decided up to the bound (children <= 3 quick, <= 4 thorough) by extracting
// the function's decision table from its SSA and comparing every row with the
// statement.

import (
	"fmt"
	"go/types"
	"strings"

	"golang.org/x/tools/go/ssa"
)

const pkgIcal = "github.com/emersion/go-ical"
const pkgVcard = "github.com/emersion/go-vcard"

func init() { register("C19", runC19) }

func runC19(c *Ctx, pr *PropertyRun) {
	p := c.P
	maxChildren := 3
	if c.Thorough() {
		maxChildren = 4
	}
	pr.Explanation = fmt.Sprintf("Decided: the complete decision table of ValidateCalendarObject, extracted from its SSA by abstract interpretation, for every calendar with up to %d components: atoms are 'METHOD present', and per component every consistent equal/unequal assignment between its name, VTIMEZONE and the other names, between its UID, the empty string and the other UIDs, and whether reading the UID fails. Each row is compared with the statement (accept iff no METHOD, one type besides VTIMEZONE, one non-empty UID; returns that type and UID; on rejection an error and empty results). ", maxChildren) +
		"The table is exhaustive over this abstract domain (data independence: the function touches names and UIDs only through == and !=, which the interpreter verifies while interpreting). NOT decided: go-ical's parsing of the UID property; calendars with more components than the bound."
	pr.Assumptions = append(pr.Assumptions, "cal, cal.Component and every child pointer are non-nil (documented use)", "ical.Props.Get / Props.Text are interpreted from go-ical's own source (map lookup + length test); (*ical.Prop).Text is modelled as (opaque string, failure atom)")
	pr.Trusted = append(pr.Trusted, "golang.org/x/tools/go/ssa v0.29.0", "the interpreter's model of (*ical.Prop).Text")
	r := NewRule("C19", "C19.table", "decision table of ValidateCalendarObject equals the statement for every calendar within the bound (E2 dtx)")
	r.Exhaustive = true
	r.Bounds = fmt.Sprintf("children <= %d", maxChildren)
	pr.Rules = append(pr.Rules, r)
	fn := p.MustFunc(r, pkgCaldav, "ValidateCalendarObject")
	if fn == nil {
		return
	}
	spec := c19Spec(c, fn, maxChildren)
	res := runDTX(c, spec)
	reportDTX(c, r, spec, res, "table")
	r.Role("decision-table")
	if res.Runs < 10 {
		r.Unresolved("decision table has fewer than 10 rows: the function no longer looks at its input")
	}
	// the table is extracted under value semantics: the function must not
	// write the calendar it is given (an in-place filter of cal.Children —
	// comps[:0] plus append — changes what the second pass reads)
	pure := NewRule("C19", "C19.pure", "ValidateCalendarObject and its in-module callees write only to locally allocated memory (E5)")
	pr.Rules = append(pr.Rules, pure)
	purityRule(c, pure, pkgCaldav, []string{"ValidateCalendarObject"})
}

// icalModels: go-ical's two accessors Props.Get and Props.Text are interpreted
// from their own source (a lookup in the property map and a length test);
// only reading a property's text is modelled: an opaque string or a failure.
func icalModels(in *Interp, site ssa.CallInstruction, name string, args []Val) (Val, bool) {
	switch name {
	case "(*" + pkgIcal + ".Prop).Text":
		k := strings.TrimPrefix(keyOf(args[0]), "&")
		if in.truth(LazyBool{"fails(" + k + ")"}) {
			return Tuple{[]Val{kStr(""), in.mkErr(&ErrObj{Kind: "ext", Msg: SymStr{Key: "text-error(" + k + ")"}})}}, true
		}
		return Tuple{[]Val{SymStr{Key: "text(" + k + ")"}, kNil}}, true
	}
	return nil, false
}

func icalAccessors(fn *ssa.Function) bool {
	switch fullFnName(fn) {
	case "(" + pkgIcal + ".Props).Get", "(" + pkgIcal + ".Props).Text", "(" + pkgIcal + ".Props).Values":
		return true
	}
	return false
}

func c19Spec(c *Ctx, fn *ssa.Function, maxChildren int) DTXSpec {
	child := func(i int) string { return fmt.Sprintf("cal.Component.Children[%d]", i) }
	uidList := func(i int) string { return child(i) + ".Props[\"UID\"]" }
	uidKey := func(i int) string { return "text(" + uidList(i) + "[0])" }
	failKey := func(i int) string { return "fails(" + uidList(i) + "[0])" }
	// a property is present when the map has a non-empty list under its name
	present := func(env *OracleEnv, list string) bool {
		return env.Bool("has("+list+")") && env.Len(list, 1) > 0
	}
	return DTXSpec{
		Name:  "ValidateCalendarObject",
		Entry: fn,
		Sym: SymSpec{
			MaxLen: func(key string, _ types.Type) int {
				if strings.Contains(key, ".Props[") {
					return 1 // a property list: empty or not (only its first entry is ever read)
				}
				return maxChildren
			},
			NonNil: func(key string) bool { return true },
		},
		Setup: func(in *Interp) {
			in.Models = append(in.Models, icalModels)
			in.InlineExternal = icalAccessors
			in.OpenExternal = func(n *types.Named) bool {
				return n.Obj().Pkg().Path() == pkgIcal && (n.Obj().Name() == "Calendar" || n.Obj().Name() == "Component")
			}
		},
		Args: func(in *Interp) []Val {
			return []Val{in.symOf(fn.Params[0].Type(), "cal")}
		},
		Observe: func(in *Interp, res Val, pan *panicOutcome) string {
			if pan != nil {
				return "panic"
			}
			t := res.(Tuple)
			if k, ok := t.E[2].(Konst); ok && k.V == nil {
				return "accept"
			}
			return "reject"
		},
		Check: func(env *OracleEnv, obs *Observation) (bool, string, bool) {
			if obs.Panic != nil {
				return false, "no panic", true
			}
			t := obs.Ret.(Tuple)
			accepted := false
			if k, ok := t.E[2].(Konst); ok && k.V == nil {
				accepted = true
			}
			n := env.Len("cal.Component.Children", maxChildren)
			method := present(env, "cal.Component.Props[\"METHOD\"]")
			wantAccept := !method
			typ, uid := K(""), K("")
			for i := 0; i < n && wantAccept; i++ {
				name := S(child(i) + ".Name")
				if !env.Eq(name, K("VTIMEZONE")) {
					if typ == K("") {
						typ = name
					} else if !env.Eq(typ, name) {
						wantAccept = false
						break
					}
				}
				if !present(env, uidList(i)) {
					continue // no UID on this component
				}
				if env.Bool(failKey(i)) {
					// the statement says nothing about a UID that cannot be
					// read; rejecting is the conservative behaviour
					wantAccept = false
					break
				}
				u := S(uidKey(i))
				if !env.Eq(u, K("")) {
					if uid == K("") {
						uid = u
					} else if !env.Eq(uid, u) {
						wantAccept = false
						break
					}
				}
			}
			// a component type that is the empty string is outside the
			// statement's domain (iCalendar component names are never empty)
			for i := 0; i < n; i++ {
				if env.Eq(S(child(i)+".Name"), K("")) {
					return true, "", false
				}
			}
			if accepted != wantAccept {
				return false, map[bool]string{true: "accept", false: "reject"}[wantAccept], true
			}
			rt, _ := strTerm(t.E[0])
			ru, _ := strTerm(t.E[1])
			if accepted {
				if !env.Eq(rt, typ) {
					return false, "accept with the common component type", true
				}
				if !env.Eq(ru, uid) {
					return false, "accept with the common UID", true
				}
				return true, "", true
			}
			if !env.Eq(rt, K("")) || !env.Eq(ru, K("")) {
				return false, "reject with empty type and UID", true
			}
			return true, "", true
		},
	}
}
