package main

// E2 dtx — decision-table extraction by abstract interpretation of the SSA of
// the current tree over finite predicate domains. This file: abstract values,
// memory cells, lazily created symbolic inputs.
//
// Nothing of /repo is executed: the interpreter walks go/ssa instructions over
// abstract values (constants, opaque symbols, abstract pointers, lazily
// materialised symbolic structures). Branches on opaque values are decided by
// atoms, enumerated exhaustively by stateless depth-first search over choice
// scripts (e2_choice.go).

import (
	"fmt"
	"go/constant"
	"go/types"
	"sort"
	"strings"

	"golang.org/x/tools/go/ssa"
)

type Val interface{}

// Konst: a concrete constant. V == nil denotes the nil value of a pointer,
// interface, slice, map, chan or func type.
type Konst struct {
	V constant.Value
}

// SymStr: an opaque string; touched only by == / != (partition domain),
// passed on, or formatted. HostPath: the text contains the absolute host path
// of the served directory (C17).
type SymStr struct {
	Key      string
	HostPath bool
	// Rooted: the text is the served directory's path followed by something
	// (made by filepath.Join(root, ...) or met by a Walk below such a path):
	// filepath.Rel(root, it) cannot fail and yields no host path.
	Rooted bool
}

// SymInt: an opaque integer with a declared finite domain; concretised on
// first arithmetic/comparison use.
type SymInt struct{ Key string }

// LazyBool: an opaque boolean, decided on first use.
type LazyBool struct{ Key string }

// TimeV: an instant. Key "ZERO" is the zero time.Time.
type TimeV struct{ Key string }

// Opaque: a value the interpreter does not look into (maps of other
// packages, interfaces implemented elsewhere, external structs). T is its
// static type.
type Opaque struct {
	Key string
	T   types.Type
}

type Ptr struct{ C *Cell }

type Struct struct {
	T types.Type
	F []*Cell
}

type Array struct {
	T types.Type
	E []*Cell
}

// Slice: concrete length; nil slice has E == nil && !NonNil.
type Slice struct {
	E      []*Cell
	NonNil bool
}

// LazySlice: a symbolic slice whose length is an atom; materialised on first
// len/index/range.
type LazySlice struct {
	Key  string
	Elem types.Type
	obj  *lazySliceObj
}

type lazySliceObj struct {
	done bool
	s    Slice
}

type MapV struct{ M *MapObj }

type MapObj struct {
	Keys []Val
	Vals []*Cell
}

type Closure struct {
	Fn   *ssa.Function
	Bind []Val
}

type FuncV struct{ Fn *ssa.Function }

// Iface: a non-nil interface value with a known dynamic type.
type Iface struct {
	Dyn types.Type
	V   Val
}

type Tuple struct{ E []Val }

// BoundMethod: a method value of an opaque receiver (e.g. `f.Close`).
type BoundMethod struct {
	Recv Val
	Name string
}

// Cell is a memory location. Lazy cells are initialised on first read.
type Cell struct {
	V    Val
	T    types.Type
	Name string
	lazy func() Val
}

func (c *Cell) Get() Val {
	if c.lazy != nil {
		f := c.lazy
		c.lazy = nil
		c.V = f()
	}
	return c.V
}

func (c *Cell) Set(v Val) {
	c.lazy = nil
	c.V = v
}

var kTrue = Konst{constant.MakeBool(true)}
var kFalse = Konst{constant.MakeBool(false)}
var kNil = Konst{nil}

func kBool(b bool) Konst {
	if b {
		return kTrue
	}
	return kFalse
}
func kInt(i int64) Konst  { return Konst{constant.MakeInt64(i)} }
func kStr(s string) Konst { return Konst{constant.MakeString(s)} }

func isTimeType(t types.Type) bool {
	n, ok := t.(*types.Named)
	return ok && n.Obj().Pkg() != nil && n.Obj().Pkg().Path() == "time" && n.Obj().Name() == "Time"
}

// zeroOf builds the zero value of a type.
func zeroOf(t types.Type) Val {
	if isTimeType(t) {
		return TimeV{"ZERO"}
	}
	switch u := t.Underlying().(type) {
	case *types.Basic:
		switch {
		case u.Info()&types.IsBoolean != 0:
			return kFalse
		case u.Info()&types.IsString != 0:
			return kStr("")
		case u.Info()&types.IsInteger != 0:
			return kInt(0)
		case u.Info()&types.IsFloat != 0:
			return Konst{constant.MakeFloat64(0)}
		}
		return kNil
	case *types.Struct:
		s := Struct{T: t}
		for i := 0; i < u.NumFields(); i++ {
			ft := u.Field(i).Type()
			s.F = append(s.F, &Cell{V: zeroOf(ft), T: ft})
		}
		return s
	case *types.Array:
		a := Array{T: t}
		for i := int64(0); i < u.Len(); i++ {
			a.E = append(a.E, &Cell{V: zeroOf(u.Elem()), T: u.Elem()})
		}
		return a
	case *types.Slice:
		return Slice{}
	}
	return kNil
}

// copyVal implements value (copy) semantics for structs and arrays.
func copyVal(v Val) Val {
	switch x := v.(type) {
	case Struct:
		n := Struct{T: x.T, F: make([]*Cell, len(x.F))}
		for i, c := range x.F {
			n.F[i] = copyCell(c)
		}
		return n
	case Array:
		n := Array{T: x.T, E: make([]*Cell, len(x.E))}
		for i, c := range x.E {
			n.E[i] = copyCell(c)
		}
		return n
	}
	return v
}

func copyCell(c *Cell) *Cell {
	if c.lazy != nil {
		// share the initialiser: keys are canonical, so both copies denote
		// the same symbols
		return &Cell{T: c.T, Name: c.Name, lazy: c.lazy}
	}
	return &Cell{V: copyVal(c.V), T: c.T, Name: c.Name}
}

// keyOf renders a canonical key for a value (used to key atoms by
// expression, not by SSA register).
func keyOf(v Val) string {
	switch x := v.(type) {
	case Konst:
		if x.V == nil {
			return "nil"
		}
		return x.V.ExactString()
	case SymStr:
		return x.Key
	case SymInt:
		return x.Key
	case LazyBool:
		return x.Key
	case TimeV:
		return x.Key
	case Opaque:
		return x.Key
	case Ptr:
		if x.C.Name != "" {
			return "&" + x.C.Name
		}
		return fmt.Sprintf("&cell%p", x.C)
	case Iface:
		return keyOf(x.V)
	case Struct:
		var parts []string
		for _, c := range x.F {
			parts = append(parts, keyOf(c.Get()))
		}
		return "{" + strings.Join(parts, ",") + "}"
	case Slice:
		var parts []string
		for _, c := range x.E {
			parts = append(parts, keyOf(c.Get()))
		}
		return "[" + strings.Join(parts, ",") + "]"
	case LazySlice:
		return x.Key
	case Closure:
		return "closure:" + fnKey(x.Fn)
	case FuncV:
		return "func:" + fnKey(x.Fn)
	case Tuple:
		var parts []string
		for _, e := range x.E {
			parts = append(parts, keyOf(e))
		}
		return "(" + strings.Join(parts, ",") + ")"
	case MapV:
		return fmt.Sprintf("map%p", x.M)
	case BoundMethod:
		return keyOf(x.Recv) + "." + x.Name
	}
	return fmt.Sprintf("%T", v)
}

// ---------------------------------------------------------------------------
// symbolic inputs

// SymSpec bounds the lazily created symbolic structures.
type SymSpec struct {
	MaxLen    func(key string, elem types.Type) int // max length of a symbolic slice
	IntDomain func(key string) []int64              // domain of a symbolic integer
	// Override lets a rule fix the value of a named input (e.g. a constant
	// string, an opaque with a chosen key); return nil for the default.
	Override func(key string, t types.Type) Val
	// NonNil: pointers with these keys are never nil (documented
	// preconditions of the entry point).
	NonNil func(key string) bool
	// OpaqueLen: the length of an opaque slice is an uninterpreted integer
	// (arithmetic on it stays symbolic) instead of a symbol with a domain.
	OpaqueLen bool
}

// symOf creates the symbolic value of type t named key. Pointers decide
// nil/non-nil lazily (LazyBool key+"!=nil"), structs create their fields on
// first access, slices decide their length on first use.
func (in *Interp) symOf(t types.Type, key string) Val {
	if in.sym.Override != nil {
		if v := in.sym.Override(key, t); v != nil {
			return v
		}
	}
	if isTimeType(t) {
		return TimeV{key}
	}
	switch u := t.Underlying().(type) {
	case *types.Basic:
		switch {
		case u.Info()&types.IsBoolean != 0:
			return LazyBool{key}
		case u.Info()&types.IsString != 0:
			return SymStr{Key: key}
		case u.Info()&types.IsInteger != 0:
			return SymInt{key}
		}
		return Opaque{key, t}
	case *types.Struct:
		if n := namedOf(t); n != nil && !inModuleType(n) && !isTimeType(t) {
			// structs of other packages: only those the rules need are opened
			if !in.openExternal(n) {
				return Opaque{key, t}
			}
		}
		s := Struct{T: t}
		for i := 0; i < u.NumFields(); i++ {
			ft := u.Field(i).Type()
			fk := key + "." + u.Field(i).Name()
			s.F = append(s.F, &Cell{T: ft, Name: fk, lazy: func() Val { return in.symOf(ft, fk) }})
		}
		return s
	case *types.Pointer:
		if in.sym.NonNil != nil && in.sym.NonNil(key) {
			return in.symPointee(u.Elem(), key)
		}
		if in.truth(LazyBool{key + "!=nil"}) {
			return in.symPointee(u.Elem(), key)
		}
		return kNil
	case *types.Slice:
		return LazySlice{Key: key, Elem: u.Elem(), obj: &lazySliceObj{}}
	}
	return Opaque{key, t}
}

func (in *Interp) symPointee(elem types.Type, key string) Val {
	// one cell per key and run: two loads of the same pointer alias
	if c, ok := in.ptrCells[key]; ok {
		return Ptr{c}
	}
	c := &Cell{T: elem, Name: "*" + key, lazy: func() Val { return in.symOf(elem, "*"+key) }}
	// a nicer name for struct pointees: fields are key.Field
	if _, ok := elem.Underlying().(*types.Struct); ok {
		c = &Cell{T: elem, Name: key, lazy: func() Val { return in.symOf(elem, key) }}
	}
	in.ptrCells[key] = c
	return Ptr{c}
}

func (in *Interp) openExternal(n *types.Named) bool {
	if in.OpenExternal != nil {
		return in.OpenExternal(n)
	}
	return false
}

// materialise decides the length of a lazy slice and creates its elements.
func (in *Interp) materialise(ls LazySlice) Slice {
	if ls.obj.done {
		return ls.obj.s
	}
	max := 2
	if in.sym.MaxLen != nil {
		max = in.sym.MaxLen(ls.Key, ls.Elem)
	}
	n := in.chooseInt("len("+ls.Key+")", max+1)
	s := Slice{NonNil: n > 0}
	for i := 0; i < n; i++ {
		ek := fmt.Sprintf("%s[%d]", ls.Key, i)
		et := ls.Elem
		s.E = append(s.E, &Cell{T: et, Name: ek, lazy: func() Val { return in.symOf(et, ek) }})
	}
	ls.obj.done = true
	ls.obj.s = s
	return s
}

func sortedStrKeys(m map[string]string) []string {
	var out []string
	for k := range m {
		out = append(out, k)
	}
	sort.Strings(out)
	return out
}
