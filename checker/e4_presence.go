package main

// Presence-guard polarity (E4, a contradiction rule): where the emission of a
// value (a store into a wire/public field, a header write) is guarded by a
// test of that same value against its zero value, the emission sits on the
// NON-zero side. `if x.Name == "" { out.Name = x.Name }` emits exactly when
// there is nothing to emit and drops every real value — never intended.

import (
	"fmt"
	"go/token"
	"go/types"

	"golang.org/x/tools/go/ssa"
)

type originKey struct {
	base  ssa.Value // canonical base (param, alloc, free var, call) or the value itself
	field int       // -1: the value itself
}

func canonBase(v ssa.Value) ssa.Value {
	for i := 0; i < 4; i++ {
		switch x := v.(type) {
		case *ssa.UnOp:
			if x.Op == token.MUL {
				switch x.X.(type) {
				case *ssa.Alloc, *ssa.FreeVar, *ssa.Global:
					return x.X
				}
			}
			return v
		case *ssa.ChangeType:
			v = x.X
		case *ssa.Convert:
			v = x.X
		default:
			return v
		}
	}
	return v
}

// originsOf: the origins a value is a plain copy/conversion of (through
// conversions, interface boxing, and the receiver/first argument of calls,
// to a bounded depth).
func originsOf(v ssa.Value, depth int, out map[originKey]bool, throughCalls bool) {
	if v == nil || depth > 5 {
		return
	}
	switch x := v.(type) {
	case *ssa.Convert:
		originsOf(x.X, depth+1, out, throughCalls)
	case *ssa.ChangeType:
		originsOf(x.X, depth+1, out, throughCalls)
	case *ssa.MakeInterface:
		originsOf(x.X, depth+1, out, throughCalls)
	case *ssa.ChangeInterface:
		originsOf(x.X, depth+1, out, throughCalls)
	case *ssa.Extract:
		out[originKey{x.Tuple, x.Index}] = true
		if c, ok := x.Tuple.(*ssa.Call); ok && throughCalls {
			for _, a := range c.Common().Args {
				originsOf(a, depth+1, out, throughCalls)
			}
		}
	case *ssa.Field:
		out[originKey{canonBase(x.X), x.Field}] = true
	case *ssa.UnOp:
		if x.Op == token.MUL {
			if fa, ok := x.X.(*ssa.FieldAddr); ok {
				out[originKey{canonBase(fa.X), fa.Field}] = true
				return
			}
		}
		out[originKey{canonBase(v), -1}] = true
	case *ssa.Call:
		out[originKey{v, -1}] = true
		if throughCalls {
			for _, a := range x.Common().Args {
				originsOf(a, depth+1, out, throughCalls)
			}
		}
	case *ssa.Const:
	default:
		out[originKey{v, -1}] = true
	}
}

func isZeroConst(v ssa.Value) bool {
	k, ok := v.(*ssa.Const)
	if !ok {
		return false
	}
	if k.Value == nil {
		return true
	}
	s := k.Value.ExactString()
	return s == `""` || s == "0" || s == "false"
}

// zeroTest: if cond tests some value against zero, return that value and the
// successor index on which the value is KNOWN ZERO.
func zeroTest(cond ssa.Value) (ssa.Value, int, bool) {
	switch c := cond.(type) {
	case *ssa.BinOp:
		var x ssa.Value
		flipped := false
		if isZeroConst(c.Y) {
			x = c.X
		} else if isZeroConst(c.X) {
			x, flipped = c.Y, true
		} else {
			return nil, 0, false
		}
		if call, ok := x.(*ssa.Call); ok {
			if b, ok := call.Common().Value.(*ssa.Builtin); ok && b.Name() == "len" {
				x = call.Common().Args[0]
			}
		}
		op := c.Op
		if flipped {
			switch op {
			case token.LSS:
				op = token.GTR
			case token.GTR:
				op = token.LSS
			case token.LEQ:
				op = token.GEQ
			case token.GEQ:
				op = token.LEQ
			}
		}
		switch op {
		case token.EQL:
			return x, 0, true
		case token.NEQ:
			return x, 1, true
		case token.GTR: // x > 0 : false edge is "x <= 0" — zero for sizes/lengths
			return x, 1, true
		case token.LEQ:
			return x, 0, true
		}
	case *ssa.UnOp:
		if c.Op == token.NOT {
			if x, zi, ok := zeroTest(c.X); ok {
				return x, 1 - zi, true
			}
		}
	case *ssa.Call:
		if f := c.Common().StaticCallee(); f != nil && f.Name() == "IsZero" && len(c.Common().Args) == 1 {
			return c.Common().Args[0], 0, true
		}
	}
	return nil, 0, false
}

// presenceGuardRule examines every emission (store into a field of a type
// accepted by isEmitType, or Header.Set/Add value) in the library.
func presenceGuardRule(c *Ctx, r *RuleResult, inPkg func(string) bool, isEmitType func(*types.Named) bool) {
	p := c.P
	for _, fn := range p.ModFns {
		if !inLib(fn) || len(fn.Blocks) == 0 || fnPkg(fn) == nil || !inPkg(fnPkg(fn).Path()) {
			continue
		}
		type test struct {
			blk  *ssa.BasicBlock
			zero int
			orig map[originKey]bool
		}
		var tests []test
		for _, b := range fn.Blocks {
			cond := ifCond(b)
			if cond == nil {
				continue
			}
			if x, zi, ok := zeroTest(cond); ok {
				o := map[originKey]bool{}
				originsOf(x, 0, o, false)
				if len(o) > 0 {
					tests = append(tests, test{b, zi, o})
				}
			}
		}
		if len(tests) == 0 {
			continue
		}
		check := func(in ssa.Instruction, v ssa.Value, what string) {
			o := map[originKey]bool{}
			originsOf(v, 0, o, true)
			if len(o) == 0 {
				return
			}
			for _, t := range tests {
				same := false
				for k := range o {
					if t.orig[k] {
						same = true
					}
				}
				if !same {
					continue
				}
				onZero := edgeDominates(t.blk, t.zero, in.Block())
				onNonZero := edgeDominates(t.blk, 1-t.zero, in.Block())
				if !onZero && !onNonZero {
					continue
				}
				r.Role("guarded-emission")
				r.Ob(!onZero)
				r.Sample(map[string]interface{}{"function": fnKey(fn), "emission": what, "at": p.instrPos(in), "on_nonzero_side": !onZero})
				if onZero {
					r.Violation("presence-polarity|"+fnKey(fn)+"|"+what, p.instrPos(in), fmt.Sprintf("%s emits %s only on the branch where the very value it emits has just been tested to be zero/empty (test at %s): every real value is dropped", fnKey(fn), what, p.instrPos(t.blk.Instrs[len(t.blk.Instrs)-1])), nil)
				}
			}
		}
		eachInstr(fn, func(_ *ssa.BasicBlock, in ssa.Instruction) {
			switch x := in.(type) {
			case *ssa.Store:
				fa, ok := x.Addr.(*ssa.FieldAddr)
				if !ok {
					return
				}
				n := namedOf(fa.X.Type())
				if n == nil || !isEmitType(n) {
					return
				}
				check(in, x.Val, typeLabel(n)+"."+fieldName(fa.X.Type(), fa.Field))
			case ssa.CallInstruction:
				cc := x.Common()
				name := calleeName(cc)
				if (name == "(net/http.Header).Set" || name == "(net/http.Header).Add") && len(cc.Args) == 3 {
					if k, ok := constString(cc.Args[1]); ok {
						check(in, cc.Args[2], "header "+k)
					}
				}
			}
		})
	}
}
