package main

// Property sets (E2): which properties the servers register for a file, a
// collection and an object, as a function of the backend's value. A non-zero
// attribute must be registered; an attribute whose zero value means "not
// known" may be omitted when zero; a file's length is a real value even when
// it is 0 and must always be registered. (A may-flow cannot see an inverted or
// too narrow guard; the presence-guard rule sees only the inverted one.)

import (
	"fmt"
	"go/types"
	"sort"
	"strings"

	"golang.org/x/tools/go/ssa"
)

type propReq struct {
	local    string
	required func(env *OracleEnv) bool
	why      string
}

// respFnTaking: the function of pkg (reachable from root) with a *PropFind
// parameter and a *T parameter that returns (*internal.Response, error).
func respFnTaking(c *Ctx, root *ssa.Function, pkg, typeName string) *ssa.Function {
	var found *ssa.Function
	for _, fn := range c.P.ModFns {
		if fnPkg(fn) == nil || fnPkg(fn).Path() != pkg || len(fn.Blocks) == 0 || c.P.isControlFn(fn) {
			continue
		}
		sig := fn.Signature
		if sig.Results().Len() != 2 || !isNamedPtr(sig.Results().At(0).Type(), pkgInternal, "Response") {
			continue
		}
		hasPF, hasT := false, false
		for i := 0; i < sig.Params().Len(); i++ {
			if isNamedPtr(sig.Params().At(i).Type(), pkgInternal, "PropFind") {
				hasPF = true
			}
			if isNamedPtr(sig.Params().At(i).Type(), pkg, typeName) {
				hasT = true
			}
		}
		if hasPF && hasT {
			if found != nil {
				return nil // ambiguous
			}
			found = fn
		}
	}
	return found
}

func propSetTables(c *Ctx, pr *PropertyRun, prop string, pkgs []string) {
	p := c.P
	r := NewRule(prop, prop+".property-sets", "the properties registered for a file, a collection and an object, as a function of the backend's value: every non-zero attribute is registered, a file's length always (E2)")
	r.Exhaustive = true
	r.Bounds = "every combination of zero / non-zero attribute values"
	pr.Rules = append(pr.Rules, r)
	type target struct {
		pkg, typ string
		reqs     []propReq
	}
	always := func(*OracleEnv) bool { return true }
	strSet := func(key string) func(*OracleEnv) bool {
		return func(env *OracleEnv) bool { return !env.Eq(S(key), K("")) }
	}
	intSet := func(key string) func(*OracleEnv) bool {
		return func(env *OracleEnv) bool { return env.Int(key) > 0 }
	}
	timeSet := func(key string) func(*OracleEnv) bool {
		return func(env *OracleEnv) bool { return !env.IsZero(key) }
	}
	all := []target{
		{pkgWebdav, "FileInfo", []propReq{
			{"resourcetype", always, "every resource has a type"},
			{"getcontentlength", func(env *OracleEnv) bool { return !env.Bool("x.IsDir") }, "a file's length is a value even when it is 0"},
			{"getlastmodified", func(env *OracleEnv) bool { return !env.Bool("x.IsDir") && !env.IsZero("x.ModTime") }, "a known modification time"},
			{"getcontenttype", func(env *OracleEnv) bool { return !env.Bool("x.IsDir") && !env.Eq(S("x.MIMEType"), K("")) }, "a known content type"},
			{"getetag", func(env *OracleEnv) bool { return !env.Bool("x.IsDir") && !env.Eq(S("x.ETag"), K("")) }, "a known entity tag"},
		}},
		{pkgCaldav, "Calendar", []propReq{
			{"resourcetype", always, ""}, {"displayname", strSet("x.Name"), "a display name"}, {"calendar-description", strSet("x.Description"), "a description"},
			{"max-resource-size", intSet("x.MaxResourceSize"), "a size limit"}, {"supported-calendar-component-set", always, "the supported component set (VEVENT by default)"},
		}},
		{pkgCaldav, "CalendarObject", []propReq{
			{"calendar-data", always, "the object's content"}, {"getetag", strSet("x.ETag"), "a known entity tag"}, {"getlastmodified", timeSet("x.ModTime"), "a known modification time"},
			{"getcontentlength", intSet("x.ContentLength"), "a known length"},
		}},
		{pkgCarddav, "AddressBook", []propReq{
			{"resourcetype", always, ""}, {"displayname", strSet("x.Name"), "a display name"}, {"addressbook-description", strSet("x.Description"), "a description"},
			{"max-resource-size", intSet("x.MaxResourceSize"), "a size limit"},
		}},
		{pkgCarddav, "AddressObject", []propReq{
			{"address-data", always, "the object's content"}, {"getetag", strSet("x.ETag"), "a known entity tag"}, {"getlastmodified", timeSet("x.ModTime"), "a known modification time"},
			{"getcontentlength", intSet("x.ContentLength"), "a known length"},
		}},
	}
	for _, t := range all {
		keep := false
		for _, pk := range pkgs {
			if pk == t.pkg {
				keep = true
			}
		}
		if !keep {
			continue
		}
		root := p.MustFunc(r, t.pkg, "(*Handler).ServeHTTP")
		fn := respFnTaking(c, root, t.pkg, t.typ)
		if fn == nil {
			r.Undecided("propset|"+t.typ, "-", "no single function with a *PropFind and a *"+t.typ+" parameter returning (*internal.Response, error) found")
			continue
		}
		tt := t
		spec := DTXSpec{Name: "properties of " + t.typ, Entry: fn,
			Sym: SymSpec{NonNil: func(k string) bool { return true }, IntDomain: func(string) []int64 { return []int64{0, 7} },
				MaxLen: func(string, types.Type) int { return 1 }},
			Setup: func(in *Interp) {
				in.Models = append(in.Models, func(in *Interp, site ssa.CallInstruction, name string, args []Val) (Val, bool) {
					if name == pkgInternal+".NewPropFindResponse" {
						var names []string
						if mv, ok := args[2].(MapV); ok && mv.M != nil {
							for _, k := range mv.M.Keys {
								names = append(names, strings.Trim(keyOf(fieldVal(k, "Local")), `"`))
							}
						} else {
							in.undecided("property table is %T", args[2])
						}
						sort.Strings(names)
						in.effect("props", site.Pos(), kStr(strings.Join(names, " ")))
						return Tuple{[]Val{kNil, kNil}}, true
					}
					return nil, false
				}, httpServerModels)
			},
			Args: func(in *Interp) []Val {
				var args []Val
				for i, prm := range fn.Params {
					switch {
					case isNamedPtr(prm.Type(), tt.pkg, tt.typ):
						args = append(args, in.symOf(prm.Type(), "x"))
					case i == 0 && fn.Signature.Recv() != nil:
						args = append(args, in.symOf(prm.Type(), "b"))
					case isNamedPtr(prm.Type(), pkgInternal, "PropFind"):
						// the request: a property may be left out of one form
						// of answer (RFC 3253: not in allprop)
						args = append(args, in.symOf(prm.Type(), "propfind"))
					default:
						args = append(args, Opaque{prm.Name(), prm.Type()})
					}
				}
				return args
			},
			Observe: func(in *Interp, res Val, pan *panicOutcome) string {
				if pan != nil {
					return "panic"
				}
				for _, e := range in.Trace {
					if e.Name == "props" {
						return strings.Trim(keyOf(e.Args[0]), `"`)
					}
				}
				return "no response built"
			},
			Check: func(env *OracleEnv, obs *Observation) (bool, string, bool) {
				got := ""
				for _, e := range obs.Trace {
					if e.Name == "props" {
						got = strings.Trim(keyOf(e.Args[0]), `"`)
					}
				}
				have := map[string]bool{}
				for _, n := range strings.Fields(got) {
					have[n] = true
				}
				var missing []string
				for _, rq := range tt.reqs {
					if rq.required(env) && !have[rq.local] {
						missing = append(missing, fmt.Sprintf("<%s> (%s)", rq.local, rq.why))
					}
				}
				if len(missing) == 0 {
					return true, "", true
				}
				return false, "a table that also registers " + strings.Join(missing, ", "), true
			}}
		res := runDTX(c, spec)
		reportDTX(c, r, spec, res, t.typ)
		r.Role("decision-table")
		if res.Runs < 2 {
			r.Unresolved("the property-set table of " + t.typ + " has fewer than 2 rows")
		}
	}
	r.RequireRole("decision-table")
}

// freshPropTableRule: the property table handed to NewPropFindResponse for a
// resource is built for that resource. A table allocated once in front of a
// loop over the members of a listing and "refilled" for each of them keeps
// the entries of an earlier member that the current one does not set (a
// collection listed after a file reports that file's length and tag).
func freshPropTableRule(c *Ctx, pr *PropertyRun, prop string) {
	p := c.P
	r := NewRule(prop, prop+".fresh-property-table", "the property table given to NewPropFindResponse is allocated for that response: never a map made once outside the loop over the listed resources (E4)")
	pr.Rules = append(pr.Rules, r)
	npr := p.MustFunc(r, pkgInternal, "NewPropFindResponse")
	if npr == nil {
		return
	}
	callers := map[*ssa.Function][]ssa.CallInstruction{}
	for _, fn := range p.ModFns {
		if !inLib(fn) {
			continue
		}
		eachCall(fn, func(site ssa.CallInstruction) {
			if callee := site.Common().StaticCallee(); callee != nil {
				callers[callee] = append(callers[callee], site)
			}
		})
	}
	// check(v, at): v is the table (or flows into it) used by the instruction
	// `at` of at.Parent(); follow it to where it is made
	var check func(v ssa.Value, at ssa.Instruction, depth int, chain string)
	check = func(v ssa.Value, at ssa.Instruction, depth int, chain string) {
		if depth > 4 {
			return
		}
		switch x := v.(type) {
		case *ssa.MakeMap:
			r.Role("property-table")
			ub, mb := at.Block(), x.Block()
			shared := blockReaches(ub, ub) && !(mb == ub || inSameCycle(mb, ub))
			r.Ob(!shared)
			if shared {
				r.Violation("shared-property-table|"+fnKey(x.Parent()), p.instrPos(x), fmt.Sprintf("%s makes one property table outside the loop in which it is handed to %s: the entries set for one listed resource are still there for the next one, which then reports properties (length, type, tag) it does not have", fnKey(x.Parent()), chain), nil)
			}
		case *ssa.Phi:
			for _, e := range x.Edges {
				check(e, at, depth+1, chain)
			}
		case *ssa.ChangeType:
			check(x.X, at, depth+1, chain)
		case *ssa.Parameter:
			fn := x.Parent()
			idx := -1
			for i, prm := range fn.Params {
				if prm == x {
					idx = i
				}
			}
			for _, site := range callers[fn] {
				if idx >= 0 && idx < len(site.Common().Args) {
					check(site.Common().Args[idx], site, depth+1, fnKey(fn)+" -> "+chain)
				}
			}
		case *ssa.UnOp:
			// a captured or spilled local: its stores
			if al, ok := x.X.(*ssa.Alloc); ok {
				for _, ref := range refsOf(al) {
					if st, ok := ref.(*ssa.Store); ok && st.Addr == ssa.Value(al) {
						check(st.Val, at, depth+1, chain)
					}
				}
			}
		}
	}
	for _, site := range callers[npr] {
		if len(site.Common().Args) >= 3 {
			check(site.Common().Args[2], site, 0, "NewPropFindResponse")
		}
	}
	r.RequireRole("property-table")
}
