package main

// C06 — CalDAV filter evaluation follows RFC 4791 §9.7–9.9.
//
// Decided by decision-table extraction (E2), layer by layer, from the
// functions behind the exported caldav.Match, identified by their signatures;
// plus selection (Filter) and purity (E5). Not decided: recurring events
// (rrule-go), text comparison on real strings, multi-valued properties.

import (
	"fmt"
	"go/types"
	"sort"
	"strings"

	"golang.org/x/tools/go/ssa"
)

func init() { register("C06", runC06) }

type c06Fns struct {
	match, compFilter, propFilter, paramFilter, textMatch, compRange, propRange *ssa.Function
}

func isNamedPtr(t types.Type, pkg, name string) bool {
	p, ok := t.(*types.Pointer)
	return ok && isNamed(p.Elem(), pkg, name)
}

// c06Resolve identifies the helpers by what they take (never by name).
func c06Resolve(c *Ctx, root *ssa.Function) c06Fns {
	var f c06Fns
	seen := map[*ssa.Function]bool{root: true}
	work := []*ssa.Function{root}
	for len(work) > 0 {
		fn := work[0]
		work = work[1:]
		eachCall(fn, func(site ssa.CallInstruction) {
			g := site.Common().StaticCallee()
			if g == nil || !c.P.InModule(g) || seen[g] || len(g.Blocks) == 0 {
				return
			}
			seen[g] = true
			work = append(work, g)
			ps := g.Params
			switch {
			// (filters may be taken by value or by pointer; the evaluators
			// are met in the order Match reaches them: the root one first)
			case len(ps) == 2 && isNamedOrPtr(ps[0].Type(), pkgCaldav, "CompFilter") && isNamedPtr(ps[1].Type(), pkgIcal, "Component"):
				if f.match == nil {
					f.match = g
				} else if f.compFilter == nil && g != f.match {
					f.compFilter = g
				}
			case len(ps) == 2 && isNamedOrPtr(ps[0].Type(), pkgCaldav, "PropFilter") && isNamedPtr(ps[1].Type(), pkgIcal, "Component"):
				f.propFilter = g
			case len(ps) == 2 && isNamedOrPtr(ps[0].Type(), pkgCaldav, "ParamFilter") && isNamedPtr(ps[1].Type(), pkgIcal, "Prop"):
				f.paramFilter = g
			case len(ps) == 2 && isNamedOrPtr(ps[0].Type(), pkgCaldav, "TextMatch"):
				f.textMatch = g
			case len(ps) == 3 && isTimeType(ps[0].Type()) && isTimeType(ps[1].Type()) && isNamedPtr(ps[2].Type(), pkgIcal, "Component"):
				f.compRange = g
			case len(ps) == 3 && isTimeType(ps[0].Type()) && isTimeType(ps[1].Type()) && isNamedPtr(ps[2].Type(), pkgIcal, "Prop"):
				f.propRange = g
			}
		})
	}
	return f
}

func runC06(c *Ctx, pr *PropertyRun) {
	p := c.P
	pr.Explanation = "Decided by extracting decision tables from the SSA of the current source (abstract interpretation over finite predicate domains; nothing is executed), one per layer of the evaluator behind caldav.Match, each compared with the corresponding clause of a reference evaluator written from RFC 4791 §9.7–9.9 as quoted in the statement: " +
		"(1) time-range of a non-recurring VEVENT over every weak ordering (all equalities included) of range start, range end, DTSTART and DTEND with DTEND >= DTSTART, and the open-ended forms; the property time-range over {start, end, value}; (2) polarity: component filter at the root and at child level (<= 2 children, <= 2 nested comp-filters and prop-filters, each sub-result true/false/error), property filter (presence, is-not-defined, time-range, text-match, <= 2 param-filters), parameter filter, text-match with negate-condition; (3) selection: Filter returns exactly the matching objects in input order, the input for a nil query; (4) purity (E5). " +
		"NOT decided: recurring events (delegated to rrule-go), text comparison on real strings and collations, multi-valued properties, filters nested deeper than the layers compose."
	pr.Assumptions = append(pr.Assumptions, "go-ical accessors are modelled: Props.Get = presence atom, Params.Get = opaque string, DateTimeStart/End and Prop.DateTime = (instant symbol, failure atom), RecurrenceSet = (nil/non-nil atom, failure atom)",
		"the RFC grammar's side constraints define the domain: a range has start < end when both are set; DTEND >= DTSTART; is-not-defined excludes every other child; a prop-filter has a range or a text-match, not both")
	pr.Trusted = append(pr.Trusted, "golang.org/x/tools/go/ssa v0.29.0", "my reading of RFC 4791 §9.9's VEVENT rows")

	tr := NewRule("C06", "C06.timerange", "the time-range verdict over every weak ordering of {start, end, DTSTART, DTEND} (non-recurring VEVENT) and of {start, end, value} (property) equals RFC 4791 §9.9 (E2, weak-order domain)")
	tr.Exhaustive = true
	pol := NewRule("C06", "C06.polarity", "component, property and parameter filters with is-not-defined and negate-condition evaluate as the statement says, layer by layer (E2)")
	pol.Exhaustive = true
	sel := NewRule("C06", "C06.select", "Filter returns exactly the matching objects in input order and the input for a nil query (E2)")
	sel.Exhaustive = true
	pure := NewRule("C06", "C06.pure", "Filter/Match and their in-module callees write only to locally allocated memory (E5)")
	pr.Rules = append(pr.Rules, tr, pol, sel, pure)
	timeEqualityRule(c, pr, "C06")

	root := p.MustFunc(pol, pkgCaldav, "Match")
	if root == nil {
		return
	}
	f := c06Resolve(c, root)
	missing := []string{}
	for n, g := range map[string]*ssa.Function{"root evaluator (CompFilter,*Component)": f.match, "child evaluator (CompFilter,*Component)": f.compFilter, "(PropFilter,*Component)": f.propFilter,
		"(ParamFilter,*Prop)": f.paramFilter, "(TextMatch,string)": f.textMatch, "(time,time,*Component)": f.compRange, "(time,time,*Prop)": f.propRange} {
		if g == nil {
			missing = append(missing, n)
		}
	}
	if len(missing) > 0 {
		pol.Undecided("layers", p.Pos(root.Pos()), "the evaluator behind caldav.Match no longer decomposes into the layers the tables are extracted from (not found by signature: "+strings.Join(missing, "; ")+")")
		return
	}
	pol.Note("layers: root=%s child=%s prop=%s param=%s text=%s comprange=%s proprange=%s", fnKey(f.match), fnKey(f.compFilter), fnKey(f.propFilter), fnKey(f.paramFilter), fnKey(f.textMatch), fnKey(f.compRange), fnKey(f.propRange))

	run := func(r *RuleResult, spec DTXSpec, minRows int) {
		spec = acceptErrTrue(spec)
		res := runDTX(c, spec)
		reportDTX(c, r, spec, res, spec.Name)
		if yieldsErrTrue(res) {
			helperErrTrue[spec.Entry] = true
		}
		r.Role("decision-table")
		r.Count("rows_"+spec.Name, res.Runs)
		if res.Runs < minRows {
			r.Unresolved(fmt.Sprintf("decision table %s has %d rows, fewer than the %d expected: the function no longer looks at its input", spec.Name, res.Runs, minRows))
		}
	}
	run(tr, c06CompRange(c, f), 30)
	// the recurring branch: which window of the recurrence set decides
	rw := NewRule("C06", "C06.recurring-window", "for a recurring event the verdict must be 'some instance overlaps the range' (RFC 4791 §9.9: instance start < range end and instance end > range start); what the code asks the recurrence set is extracted from the table (E2)")
	pr.Rules = append(pr.Rules, rw)
	{
		res := runDTX(c, c06CompRange(c, f))
		windows := map[string]string{}
		for _, l := range res.Leaves {
			for _, e := range l.Trace {
				if e.Name == "Between" {
					windows[strings.Trim(keyOf(e.Args[0]), `"`)] = p.Pos(e.Pos)
				}
			}
		}
		var ws []string
		for w := range windows {
			ws = append(ws, w)
		}
		sort.Strings(ws)
		for _, w := range ws {
			rw.Role("recurrence-window")
			rw.Ob(false)
			if w == "instances-between(start,end,inclusive=true)" {
				rw.Violation("recurring-window|instance START times in [start, end]", windows[w], "a recurring event is matched iff an instance STARTS within [range start, range end], both bounds inclusive: the length of the instances is ignored, so an instance that began before the range and reaches into it is not matched, and an instance beginning exactly at the range end is (RFC 4791 §9.9 requires start < DTEND and end > DTSTART per instance)", nil)
			} else {
				rw.Violation("recurring-window|"+w, windows[w], "a recurring event is matched on "+w+": whether this is 'some instance overlaps the half-open range' cannot be read off the window alone — the instances' length and the strictness of both bounds must enter the verdict (RFC 4791 §9.9)", nil)
			}
		}
		rw.RequireRole("recurrence-window")
	}
	run(tr, c06PropRange(c, f), 8)
	run(pol, c06Text(c, f), 4)
	run(pol, c06Param(c, f), 4)
	run(pol, c06Prop(c, f), 10)
	run(pol, c06Child(c, f), 8)
	run(pol, c06Root(c, root, f), 8)
	if fl := p.MustFunc(sel, pkgCaldav, "Filter"); fl != nil {
		run(sel, c06Filter(c, fl, root), 10)
	}
	purityRule(c, pure, pkgCaldav, []string{"Match", "Filter"})
}

func icalModelsFull(in *Interp, site ssa.CallInstruction, name string, args []Val) (Val, bool) {
	res := site.Common().Signature().Results()
	failing := func(k string) Val {
		return in.mkErr(&ErrObj{Kind: "ext", Msg: SymStr{Key: "error(" + k + ")"}})
	}
	switch name {
	case "(" + pkgIcal + ".Props).Get":
		k := keyOf(args[0]) + "[" + keyOf(args[1]) + "]"
		in.effect("Props.Get", site.Pos(), args[1])
		if in.truth(LazyBool{"has(" + k + ")"}) {
			return in.symPointee(res.At(0).Type().(*types.Pointer).Elem(), k), true
		}
		return kNil, true
	case "(" + pkgIcal + ".Params).Get":
		in.effect("Params.Get", site.Pos(), args[1])
		return SymStr{Key: keyOf(args[0]) + "[" + keyOf(args[1]) + "]"}, true
	case "(*" + pkgIcal + ".Component).RecurrenceSet":
		k := "rset(" + keyOf(args[0]) + ")"
		if in.truth(LazyBool{"fails:" + k}) {
			return Tuple{[]Val{kNil, failing(k)}}, true
		}
		if in.truth(LazyBool{"recurring(" + keyOf(args[0]) + ")"}) {
			// a non-nil set (its nil-ness is the `recurring` atom, not a second one)
			et := res.At(0).Type().(*types.Pointer).Elem()
			return Tuple{[]Val{Ptr{&Cell{V: Opaque{k, et}, T: et, Name: k}}, kNil}}, true
		}
		return Tuple{[]Val{kNil, kNil}}, true
	case "(*github.com/teambition/rrule-go.Set).Between":
		// the window the recurrence set is asked about: the verdict of the
		// recurring branch is an uninterpreted function of exactly these
		// three arguments
		w := "instances-between(" + keyOf(args[1]) + "," + keyOf(args[2]) + ",inclusive=" + keyOf(args[3]) + ")"
		in.effect("Between", site.Pos(), kStr(w))
		sl := Slice{}
		if in.truth(LazyBool{w}) {
			tt := res.At(0).Type().(*types.Slice).Elem()
			sl = Slice{NonNil: true, E: []*Cell{{V: TimeV{"instance"}, T: tt}}}
		}
		return sl, true
	case "(" + pkgIcal + ".Event).DateTimeStart", "(*" + pkgIcal + ".Event).DateTimeStart":
		if in.truth(LazyBool{"fails:DTSTART"}) {
			return Tuple{[]Val{TimeV{"ZERO"}, failing("DTSTART")}}, true
		}
		return Tuple{[]Val{TimeV{"DTSTART"}, kNil}}, true
	case "(" + pkgIcal + ".Event).DateTimeEnd", "(*" + pkgIcal + ".Event).DateTimeEnd":
		if in.truth(LazyBool{"fails:DTEND"}) {
			return Tuple{[]Val{TimeV{"ZERO"}, failing("DTEND")}}, true
		}
		return Tuple{[]Val{TimeV{"DTEND"}, kNil}}, true
	case "(*" + pkgIcal + ".Prop).DateTime":
		if in.truth(LazyBool{"fails:value"}) {
			return Tuple{[]Val{TimeV{"ZERO"}, failing("value")}}, true
		}
		return Tuple{[]Val{TimeV{"value"}, kNil}}, true
	}
	return nil, false
}

func openIcal(n *types.Named) bool {
	if n.Obj().Pkg().Path() != pkgIcal {
		return false
	}
	switch n.Obj().Name() {
	case "Calendar", "Component", "Prop", "Event":
		return true
	}
	return false
}

func lenDomain(key string) []int64 {
	if strings.HasPrefix(key, "len(") {
		return []int64{0, 1}
	}
	return nil
}

func boolObserve(in *Interp, res Val, pan *panicOutcome) string {
	if pan != nil {
		return "panic"
	}
	return describeVal(in, res)
}

// ---- time ranges

func c06CompRange(c *Ctx, f c06Fns) DTXSpec {
	fn := f.compRange
	return DTXSpec{
		Name: "comp-time-range", Entry: fn,
		Sym: SymSpec{NonNil: func(string) bool { return true }, IntDomain: lenDomain,
			Override: func(key string, t types.Type) Val {
				if key == "comp.Name" {
					return nil
				}
				return nil
			}},
		Setup: func(in *Interp) {
			in.Models = append(in.Models, icalModelsFull)
			in.OpenExternal = openIcal
		},
		Args: func(in *Interp) []Val {
			return []Val{TimeV{"start"}, TimeV{"end"}, in.symOf(fn.Params[2].Type(), "comp")}
		},
		Observe: boolErrObserve,
		Oracle: func(env *OracleEnv) ([]string, bool) {
			if env.Bool("fails:rset(&comp)") {
				return []string{"error"}, true
			}
			if env.Bool("recurring(&comp)") {
				return nil, false // the verdict is rrule-go's; the WINDOW asked about is C06.recurring-window's
			}
			if !env.Eq(S("comp.Name"), K("VEVENT")) {
				return nil, false // the statement's interval rules are about events
			}
			if env.Bool("fails:DTSTART") {
				return []string{"error"}, true
			}
			if env.Bool("fails:DTEND") {
				return []string{"error"}, true
			}
			// domain: at least one bound set; start < end when both set;
			// DTSTART, DTEND are real instants with DTEND >= DTSTART
			startSet, endSet := !env.IsZero("start"), !env.IsZero("end")
			if !startSet && !endSet {
				return nil, false
			}
			if env.IsZero("DTSTART") || env.IsZero("DTEND") || env.Cmp("DTEND", "DTSTART") < 0 {
				return nil, false
			}
			if startSet && endSet && env.Cmp("start", "end") >= 0 {
				return nil, false
			}
			// RFC 4791 §9.9, VEVENT: DTEND > DTSTART: start < DTEND AND end > DTSTART;
			// zero length: start <= DTSTART AND end > DTSTART; an unset bound is infinite.
			var a, b bool
			if env.Cmp("DTEND", "DTSTART") > 0 {
				a = !startSet || env.Cmp("start", "DTEND") < 0
			} else {
				a = !startSet || env.Cmp("start", "DTSTART") <= 0
			}
			b = !endSet || env.Cmp("end", "DTSTART") > 0
			return []string{map[bool]string{true: "true", false: "false"}[a && b]}, true
		},
	}
}

func c06PropRange(c *Ctx, f c06Fns) DTXSpec {
	fn := f.propRange
	return DTXSpec{
		Name: "prop-time-range", Entry: fn,
		Sym: SymSpec{NonNil: func(string) bool { return true }},
		Setup: func(in *Interp) {
			in.Models = append(in.Models, icalModelsFull)
			in.OpenExternal = openIcal
		},
		Args: func(in *Interp) []Val {
			return []Val{TimeV{"start"}, TimeV{"end"}, in.symOf(fn.Params[2].Type(), "field")}
		},
		Observe: boolErrObserve,
		Oracle: func(env *OracleEnv) ([]string, bool) {
			if env.Bool("fails:value") {
				return []string{"error"}, true
			}
			startSet, endSet := !env.IsZero("start"), !env.IsZero("end")
			if (!startSet && !endSet) || env.IsZero("value") {
				return nil, false
			}
			if startSet && endSet && env.Cmp("start", "end") >= 0 {
				return nil, false
			}
			ok := (!startSet || env.Cmp("start", "value") <= 0) && (!endSet || env.Cmp("value", "end") < 0)
			return []string{map[bool]string{true: "true", false: "false"}[ok]}, true
		},
	}
}

// ---- polarity layers

func c06Text(c *Ctx, f c06Fns) DTXSpec {
	fn := f.textMatch
	return DTXSpec{
		Name: "text-match", Entry: fn,
		Sym:   SymSpec{},
		Setup: func(in *Interp) { in.Models = append(in.Models, predicateModels) },
		Args: func(in *Interp) []Val {
			return []Val{in.symOf(fn.Params[0].Type(), "txt"), SymStr{Key: "value"}}
		},
		Observe: boolObserve,
		Oracle: func(env *OracleEnv) ([]string, bool) {
			ok := env.Pred("strings.Contains", "value", "txt.Text") != env.Bool("txt.NegateCondition")
			return []string{map[bool]string{true: "true", false: "false"}[ok]}, true
		},
	}
}

func modelBool(fn *ssa.Function, key func(args []Val) string) ModelFn {
	return func(in *Interp, site ssa.CallInstruction, name string, args []Val) (Val, bool) {
		if name != fullFnName(fn) {
			return nil, false
		}
		k := key(args)
		in.effect(fn.Name(), site.Pos(), kStr(k))
		return LazyBool{k}, true
	}
}

// helperErrTrue: helpers whose own table showed an error returned together
// with true (set bottom-up while the layers are run).
var helperErrTrue = map[*ssa.Function]bool{}

func model3(fn *ssa.Function, key func(args []Val) string) ModelFn {
	return func(in *Interp, site ssa.CallInstruction, name string, args []Val) (Val, bool) {
		if name != fullFnName(fn) {
			return nil, false
		}
		k := key(args)
		in.effect(fn.Name(), site.Pos(), kStr(k))
		return helperValued(in, k, helperErrTrue[fn]), true
	}
}

func structField0Key(v Val) string {
	switch s := v.(type) {
	case Struct:
		return keyOf(s.F[0].Get())
	case Ptr:
		// a filter taken by pointer
		if st, ok := s.C.Get().(Struct); ok && len(st.F) > 0 {
			return keyOf(st.F[0].Get())
		}
	}
	return keyOf(v)
}

func c06Param(c *Ctx, f c06Fns) DTXSpec {
	fn := f.paramFilter
	return DTXSpec{
		Name: "param-filter", Entry: fn,
		Sym: SymSpec{NonNil: func(k string) bool { return k == "field" || k == "filter" }},
		Setup: func(in *Interp) {
			in.Models = append(in.Models, icalModelsFull, modelBool(f.textMatch, func(a []Val) string { return "text(" + keyOf(a[1]) + ")" }))
			in.OpenExternal = openIcal
		},
		Args: func(in *Interp) []Val {
			return []Val{in.symOf(fn.Params[0].Type(), "filter"), in.symOf(fn.Params[1].Type(), "field")}
		},
		Observe: boolObserve,
		Oracle: func(env *OracleEnv) ([]string, bool) {
			present := !env.Eq(S("field.Params[filter.Name]"), K(""))
			notDef := env.Bool("filter.IsNotDefined")
			hasText := env.Bool("filter.TextMatch!=nil")
			if notDef && hasText {
				return nil, false // excluded by the grammar (and by the decoder)
			}
			var ok bool
			switch {
			case notDef:
				ok = !present
			case !present:
				ok = false
			case hasText:
				ok = env.Bool("text(field.Params[filter.Name])")
			default:
				ok = true
			}
			return []string{map[bool]string{true: "true", false: "false"}[ok]}, true
		},
	}
}

func c06Prop(c *Ctx, f c06Fns) DTXSpec {
	fn := f.propFilter
	return DTXSpec{
		Name: "prop-filter", Entry: fn,
		Sym: SymSpec{NonNil: func(k string) bool { return k == "comp" || k == "filter" }, MaxLen: func(string, types.Type) int { return 2 }},
		Setup: func(in *Interp) {
			in.Models = append(in.Models, icalModelsFull,
				modelBool(f.textMatch, func(a []Val) string { return "text(" + keyOf(a[1]) + ")" }),
				modelBool(f.paramFilter, func(a []Val) string { return "param(" + structField0Key(a[0]) + ")" }),
				model3(f.propRange, func(a []Val) string { return "range" }))
			in.OpenExternal = openIcal
		},
		Args: func(in *Interp) []Val {
			return []Val{in.symOf(fn.Params[0].Type(), "filter"), in.symOf(fn.Params[1].Type(), "comp")}
		},
		Observe: boolErrObserve,
		Oracle: func(env *OracleEnv) ([]string, bool) {
			present := env.Bool("has(comp.Props[filter.Name])")
			notDef := env.Bool("filter.IsNotDefined")
			hasRange := !env.IsZero("filter.Start") || !env.IsZero("filter.End")
			hasText := env.Bool("filter.TextMatch!=nil")
			np := env.Len("filter.ParamFilter", 2)
			if notDef && (hasRange || hasText || np > 0) {
				return nil, false
			}
			if hasRange && hasText {
				return nil, false
			}
			if !env.IsZero("filter.Start") && !env.IsZero("filter.End") && env.Cmp("filter.Start", "filter.End") >= 0 {
				return nil, false
			}
			if notDef {
				return []string{map[bool]string{true: "false", false: "true"}[present]}, true
			}
			if !present {
				return []string{"false"}, true
			}
			res := c07True
			strict := false
			and := func(v int) {
				if v == c07Err {
					strict = true
				}
				if res == c07True {
					res = v
				}
			}
			for i := 0; i < np; i++ {
				and(map[bool]int{true: c07True, false: c07False}[env.Bool(fmt.Sprintf("param(filter.ParamFilter[%d].Name)", i))])
			}
			if hasRange {
				and(helperOutcome(env, "range"))
			} else if hasText {
				and(map[bool]int{true: c07True, false: c07False}[env.Bool("text(comp.Props[filter.Name].Value)")])
			}
			out := []string{c07Names[res]}
			if strict && res == c07False {
				out = append(out, "error") // order of evaluation among conjuncts is free
			}
			if res == c07Err {
				out = append(out, "false") // a false conjunct may be found first
				// only if some other conjunct is false
				anyFalse := false
				for i := 0; i < np; i++ {
					if !env.Bool(fmt.Sprintf("param(filter.ParamFilter[%d].Name)", i)) {
						anyFalse = true
					}
				}
				if !anyFalse {
					out = out[:1]
				}
			}
			return out, true
		},
	}
}

// child level: comp(f, P) over the children of P
func c06Child(c *Ctx, f c06Fns) DTXSpec {
	fn := f.compFilter
	nChildren := 2
	if c.Thorough() {
		nChildren = 3
	}
	childName := func(i int) string { return fmt.Sprintf("comp.Children[%d].Name", i) }
	return DTXSpec{
		Name: "comp-filter(child level)", Entry: fn,
		Sym: SymSpec{NonNil: func(string) bool { return true }, MaxLen: func(key string, _ types.Type) int {
			if key == "comp.Children" {
				return nChildren
			}
			return 1
		}},
		Setup: func(in *Interp) {
			in.Models = append(in.Models, icalModelsFull,
				model3(f.compRange, func(a []Val) string { return "range(" + keyOf(a[2]) + ")" }),
				model3(f.propFilter, func(a []Val) string { return "prop(" + structField0Key(a[0]) + "," + keyOf(a[1]) + ")" }))
			// nested component filters: every call of the child evaluator
			// made during the evaluation is the next nesting level, an atom
			// (the entry itself is started by the driver, not dispatched)
			in.Models = append(in.Models, model3(f.compFilter, func(a []Val) string { return "sub(" + structField0Key(a[0]) + "," + keyOf(a[1]) + ")" }))
			in.OpenExternal = openIcal
		},
		Args: func(in *Interp) []Val {
			return []Val{in.symOf(fn.Params[0].Type(), "filter"), in.symOf(fn.Params[1].Type(), "comp")}
		},
		Observe: boolErrObserve,
		Oracle: func(env *OracleEnv) ([]string, bool) {
			notDef := env.Bool("filter.IsNotDefined")
			hasRange := !env.IsZero("filter.Start") || !env.IsZero("filter.End")
			nc := env.Len("filter.Comps", 1)
			np := env.Len("filter.Props", 1)
			if notDef && (hasRange || nc > 0 || np > 0) {
				return nil, false
			}
			if !env.IsZero("filter.Start") && !env.IsZero("filter.End") && env.Cmp("filter.Start", "filter.End") >= 0 {
				return nil, false
			}
			n := env.Len("comp.Children", nChildren)
			anyErr := false
			exists := false
			sawErrFirst := false
			for i := 0; i < n; i++ {
				if !env.Eq(S(childName(i)), S("filter.Name")) {
					continue
				}
				if notDef {
					return []string{"false"}, true
				}
				ck := fmt.Sprintf("&comp.Children[%d]", i)
				body := c07True
				and := func(v int) {
					if body == c07True {
						body = v
					}
				}
				if hasRange {
					and(helperOutcome(env, "range("+ck+")"))
				}
				for j := 0; j < nc; j++ {
					and(helperOutcome(env, fmt.Sprintf("sub(filter.Comps[%d].Name,%s)", j, ck)))
				}
				for j := 0; j < np; j++ {
					and(helperOutcome(env, fmt.Sprintf("prop(filter.Props[%d].Name,%s)", j, ck)))
				}
				switch body {
				case c07Err:
					anyErr = true
					if !exists {
						sawErrFirst = true
					}
				case c07True:
					exists = true
				}
			}
			if notDef {
				return []string{"true"}, true
			}
			switch {
			case sawErrFirst:
				out := []string{"error"}
				if exists {
					out = append(out, "true")
				}
				return out, true
			case exists:
				out := []string{"true"}
				if anyErr {
					out = append(out, "error")
				}
				return out, true
			case anyErr:
				return []string{"error"}, true
			}
			return []string{"false"}, true
		},
	}
}

// root level: Match(query, co)
func c06Root(c *Ctx, root *ssa.Function, f c06Fns) DTXSpec {
	return DTXSpec{
		Name: "comp-filter(root level)", Entry: root,
		Sym: SymSpec{NonNil: func(string) bool { return true }, MaxLen: func(key string, _ types.Type) int { return 1 }},
		Setup: func(in *Interp) {
			in.Models = append(in.Models, icalModelsFull,
				model3(f.compRange, func(a []Val) string { return "range" }),
				model3(f.propFilter, func(a []Val) string { return "prop(" + structField0Key(a[0]) + ")" }),
				model3(f.compFilter, func(a []Val) string { return "sub(" + structField0Key(a[0]) + ")" }))
			in.OpenExternal = openIcal
		},
		Args: func(in *Interp) []Val {
			return []Val{in.symOf(root.Params[0].Type(), "query"), in.symOf(root.Params[1].Type(), "co")}
		},
		Observe: boolErrObserve,
		Oracle: func(env *OracleEnv) ([]string, bool) {
			notDef := env.Bool("query.IsNotDefined")
			hasRange := !env.IsZero("query.Start") || !env.IsZero("query.End")
			nc := env.Len("query.Comps", 1)
			np := env.Len("query.Props", 1)
			if notDef && (hasRange || nc > 0 || np > 0) {
				return nil, false
			}
			if !env.IsZero("query.Start") && !env.IsZero("query.End") && env.Cmp("query.Start", "query.End") >= 0 {
				return nil, false
			}
			if !env.Eq(S("co.Data.Component.Name"), S("query.Name")) {
				return []string{map[bool]string{true: "true", false: "false"}[notDef]}, true
			}
			if notDef {
				return []string{"false"}, true
			}
			body := c07True
			and := func(v int) {
				if body == c07True {
					body = v
				}
			}
			if hasRange {
				and(helperOutcome(env, "range"))
			}
			for j := 0; j < nc; j++ {
				and(helperOutcome(env, fmt.Sprintf("sub(query.Comps[%d].Name)", j)))
			}
			for j := 0; j < np; j++ {
				and(helperOutcome(env, fmt.Sprintf("prop(query.Props[%d].Name)", j)))
			}
			return []string{c07Names[body]}, true
		},
	}
}

func c06Filter(c *Ctx, fn, matchFn *ssa.Function) DTXSpec {
	nObjs := 3
	if c.Thorough() {
		nObjs = 5
	}
	return DTXSpec{
		Name: "caldav.Filter", Entry: fn,
		Sym: SymSpec{MaxLen: func(key string, _ types.Type) int {
			if key == "cos" {
				return nObjs
			}
			return 1
		}},
		Setup: func(in *Interp) {
			in.Models = append(in.Models, func(in *Interp, site ssa.CallInstruction, name string, args []Val) (Val, bool) {
				if name != fullFnName(matchFn) {
					// ... or the per-object evaluator Match itself delegates
					// to: (filter, *CalendarObject) -> (bool, error)
					callee := site.Common().StaticCallee()
					if callee == nil || !inLib(callee) || len(callee.Params) != 2 || !isNamedPtr(callee.Params[1].Type(), pkgCaldav, "CalendarObject") || !isNamedOrPtr(callee.Params[0].Type(), pkgCaldav, "CompFilter") {
						return nil, false
					}
					res := callee.Signature.Results()
					if res.Len() != 2 || !isErrorType(res.At(1).Type()) {
						return nil, false
					}
				}
				id := keyOf(args[1])
				if p, ok := args[1].(Ptr); ok {
					if s, ok := p.C.Get().(Struct); ok {
						id = keyOf(s.F[0].Get())
					}
				}
				return helperValued(in, "match("+id+")", helperErrTrue[matchFn]), true
			})
		},
		Args: func(in *Interp) []Val {
			return []Val{in.symOf(fn.Params[0].Type(), "query"), in.symOf(fn.Params[1].Type(), "cos")}
		},
		Observe: func(in *Interp, res Val, pan *panicOutcome) string {
			if pan != nil {
				return "panic"
			}
			t := res.(Tuple)
			if k, ok := t.E[1].(Konst); !ok || k.V != nil {
				return "error"
			}
			switch s := t.E[0].(type) {
			case LazySlice:
				return "input:" + s.Key
			case Slice:
				var ids []string
				for _, e := range s.E {
					if st, ok := e.Get().(Struct); ok {
						ids = append(ids, keyOf(st.F[0].Get()))
					} else {
						ids = append(ids, keyOf(e.Get()))
					}
				}
				return "[" + strings.Join(ids, " ") + "]"
			case Konst:
				return "[]"
			}
			return keyOf(t.E[0])
		},
		Oracle: func(env *OracleEnv) ([]string, bool) {
			if !env.Bool("query!=nil") {
				return []string{"input:cos"}, true
			}
			n := env.Len("cos", nObjs)
			var out []string
			for i := 0; i < n; i++ {
				id := fmt.Sprintf("cos[%d].Path", i)
				switch helperOutcome(env, "match("+id+")") {
				case c07Err:
					return []string{"error"}, true
				case c07True:
					out = append(out, id)
				}
			}
			return []string{"[" + strings.Join(out, " ") + "]"}, true
		},
	}
}

func isNamedOrPtr(t types.Type, pkg, name string) bool {
	return isNamed(t, pkg, name) || isNamedPtr(t, pkg, name)
}
