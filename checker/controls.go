package main

// Positive controls, injected as a virtual file into the library packages via
// packages.Config.Overlay (nothing is written to /repo). Each control is a
// construct that a rule MUST report; reports located in the control file never
// count towards the verdict, but a missing one fails the check as broken.

import _ "embed"

//go:embed controls/webdav.go.txt
var controlWebdav string

//go:embed controls/internal.go.txt
var controlInternal string

//go:embed controls/caldav.go.txt
var controlCaldav string

//go:embed controls/carddav.go.txt
var controlCarddav string

var controlSources = map[string]string{
	pkgWebdav:   controlWebdav,
	pkgInternal: controlInternal,
	pkgCaldav:   controlCaldav,
	pkgCarddav:  controlCarddav,
}
