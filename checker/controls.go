package main

// Positive controls, injected as a virtual file into the library packages via
// packages.Config.Overlay (nothing is written to /repo). Each control is a
// construct that a rule MUST report; reports located in the control file never
// count towards the verdict, but a missing one fails the check as broken.

var controlSources = map[string]string{
	pkgWebdav:   controlWebdav,
	pkgInternal: controlInternal,
	pkgCaldav:   controlCaldav,
	pkgCarddav:  controlCarddav,
}

const controlWebdav = `package webdav
`

const controlInternal = `package internal
`

const controlCaldav = `package caldav
`

const controlCarddav = `package carddav
`
