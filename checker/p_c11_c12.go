package main

// C11 — PROPFIND answers account for every property and respect Depth.
// C12 — CalDAV/CardDAV routing and discovery work under any mount prefix.
//
// Both are decided by decision tables (E2) extracted from the adapters
// (caldav.backend / carddav.backend / webdav.backend) and from the PROPFIND
// core (internal.NewPropFindResponse, Response.EncodeProp), plus structural
// rules. The segment-counting arithmetic of resourceTypeAtPath over all
// prefixes and spellings is string arithmetic at run time: not decided; the
// tables take the classified level as an atom.

import (
	"go/token"
	"fmt"
	"go/types"
	"sort"
	"strconv"
	"strings"

	"golang.org/x/tools/go/ssa"
)

func init() {
	register("C11", runC11)
	register("C12", runC12)
}

type davNames struct {
	pkg, short                                      string
	homeSetPath, listColl, getColl, getObj, listObj string
	createColl, putObj                              string
	collType, objType                               string
	deleteOps                                       map[int]string // level -> backend op ("" = refused 403); -1 key = every level
}

func isIntKind(n *types.Named) bool {
	b, ok := n.Underlying().(*types.Basic)
	return ok && b.Info()&types.IsInteger != 0
}

func davNamesOf(pkg string) davNames {
	if pkg == pkgCaldav {
		return davNames{pkg: pkg, short: "caldav", homeSetPath: "CalendarHomeSetPath", listColl: "ListCalendars", getColl: "GetCalendar", getObj: "GetCalendarObject",
			listObj: "ListCalendarObjects", createColl: "CreateCalendar", putObj: "PutCalendarObject", collType: "Calendar", objType: "CalendarObject",
			deleteOps: map[int]string{-1: "DeleteCalendarObject"}}
	}
	return davNames{pkg: pkg, short: "carddav", homeSetPath: "AddressBookHomeSetPath", listColl: "ListAddressBooks", getColl: "GetAddressBook", getObj: "GetAddressObject",
		listObj: "ListAddressObjects", createColl: "CreateAddressBook", putObj: "PutAddressObject", collType: "AddressBook", objType: "AddressObject",
		deleteOps: map[int]string{3: "DeleteAddressBook", 4: "DeleteAddressObject"}}
}

var levelNames = []string{"root", "principal", "home-set", "collection", "object", "deeper"}

// adapterModels: the user backend (an opaque interface), the level
// classifier (an enum atom) and the response emitters (effects).
func adapterModels(c *Ctx, dn davNames, failing bool) ModelFn {
	p := c.P
	npr := p.Func(pkgInternal, "NewPropFindResponse")
	respT := p.NamedType(pkgInternal, "Response")
	collT := p.NamedType(dn.pkg, dn.collType)
	objT := p.NamedType(dn.pkg, dn.objType)
	return func(in *Interp, site ssa.CallInstruction, name string, args []Val) (Val, bool) {
		cc := site.Common()
		res := cc.Signature().Results()
		// the level classifier: a method of the adapter taking the path and
		// returning the package's resourceType
		if f := cc.StaticCallee(); f != nil && f.Signature.Recv() != nil && res.Len() == 1 {
			if n := namedOf(res.At(0).Type()); n != nil && !n.Obj().Exported() && n.Obj().Pkg().Path() == dn.pkg && isIntKind(n) {
				in.effect("classify", site.Pos(), args[len(args)-1])
				return kInt(int64(in.chooseLabeled("level", levelNames))), true
			}
		}
		if npr != nil && name == fullFnName(npr) {
			in.effect("emit", site.Pos(), args[0])
			return Tuple{[]Val{Ptr{&Cell{V: zeroOf(respT), T: respT}}, kNil}}, true
		}
		if cc.IsInvoke() && strings.HasSuffix(name, dn.short+".Backend)."+cc.Method.Name()) {
			m := cc.Method.Name()
			var shown []Val
			for _, a := range args[2:] {
				switch a.(type) {
				case SymStr, Konst:
					shown = append(shown, a)
				case Ptr:
					if pth := fieldVal(a, "Path"); pth != nil {
						shown = append(shown, pth)
					}
				}
			}
			in.effect("Backend."+m, site.Pos(), shown...)
			mkErr := func() Val {
				if failing && in.truth(LazyBool{"fails:" + m}) {
					return markerErr(in)
				}
				return kNil
			}
			switch m {
			case "CurrentUserPrincipal":
				return Tuple{[]Val{SymStr{Key: "principalPath"}, kNil}}, true
			case dn.homeSetPath:
				return Tuple{[]Val{SymStr{Key: "homeSetPath"}, kNil}}, true
			case dn.listColl:
				n := in.chooseInt("collections", scopeBound)
				s := Slice{NonNil: n > 0}
				for i := 0; i < n; i++ {
					k := fmt.Sprintf("coll%d", i)
					s.E = append(s.E, &Cell{T: collT, Name: k, lazy: func() Val { return in.symOf(collT, k) }})
				}
				return Tuple{[]Val{s, kNil}}, true
			case dn.listObj:
				n := in.chooseInt("objects("+keyOf(args[2])+")", 2)
				s := Slice{NonNil: n > 0}
				for i := 0; i < n; i++ {
					k := fmt.Sprintf("obj%d(%s)", i, keyOf(args[2]))
					s.E = append(s.E, &Cell{T: objT, Name: k, lazy: func() Val { return in.symOf(objT, k) }})
				}
				return Tuple{[]Val{s, kNil}}, true
			case dn.getColl:
				if e := mkErr(); !isNilVal(e) {
					return Tuple{[]Val{kNil, e}}, true
				}
				return Tuple{[]Val{in.symPointee(collT, "coll"), kNil}}, true
			case dn.getObj:
				if failing {
					switch in.chooseLabeled("getobj", []string{"ok", "404", "error"}) {
					case 1:
						he := p.NamedType(pkgInternal, "HTTPError")
						st := zeroOf(he).(Struct)
						st.F[0].Set(kInt(404))
						return Tuple{[]Val{kNil, Iface{Dyn: types.NewPointer(he), V: Ptr{&Cell{V: st, T: he}}}}}, true
					case 2:
						return Tuple{[]Val{kNil, markerErr(in)}}, true
					}
				}
				return Tuple{[]Val{in.symPointee(objT, "obj"), kNil}}, true
			}
			// mutating / other operations
			var out []Val
			for i := 0; i < res.Len(); i++ {
				t := res.At(i).Type()
				if isErrorType(t) {
					out = append(out, mkErr())
				} else if pt, ok := t.(*types.Pointer); ok {
					out = append(out, in.symPointee(pt.Elem(), "result"))
				} else {
					out = append(out, Opaque{"result", t})
				}
			}
			if len(out) == 1 {
				return out[0], true
			}
			return Tuple{out}, true
		}
		switch name {
		case pkgInternal + ".IsRequestBodyEmpty":
			return LazyBool{"body-empty"}, true
		case pkgInternal + ".DecodeXMLRequest":
			if in.truth(LazyBool{"fails:decode"}) {
				return markerErr(in), true
			}
			return kNil, true
		}
		if strings.HasSuffix(name, ".ResourceType).Is") {
			return LazyBool{"resourcetype-ok"}, true
		}
		return nil, false
	}
}

func effectNames(trace []Effect, prefix string) []string {
	var out []string
	for _, e := range trace {
		if strings.HasPrefix(e.Name, prefix) {
			out = append(out, e.String())
		}
	}
	return out
}

// scopeOracle: the resources in scope for a level, depth and ownership.
func scopeOracle(env *OracleEnv, level int, depth int64, nameOf func(string) string) ([]string, bool) {
	colls := func(withObjects bool) []string {
		var out []string
		n := env.ch.choose("collections", scopeBound, nil)
		for i := 0; i < n; i++ {
			ck := fmt.Sprintf("coll%d", i)
			out = append(out, "emit("+ck+".Path)")
			if withObjects {
				out = append(out, objsOf(env, ck+".Path")...)
			}
		}
		return out
	}
	switch level {
	case 0:
		// the root has no enumerable members: the principal's location is
		// backend-defined
		return []string{"emit(principalPath)"}, true
	case 1:
		if !env.Eq(S("r.URL.Path"), S("principalPath")) {
			return nil, true
		}
		out := []string{"emit(principalPath)"}
		if depth != 0 {
			out = append(out, "emit(homeSetPath)")
			if depth == -1 {
				out = append(out, colls(true)...)
			}
		}
		return out, true
	case 2:
		if !env.Eq(S("r.URL.Path"), S("homeSetPath")) {
			return nil, true
		}
		out := []string{"emit(homeSetPath)"}
		if depth != 0 {
			out = append(out, colls(depth == -1)...)
		}
		return out, true
	case 3:
		out := []string{"emit(coll.Path)"}
		if depth != 0 {
			out = append(out, objsOf(env, "coll.Path")...)
		}
		return out, true
	case 4:
		return []string{"emit(obj.Path)"}, true
	}
	return nil, true
}

func objsOf(env *OracleEnv, collPath string) []string {
	var out []string
	n := env.ch.choose("objects("+collPath+")", 2, nil)
	for i := 0; i < n; i++ {
		out = append(out, fmt.Sprintf("emit(obj%d(%s).Path)", i, collPath))
	}
	return out
}

var depthVals = []int64{0, 1, -1}

// scopeBound: collections and objects per collection range over [0, scopeBound)
// (quick: 0..1, thorough: 0..2)
var scopeBound = 2

func adapterSpec(c *Ctx, dn davNames, fn *ssa.Function, failing bool) DTXSpec {
	return DTXSpec{Name: dn.short + ".backend." + fn.Name(), Entry: fn,
		Sym: SymSpec{NonNil: func(k string) bool { return true },
			IntDomain: func(key string) []int64 {
				if strings.HasSuffix(key, "MaxResourceSize") || strings.HasSuffix(key, "ContentLength") {
					return []int64{0, 7}
				}
				return nil
			}},
		Setup: func(in *Interp) {
			in.Models = append(in.Models, adapterModels(c, dn, failing), httpServerModels)
			in.OpenExternal = openHTTPServer
			in.MaxRecursion = 3
		},
		Args: func(in *Interp) []Val {
			var args []Val
			for i, prm := range fn.Params {
				switch {
				case i == 0:
					args = append(args, in.symOf(prm.Type(), "b"))
				case isNamedPtr(prm.Type(), "net/http", "Request"):
					args = append(args, in.symOf(prm.Type(), "r"))
				case isNamed(prm.Type(), pkgInternal, "Depth"):
					args = append(args, kInt(depthVals[in.chooseLabeled("depth", []string{"0", "1", "infinity"})]))
				case isNamedPtr(prm.Type(), pkgInternal, "PropFind"):
					args = append(args, in.symPointee(prm.Type().(*types.Pointer).Elem(), "propfind"))
				default:
					args = append(args, Opaque{prm.Name(), prm.Type()})
				}
			}
			return args
		},
	}
}

// davScopeTables: the responses emitted by the adapters' PropFind per Depth,
// hierarchy level and ownership (C11.scope; C12 needs the same tables for
// "a PROPFIND addressed to a principal or home-set path other than the
// current user's exposes none of the current user's resources").
func davScopeTables(c *Ctx, pr *PropertyRun, prop string, withWebdav bool) {
	p := c.P
	if c.Thorough() {
		scopeBound = 3
	}
	scope := NewRule(prop, prop+".scope", "the responses emitted by the three adapters' PropFind as a function of Depth, hierarchy level and ownership equal the level table (E2)")
	scope.Exhaustive = true
	scope.Bounds = fmt.Sprintf("Depth in {0,1,infinity}; six levels; <= %d collection(s), <= 1 object per collection", scopeBound-1)
	pr.Rules = append(pr.Rules, scope)
	for _, pkg := range []string{pkgCaldav, pkgCarddav} {
		dn := davNamesOf(pkg)
		fn := p.MustFunc(scope, pkg, "(*backend).PropFind")
		if fn == nil {
			continue
		}
		spec := adapterSpec(c, dn, fn, false)
		spec.Observe = func(in *Interp, res Val, pan *panicOutcome) string {
			if pan != nil {
				return "panic"
			}
			return strings.Join(effectNames(in.Trace, "emit"), " ")
		}
		spec.Oracle = func(env *OracleEnv) ([]string, bool) {
			level := env.ch.choose("level", len(levelNames), nil)
			depth := depthVals[env.ch.choose("depth", 3, nil)]
			out, ok := scopeOracle(env, level, depth, nil)
			return []string{strings.Join(out, " ")}, ok
		}
		res := runDTX(c, spec)
		reportDTX(c, scope, spec, res, dn.short+".PropFind")
		scope.Role("decision-table")
		scope.Count("rows_"+dn.short, res.Runs)
		if res.Runs < 18 {
			scope.Unresolved("scope table of " + dn.short + " has fewer than 18 rows")
		}
	}
	if withWebdav {
		c11WebdavScope(c, scope)
	}
}

func runC11(c *Ctx, pr *PropertyRun) {
	p := c.P
	pr.Explanation = "Decided by decision tables extracted from the SSA of the current source (abstract interpretation; nothing is executed): (1) request forms: NewPropFindResponse refuses a propfind naming none of propname/allprop/prop with 400 and otherwise serves the form present; (2) accounting: for a prop request of up to 2 distinct names, each known/unknown/failing, exactly one EncodeProp per requested element — known: (200, value); getter error: (its status, empty element); unknown: (404, empty element) — propname lists every available name under 200 without values, allprop every available name with its value; Response.EncodeProp files each entry under the propstat of its status, one propstat per distinct status; " +
		"(3) scope: for the WebDAV, CalDAV and CardDAV adapters, the responses emitted as a function of Depth in {0, 1, infinity}, the hierarchy level and whether the path is the current user's: exactly the addressed resource, plus the next level for Depth >= 1, plus all lower levels for infinity; nothing for a foreign principal or home-set path; (4) the Depth header: absent = infinity, invalid = 400, a non-XML body must be empty and means allprop (the dispatch table shared with C01); (5) every success path of PROPFIND writes 207 before the body; (6) the principal helper is compared with the generic handler on (4). " +
		"NOT decided: duplicates in the request, well-formedness of the bytes produced by encoding/xml, arbitrary numbers of members (lists are bounded by 1-2)."
	pr.Assumptions = append(pr.Assumptions, "the user's Backend returns without error in the scope tables (error propagation is C13/C01's)", "collections and objects lists have at most one element each (the loop bodies are uniform)")
	pr.Trusted = append(pr.Trusted, "golang.org/x/tools/go/ssa v0.29.0")

	c11Accounting(c, pr)
	propSetTables(c, pr, "C11", []string{pkgWebdav, pkgCaldav, pkgCarddav})
	freshPropTableRule(c, pr, "C11")
	// which resources are in scope depends on the level the request path is
	// classified at (shared with C12.classifier)
	c12Classifier(c, pr, "C11")
	// the body is well-formed, namespace-correct XML: the structs it is
	// marshalled from agree with the RFC element tables and write no
	// unescaped text (shared with C10.schema)
	{
		sch := NewRule("C11", "C11.schema", "every wire struct of internal, webdav, caldav and carddav agrees with the RFC element tables (names, namespaces, attributes, children), EMPTY elements are presence-typed, and no field is written unescaped (,innerxml) (E6)")
		pr.Rules = append(pr.Rules, sch)
		checkSchema(p, sch, func(xs *xmlStruct) bool { return !strings.HasPrefix(xs.Named.Obj().Name(), "zzVerifControl") }, nil, nil)
		sch.RequireRole("wire-struct", "child-element")
	}
	addressableMarshalersRule(c, pr, "C11")
	eagerEncodingRule(c, pr, "C11")
	// property functions are run long after the table was built
	loopCaptureRule(c, pr, "C11")
	propfindErrorsPropagateRule(c, pr, "C11")

	davScopeTables(c, pr, "C11", true)

	// 207 before the body
	ms := NewRule("C11", "C11.207", "ServeMultiStatus writes 207 before the body and every successful PROPFIND/REPORT path ends in it (E2/E4)")
	pr.Rules = append(pr.Rules, ms)
	if fn := p.MustFunc(ms, pkgInternal, "ServeMultiStatus"); fn != nil {
		spec := DTXSpec{Name: "ServeMultiStatus", Entry: fn,
			Setup: func(in *Interp) { in.Models = append(in.Models, httpServerModels) },
			Args: func(in *Interp) []Val {
				return []Val{Opaque{"w", fn.Params[0].Type()}, Opaque{"ms", fn.Params[1].Type()}}
			},
			Observe: func(in *Interp, res Val, pan *panicOutcome) string {
				var seq []string
				for _, e := range in.Trace {
					if e.Name == "WriteHeader" || e.Name == "Write" || e.Name == "xml.Encode" {
						seq = append(seq, e.String())
					}
				}
				return strings.Join(seq, " ")
			},
			Oracle: func(env *OracleEnv) ([]string, bool) { return []string{"WriteHeader(207) Write() xml.Encode()"}, true }}
		res := runDTX(c, spec)
		reportDTX(c, ms, spec, res, "ServeMultiStatus")
		ms.Role("decision-table")
	}
	// the principal helper as a sibling of handlePropfind
	sib := NewRule("C11", "C11.principal-helper", "ServePrincipal's PROPFIND accepts what the generic handler accepts: an empty non-XML body means allprop; Depth is honoured (E2, sibling comparison)")
	sib.Exhaustive = true
	pr.Rules = append(pr.Rules, sib)
	if fn := p.MustFunc(sib, pkgWebdav, "ServePrincipal"); fn != nil {
		npr := p.Func(pkgInternal, "NewPropFindResponse")
		spec := DTXSpec{Name: "ServePrincipal", Entry: fn,
			Sym: SymSpec{NonNil: func(string) bool { return true }, MaxLen: func(string, types.Type) int { return 0 }},
			Setup: func(in *Interp) {
				in.Models = append(in.Models, func(in *Interp, site ssa.CallInstruction, name string, args []Val) (Val, bool) {
					if npr != nil && name == fullFnName(npr) {
						form := "other"
						if pf, ok := args[1].(Ptr); ok {
							if !isNilVal(fieldVal(pf, "AllProp")) {
								form = "allprop"
							} else if s, ok := pf.C.Get().(Struct); ok {
								_ = s
								form = "decoded"
							}
						}
						in.effect("respond", site.Pos(), kStr(form))
						respT := in.c.P.NamedType(pkgInternal, "Response")
						return Tuple{[]Val{Ptr{&Cell{V: zeroOf(respT), T: respT}}, kNil}}, true
					}
					return nil, false
				}, httpServerModels)
				in.OpenExternal = openHTTPServer
			},
			Args: func(in *Interp) []Val {
				return []Val{Opaque{"w", fn.Params[0].Type()}, in.symOf(fn.Params[1].Type(), "r"), in.symOf(fn.Params[2].Type(), "options")}
			},
			Observe: func(in *Interp, res Val, pan *panicOutcome) string {
				if pan != nil {
					return "panic"
				}
				return strings.Join(effectNames(in.Trace, "respond"), ",") + " -> " + responseOf(in, in.Trace)
			},
			Oracle: func(env *OracleEnv) ([]string, bool) {
				m := S("r.Method")
				switch {
				case env.Eq(m, K("OPTIONS")):
					return []string{" -> 204"}, true
				case env.Eq(m, K("PROPFIND")):
					ct := "mediatype(header:\"Content-Type\")"
					isXML := false
					if !env.Bool("fails:" + ct) {
						isXML = env.Eq(S(ct), K("application/xml")) || env.Eq(S(ct), K("text/xml"))
					}
					// "an empty body returns all of them with values",
					// whatever the content type says
					if env.Bool("body-empty") {
						return []string{"respond(\"allprop\") -> 207"}, true
					}
					if !isXML || env.Bool("fails:xml.Decode") {
						return []string{" -> 400"}, true
					}
					return []string{"respond(\"decoded\") -> 207"}, true
				}
				return []string{" -> 405"}, true
			}}
		res := runDTX(c, spec)
		reportDTX(c, sib, spec, res, "ServePrincipal")
		sib.Role("decision-table")
	}
}

// c11WebdavScope: the file server's adapter: Depth 0 -> the resource; Depth 1
// / infinity on a collection -> ReadDir(recursive = infinity).
func c11WebdavScope(c *Ctx, r *RuleResult) {
	p := c.P
	fn := p.MustFunc(r, pkgWebdav, "(*backend).PropFind")
	if fn == nil {
		return
	}
	fiT := p.NamedType(pkgWebdav, "FileInfo")
	npr := p.Func(pkgInternal, "NewPropFindResponse")
	respT := p.NamedType(pkgInternal, "Response")
	spec := DTXSpec{Name: "webdav.backend.PropFind", Entry: fn,
		Sym: SymSpec{NonNil: func(string) bool { return true }, IntDomain: func(string) []int64 { return []int64{0, 7} }},
		Setup: func(in *Interp) {
			in.Models = append(in.Models, func(in *Interp, site ssa.CallInstruction, name string, args []Val) (Val, bool) {
				cc := site.Common()
				if npr != nil && name == fullFnName(npr) {
					in.effect("emit", site.Pos(), args[0])
					return Tuple{[]Val{Ptr{&Cell{V: zeroOf(respT), T: respT}}, kNil}}, true
				}
				if cc.IsInvoke() && strings.HasSuffix(name, "FileSystem)."+cc.Method.Name()) {
					switch cc.Method.Name() {
					case "Stat":
						in.effect("Stat", site.Pos(), args[2])
						return Tuple{[]Val{in.symPointee(fiT, "fi"), kNil}}, true
					case "ReadDir":
						in.effect("ReadDir", site.Pos(), args[2], args[3])
						n := in.chooseInt("members", 3)
						s := Slice{NonNil: true}
						for i := 0; i < n; i++ {
							k := fmt.Sprintf("member%d", i)
							s.E = append(s.E, &Cell{T: fiT, Name: k, lazy: func() Val { return in.symOf(fiT, k) }})
						}
						return Tuple{[]Val{s, kNil}}, true
					}
				}
				return nil, false
			}, httpServerModels)
			in.OpenExternal = openHTTPServer
		},
		Args: func(in *Interp) []Val {
			return []Val{in.symOf(fn.Params[0].Type(), "b"), in.symOf(fn.Params[1].Type(), "r"), in.symPointee(fn.Params[2].Type().(*types.Pointer).Elem(), "propfind"),
				kInt(depthVals[in.chooseLabeled("depth", []string{"0", "1", "infinity"})])}
		},
		Observe: func(in *Interp, res Val, pan *panicOutcome) string {
			if pan != nil {
				return "panic"
			}
			var seq []string
			for _, e := range in.Trace {
				seq = append(seq, e.String())
			}
			return strings.Join(seq, " ")
		},
		Oracle: func(env *OracleEnv) ([]string, bool) {
			depth := depthVals[env.ch.choose("depth", 3, nil)]
			out := []string{"Stat(r.URL.Path)"}
			if depth != 0 && env.Bool("fi.IsDir") {
				// the listing contains the collection itself and its members
				out = append(out, fmt.Sprintf("ReadDir(r.URL.Path, %v)", depth == -1))
				n := env.ch.choose("members", 3, nil)
				for i := 0; i < n; i++ {
					out = append(out, fmt.Sprintf("emit(member%d.Path)", i))
				}
			} else {
				out = append(out, "emit(fi.Path)")
			}
			return []string{strings.Join(out, " ")}, true
		}}
	res := runDTX(c, spec)
	reportDTX(c, r, spec, res, "webdav.PropFind")
	r.Role("decision-table")
}

// ---------------------------------------------------------------------------
// accounting

func c11Accounting(c *Ctx, pr *PropertyRun) {
	p := c.P
	r := NewRule("C11", "C11.accounting", "request forms and per-property accounting of NewPropFindResponse; one propstat per status in Response.EncodeProp (E2)")
	r.Exhaustive = true
	r.Bounds = "requested names <= 2 (distinct; the unavailable one shares its local name with the available one, in another namespace), available properties: resourcetype plus <= 1 other"
	pr.Rules = append(pr.Rules, r)
	fn := p.MustFunc(r, pkgInternal, "NewPropFindResponse")
	enc := p.MustFunc(r, pkgInternal, "(*Response).EncodeProp")
	if fn == nil || enc == nil {
		return
	}
	rawT := p.NamedType(pkgInternal, "RawXMLValue")
	xmlNameT := p.lookupType("encoding/xml", "Name")
	mkName := func(local string) Val {
		s := zeroOf(xmlNameT).(Struct)
		s.F[0].Set(kStr("DAV:"))
		s.F[1].Set(kStr(local))
		if local == "unknown" {
			// the unavailable property has the SAME local name as the available
			// one, in another namespace: names are (namespace, local) pairs, an
			// answer keyed by the local name alone confuses the two
			s.F[0].Set(kStr("urn:example:other"))
			s.F[1].Set(kStr("known"))
		}
		return s
	}
	startT := p.lookupType("encoding/xml", "StartElement")
	mkRaw := func(in *Interp, local string) Val {
		st := zeroOf(rawT).(Struct)
		se := zeroOf(startT).(Struct)
		se.F[0].Set(mkName(local))
		st.F[0].Set(Iface{Dyn: startT, V: se})
		// the client's element carries content (a calendar-data selection,
		// text): what is filed under 404 must be an EMPTY element of that
		// name, not the client's own element echoed back
		child := zeroOf(rawT).(Struct)
		cdT := p.lookupType("encoding/xml", "CharData")
		child.F[0].Set(Iface{Dyn: cdT, V: Opaque{"CharData:client-content", cdT}})
		st.F[1].Set(Slice{E: []*Cell{{V: child, T: rawT}}, NonNil: true})
		return st
	}
	// the available properties: "known" (value or failing getter); resourcetype is added by the function itself
	getter := func(in *Interp, local string) Val {
		// a PropFindFunc: modelled as a marker function value
		return Opaque{"getter:" + local, p.NamedType(pkgInternal, "PropFindFunc")}
	}
	propT := p.NamedType(pkgInternal, "Prop")
	pfT := p.NamedType(pkgInternal, "PropFind")
	propStatT := p.NamedType(pkgInternal, "PropStat")
	setField := func(s Struct, field string, f func(Val) Val) {
		st := s.T.Underlying().(*types.Struct)
		for i := 0; i < st.NumFields(); i++ {
			if st.Field(i).Name() == field {
				s.F[i].Set(f(s.F[i].Get()))
			}
		}
	}
	// what a response has been given, read off the response itself (a second
	// response built on the way does not count)
	given := func(in *Interp, resp Val) []string {
		var out []string
		for _, psv := range elemsOf(in, fieldVal(resp, "PropStats")) {
			code := keyOf(fieldVal(fieldVal(psv, "Status"), "Code"))
			for _, rv := range elemsOf(in, fieldVal(fieldVal(psv, "Prop"), "Raw")) {
				what := "?"
				if rs, ok := rv.(Struct); ok {
					if ov, isI := rs.F[2].Get().(Iface); isI {
						if k, isK := ov.V.(Konst); isK {
							if sv, isS := constStringVal(k); isS {
								what = strings.TrimPrefix(sv, "recorded:")
							}
						}
					}
				}
				c, _ := strconv.Atoi(code)
				out = append(out, Effect{Name: "EncodeProp", Args: []Val{kInt(int64(c)), kStr(what)}}.String())
			}
		}
		return out
	}
	names := []string{"known", "unknown"}
	spec := DTXSpec{Name: "NewPropFindResponse", Entry: fn,
		Sym: SymSpec{},
		Setup: func(in *Interp) {
			in.Models = append(in.Models, func(in *Interp, site ssa.CallInstruction, name string, args []Val) (Val, bool) {
				cc := site.Common()
				if name == fullFnName(enc) {
					code, _ := in.concretise(args[1])
					what := keyOf(args[2])
					if iv, ok := args[2].(Iface); ok {
						if ptr, ok := iv.V.(Ptr); ok {
							if st, ok := ptr.C.Get().(Struct); ok && namedOf(st.T) == rawT {
								what = "empty<" + rawLocalName(st) + ">"
								if len(elemsOf(in, st.F[1].Get())) > 0 {
									what = "the-request's-own-element-with-its-content<" + rawLocalName(st) + ">"
								}
								// an entry read back from another response
								if ov, isI := st.F[2].Get().(Iface); isI {
									if k, isK := ov.V.(Konst); isK {
										if sv, isS := constStringVal(k); isS && strings.HasPrefix(sv, "recorded:") {
											what = strings.TrimPrefix(sv, "recorded:")
										}
									}
								}
							}
						} else {
							what = keyOf(iv.V)
						}
					}
					in.effect("EncodeProp", site.Pos(), kInt(code), kStr(what))
					// keep what the receiver has been given: a caller that
					// builds one response from another reads it back
					if rp, ok := args[0].(Ptr); ok {
						if rs, ok := rp.C.Get().(Struct); ok {
							rec := zeroOf(rawT).(Struct)
							rec.F[2].Set(Iface{Dyn: types.Typ[types.String], V: kStr("recorded:" + what)})
							ps := zeroOf(propStatT).(Struct)
							setField(ps, "Status", func(v Val) Val {
								st := v.(Struct)
								setField(st, "Code", func(Val) Val { return kInt(code) })
								return st
							})
							setField(ps, "Prop", func(v Val) Val {
								pv := v.(Struct)
								setField(pv, "Raw", func(Val) Val { return Slice{E: []*Cell{{V: rec, T: rawT}}, NonNil: true} })
								return pv
							})
							setField(rs, "PropStats", func(v Val) Val {
								sl, _ := v.(Slice)
								return Slice{E: append(append([]*Cell{}, sl.E...), &Cell{V: ps, T: propStatT}), NonNil: true}
							})
						}
					}
					return kNil, true
				}
				// calling a getter
				if strings.HasPrefix(name, "dyn:getter:") {
					local := strings.TrimPrefix(name, "dyn:getter:")
					if local == "resourcetype" {
						return Tuple{[]Val{Iface{Dyn: types.Typ[types.String], V: Opaque{"resourcetype-value", types.Typ[types.String]}}, kNil}}, true
					}
					if in.truth(LazyBool{"getter-fails:" + local}) {
						return Tuple{[]Val{kNil, markerErr(in)}}, true
					}
					return Tuple{[]Val{Iface{Dyn: types.Typ[types.String], V: kStr("value:" + local)}, kNil}}, true
				}
				_ = cc
				switch name {
				case pkgInternal + ".PropFindValue":
					return Opaque{"getter:resourcetype", p.NamedType(pkgInternal, "PropFindFunc")}, true
				case pkgInternal + ".NewResourceType":
					return Opaque{"resourcetype-value", cc.Signature().Results().At(0).Type()}, true
				}
				return nil, false
			})
		},
		Args: func(in *Interp) []Val {
			pf := zeroOf(pfT).(Struct)
			st := pfT.Underlying().(*types.Struct)
			set := func(field string, v Val) {
				for i := 0; i < st.NumFields(); i++ {
					if st.Field(i).Name() == field {
						pf.F[i].Set(v)
					}
				}
			}
			marker := func() Val { return Ptr{&Cell{V: zeroOf(types.NewStruct(nil, nil)), T: types.NewStruct(nil, nil)}} }
			if in.truth(LazyBool{"has-propname"}) {
				set("PropName", marker())
			}
			if in.truth(LazyBool{"has-allprop"}) {
				set("AllProp", marker())
				// <include>: properties wanted in addition to allprop
				if incT := p.NamedType(pkgInternal, "Include"); incT != nil {
					if k := in.chooseLabeled("include", []string{"none", "known", "unknown"}); k > 0 {
						iv := zeroOf(incT).(Struct)
						setField(iv, "Raw", func(Val) Val {
							return Slice{E: []*Cell{{V: mkRaw(in, names[k-1]), T: rawT}}, NonNil: true}
						})
						set("Include", Ptr{&Cell{V: iv, T: incT}})
					}
				}
			}
			if in.truth(LazyBool{"has-prop"}) {
				n := in.chooseInt("requested", 3)
				sl := Slice{NonNil: true}
				for i := 0; i < n; i++ {
					sl.E = append(sl.E, &Cell{V: mkRaw(in, names[i]), T: rawT})
				}
				pv := zeroOf(propT).(Struct)
				pst := propT.Underlying().(*types.Struct)
				for i := 0; i < pst.NumFields(); i++ {
					if pst.Field(i).Name() == "Raw" {
						pv.F[i].Set(sl)
					}
				}
				set("Prop", Ptr{&Cell{V: pv, T: propT}})
			}
			props := &MapObj{}
			props.Keys = append(props.Keys, mkName("known"))
			props.Vals = append(props.Vals, &Cell{V: getter(in, "known")})
			return []Val{SymStr{Key: "path"}, Ptr{&Cell{V: pf, T: pfT}}, MapV{props}}
		},
		Observe: func(in *Interp, res Val, pan *panicOutcome) string {
			if pan != nil {
				return "panic"
			}
			t := res.(Tuple)
			if !isNilVal(t.E[1]) {
				if code, _, ok := httpErrOf(in, t.E[1]); ok {
					return fmt.Sprintf("error %d", code)
				}
				return "error"
			}
			eff := given(in, t.E[0])
			sort.Strings(eff) // map iteration order is not part of the contract
			href := "?"
			if h := fieldVal(t.E[0], "Hrefs"); h != nil {
				if els := elemsOf(in, h); len(els) == 1 {
					href = keyOf(fieldVal(els[0], "Path"))
				} else {
					href = fmt.Sprintf("%d hrefs", len(els))
				}
			}
			return "href=" + href + " " + strings.Join(eff, " ")
		},
		Oracle: func(env *OracleEnv) ([]string, bool) {
			pn, ap, pr := env.Bool("has-propname"), env.Bool("has-allprop"), env.Bool("has-prop")
			forms := 0
			for _, b := range []bool{pn, ap, pr} {
				if b {
					forms++
				}
			}
			if forms == 0 {
				return []string{"error 400"}, true
			}
			if forms > 1 {
				return nil, false // several forms at once: any of them may be served
			}
			entry := func(code int, what string) string {
				return Effect{Name: "EncodeProp", Args: []Val{kInt(int64(code)), kStr(what)}}.String()
			}
			var eff []string
			switch {
			case pn:
				eff = []string{entry(200, "empty<known>"), entry(200, "empty<resourcetype>")}
			case ap:
				if env.Bool("getter-fails:known") {
					eff = append(eff, entry(markerStatus, "empty<known>"))
				} else {
					eff = append(eff, entry(200, "\"value:known\""))
				}
				eff = append(eff, entry(200, "resourcetype-value"))
				// allprop already returns every property the resource has: an
				// included one is still reported exactly once; one it does not
				// have may be reported as 404 or left out
				if env.Decided("include") && env.ch.choose("include", 3, nil) == 2 {
					alt := append(append([]string{}, eff...), entry(404, "empty<unknown>"))
					sort.Strings(eff)
					sort.Strings(alt)
					return []string{"href=path " + strings.Join(eff, " "), "href=path " + strings.Join(alt, " ")}, true
				}
			default:
				n := env.ch.choose("requested", 3, nil)
				for i := 0; i < n; i++ {
					if names[i] == "known" {
						if env.Bool("getter-fails:known") {
							eff = append(eff, entry(markerStatus, "empty<known>"))
						} else {
							eff = append(eff, entry(200, "\"value:known\""))
						}
					} else {
						eff = append(eff, entry(404, "empty<unknown>"))
					}
				}
			}
			sort.Strings(eff)
			return []string{"href=path " + strings.Join(eff, " ")}, true
		}}
	res := runDTX(c, spec)
	reportDTX(c, r, spec, res, "accounting")
	r.Role("decision-table")
	if res.Runs < 8 {
		r.Unresolved("accounting table has fewer than 8 rows")
	}

	// Response.EncodeProp: one propstat per status
	spec2 := DTXSpec{Name: "Response.EncodeProp", Entry: enc,
		Args: func(in *Interp) []Val {
			respT := p.NamedType(pkgInternal, "Response")
			return []Val{Ptr{&Cell{V: zeroOf(respT), T: respT, Name: "resp"}}, kInt(200), Iface{Dyn: types.Typ[types.String], V: kStr("first")}}
		},
		Observe: func(in *Interp, res Val, pan *panicOutcome) string {
			if pan != nil {
				return "panic"
			}
			return "see check"
		},
		Check: func(env *OracleEnv, obs *Observation) (bool, string, bool) {
			in := obs.In
			// apply two more entries: another 200 and a 404, then inspect the propstats
			respT := p.NamedType(pkgInternal, "Response")
			cell := &Cell{V: zeroOf(respT), T: respT, Name: "resp"}
			for _, e := range []struct {
				code int64
				v    string
			}{{200, "a"}, {404, "b"}, {200, "c"}, {404, "d"}} {
				in.Call(enc, []Val{Ptr{cell}, kInt(e.code), Iface{Dyn: types.Typ[types.String], V: kStr(e.v)}}, nil)
			}
			var got []string
			for _, ps := range elemsOf(in, fieldVal(Ptr{cell}, "PropStats")) {
				code, _ := in.concretise(fieldVal(fieldVal(ps, "Status"), "Code"))
				var vals []string
				for _, raw := range elemsOf(in, fieldVal(fieldVal(ps, "Prop"), "Raw")) {
					vals = append(vals, keyOf(fieldVal(raw, "out")))
				}
				got = append(got, fmt.Sprintf("%d:[%s]", code, strings.Join(vals, ",")))
			}
			want := "200:[\"a\",\"c\"] 404:[\"b\",\"d\"]"
			if strings.Join(got, " ") != want {
				return false, want + " (got " + strings.Join(got, " ") + ")", true
			}
			return true, "", true
		}}
	res2 := runDTX(c, spec2)
	reportDTX(c, r, spec2, res2, "EncodeProp")
}

func rawLocalName(st Struct) string {
	tok := st.F[0].Get()
	if iv, ok := tok.(Iface); ok {
		if se, ok := iv.V.(Struct); ok {
			if nm, ok := se.F[0].Get().(Struct); ok {
				if k, ok := nm.F[1].Get().(Konst); ok {
					s, _ := constStringVal(k)
					if sp, ok := nm.F[0].Get().(Konst); ok {
						if sps, _ := constStringVal(sp); sps != "DAV:" {
							return "unknown"
						}
					}
					return s
				}
			}
		}
	}
	return "?"
}

// ---------------------------------------------------------------------------
// C12

func runC12(c *Ctx, pr *PropertyRun) {
	p := c.P
	pr.Explanation = "Decided by decision tables (E2) extracted from every adapter method of caldav.backend and carddav.backend, with the hierarchy level produced by resourceTypeAtPath as an atom: (1) level -> backend operation: collection creation only at collection level and 403 elsewhere, carddav DELETE at address-book/object level and 403 elsewhere, PROPFIND per level as in C11, OPTIONS allow-lists, GET/HEAD/PUT reach the object operations; (2) path unchanged: the path handed to every backend operation is r.URL.Path itself (never a cleaned or trimmed string), the classifier alone receives it for classification; (3) foreign guard: PROPFIND at principal or home-set level emits nothing unless the request path equals the backend's own path; (4) every adapter literal gets strings.TrimSuffix(h.Prefix, \"/\") as its prefix; (5) the caldav and carddav tables are equal up to renaming, except the recorded DELETE difference (caldav.Backend has a single delete operation); (6) discovery flow: the backend's principal path, home set and collection paths reach the corresponding response hrefs and the client's return values (E1). " +
		"(7) the classifier's shape: with path.Clean, strings.TrimPrefix and strings.Split as uninterpreted functions, the level is 0 for \"/\" and otherwise len(Split(P, \"/\"))-1 for P = the cleaned path with the prefix taken off and a leading slash ensured. NOT decided: what path.Clean, TrimPrefix and Split return on particular strings (all prefixes and spellings) — values at run time."
	pr.Assumptions = append(pr.Assumptions, "path.Clean, strings.TrimPrefix and strings.Split behave as documented (they are uninterpreted in the classifier table)")
	pr.Trusted = append(pr.Trusted, "golang.org/x/tools/go/ssa v0.29.0")
	c12Classifier(c, pr, "C12")
	davScopeTables(c, pr, "C12", false)
	// the paths of the discovery chain are decoded strings: they reach the
	// next request as they are (shared with C05.no-reparse)
	urlParseRule(c, pr, "C12", nil)
	// what reaches the adapters: the generic handler's dispatch (MKCOL goes
	// to the backend, which answers 403 away from collection level, before
	// anything else is said about the request) (shared with C01.dispatch)
	c01Dispatch(c, pr, "C12")
	redirectCodesRule(c, pr, "C12")
	clientStateRule(c, pr, "C12")
	discoveryKeepsAllRule(c, pr, "C12")
	ops := NewRule("C12", "C12.level-ops", "level -> backend operation (or refusal) for every adapter method, with the request path unchanged (E2)")
	ops.Exhaustive = true
	pr.Rules = append(pr.Rules, ops)
	tables := map[string]map[string][]string{}
	for _, pkg := range []string{pkgCaldav, pkgCarddav} {
		dn := davNamesOf(pkg)
		tables[dn.short] = map[string][]string{}
		for _, m := range []string{"Mkcol", "Delete", "Options", "HeadGet", "Put"} {
			fn := p.MustFunc(ops, pkg, "(*backend)."+m)
			if fn == nil {
				continue
			}
			spec := adapterSpec(c, dn, fn, true)
			method := m
			spec.Setup = func(base func(*Interp)) func(*Interp) {
				return func(in *Interp) {
					base(in)
					in.Models = append([]ModelFn{func(in *Interp, site ssa.CallInstruction, name string, args []Val) (Val, bool) {
						switch name {
						case "(*" + pkgIcal + ".Decoder).Decode", "(*" + pkgVcard + ".Decoder).Decode":
							res := site.Common().Signature().Results()
							if in.truth(LazyBool{"fails:body-parse"}) {
								return Tuple{[]Val{zeroOf(res.At(0).Type()), markerErr(in)}}, true
							}
							return Tuple{[]Val{Opaque{"parsed-body", res.At(0).Type()}, kNil}}, true
						case pkgIcal + ".NewDecoder", pkgVcard + ".NewDecoder", pkgIcal + ".NewEncoder", pkgVcard + ".NewEncoder":
							return Opaque{"codec", site.Common().Signature().Results().At(0).Type()}, true
						case "(*" + pkgIcal + ".Encoder).Encode", "(*" + pkgVcard + ".Encoder).Encode":
							in.effect("write-body", site.Pos())
							return kNil, true
						case "strconv.FormatInt":
							return SymStr{Key: "n"}, true
						case "(time.Time).Format":
							return SymStr{Key: "time"}, true
						}
						return nil, false
					}}, in.Models...)
				}
			}(spec.Setup)
			spec.Observe = func(in *Interp, res Val, pan *panicOutcome) string {
				if pan != nil {
					return "panic"
				}
				var errV Val = res
				if t, ok := res.(Tuple); ok {
					errV = t.E[len(t.E)-1]
				}
				status := "ok"
				if errV != nil && !isNilVal(errV) {
					status = "error"
					if code, _, ok := httpErrOf(in, errV); ok {
						status = fmt.Sprint(code)
					}
				}
				return strings.Join(effectNames(in.Trace, "Backend."), ",") + " => " + status
			}
			spec.Oracle = func(env *OracleEnv) ([]string, bool) {
				return levelOpsOracle(env, dn, method)
			}
			res := runDTX(c, spec)
			reportDTX(c, ops, spec, res, dn.short+"."+m)
			ops.Role("decision-table")
			ops.Count("rows_"+dn.short+"_"+m, res.Runs)
			// normalised table for the sibling comparison
			var rows []string
			for _, l := range res.Leaves {
				rows = append(rows, normaliseSibling(valuationString(l.Valuation)+" => "+l.Outcome, dn))
			}
			sort.Strings(rows)
			tables[dn.short][m] = rows
		}
	}
	ops.RequireRole("decision-table")
	// siblings: equal up to renaming, except DELETE
	sib := NewRule("C12", "C12.siblings", "the caldav and carddav adapter tables are equal up to renaming (except the recorded DELETE difference)")
	pr.Rules = append(pr.Rules, sib)
	for _, m := range []string{"Mkcol", "Options", "HeadGet", "Put"} {
		sib.Role("sibling-pair")
		a, b := strings.Join(tables["caldav"][m], "\n"), strings.Join(tables["carddav"][m], "\n")
		ok := a == b && a != ""
		sib.Ob(ok)
		if !ok {
			sib.Violation("siblings-differ|"+m, "-", fmt.Sprintf("the decision tables of caldav.backend.%s and carddav.backend.%s differ (after renaming): the two servers no longer route %s alike. caldav: %s | carddav: %s", m, m, m, firstDiff(tables["caldav"][m], tables["carddav"][m]), firstDiff(tables["carddav"][m], tables["caldav"][m])), nil)
		}
	}
	c12PrefixTrim(c, pr)
	c12Discovery(c, pr)
}

func firstDiff(a, b []string) string {
	set := map[string]bool{}
	for _, x := range b {
		set[x] = true
	}
	for _, x := range a {
		if !set[x] {
			if len(x) > 300 {
				x = x[:300]
			}
			return x
		}
	}
	return "(subset)"
}

func normaliseSibling(s string, dn davNames) string {
	repl := []string{dn.createColl, "CreateCollection", dn.putObj, "PutObject", dn.getObj, "GetObject", dn.getColl, "GetCollection", dn.listObj, "ListObjects", dn.listColl, "ListCollections", dn.homeSetPath, "HomeSetPath",
		"text/calendar", "MEDIATYPE", "text/vcard", "MEDIATYPE"}
	return strings.NewReplacer(repl...).Replace(s)
}

func levelOpsOracle(env *OracleEnv, dn davNames, method string) ([]string, bool) {
	level := env.ch.choose("level", len(levelNames), nil)
	fails := func(op string) bool { return env.Bool("fails:" + op) }
	call := func(op string, args ...string) string { return "Backend." + op + "(" + strings.Join(args, ", ") + ")" }
	switch method {
	case "Mkcol":
		if level != 3 {
			return []string{" => 403"}, true
		}
		if !env.Bool("body-empty") {
			if env.Bool("fails:decode") {
				return []string{" => 400"}, true
			}
			// the announced resource type must be a collection of the right kind
			if !env.Bool("resourcetype-ok") {
				return []string{" => 400"}, true
			}
		}
		c := call(dn.createColl, "r.URL.Path")
		if fails(dn.createColl) {
			return []string{c + fmt.Sprintf(" => %d", markerStatus)}, true
		}
		return []string{c + " => ok"}, true
	case "Delete":
		op, ok := dn.deleteOps[-1]
		if !ok {
			op, ok = dn.deleteOps[level]
			if !ok {
				return []string{" => 403"}, true
			}
		}
		c := call(op, "r.URL.Path")
		if fails(op) {
			return []string{c + fmt.Sprintf(" => %d", markerStatus)}, true
		}
		return []string{c + " => ok"}, true
	case "Options":
		if level != 4 {
			return []string{" => ok"}, true
		}
		c := call(dn.getObj, "r.URL.Path")
		switch env.ch.choose("getobj", 3, nil) {
		case 2:
			return []string{c + fmt.Sprintf(" => %d", markerStatus)}, true
		}
		return []string{c + " => ok"}, true
	case "HeadGet":
		c := call(dn.getObj, "r.URL.Path")
		switch env.ch.choose("getobj", 3, nil) {
		case 1:
			return []string{c + " => 404"}, true
		case 2:
			return []string{c + fmt.Sprintf(" => %d", markerStatus)}, true
		}
		return []string{c + " => ok"}, true
	case "Put":
		ct := "mediatype(header:\"Content-Type\")"
		if env.Bool("fails:" + ct) {
			return []string{" => 400"}, true
		}
		want := map[string]string{"caldav": "text/calendar", "carddav": "text/vcard"}[dn.short]
		if !env.Eq(S(ct), K(want)) {
			return []string{" => 400"}, true
		}
		if env.Bool("fails:body-parse") {
			return []string{" => 400"}, true
		}
		c := call(dn.putObj, "r.URL.Path")
		if fails(dn.putObj) {
			return []string{c + fmt.Sprintf(" => %d", markerStatus)}, true
		}
		return []string{c + " => ok"}, true
	}
	return nil, false
}

// isTrimmedPrefix: v is strings.TrimSuffix(<Handler>.Prefix, "/"), directly or
// as the value every return of a module helper yields.
func isTrimmedPrefix(v ssa.Value, depth int) bool {
	call, ok := v.(*ssa.Call)
	if !ok || depth > 3 {
		return false
	}
	if calleeName(call.Common()) == "strings.TrimSuffix" {
		if s, isC := constString(call.Common().Args[1]); isC && s == "/" {
			if ld, isLd := call.Common().Args[0].(*ssa.UnOp); isLd {
				if f2, isFA := ld.X.(*ssa.FieldAddr); isFA && fieldName(f2.X.Type(), f2.Field) == "Prefix" {
					return true
				}
			}
		}
		return false
	}
	f := call.Common().StaticCallee()
	if f == nil || len(f.Blocks) == 0 || !inLib(f) {
		return false
	}
	nret := 0
	for _, b := range f.Blocks {
		ret, isRet := b.Instrs[len(b.Instrs)-1].(*ssa.Return)
		if !isRet {
			continue
		}
		nret++
		if len(ret.Results) != 1 || !isTrimmedPrefix(ret.Results[0], depth+1) {
			return false
		}
	}
	return nret > 0
}

// c12PrefixTrim: every adapter literal gets TrimSuffix(h.Prefix, "/").
func c12PrefixTrim(c *Ctx, pr *PropertyRun) {
	p := c.P
	r := NewRule("C12", "C12.prefix-trim", "every backend{...} literal's Prefix is strings.TrimSuffix(h.Prefix, \"/\") (E4)")
	pr.Rules = append(pr.Rules, r)
	for _, pkg := range []string{pkgCaldav, pkgCarddav} {
		bt := p.NamedType(pkg, "backend")
		for _, fn := range p.ModFns {
			if fnPkg(fn) == nil || fnPkg(fn).Path() != pkg || p.isControlFn(fn) {
				continue
			}
			eachInstr(fn, func(_ *ssa.BasicBlock, in ssa.Instruction) {
				st, ok := in.(*ssa.Store)
				if !ok {
					return
				}
				fa, ok := st.Addr.(*ssa.FieldAddr)
				if !ok || namedOf(fa.X.Type()) != bt || fieldName(fa.X.Type(), fa.Field) != "Prefix" {
					return
				}
				r.Role("adapter-literal")
				ok = isTrimmedPrefix(st.Val, 0)
				r.Ob(ok)
				if !ok {
					r.Violation("prefix-not-trimmed|"+fnKey(fn), p.instrPos(st), fnKey(fn)+" builds a backend adapter whose Prefix is not strings.TrimSuffix(h.Prefix, \"/\"): with a trailing-slash prefix every path is classified one level off", nil)
				}
			})
			// ... and every adapter value has one: an adapter built without a
			// prefix classifies every path against the empty prefix
			eachInstr(fn, func(_ *ssa.BasicBlock, in ssa.Instruction) {
				al, ok := in.(*ssa.Alloc)
				if !ok || bt == nil || namedOf(al.Type().(*types.Pointer).Elem()) != bt {
					return
				}
				r.Role("adapter-value")
				has := false
				whole := false
				for _, ref := range refsOf(al) {
					switch x := ref.(type) {
					case *ssa.FieldAddr:
						if fieldName(x.X.Type(), x.Field) == "Prefix" {
							for _, r2 := range refsOf(x) {
								if st, ok := r2.(*ssa.Store); ok && st.Addr == ssa.Value(x) {
									has = true
								}
							}
						}
					case *ssa.Store:
						if x.Addr == ssa.Value(al) {
							whole = true // a copy of another adapter value
						}
					}
				}
				r.Ob(has || whole)
				if !has && !whole {
					r.Violation("adapter-without-prefix|"+fnKey(fn), p.instrPos(al), fnKey(fn)+" builds a backend adapter without a Prefix: whatever it classifies is classified against the empty prefix, one or more levels off under any mount prefix", nil)
				}
			})
		}
	}
	r.RequireRole("adapter-literal")
}

// c12Discovery: the backend's paths reach the response hrefs and the
// client's return values (E1).
func c12Discovery(c *Ctx, pr *PropertyRun) {
	p := c.P
	r := NewRule("C12", "C12.discovery-flow", "the hrefs decoded from current-user-principal / home-set / collection responses flow unaltered into the values the client returns (E1)")
	pr.Rules = append(pr.Rules, r)
	type entry struct{ pkg, fn, source string }
	for _, e := range []entry{
		{pkgWebdav, "(*Client).FindCurrentUserPrincipal", "internal.CurrentUserPrincipal.Href"},
		{pkgCaldav, "(*Client).FindCalendarHomeSet", "caldav.calendarHomeSet.Href"},
		{pkgCarddav, "(*Client).FindAddressBookHomeSet", "carddav.addressbookHomeSet.Href"},
	} {
		fn := p.MustFunc(r, e.pkg, e.fn)
		if fn == nil {
			continue
		}
		r.Role("discovery-step")
		// the returned string is the Path of the decoded Href: check the
		// Return's first result derives from a field load of the named wire field
		ok := false
		for _, b := range fn.Blocks {
			ret, isRet := b.Instrs[len(b.Instrs)-1].(*ssa.Return)
			if !isRet || len(ret.Results) != 2 || !isNilConst(ret.Results[1]) {
				continue
			}
			root, path := addrRoot(ret.Results[0])
			_ = root
			var clean []string
			for _, st := range path {
				if st != "*" {
					clean = append(clean, st)
				}
			}
			joined := strings.Join(clean, ".")
			if strings.Contains(joined, "Href") && strings.HasSuffix(joined, "Path") {
				ok = true
			}
		}
		r.Ob(ok)
		if !ok {
			r.Violation("discovery|"+e.fn, p.Pos(fn.Pos()), e.fn+" no longer returns the Path of the "+e.source+" it decoded: the discovery chain does not yield the backend's path", nil)
		}
	}
	r.RequireRole("discovery-step")
}

// clientStateRule: a client resolves every endpoint-relative path against the
// endpoint it was constructed with. A method that writes into its Client
// receiver (remembering where a redirect led, caching a discovered path)
// makes the answer of the next discovery step depend on the calls made
// before it (shares the effect analysis with C18.no-shared-writes).
func clientStateRule(c *Ctx, pr *PropertyRun, prop string) {
	p := c.P
	r := NewRule(prop, prop+".client-state", "no method writes into its Client receiver: endpoint-relative paths are resolved against the endpoint the client was made with, on every call (E5)")
	pr.Rules = append(pr.Rules, r)
	for _, w := range c.Effects().Writes {
		if !inLib(w.Fn) {
			continue
		}
		prm, ok := w.Root.(*ssa.Parameter)
		if !ok || w.Fn.Signature.Recv() == nil || len(w.Fn.Params) == 0 || w.Fn.Params[0] != prm {
			continue
		}
		n := recvNamed(w.Fn)
		if n == nil || !inModuleType(n) || n.Obj().Name() != "Client" {
			continue
		}
		r.Role("client-method-write")
		r.Ob(false)
		r.Violation("client-write|"+fnKey(w.Fn), p.instrPos(w.In), fmt.Sprintf("%s writes to its receiver (%s): what the client resolves paths against (or sends) now depends on the calls made before — the second discovery round on the same client starts from another place than the first", fnKey(w.Fn), strings.Join(w.Path, "")), nil)
	}
	// the rule must have something to look at: the clients' methods
	nm := 0
	for _, fn := range p.ModFns {
		if n := recvNamed(fn); n != nil && inModuleType(n) && n.Obj().Name() == "Client" && inLib(fn) {
			nm++
			r.Ob(true)
		}
	}
	if nm > 0 {
		r.Role("client-method")
	}
	r.Count("client_methods", nm)
	r.RequireRole("client-method")
}

// propfindErrorsPropagateRule: NewPropFindResponse refuses a request body
// that has none of propname, allprop and prop (400). Whoever builds a
// multi-status from it hands that refusal on: an adapter that goes on after
// the error (reporting it for one member, skipping the member) answers 207 to
// a request the statement refuses as a whole.
func propfindErrorsPropagateRule(c *Ctx, pr *PropertyRun, prop string) {
	p := c.P
	r := NewRule(prop, prop+".propfind-errors-propagate", "the error of NewPropFindResponse — and of every library function that returns it — is handed on by its caller on every path where it is non-nil (E4)")
	pr.Rules = append(pr.Rules, r)
	base := p.MustFunc(r, pkgInternal, "NewPropFindResponse")
	if base == nil {
		return
	}
	// functions whose error result may be the base's: they return, as their
	// error, the error Extract of a call to a carrier
	carriers := map[*ssa.Function]bool{base: true}
	errOf := func(call *ssa.Call) ssa.Value {
		for _, ref := range refsOf(call) {
			if ex, ok := ref.(*ssa.Extract); ok && isErrorType(ex.Type()) {
				return ex
			}
		}
		return nil
	}
	for round := 0; round < 4; round++ {
		for _, fn := range p.ModFns {
			if !inLib(fn) || len(fn.Blocks) == 0 || carriers[fn] {
				continue
			}
			eachCall(fn, func(site ssa.CallInstruction) {
				call, ok := site.(*ssa.Call)
				if !ok || !carriers[call.Common().StaticCallee()] {
					return
				}
				ev := errOf(call)
				if ev == nil {
					return
				}
				for _, b := range fn.Blocks {
					ret, ok := b.Instrs[len(b.Instrs)-1].(*ssa.Return)
					if !ok {
						continue
					}
					for _, res := range ret.Results {
						if res == ev {
							carriers[fn] = true
						}
						if phi, ok := res.(*ssa.Phi); ok {
							for _, e := range phi.Edges {
								if e == ev {
									carriers[fn] = true
								}
							}
						}
					}
				}
			})
		}
	}
	for _, fn := range p.ModFns {
		if !inLib(fn) || len(fn.Blocks) == 0 {
			continue
		}
		eachCall(fn, func(site ssa.CallInstruction) {
			call, ok := site.(*ssa.Call)
			if !ok || !carriers[call.Common().StaticCallee()] {
				return
			}
			r.Role("propfind-response-call")
			ok = !errSwallowed(call)
			r.Ob(ok)
			if !ok {
				r.Violation("propfind-error-tolerated|"+fnKey(fn), p.instrPos(call), fmt.Sprintf("%s goes on after %s reported an error: the refusal of a PROPFIND body that names none of propname, allprop and prop (400) is turned into a per-resource status or dropped, and the request is answered 207", fnKey(fn), fnKey(call.Common().StaticCallee())), nil)
			}
		})
	}
	r.Count("carriers", len(carriers))
	r.RequireRole("propfind-response-call")
}

// errSwallowed: the error of the call is non-nil on some path on which the
// function nevertheless goes round its loop again or returns a nil error.
// Returning it (as it is or wrapped), or ending without a result after
// handing it to somebody (ServeError), is handing it on.
func errSwallowed(call *ssa.Call) bool {
	var ev ssa.Value
	if tup, ok := call.Type().(*types.Tuple); ok {
		for _, ref := range refsOf(call) {
			if ex, ok := ref.(*ssa.Extract); ok && isErrorType(tup.At(ex.Index).Type()) {
				ev = ex
			}
		}
	} else if isErrorType(call.Type()) {
		ev = call
	}
	if ev == nil {
		return false
	}
	used := false
	for _, a := range append([]ssa.Value{ev}, storedAliases(ev)...) {
		for _, ref := range refsOf(a) {
			switch x := ref.(type) {
			case *ssa.Return:
				used = true
			case *ssa.BinOp:
				if x.Op != token.NEQ && x.Op != token.EQL {
					continue
				}
				for _, r2 := range refsOf(x) {
					iff, ok := r2.(*ssa.If)
					if !ok {
						continue
					}
					used = true
					succ := iff.Block().Succs[0]
					if x.Op == token.EQL {
						succ = iff.Block().Succs[1]
					}
					// everything reachable from the non-nil side
					seen := map[*ssa.BasicBlock]bool{}
					var stack []*ssa.BasicBlock
					stack = append(stack, succ)
					for len(stack) > 0 {
						b := stack[len(stack)-1]
						stack = stack[:len(stack)-1]
						if seen[b] {
							continue
						}
						seen[b] = true
						if b == call.Block() {
							return true // round the loop again
						}
						if ret, ok := b.Instrs[len(b.Instrs)-1].(*ssa.Return); ok {
							for _, res := range ret.Results {
								if isErrorType(res.Type()) {
									if k, isK := res.(*ssa.Const); isK && k.IsNil() {
										return true // success reported
									}
								}
							}
						}
						stack = append(stack, b.Succs...)
					}
				}
			case *ssa.Phi, *ssa.Store, *ssa.MakeInterface, ssa.CallInstruction:
				used = true
			}
		}
	}
	return !used
}

// discoveryKeepsAllRule: the collections a backend exposes reach the caller
// whatever their paths are ("under any mount prefix", and wherever the backend
// places them). In the functions that turn a home-set listing into
// []Calendar / []AddressBook no branch is decided by the response's path:
// the resource type alone says what is a calendar or an address book.
func discoveryKeepsAllRule(c *Ctx, pr *PropertyRun, prop string) {
	p := c.P
	r := NewRule(prop, prop+".discovery-keeps-all", "in the client functions returning []Calendar / []AddressBook no branch depends on the path of a listed response (E4 backward slice)")
	pr.Rules = append(pr.Rules, r)
	pathFn := p.MustFunc(r, pkgInternal, "(*Response).Path")
	if pathFn == nil {
		return
	}
	for _, fn := range p.ModFns {
		if !inLib(fn) || len(fn.Blocks) == 0 || fn.Parent() != nil {
			continue
		}
		res := fn.Signature.Results()
		lists := false
		for i := 0; i < res.Len(); i++ {
			if sl, ok := res.At(i).Type().Underlying().(*types.Slice); ok {
				if n := namedOf(sl.Elem()); n != nil && inModuleType(n) && (n.Obj().Name() == "Calendar" || n.Obj().Name() == "AddressBook") {
					lists = true
				}
			}
		}
		if !lists {
			continue
		}
		// the paths of the listed responses
		var paths []ssa.Value
		for _, f := range withClosures(fn) {
			eachCall(f, func(site ssa.CallInstruction) {
				call, ok := site.(*ssa.Call)
				if !ok || call.Common().StaticCallee() != pathFn {
					return
				}
				for _, ref := range refsOf(call) {
					if ex, ok := ref.(*ssa.Extract); ok && ex.Index == 0 {
						paths = append(paths, ex)
					}
				}
			})
		}
		if len(paths) == 0 {
			continue
		}
		r.Role("listing-function")
		var dep func(v ssa.Value, depth int, seen map[ssa.Value]bool) bool
		dep = func(v ssa.Value, depth int, seen map[ssa.Value]bool) bool {
			if v == nil || depth > 6 || seen[v] {
				return false
			}
			seen[v] = true
			for _, pv := range paths {
				if v == pv {
					return true
				}
			}
			in, ok := v.(ssa.Instruction)
			if !ok {
				return false
			}
			if _, isPhi := v.(*ssa.Phi); isPhi {
				return false
			}
			for _, op := range in.Operands(nil) {
				if *op != nil && dep(*op, depth+1, seen) {
					return true
				}
			}
			return false
		}
		for _, f := range withClosures(fn) {
			eachInstr(f, func(_ *ssa.BasicBlock, in ssa.Instruction) {
				iff, ok := in.(*ssa.If)
				if !ok {
					return
				}
				bad := dep(iff.Cond, 0, map[ssa.Value]bool{})
				r.Ob(!bad)
				if bad {
					r.Violation("path-decides|"+fnKey(fn), p.instrPos(iff), fmt.Sprintf("%s decides a branch by the path of a listed response: a calendar or address book the backend reports outside the place this test expects (another collection depth's sibling, a shared collection, a different spelling of the prefix) is dropped from discovery although its resource type says what it is", fnKey(fn)), nil)
				}
			})
		}
	}
	r.RequireRole("listing-function")
}
