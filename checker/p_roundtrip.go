package main

// Round-trip rule shared by C08 and C09: for every query a caller can express
// (within bounds), the value the server's backend receives equals the value
// the caller passed to the client — decode ∘ encode = id at the level of the
// Go structs. Both codecs are interpreted from the SSA of the current source;
// the XML layer in between is modelled as the identity on tagged struct
// fields (encoding/xml's contract; the tags themselves are checked by the
// schema rule). Nothing is executed.

import (
	"fmt"
	"go/types"
	"sort"
	"strings"

	"golang.org/x/tools/go/ssa"
)

// renderDeep renders an abstract value canonically under the current
// valuation (forcing the atoms it needs).
func renderDeep(in *Interp, v Val, depth int) string {
	if depth > 24 {
		return "…"
	}
	switch x := v.(type) {
	case nil:
		return "-"
	case Konst:
		if x.V == nil {
			return "nil"
		}
		return x.V.ExactString()
	case SymStr:
		if k, ok := in.ch.strs.constOf("s:" + x.Key); ok {
			return fmt.Sprintf("%q", k)
		}
		// representative of its class: the smallest symbol known equal
		return "$" + x.Key
	case LazyBool:
		return fmt.Sprint(in.truth(x))
	case SymInt:
		i, _ := in.concretise(x)
		return fmt.Sprint(i)
	case TimeV:
		if in.ch.isZeroTime(x.Key) {
			return "ZERO"
		}
		return "@" + x.Key
	case Ptr:
		return "&" + renderDeep(in, x.C.Get(), depth+1)
	case Struct:
		st, _ := x.T.Underlying().(*types.Struct)
		var parts []string
		for i, c := range x.F {
			name := fmt.Sprint(i)
			if st != nil && i < st.NumFields() {
				name = st.Field(i).Name()
				if name == "XMLName" {
					continue
				}
			}
			parts = append(parts, name+":"+renderDeep(in, c.Get(), depth+1))
		}
		return "{" + strings.Join(parts, " ") + "}"
	case Slice:
		var parts []string
		for _, c := range x.E {
			parts = append(parts, renderDeep(in, c.Get(), depth+1))
		}
		return "[" + strings.Join(parts, " ") + "]"
	case LazySlice:
		return renderDeep(in, in.materialise(x), depth)
	case Iface:
		return renderDeep(in, x.V, depth+1)
	case Opaque:
		return "?" + x.Key
	}
	return keyOf(v)
}

// fieldVal returns field name of an abstract struct (through a pointer).
func fieldVal(v Val, name string) Val {
	if p, ok := v.(Ptr); ok {
		v = p.C.Get()
	}
	s, ok := v.(Struct)
	if !ok {
		return nil
	}
	st, ok := s.T.Underlying().(*types.Struct)
	if !ok {
		return nil
	}
	for i := 0; i < st.NumFields(); i++ {
		if st.Field(i).Name() == name {
			return s.F[i].Get()
		}
	}
	return nil
}

// propDecodeModel: (*internal.Prop).Decode(v) at the struct level: the
// element of the prop whose payload has v's type is copied into *v.
func propDecodeModel(in *Interp, site ssa.CallInstruction, name string, args []Val) (Val, bool) {
	if name != "(*"+pkgInternal+".Prop).Decode" {
		return nil, false
	}
	target, ok := args[1].(Iface)
	if !ok {
		in.undecided("Prop.Decode target %T", args[1])
	}
	tptr, ok := target.V.(Ptr)
	if !ok {
		in.undecided("Prop.Decode target is not a pointer")
	}
	raw := fieldVal(args[0], "Raw")
	var cells []*Cell
	switch s := raw.(type) {
	case Slice:
		cells = s.E
	case LazySlice:
		cells = in.materialise(s).E
	}
	for _, c := range cells {
		out := fieldVal(c.Get(), "out")
		iv, ok := out.(Iface)
		if !ok {
			continue
		}
		if types.Identical(iv.Dyn, target.Dyn) {
			if src, ok := iv.V.(Ptr); ok {
				tptr.C.Set(copyVal(src.C.Get()))
				return kNil, true
			}
		}
	}
	// not found: the 404 HTTPError the real function returns
	he := in.c.P.NamedType(pkgInternal, "HTTPError")
	st := zeroOf(he).(Struct)
	st.F[0].Set(kInt(404))
	return Iface{Dyn: types.NewPointer(he), V: Ptr{&Cell{V: st, T: he}}}, true
}

// serverFnTaking finds the in-module function reachable from root that has a
// parameter of type *pkg.typeName.
func fnTakingPtr(c *Ctx, root *ssa.Function, pkg, typeName string) *ssa.Function {
	seen := c.CG().Reach([]*ssa.Function{root}, moduleOnly(c.P))
	var names []*ssa.Function
	for fn := range seen {
		if !c.P.InModule(fn) || len(fn.Blocks) == 0 || fn == root {
			continue
		}
		for _, prm := range fn.Params {
			if isNamedPtr(prm.Type(), pkg, typeName) && fn.Signature.Recv() != nil && namedOf(fn.Signature.Recv().Type()) != nil && namedOf(fn.Signature.Recv().Type()).Obj().Name() == "Handler" {
				names = append(names, fn)
			}
		}
	}
	sort.Slice(names, func(i, j int) bool { return fnKey(names[i]) < fnKey(names[j]) })
	if len(names) == 0 {
		return nil
	}
	return names[0]
}

type rtSpec struct {
	name        string
	pkg         string
	clientFn    string // exported client method
	queryParam  int    // index of the query parameter in the client method (receiver = 0)
	wireType    string // wire struct the handler takes
	backendCall string // backend method that receives the result
	backendArgs []int  // indexes (receiver = 0) of the backend arguments to compare
	maxLen      func(key string) int
	intDomain   func(key string) []int64
	zero        func(key string) bool // inputs fixed to their zero value in this table
	valid       func(in *Interp, x Val) bool
	// expect renders what the backend must receive for input x
	expect func(in *Interp, x Val, path Val) []string
}

func roundtripRule(c *Ctx, r *RuleResult, rs rtSpec) {
	p := c.P
	client := p.MustFunc(r, rs.pkg, rs.clientFn)
	srvRoot := p.MustFunc(r, rs.pkg, "(*Handler).ServeHTTP")
	if client == nil || srvRoot == nil {
		return
	}
	handler := fnTakingPtr(c, srvRoot, rs.pkg, rs.wireType)
	if handler == nil {
		r.Undecided("handler|"+rs.name, p.Pos(srvRoot.Pos()), "no Handler method taking *"+rs.wireType+" is reachable from ServeHTTP: the round trip cannot be composed")
		return
	}
	var x, callPath Val
	var captured Val
	var got [][]Val
	spec := DTXSpec{Name: rs.name, Entry: handler,
		Sym: SymSpec{
			MaxLen:    func(key string, _ types.Type) int { return rs.maxLen(key) },
			IntDomain: rs.intDomain,
			NonNil: func(key string) bool {
				return !strings.Contains(key, "TextMatch") && !strings.Contains(key, "Expand")
			},
			Override: func(key string, t types.Type) Val {
				if rs.zero != nil && rs.zero(key) {
					return zeroOf(t)
				}
				return nil
			},
		},
		Setup: func(in *Interp) {
			captured, got = nil, nil
			in.MaxRecursion = 4
			in.OpenExternal = func(n *types.Named) bool {
				pp := n.Obj().Pkg().Path()
				return (pp == "net/http" && n.Obj().Name() == "Request") || (pp == "net/url" && n.Obj().Name() == "URL")
			}
			in.Models = append(in.Models, propDecodeModel, func(in *Interp, site ssa.CallInstruction, name string, args []Val) (Val, bool) {
				switch {
				case name == "(*"+pkgInternal+".Client).NewXMLRequest":
					captured = args[3]
					callPath = args[2]
					return Tuple{[]Val{kNil, in.mkErr(&ErrObj{Kind: "ext", Msg: kStr("stop after encoding"), Key: "stop"})}}, true
				case strings.HasSuffix(name, "Backend)."+rs.backendCall):
					var row []Val
					for _, i := range rs.backendArgs {
						row = append(row, args[i])
					}
					got = append(got, row)
					res := site.Common().Signature().Results()
					if res.Len() == 2 {
						return Tuple{[]Val{zeroOf(res.At(0).Type()), in.mkErr(&ErrObj{Kind: "ext", Msg: kStr("stop after the backend call"), Key: "stop"})}}, true
					}
					return in.mkErr(&ErrObj{Kind: "ext", Msg: kStr("stop"), Key: "stop"}), true
				case name == pkgInternal+".ServeMultiStatus":
					return kNil, true
				case name == pkgInternal+".NewErrorResponse":
					return in.symPointee(in.c.P.NamedType(pkgInternal, "Response"), "errresp"), true
				case name == "(*net/http.Request).Context":
					return Opaque{"ctx", site.Common().Signature().Results().At(0).Type()}, true
				}
				return nil, false
			})
		},
		Args: func(in *Interp) []Val {
			// client side
			var cargs []Val
			for i, prm := range client.Params {
				switch {
				case i == rs.queryParam:
					x = in.symOf(prm.Type(), "query")
					cargs = append(cargs, x)
				case i == 0:
					cargs = append(cargs, in.symOf(prm.Type(), "client"))
				default:
					if b, ok := prm.Type().Underlying().(*types.Basic); ok && b.Kind() == types.String {
						cargs = append(cargs, SymStr{Key: "target"})
					} else {
						cargs = append(cargs, Opaque{prm.Name(), prm.Type()})
					}
				}
			}
			in.Call(client, cargs, nil)
			if captured == nil {
				// the client refused to send the query (its own validation)
				panic(panicOutcome{kStr("client-refused"), client.Pos()})
			}
			wire := captured
			if iv, ok := wire.(Iface); ok {
				wire = iv.V
			}
			// server side
			var sargs []Val
			for i, prm := range handler.Params {
				switch {
				case isNamedPtr(prm.Type(), rs.pkg, rs.wireType):
					sargs = append(sargs, wire)
				case i == 0:
					sargs = append(sargs, in.symOf(prm.Type(), "h"))
				case isNamedPtr(prm.Type(), "net/http", "Request"):
					sargs = append(sargs, in.symOf(prm.Type(), "r"))
				default:
					sargs = append(sargs, Opaque{prm.Name(), prm.Type()})
				}
			}
			return sargs
		},
		Observe: func(in *Interp, res Val, pan *panicOutcome) string {
			if pan != nil {
				if k, ok := pan.val.(Konst); ok {
					if s, _ := constStringVal(k); s == "client-refused" {
						return "the client refuses the query"
					}
				}
				return "panic"
			}
			var rows []string
			for _, row := range got {
				var cols []string
				for _, v := range row {
					cols = append(cols, renderDeep(in, v, 0))
				}
				rows = append(rows, strings.Join(cols, " | "))
			}
			if len(rows) == 0 {
				return "no backend call (handler result " + boolErrNil(res) + ")"
			}
			return strings.Join(rows, " ;; ")
		},
		Check: func(env *OracleEnv, obs *Observation) (bool, string, bool) {
			in := obs.In
			if rs.valid != nil && !rs.valid(in, x) {
				return true, "", false
			}
			if obs.Panic != nil {
				if k, ok := obs.Panic.val.(Konst); ok {
					if s, _ := constStringVal(k); s == "client-refused" {
						return false, "a query that is valid per the RFC grammar is sent", true
					}
				}
				return false, "no panic", true
			}
			want := rs.expect(in, x, callPath)
			var rows []string
			for _, row := range got {
				var cols []string
				for _, v := range row {
					cols = append(cols, renderDeep(in, v, 0))
				}
				rows = append(rows, strings.Join(cols, " | "))
			}
			g, w := strings.Join(rows, " ;; "), strings.Join(want, " ;; ")
			if g != w {
				return false, "the backend receives: " + w, true
			}
			return true, "", true
		},
	}
	res := runDTX(c, spec)
	reportDTX(c, r, spec, res, rs.name)
	r.Role("round-trip")
	r.Count("rows_"+rs.name, res.Runs)
	if res.Runs < 4 {
		r.Unresolved("round-trip table " + rs.name + " has fewer than 4 rows")
	}
}

func boolErrNil(v Val) string {
	if v == nil || isNilVal(v) {
		return "nil"
	}
	return "error"
}

func truthOf(in *Interp, v Val) bool {
	switch x := v.(type) {
	case LazyBool, Konst:
		return in.truth(x)
	}
	return false
}

func lenOf(in *Interp, v Val) int {
	switch s := v.(type) {
	case Slice:
		return len(s.E)
	case LazySlice:
		return len(in.materialise(s).E)
	}
	return 0
}

func elemsOf(in *Interp, v Val) []Val {
	var cells []*Cell
	switch s := v.(type) {
	case Slice:
		cells = s.E
	case LazySlice:
		cells = in.materialise(s).E
	}
	var out []Val
	for _, c := range cells {
		out = append(out, c.Get())
	}
	return out
}

func timeSet(in *Interp, v Val) bool {
	t, ok := v.(TimeV)
	return ok && !in.ch.isZeroTime(t.Key)
}

// ---------------------------------------------------------------------------
// CalDAV

func caldavFilterValid(in *Interp, f Val, depth int) bool {
	// RFC 4791 grammar: is-not-defined excludes everything else; a prop-filter
	// has a time-range or a text-match, not both
	nd := truthOf(in, fieldVal(f, "IsNotDefined"))
	hasRange := timeSet(in, fieldVal(f, "Start")) || timeSet(in, fieldVal(f, "End"))
	props, comps := elemsOf(in, fieldVal(f, "Props")), elemsOf(in, fieldVal(f, "Comps"))
	if nd && (hasRange || len(props) > 0 || len(comps) > 0) {
		return false
	}
	for _, pf := range props {
		pnd := truthOf(in, fieldVal(pf, "IsNotDefined"))
		prange := timeSet(in, fieldVal(pf, "Start")) || timeSet(in, fieldVal(pf, "End"))
		ptext := !isNilVal(fieldVal(pf, "TextMatch"))
		params := elemsOf(in, fieldVal(pf, "ParamFilter"))
		if pnd && (prange || ptext || len(params) > 0) {
			return false
		}
		if prange && ptext {
			return false
		}
		for _, q := range params {
			if truthOf(in, fieldVal(q, "IsNotDefined")) && !isNilVal(fieldVal(q, "TextMatch")) {
				return false
			}
		}
	}
	for _, cf := range comps {
		if !caldavFilterValid(in, cf, depth+1) {
			return false
		}
	}
	return true
}

func caldavRoundtrips(c *Ctx, r *RuleResult) {
	bonus := 0
	if c.Thorough() {
		bonus = 1
	}
	filterLens := func(key string) int {
		switch {
		case strings.HasSuffix(key, ".Comps"):
			if strings.Count(key, ".Comps") >= 2 {
				return 0
			}
			return 1
		case strings.HasSuffix(key, ".Props"), strings.HasSuffix(key, ".ParamFilter"):
			if strings.Count(key, ".Comps") >= 1 {
				return 0
			}
			if strings.HasSuffix(key, ".ParamFilter") {
				return 1 + bonus
			}
			return 1
		}
		return 1
	}
	roundtripRule(c, r, rtSpec{name: "calendar-query filter", pkg: pkgCaldav, clientFn: "(*Client).QueryCalendar", queryParam: 3,
		wireType: "calendarQuery", backendCall: "QueryCalendarObjects", backendArgs: []int{3},
		maxLen: filterLens,
		zero:   func(key string) bool { return key == "query.CompRequest" },
		valid:  func(in *Interp, x Val) bool { return caldavFilterValid(in, fieldVal(x, "CompFilter"), 0) },
		expect: func(in *Interp, x Val, _ Val) []string {
			// the backend gets the same filter; a zero component request is
			// sent as an empty <comp/> and comes back as itself
			return []string{"&{CompRequest:" + renderDeep(in, fieldVal(x, "CompRequest"), 0) + " CompFilter:" + renderDeep(in, fieldVal(x, "CompFilter"), 0) + "}"}
		}})
	compLens := func(key string) int {
		switch {
		case strings.HasSuffix(key, ".Comps"):
			if strings.Count(key, ".Comps") >= 2 {
				return 0
			}
			return 1
		case strings.HasSuffix(key, ".Props"):
			return 2
		}
		return 0
	}
	compValid := func(in *Interp, cr Val) bool {
		var rec func(v Val) bool
		rec = func(v Val) bool {
			// RFC 4791 §9.6.1: allprop xor prop*, allcomp xor comp*
			if truthOf(in, fieldVal(v, "AllProps")) && lenOf(in, fieldVal(v, "Props")) > 0 {
				return false
			}
			if truthOf(in, fieldVal(v, "AllComps")) && lenOf(in, fieldVal(v, "Comps")) > 0 {
				return false
			}
			for _, ch := range elemsOf(in, fieldVal(v, "Comps")) {
				if !isNilVal(fieldVal(ch, "Expand")) {
					return false // expand belongs to calendar-data, not to nested comps
				}
				if !rec(ch) {
					return false
				}
			}
			return true
		}
		return rec(cr)
	}
	roundtripRule(c, r, rtSpec{name: "calendar-query calendar-data", pkg: pkgCaldav, clientFn: "(*Client).QueryCalendar", queryParam: 3,
		wireType: "calendarQuery", backendCall: "QueryCalendarObjects", backendArgs: []int{3},
		maxLen: compLens,
		zero:   func(key string) bool { return key == "query.CompFilter" },
		valid:  func(in *Interp, x Val) bool { return compValid(in, fieldVal(x, "CompRequest")) },
		expect: func(in *Interp, x Val, _ Val) []string {
			return []string{"&{CompRequest:" + renderDeep(in, fieldVal(x, "CompRequest"), 0) + " CompFilter:" + renderDeep(in, fieldVal(x, "CompFilter"), 0) + "}"}
		}})
	roundtripRule(c, r, rtSpec{name: "calendar-multiget", pkg: pkgCaldav, clientFn: "(*Client).MultiGetCalendar", queryParam: 3,
		wireType: "calendarMultiget", backendCall: "GetCalendarObject", backendArgs: []int{2, 3},
		maxLen: func(key string) int {
			if key == "query.Paths" {
				return 2
			}
			return compLens(key)
		},
		valid: func(in *Interp, x Val) bool { return compValid(in, fieldVal(x, "CompRequest")) },
		expect: func(in *Interp, x Val, path Val) []string {
			cr := "&" + renderDeep(in, fieldVal(x, "CompRequest"), 0)
			var rows []string
			paths := elemsOf(in, fieldVal(x, "Paths"))
			if len(paths) == 0 {
				// no explicit path: the collection path itself is asked for
				return []string{renderDeep(in, path, 0) + " | " + cr}
			}
			for _, pth := range paths {
				rows = append(rows, renderDeep(in, pth, 0)+" | "+cr)
			}
			return rows
		}})
}

// ---------------------------------------------------------------------------
// CardDAV

func carddavRoundtrips(c *Ctx, r *RuleResult) {
	bonus := 0
	if c.Thorough() {
		bonus = 1
	}
	lens := func(key string) int {
		switch {
		case strings.HasSuffix(key, ".PropFilters"):
			return 1
		case strings.HasSuffix(key, ".TextMatches"):
			return 1 + bonus
		case strings.HasSuffix(key, ".Params"):
			return 1
		case strings.HasSuffix(key, ".Props"):
			return 2
		case strings.HasSuffix(key, ".Paths"):
			return 2 + bonus
		}
		return 1
	}
	valid := func(in *Interp, x Val) bool {
		for _, pf := range elemsOf(in, fieldVal(x, "PropFilters")) {
			nd := truthOf(in, fieldVal(pf, "IsNotDefined"))
			if nd && (lenOf(in, fieldVal(pf, "TextMatches")) > 0 || lenOf(in, fieldVal(pf, "Params")) > 0) {
				return false
			}
			for _, q := range elemsOf(in, fieldVal(pf, "Params")) {
				if truthOf(in, fieldVal(q, "IsNotDefined")) && !isNilVal(fieldVal(q, "TextMatch")) {
					return false
				}
			}
		}
		dr := fieldVal(x, "DataRequest")
		if truthOf(in, fieldVal(dr, "AllProp")) && lenOf(in, fieldVal(dr, "Props")) > 0 {
			return false // the client sends allprop only; the statement's "or" is exclusive
		}
		return true
	}
	roundtripRule(c, r, rtSpec{name: "addressbook-query", pkg: pkgCarddav, clientFn: "(*Client).QueryAddressBook", queryParam: 3,
		wireType: "addressbookQuery", backendCall: "QueryAddressObjects", backendArgs: []int{3},
		maxLen: lens,
		intDomain: func(key string) []int64 {
			if key == "query.Limit" {
				return []int64{-1, 0, 1, 7}
			}
			return nil
		},
		valid: valid,
		expect: func(in *Interp, x Val, _ Val) []string {
			// Limit <= 0 means unlimited and is not sent: it arrives as 0
			lim, _ := in.concretise(fieldVal(x, "Limit"))
			if lim < 0 {
				lim = 0
			}
			return []string{"&{DataRequest:" + renderDeep(in, fieldVal(x, "DataRequest"), 0) + " PropFilters:" + renderDeep(in, fieldVal(x, "PropFilters"), 0) +
				" FilterTest:" + renderDeep(in, fieldVal(x, "FilterTest"), 0) + fmt.Sprintf(" Limit:%d}", lim)}
		}})
	roundtripRule(c, r, rtSpec{name: "addressbook-multiget", pkg: pkgCarddav, clientFn: "(*Client).MultiGetAddressBook", queryParam: 3,
		wireType: "addressbookMultiget", backendCall: "GetAddressObject", backendArgs: []int{2, 3},
		maxLen: lens,
		valid: func(in *Interp, x Val) bool {
			dr := fieldVal(x, "DataRequest")
			return !(truthOf(in, fieldVal(dr, "AllProp")) && lenOf(in, fieldVal(dr, "Props")) > 0)
		},
		expect: func(in *Interp, x Val, path Val) []string {
			dr := "&" + renderDeep(in, fieldVal(x, "DataRequest"), 0)
			paths := elemsOf(in, fieldVal(x, "Paths"))
			if len(paths) == 0 {
				return []string{renderDeep(in, path, 0) + " | " + dr}
			}
			var rows []string
			for _, pth := range paths {
				rows = append(rows, renderDeep(in, pth, 0)+" | "+dr)
			}
			return rows
		}})
}
