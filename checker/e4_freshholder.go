package main

// Fresh decode holders (E4). A multi-status is decoded response by response:
// `var x T; err := resp.DecodeProp(&x)` with the error TOLERATED when the
// property is reported missing (`err != nil && !IsNotFound(err)`), relying on
// x still being the zero value. That holds only if x is a fresh variable for
// every response. A holder declared once in front of the loop keeps what was
// decoded for the PREVIOUS response: a resource whose property came back 404
// is handed to the caller with another resource's value.

import (
	"fmt"
	"go/token"
	"go/types"
	"strings"

	"golang.org/x/tools/go/ssa"
)

func inSameCycle(a, b *ssa.BasicBlock) bool {
	if a == b {
		return blockReaches(a, a)
	}
	return blockReaches(a, b) && blockReaches(b, a)
}

// rootAlloc follows &x, &x.f, &x[i] and interface/pointer conversions to the
// variable a pointer points into.
func rootAlloc(v ssa.Value) *ssa.Alloc {
	for i := 0; i < 8; i++ {
		switch x := v.(type) {
		case *ssa.Alloc:
			return x
		case *ssa.MakeInterface:
			v = x.X
		case *ssa.ChangeType:
			v = x.X
		case *ssa.Convert:
			v = x.X
		case *ssa.FieldAddr:
			v = x.X
		case *ssa.IndexAddr:
			v = x.X
		default:
			return nil
		}
	}
	return nil
}

// errTolerated: after the call there is a way on which its error is non-nil
// and the loop nevertheless goes on (reaches the call's block again).
func errTolerated(site *ssa.Call) bool {
	var errVals []ssa.Value
	v := ssa.Value(site)
	if tup, ok := v.Type().(*types.Tuple); ok {
		for _, ref := range refsOf(v) {
			if ex, ok := ref.(*ssa.Extract); ok && isErrorType(tup.At(ex.Index).Type()) {
				errVals = append(errVals, ex)
			}
		}
	} else if isErrorType(v.Type()) {
		errVals = append(errVals, v)
	} else {
		return false
	}
	tested := false
	for _, ev := range errVals {
		for _, ref := range refsOf(ev) {
			bo, ok := ref.(*ssa.BinOp)
			if !ok {
				continue
			}
			for _, r2 := range refsOf(bo) {
				iff, ok := r2.(*ssa.If)
				if !ok {
					continue
				}
				tested = true
				// successor taken when err != nil
				succ := iff.Block().Succs[0]
				if bo.Op.String() == "==" {
					succ = iff.Block().Succs[1]
				}
				if succ == site.Block() || blockReaches(succ, site.Block()) {
					return true
				}
			}
		}
	}
	return !tested // an error nobody tests is tolerated
}

func freshHolderRule(c *Ctx, pr *PropertyRun, prop string) {
	p := c.P
	r := NewRule(prop, prop+".fresh-holder", "a variable a property is decoded into inside a loop, with the decoder's error tolerated (property reported missing), is a fresh variable per iteration or is reset before the call: otherwise a resource without the property is returned with the previous resource's value (E4)")
	pr.Rules = append(pr.Rules, r)
	decodeProp := p.Func(pkgInternal, "(*Response).DecodeProp")
	isDecode := func(cc *ssa.CallCommon) (int, bool) {
		callee := cc.StaticCallee()
		if callee == nil {
			return 0, false
		}
		if callee == decodeProp && decodeProp != nil {
			return 1, true
		}
		switch fullFnName(callee) {
		case "(*" + pkgInternal + ".RawXMLValue).Decode", "(*encoding/xml.Decoder).Decode":
			return 1, true
		case "encoding/xml.Unmarshal":
			return 1, true
		}
		return 0, false
	}
	for _, fn := range p.ModFns {
		if !inLib(fn) || len(fn.Blocks) == 0 {
			continue
		}
		eachCall(fn, func(site ssa.CallInstruction) {
			call, ok := site.(*ssa.Call)
			if !ok {
				return
			}
			cc := call.Common()
			ai, ok := isDecode(cc)
			if !ok || ai >= len(cc.Args) {
				return
			}
			b := call.Block()
			if !blockReaches(b, b) {
				return
			}
			// variadic holders: DecodeProp(values ...interface{}) gets a slice
			var holders []*ssa.Alloc
			arg := cc.Args[ai]
			if sl, ok := arg.(*ssa.Slice); ok {
				if arr := rootAlloc(sl.X); arr != nil {
					for _, ref := range refsOf(arr) {
						if ia, ok := ref.(*ssa.IndexAddr); ok {
							for _, r2 := range refsOf(ia) {
								if st, ok := r2.(*ssa.Store); ok && st.Addr == ssa.Value(ia) {
									if al := rootAlloc(st.Val); al != nil {
										holders = append(holders, al)
									}
								}
							}
						}
					}
				}
			} else if al := rootAlloc(arg); al != nil {
				holders = append(holders, al)
			}
			for _, al := range holders {
				r.Role("decode-in-loop")
				if al.Block() == b || inSameCycle(al.Block(), b) {
					r.Ob(true)
					continue
				}
				if !errTolerated(call) {
					r.Ob(true)
					continue
				}
				// reset before the call, inside the cycle
				reset := false
				for _, ref := range refsOf(al) {
					if st, ok := ref.(*ssa.Store); ok && st.Addr == ssa.Value(al) {
						sb := st.Block()
						if (sb == b || inSameCycle(sb, b)) && sb.Dominates(b) {
							reset = true
						}
					}
				}
				r.Ob(reset)
				if !reset {
					r.Violation("fresh-holder|"+fnKey(fn)+"|"+al.Comment, p.instrPos(call), fmt.Sprintf("%s decodes into %q inside a loop and tolerates the decoder's error, but %q is declared once outside the loop and not reset: when a later response reports the property as missing, the value decoded for an earlier response is handed on as this resource's", fnKey(fn), al.Comment, al.Comment), nil)
				}
			}
		})
	}
	// The same for the library's own fill-in helpers: a struct variable
	// declared in front of a loop, handed by address to a library function
	// inside the loop and then copied out whole (appended, stored) keeps the
	// fields the helper did not set this time from the previous iteration,
	// unless the helper overwrites the whole value on every path or the
	// variable is reset first.
	for _, fn := range p.ModFns {
		if !inLib(fn) || len(fn.Blocks) == 0 {
			continue
		}
		eachCall(fn, func(site ssa.CallInstruction) {
			call, ok := site.(*ssa.Call)
			if !ok {
				return
			}
			callee := call.Common().StaticCallee()
			if callee == nil || !inLib(callee) || len(callee.Blocks) == 0 {
				return
			}
			b := call.Block()
			if !blockReaches(b, b) {
				return
			}
			for ai, a := range call.Common().Args {
				al, isAlloc := a.(*ssa.Alloc)
				if !isAlloc || ai >= len(callee.Params) {
					continue
				}
				if _, isStruct := al.Type().(*types.Pointer).Elem().Underlying().(*types.Struct); !isStruct {
					continue
				}
				if al.Block() == b || inSameCycle(al.Block(), b) {
					continue // a fresh variable per iteration
				}
				// copied out whole inside the cycle?
				copied := false
				reset := false
				for _, ref := range refsOf(al) {
					switch x := ref.(type) {
					case *ssa.UnOp:
						if x.X == ssa.Value(al) && (x.Block() == b || inSameCycle(x.Block(), b)) && len(refsOf(x)) > 0 {
							copied = true
						}
					case *ssa.Store:
						if x.Addr == ssa.Value(al) {
							sb := x.Block()
							if (sb == b || inSameCycle(sb, b)) && sb.Dominates(b) {
								reset = true
							}
						}
					}
				}
				if !copied {
					continue
				}
				r.Role("filled-in-loop")
				ok := reset || overwritesWhole(callee, callee.Params[ai])
				r.Ob(ok)
				if !ok {
					r.Violation("fresh-holder|"+fnKey(fn)+"|"+al.Comment, p.instrPos(call), fmt.Sprintf("%s fills %q through %s inside a loop and copies it out, but %q is declared once outside the loop, is not reset, and %s does not overwrite the whole value: the fields it does not set for this element keep what an earlier element put there", fnKey(fn), al.Comment, fnKey(callee), al.Comment, fnKey(callee)), nil)
				}
			}
		})
	}
	r.RequireRole("decode-in-loop")
	if p.Control {
		r.ExpectControl("fresh-holder|")
	}
}

// overwritesWhole: the function stores a whole value through the pointer
// parameter on every path (a store in a block that dominates every return).
func overwritesWhole(fn *ssa.Function, prm *ssa.Parameter) bool {
	for _, ref := range refsOf(prm) {
		st, ok := ref.(*ssa.Store)
		if !ok || st.Addr != ssa.Value(prm) {
			continue
		}
		all := true
		for _, b := range fn.Blocks {
			if _, isRet := b.Instrs[len(b.Instrs)-1].(*ssa.Return); isRet && !st.Block().Dominates(b) {
				all = false
			}
		}
		if all {
			return true
		}
	}
	return false
}

// errToleratedAnywhere: there is a way on which the call's error is non-nil
// and the function nevertheless goes on: back to the call (a loop that
// continues) or to a return that does not hand the error on.
func errToleratedAnywhere(site *ssa.Call) bool {
	var errVals []ssa.Value
	v := ssa.Value(site)
	if tup, ok := v.Type().(*types.Tuple); ok {
		for _, ref := range refsOf(v) {
			if ex, ok := ref.(*ssa.Extract); ok && isErrorType(tup.At(ex.Index).Type()) {
				errVals = append(errVals, ex)
			}
		}
	} else if isErrorType(v.Type()) {
		errVals = append(errVals, v)
	} else {
		return false
	}
	isErrVal := func(x ssa.Value) bool {
		for _, ev := range errVals {
			if x == ev {
				return true
			}
			if phi, ok := x.(*ssa.Phi); ok {
				for _, e := range phi.Edges {
					if e == ev {
						return true
					}
				}
			}
		}
		return false
	}
	tested := false
	for _, ev := range errVals {
		for _, ref := range refsOf(ev) {
			bo, ok := ref.(*ssa.BinOp)
			if !ok {
				continue
			}
			for _, r2 := range refsOf(bo) {
				iff, ok := r2.(*ssa.If)
				if !ok {
					continue
				}
				tested = true
				succ := iff.Block().Succs[0]
				if bo.Op.String() == "==" {
					succ = iff.Block().Succs[1]
				}
				seen := map[*ssa.BasicBlock]bool{}
				var walk func(b *ssa.BasicBlock) bool
				walk = func(b *ssa.BasicBlock) bool {
					if b == site.Block() {
						return true
					}
					if seen[b] {
						return false
					}
					seen[b] = true
					if ret, isRet := b.Instrs[len(b.Instrs)-1].(*ssa.Return); isRet {
						for _, res := range ret.Results {
							if isErrVal(res) {
								return false
							}
							// wrapped or converted: still handed on
							if c, isCall := res.(*ssa.Call); isCall {
								for _, a := range c.Common().Args {
									if isErrVal(a) {
										return false
									}
								}
							}
							if mi, isMI := res.(*ssa.MakeInterface); isMI {
								_ = mi
							}
						}
						// a return of some other non-nil error value is a
						// failure too, not a toleration
						for _, res := range ret.Results {
							if isErrorType(res.Type()) && !isNilConst(res) {
								return false
							}
						}
						return true
					}
					if _, isPanic := b.Instrs[len(b.Instrs)-1].(*ssa.Panic); isPanic {
						return false
					}
					for _, s := range b.Succs {
						if walk(s) {
							return true
						}
					}
					return false
				}
				if walk(succ) {
					return true
				}
			}
		}
	}
	return !tested
}

// statusBeforeToleranceRule: Response.DecodeProp reports a failing status of
// the whole response and a failing (or missing) property through the same
// kind of error. Code that tolerates "not found" from DecodeProp must have
// looked at the response's own status first (Response.Path or Response.Err
// returned nil), or a resource the server reported as failed is silently
// treated as one that merely lacks the property.
func statusBeforeToleranceRule(c *Ctx, pr *PropertyRun, prop string) {
	p := c.P
	r := NewRule(prop, prop+".status-before-tolerance", "a DecodeProp whose error is tolerated is dominated by the nil result of Response.Path/Response.Err for the same response: the response's own failure status is never taken for a missing property (E4)")
	pr.Rules = append(pr.Rules, r)
	decodeProp := p.MustFunc(r, pkgInternal, "(*Response).DecodeProp")
	pathFn := p.Func(pkgInternal, "(*Response).Path")
	errFn := p.Func(pkgInternal, "(*Response).Err")
	if decodeProp == nil {
		return
	}
	recvRoot := func(v ssa.Value) ssa.Value {
		for i := 0; i < 4; i++ {
			switch x := v.(type) {
			case *ssa.UnOp:
				v = x.X
			case *ssa.ChangeType:
				v = x.X
			default:
				return v
			}
		}
		return v
	}
	// checkedAt: in fn, the response behind root has had its own status found
	// good (Path/Err returned a nil error) on every way to block at; for a
	// helper that is handed the response, at every one of its call sites
	var checkedAt func(fn *ssa.Function, root ssa.Value, at *ssa.BasicBlock, depth int) bool
	checkedAt = func(fn *ssa.Function, root ssa.Value, at *ssa.BasicBlock, depth int) bool {
		found := false
		eachCall(fn, func(site ssa.CallInstruction) {
			call, ok := site.(*ssa.Call)
			if !ok {
				return
			}
			callee := call.Common().StaticCallee()
			if callee == nil || (callee != pathFn && callee != errFn) || len(call.Common().Args) == 0 {
				return
			}
			if recvRoot(call.Common().Args[0]) != root {
				return
			}
			var ev ssa.Value = call
			if _, isTup := call.Type().(*types.Tuple); isTup {
				ev = nil
				for _, ref := range refsOf(call) {
					if ex, isEx := ref.(*ssa.Extract); isEx && isErrorType(ex.Type()) {
						ev = ex
					}
				}
			}
			if ev != nil && knownNilAt(ev, at) {
				found = true
			}
		})
		if found {
			return true
		}
		prm, isPrm := root.(*ssa.Parameter)
		if !isPrm || depth >= 2 || externallyCallable(fn) || fn.Parent() != nil {
			return false
		}
		idx := paramIndex(fn, prm)
		n := 0
		for _, e := range c.CG().In[fn] {
			if e.Site == nil || !p.InModule(e.Caller) || e.Kind == "closure" || e.Kind == "reflect" {
				continue
			}
			cc := e.Site.Common()
			var all []ssa.Value
			if cc.IsInvoke() {
				all = append(all, cc.Value)
			}
			all = append(all, cc.Args...)
			if idx >= len(all) {
				return false
			}
			n++
			if !checkedAt(e.Caller, recvRoot(all[idx]), e.Site.Block(), depth+1) {
				return false
			}
		}
		return n > 0
	}
	for _, fn := range p.ModFns {
		if !inLib(fn) || len(fn.Blocks) == 0 || (fnPkg(fn) != nil && fnPkg(fn).Path() == pkgInternal) {
			continue
		}
		eachCall(fn, func(site ssa.CallInstruction) {
			call, ok := site.(*ssa.Call)
			if !ok || call.Common().StaticCallee() != decodeProp || len(call.Common().Args) == 0 {
				return
			}
			if !errToleratedAnywhere(call) {
				return
			}
			r.Role("tolerated-decode")
			root := recvRoot(call.Common().Args[0])
			ok = checkedAt(fn, root, call.Block(), 0)
			r.Ob(ok)
			if !ok {
				r.Violation("tolerance-before-status|"+fnKey(fn), p.instrPos(call), fmt.Sprintf("%s tolerates the error of Response.DecodeProp without having found the response's own status good first (Response.Path / Response.Err): a resource the server reports as failed (response-level 404) is treated as one that lacks the property, and the failure is dropped", fnKey(fn)), nil)
			}
		})
	}
	r.RequireRole("tolerated-decode")
}

// typedNilRule: a function result of a concrete pointer type that implements
// error (*HTTPError), converted to the interface type error, is a NON-nil
// error even when the pointer is nil. Unless the producing function returns a
// non-nil pointer on every path, `var err error = f()` turns success into a
// failure whose fields are then read through a nil pointer.
func typedNilRule(c *Ctx, pr *PropertyRun, prop string) {
	p := c.P
	r := NewRule(prop, prop+".typed-nil", "a pointer-typed result converted to the interface type error comes from a function that returns a non-nil pointer on every path (a nil *HTTPError in an error variable is a non-nil error) (E4)")
	pr.Rules = append(pr.Rules, r)
	var nonNilFn func(fn *ssa.Function, idx int, depth int) bool
	var nonNilValRec func(v ssa.Value, depth int) bool
	nonNilVal := func(v ssa.Value, depth int) bool {
		for i := 0; i < 4; i++ {
			switch x := v.(type) {
			case *ssa.Alloc:
				return true
			case *ssa.Const:
				return !x.IsNil()
			case *ssa.UnOp:
				// a result spilled into a cell (go/ssa does that for functions
				// with a defer): what is loaded is what was stored
				al, isAl := x.X.(*ssa.Alloc)
				if x.Op != token.MUL || !isAl || depth > 3 {
					return false
				}
				stores := 0
				for _, ref := range refsOf(al) {
					switch st := ref.(type) {
					case *ssa.Store:
						if st.Addr != ssa.Value(al) {
							return false
						}
						stores++
						if !nonNilValRec(st.Val, depth+1) {
							return false
						}
					case *ssa.UnOp:
					default:
						return false // its address escapes
					}
				}
				return stores > 0
			case *ssa.Phi:
				// a variable assigned on some paths only
				if depth > 3 {
					return false
				}
				for _, e := range x.Edges {
					if e == ssa.Value(x) {
						continue
					}
					if !nonNilValRec(e, depth+1) {
						return false
					}
				}
				return true
			case *ssa.ChangeType:
				v = x.X
				continue
			case *ssa.Call:
				if callee := x.Common().StaticCallee(); callee != nil && inLib(callee) {
					return nonNilFn(callee, 0, depth+1)
				}
				return false
			case *ssa.Extract:
				if call, ok := x.Tuple.(*ssa.Call); ok {
					if callee := call.Common().StaticCallee(); callee != nil && inLib(callee) {
						return nonNilFn(callee, x.Index, depth+1)
					}
				}
				return false
			}
			return false
		}
		return false
	}
	nonNilValRec = nonNilVal
	nonNilFn = func(fn *ssa.Function, idx int, depth int) bool {
		if depth > 3 || len(fn.Blocks) == 0 {
			return false
		}
		n := 0
		for _, b := range fn.Blocks {
			if b == fn.Recover && !callsRecover(fn) {
				// go/ssa's landing block for a recovered panic (every
				// function with a defer has one): it returns zero values,
				// and is reached only if a deferred call recovers
				continue
			}
			ret, ok := b.Instrs[len(b.Instrs)-1].(*ssa.Return)
			if !ok || idx >= len(ret.Results) {
				continue
			}
			n++
			if !nonNilVal(ret.Results[idx], depth) {
				return false
			}
		}
		return n > 0
	}
	for _, fn := range p.ModFns {
		if !inLib(fn) || len(fn.Blocks) == 0 {
			continue
		}
		eachInstr(fn, func(_ *ssa.BasicBlock, in ssa.Instruction) {
			mi, ok := in.(*ssa.MakeInterface)
			if !ok || !isErrorType(mi.Type()) {
				return
			}
			if _, isPtr := mi.X.Type().Underlying().(*types.Pointer); !isPtr {
				return
			}
			switch mi.X.(type) {
			case *ssa.Call, *ssa.Extract, *ssa.Phi:
			default:
				return // a literal, a local: decided where it is made
			}
			r.Role("pointer-result-as-error")
			ok = nonNilVal(mi.X, 0)
			r.Ob(ok)
			if !ok {
				r.Violation("typed-nil|"+fnKey(fn), p.instrPos(mi), fmt.Sprintf("%s converts a pointer-typed function result (%s) to the interface type error, and the function can return a nil pointer: the error is then non-nil although nothing failed, and reading its fields dereferences nil", fnKey(fn), mi.X.Type().String()), nil)
			}
		})
	}
	r.RequireRole("pointer-result-as-error")
}

// timeEqualityRule: time.Time values are compared with Equal, never with ==
// or !=: the operators also compare the monotonic reading and the *Location
// pointer, so two values for the same instant (parsed twice, each with its
// own LoadLocation result) are "different".
func timeEqualityRule(c *Ctx, pr *PropertyRun, prop string) {
	p := c.P
	r := NewRule(prop, prop+".time-equality", "no == or != between time.Time values (they compare the location pointer too): instants are compared with Equal/Before/After (E4)")
	pr.Rules = append(pr.Rules, r)
	n := 0
	for _, fn := range p.ModFns {
		if !inLib(fn) || len(fn.Blocks) == 0 {
			continue
		}
		eachInstr(fn, func(_ *ssa.BasicBlock, in ssa.Instruction) {
			bo, ok := in.(*ssa.BinOp)
			if !ok || (bo.Op.String() != "==" && bo.Op.String() != "!=") {
				return
			}
			if !isTimeType(bo.X.Type()) && !isTimeType(bo.Y.Type()) {
				return
			}
			n++
			r.Role("time-comparison")
			r.Ob(false)
			r.Violation("time-operator|"+fnKey(fn), p.instrPos(bo), fnKey(fn)+" compares time.Time values with "+bo.Op.String()+": the operator also compares the location pointer, so the same instant obtained twice (two LoadLocation calls) counts as different; use Equal", nil)
		})
	}
	r.Count("time_operator_comparisons", n)
	if p.Control {
		r.ExpectControl("time-operator|caldav.zzVerifControlTimeEq")
	}
}

// redirectCodesRule: a redirect the library issues for a DAV request keeps
// the method and the body: 307 or 308. On 301/302/303 HTTP clients re-send a
// PROPFIND as a body-less GET, and discovery through the well-known URL ends
// in the wrong handler.
func redirectCodesRule(c *Ctx, pr *PropertyRun, prop string) {
	p := c.P
	r := NewRule(prop, prop+".redirect-codes", "every http.Redirect of the library uses 307 or 308 (method and body preserved): a PROPFIND redirected with 301/302 is re-sent as GET (E4)")
	pr.Rules = append(pr.Rules, r)
	for _, fn := range p.ModFns {
		if !inLib(fn) || len(fn.Blocks) == 0 {
			continue
		}
		eachCall(fn, func(site ssa.CallInstruction) {
			if calleeName(site.Common()) != "net/http.Redirect" || len(site.Common().Args) < 4 {
				return
			}
			r.Role("redirect")
			code, isConst := constInt(site.Common().Args[3])
			ok := isConst && (code == 307 || code == 308)
			r.Ob(ok)
			if !ok {
				r.Violation("redirect-code|"+fnKey(fn), p.instrPos(site), fmt.Sprintf("%s redirects with status %d: only 307 and 308 make a client repeat the method and body; a PROPFIND or REPORT sent to the well-known URL is re-issued as a GET and discovery fails", fnKey(fn), code), nil)
			}
		})
	}
	r.RequireRole("redirect")
}

// tempPatternRule: the name pattern of a temporary file is a constant. A
// pattern built from the request's own file name makes names near the file
// system's length limit (255 bytes) impossible to store.
func tempPatternRule(c *Ctx, pr *PropertyRun, prop string) {
	p := c.P
	r := NewRule(prop, prop+".temp-pattern", "the pattern of every os.CreateTemp/ioutil.TempFile in the library is a constant: a pattern that embeds the request's file name overflows the name-length limit for long legal names (E4)")
	pr.Rules = append(pr.Rules, r)
	for _, fn := range p.ModFns {
		if !inLib(fn) || len(fn.Blocks) == 0 {
			continue
		}
		eachCall(fn, func(site ssa.CallInstruction) {
			n := calleeName(site.Common())
			if n != "os.CreateTemp" && n != "io/ioutil.TempFile" {
				return
			}
			r.Role("temp-file")
			_, isConst := constString(site.Common().Args[1])
			r.Ob(isConst)
			if !isConst {
				r.Violation("temp-pattern|"+fnKey(fn), p.instrPos(site), fnKey(fn)+" names a temporary file after a computed pattern: when the pattern embeds the target's own name, the random suffix pushes names close to the 255-byte limit over it and such resources can no longer be written", nil)
			}
		})
	}
	r.Note("expected count on the current tree: no temporary files; the firing of the rule is exercised by seed C05-18")
}

// locationAlwaysRule: the path under which the backend stored an object is
// announced (Location) whenever the backend gave one — not only when it
// differs from the request path: the client starts from the path its CALLER
// passed, which is not the effective request path (relative names are joined
// onto the endpoint), and has nothing else to correct it with.
func locationAlwaysRule(c *Ctx, pr *PropertyRun, prop string) {
	p := c.P
	r := NewRule(prop, prop+".location-always", "the Location header of a PUT answer is written whenever the backend reported a path: its emission depends on no comparison of that path with another value (E4)")
	pr.Rules = append(pr.Rules, r)
	for _, fn := range p.ModFns {
		if !inLib(fn) || len(fn.Blocks) == 0 {
			continue
		}
		eachCall(fn, func(site ssa.CallInstruction) {
			cc := site.Common()
			n := calleeName(cc)
			if (n != "(net/http.Header).Set" && n != "(net/http.Header).Add") || len(cc.Args) != 3 {
				return
			}
			if k, ok := constString(cc.Args[1]); !ok || !strings.EqualFold(k, "Location") {
				return
			}
			if p.isControlFn(fn) {
				return
			}
			r.Role("location-emission")
			bad := ""
			b := site.Block()
			for _, blk := range fn.Blocks {
				iff, ok := blk.Instrs[len(blk.Instrs)-1].(*ssa.If)
				if !ok || !(edgeDominates(blk, 0, b) || edgeDominates(blk, 1, b)) {
					continue
				}
				bo, ok := iff.Cond.(*ssa.BinOp)
				if !ok {
					continue
				}
				_, cx := bo.X.(*ssa.Const)
				_, cy := bo.Y.(*ssa.Const)
				if cx || cy {
					continue // a presence test, an error test
				}
				if bs, ok := bo.X.Type().Underlying().(*types.Basic); ok && bs.Info()&types.IsString != 0 {
					bad = "a comparison of two strings (" + bo.Op.String() + ") at " + p.instrPos(iff)
				}
			}
			r.Ob(bad == "")
			if bad != "" {
				r.Violation("location-conditional|"+fnKey(fn), p.instrPos(site), fmt.Sprintf("%s writes the Location header only under %s: when it is left out the client reports the path its caller passed, which is not the path the backend stored the object under (relative names are joined onto the endpoint)", fnKey(fn), bad), nil)
			}
		})
	}
	r.RequireRole("location-emission")
}

// callsRecover: fn or one of its closures calls the builtin recover (only then
// can control reach fn.Recover).
func callsRecover(fn *ssa.Function) bool {
	found := false
	for _, f := range withClosures(fn) {
		eachCall(f, func(site ssa.CallInstruction) {
			if b, ok := site.Common().Value.(*ssa.Builtin); ok && b.Name() == "recover" {
				found = true
			}
		})
	}
	return found
}
