package main

// Fresh decode holders (E4). A multi-status is decoded response by response:
// `var x T; err := resp.DecodeProp(&x)` with the error TOLERATED when the
// property is reported missing (`err != nil && !IsNotFound(err)`), relying on
// x still being the zero value. That holds only if x is a fresh variable for
// every response. A holder declared once in front of the loop keeps what was
// decoded for the PREVIOUS response: a resource whose property came back 404
// is handed to the caller with another resource's value.

import (
	"fmt"
	"go/types"

	"golang.org/x/tools/go/ssa"
)

func inSameCycle(a, b *ssa.BasicBlock) bool {
	if a == b {
		return blockReaches(a, a)
	}
	return blockReaches(a, b) && blockReaches(b, a)
}

// rootAlloc follows &x, &x.f, &x[i] and interface/pointer conversions to the
// variable a pointer points into.
func rootAlloc(v ssa.Value) *ssa.Alloc {
	for i := 0; i < 8; i++ {
		switch x := v.(type) {
		case *ssa.Alloc:
			return x
		case *ssa.MakeInterface:
			v = x.X
		case *ssa.ChangeType:
			v = x.X
		case *ssa.Convert:
			v = x.X
		case *ssa.FieldAddr:
			v = x.X
		case *ssa.IndexAddr:
			v = x.X
		default:
			return nil
		}
	}
	return nil
}

// errTolerated: after the call there is a way on which its error is non-nil
// and the loop nevertheless goes on (reaches the call's block again).
func errTolerated(site *ssa.Call) bool {
	var errVals []ssa.Value
	v := ssa.Value(site)
	if tup, ok := v.Type().(*types.Tuple); ok {
		for _, ref := range refsOf(v) {
			if ex, ok := ref.(*ssa.Extract); ok && isErrorType(tup.At(ex.Index).Type()) {
				errVals = append(errVals, ex)
			}
		}
	} else if isErrorType(v.Type()) {
		errVals = append(errVals, v)
	} else {
		return false
	}
	tested := false
	for _, ev := range errVals {
		for _, ref := range refsOf(ev) {
			bo, ok := ref.(*ssa.BinOp)
			if !ok {
				continue
			}
			for _, r2 := range refsOf(bo) {
				iff, ok := r2.(*ssa.If)
				if !ok {
					continue
				}
				tested = true
				// successor taken when err != nil
				succ := iff.Block().Succs[0]
				if bo.Op.String() == "==" {
					succ = iff.Block().Succs[1]
				}
				if succ == site.Block() || blockReaches(succ, site.Block()) {
					return true
				}
			}
		}
	}
	return !tested // an error nobody tests is tolerated
}

func freshHolderRule(c *Ctx, pr *PropertyRun, prop string) {
	p := c.P
	r := NewRule(prop, prop+".fresh-holder", "a variable a property is decoded into inside a loop, with the decoder's error tolerated (property reported missing), is a fresh variable per iteration or is reset before the call: otherwise a resource without the property is returned with the previous resource's value (E4)")
	pr.Rules = append(pr.Rules, r)
	decodeProp := p.Func(pkgInternal, "(*Response).DecodeProp")
	isDecode := func(cc *ssa.CallCommon) (int, bool) {
		callee := cc.StaticCallee()
		if callee == nil {
			return 0, false
		}
		if callee == decodeProp && decodeProp != nil {
			return 1, true
		}
		switch fullFnName(callee) {
		case "(*" + pkgInternal + ".RawXMLValue).Decode", "(*encoding/xml.Decoder).Decode":
			return 1, true
		case "encoding/xml.Unmarshal":
			return 1, true
		}
		return 0, false
	}
	for _, fn := range p.ModFns {
		if !inLib(fn) || len(fn.Blocks) == 0 {
			continue
		}
		eachCall(fn, func(site ssa.CallInstruction) {
			call, ok := site.(*ssa.Call)
			if !ok {
				return
			}
			cc := call.Common()
			ai, ok := isDecode(cc)
			if !ok || ai >= len(cc.Args) {
				return
			}
			b := call.Block()
			if !blockReaches(b, b) {
				return
			}
			// variadic holders: DecodeProp(values ...interface{}) gets a slice
			var holders []*ssa.Alloc
			arg := cc.Args[ai]
			if sl, ok := arg.(*ssa.Slice); ok {
				if arr := rootAlloc(sl.X); arr != nil {
					for _, ref := range refsOf(arr) {
						if ia, ok := ref.(*ssa.IndexAddr); ok {
							for _, r2 := range refsOf(ia) {
								if st, ok := r2.(*ssa.Store); ok && st.Addr == ssa.Value(ia) {
									if al := rootAlloc(st.Val); al != nil {
										holders = append(holders, al)
									}
								}
							}
						}
					}
				}
			} else if al := rootAlloc(arg); al != nil {
				holders = append(holders, al)
			}
			for _, al := range holders {
				r.Role("decode-in-loop")
				if al.Block() == b || inSameCycle(al.Block(), b) {
					r.Ob(true)
					continue
				}
				if !errTolerated(call) {
					r.Ob(true)
					continue
				}
				// reset before the call, inside the cycle
				reset := false
				for _, ref := range refsOf(al) {
					if st, ok := ref.(*ssa.Store); ok && st.Addr == ssa.Value(al) {
						sb := st.Block()
						if (sb == b || inSameCycle(sb, b)) && sb.Dominates(b) {
							reset = true
						}
					}
				}
				r.Ob(reset)
				if !reset {
					r.Violation("fresh-holder|"+fnKey(fn)+"|"+al.Comment, p.instrPos(call), fmt.Sprintf("%s decodes into %q inside a loop and tolerates the decoder's error, but %q is declared once outside the loop and not reset: when a later response reports the property as missing, the value decoded for an earlier response is handed on as this resource's", fnKey(fn), al.Comment, al.Comment), nil)
				}
			}
		})
	}
	r.RequireRole("decode-in-loop")
	if p.Control {
		r.ExpectControl("fresh-holder|")
	}
}
