package main

// C03 — the file server never touches anything outside the served directory.
//
// Decided: the complete *lexical* confinement argument. (1) every path
// argument of every file-system call of the library derives only from the
// sanitiser's result on its error-free path (backward must-derive walk
// through phis, captured variables, parameters of unexported helpers and
// Walk callbacks); (2) file-system calls occur only in LocalFileSystem's
// methods and helpers only they call; (3) the sanitiser's decision table:
// it succeeds exactly when the name has no NUL (and, off Unix, no native
// separator) and its path.Clean form is absolute, and then returns
// filepath.Join(root, FromSlash(Clean(name))); every other path returns a
// 4xx HTTPError; (4) reported paths are "/" + ToSlash(Rel(root, p)) of a
// Walk path, or the request name itself.
// Trusted: path.Clean removes every ".." from a rooted path; filepath.Join is
// lexical; no symbolic link below the root points outside it.

import (
	"fmt"
	"go/token"
	"go/types"
	"sort"
	"strings"

	"golang.org/x/tools/go/ssa"
)

func init() { register("C03", runC03) }

var osNonPathFuncs = map[string]bool{
	"Getenv": true, "LookupEnv": true, "Setenv": true, "Unsetenv": true, "Expand": true, "ExpandEnv": true,
	"Hostname": true, "Exit": true, "Getpid": true, "Getwd": true, "TempDir": true, "UserHomeDir": true,
	"IsExist": true, "IsNotExist": true, "IsPermission": true, "IsTimeout": true, "IsPathSeparator": true,
	"NewSyscallError": true, "Environ": true, "Clearenv": true, "Getuid": true, "Geteuid": true, "Getgid": true,
	"Getpagesize": true, "Executable": true, "NewFile": true, "Pipe": true, "SameFile": true, "DirFS": false,
}

// fsPathArgs: for a call, the argument indexes that are file-system paths.
func fsPathArgs(cc *ssa.CallCommon) []int {
	f := cc.StaticCallee()
	if f == nil || f.Pkg == nil {
		return nil
	}
	pp := f.Pkg.Pkg.Path()
	name := f.Name()
	if f.Signature.Recv() != nil {
		return nil
	}
	var out []int
	switch pp {
	case "os", "io/ioutil":
		if osNonPathFuncs[name] {
			return nil
		}
		ps := f.Signature.Params()
		for i := 0; i < ps.Len(); i++ {
			if b, ok := ps.At(i).Type().Underlying().(*types.Basic); ok && b.Kind() == types.String {
				out = append(out, i)
			}
		}
	case "path/filepath":
		switch name {
		case "Walk", "WalkDir", "Glob", "EvalSymlinks":
			out = append(out, 0)
		}
	}
	return out
}

func runC03(c *Ctx, pr *PropertyRun) {
	p := c.P
	pr.Explanation = "Decided: the complete lexical confinement argument, on every path of the current source: (1) every path argument of every file-system call (every string parameter of every os/ioutil function, the root of filepath.Walk) derives only from the first result of the sanitiser LocalFileSystem.localPath on the path where its error is nil — followed backwards through phis, captured variables, parameters of unexported helpers (all call sites) and Walk callbacks (root sanitised); (2) file-system calls occur only in LocalFileSystem methods and helpers called only by them; " +
		"(3) the sanitiser's decision table (extracted from its SSA): it succeeds exactly when the name contains no NUL (off Unix: no native separator either; checked for GOOS=linux in the quick tier, also windows and darwin in the thorough tier) and its path.Clean form is absolute, and the value returned is filepath.Join(root, filepath.FromSlash(path.Clean(name))); every failing path returns an HTTPError with a 4xx constant; (4) every FileInfo.Path produced is \"/\" + ToSlash(Rel(root, p)) for a Walk path p under a sanitised root, or the request name itself. " +
		"This channel-agnostic argument covers the request path and the Destination header alike because it is anchored at the sinks. NOT decided: that a reported path addresses the same resource when sent back (URL escaping, C05); behaviour with symbolic links."
	pr.Assumptions = append(pr.Assumptions, "path.Clean removes every '..' element from a rooted path; filepath.Join and filepath.FromSlash are lexical", "no symbolic link below the served root points outside it")
	pr.Trusted = append(pr.Trusted, "golang.org/x/tools/go/ssa v0.29.0", "path.Clean / filepath.Join contracts")

	sinks := NewRule("C03", "C03.sinks", "every path argument of every file-system call derives only from localPath's result on its error-free path (backward must-derive taint)")
	pr.Rules = append(pr.Rules, sinks)
	san := p.MustFunc(sinks, pkgWebdav, "(LocalFileSystem).localPath")
	if san == nil {
		return
	}
	sz := &sanitiser{c: c, san: san, memo: map[string]bool{}}
	layer := NewRule("C03", "C03.layering", "file-system calls occur only in LocalFileSystem's methods and in helpers called only by them (WHO-MAY-CALL)")
	pr.Rules = append(pr.Rules, layer)
	lfs := p.NamedType(pkgWebdav, "LocalFileSystem")
	cg := c.CG()
	var onlyFromLFS func(fn *ssa.Function, depth int) bool
	onlyFromLFS = func(fn *ssa.Function, depth int) bool {
		if depth > 5 {
			return false
		}
		root := fn
		for root.Parent() != nil {
			root = root.Parent()
		}
		if recvNamed(root) == lfs && lfs != nil {
			return true
		}
		// a method of an unexported operation-state type: as good as the
		// functions that construct values of that type
		if n := recvNamed(root); n != nil && !externallyCallable(root) && !n.Obj().Exported() {
			made := 0
			okAll := true
			for _, g := range p.ModFns {
				if !inLib(g) || len(g.Blocks) == 0 || recvNamed(g) == n {
					continue
				}
				eachInstr(g, func(_ *ssa.BasicBlock, in ssa.Instruction) {
					al, ok := in.(*ssa.Alloc)
					if !ok || namedOf(al.Type().(*types.Pointer).Elem()) != n {
						return
					}
					made++
					if !onlyFromLFS(g, depth+1) {
						okAll = false
					}
				})
			}
			if made > 0 {
				return okAll
			}
		}
		if externallyCallable(root) {
			return false
		}
		n := 0
		for _, e := range cg.In[root] {
			if e.Site == nil || !p.InModule(e.Caller) || e.Kind == "closure" || e.Kind == "reflect" {
				continue
			}
			n++
			if !onlyFromLFS(e.Caller, depth+1) {
				return false
			}
		}
		return n > 0
	}
	for _, fn := range p.ModFns {
		if !inLib(fn) || len(fn.Blocks) == 0 {
			continue
		}
		eachCall(fn, func(site ssa.CallInstruction) {
			cc := site.Common()
			idxs := fsPathArgs(cc)
			if len(idxs) == 0 {
				return
			}
			layer.Role("fs-call")
			okL := onlyFromLFS(fn, 0)
			layer.Ob(okL)
			if !okL {
				layer.Violation("fs-call-outside|"+fnKey(fn)+"|"+calleeName(cc), p.instrPos(site), fmt.Sprintf("%s calls %s but is not a LocalFileSystem method (nor a helper called only by them): the sanitiser's guarantee does not reach this call", fnKey(fn), calleeName(cc)), nil)
			}
			for _, i := range idxs {
				sinks.Role("fs-path-argument")
				ok, why := sz.sanitised(cc.Args[i], site.Block(), fn, 0)
				sinks.Ob(ok)
				sinks.Sample(map[string]interface{}{"function": fnKey(fn), "call": calleeName(cc), "arg": i, "derivation": why, "pos": p.instrPos(site)})
				if !ok {
					sinks.Violation(fmt.Sprintf("unsanitised|%s|%s#%d", fnKey(fn), calleeName(cc), i), p.instrPos(site), fmt.Sprintf("argument %d of %s in %s does not derive only from localPath's error-free result (%s): a request path or Destination can address the host file system directly", i, calleeName(cc), fnKey(fn), why), nil)
				}
			}
		})
	}
	sinks.RequireRole("fs-path-argument")
	layer.RequireRole("fs-call")
	if p.Control {
		sinks.ExpectControl("zzVerifControlRawPath")
	}

	shape := NewRule("C03", "C03.sanitiser-shape", "decision table of localPath: success exactly for NUL-free names whose path.Clean form is absolute, returning Join(root, FromSlash(Clean(name))); 4xx otherwise (E2)")
	shape.Exhaustive = true
	pr.Rules = append(pr.Rules, shape)
	c03Shape(c, shape, san, c.P)
	if c.Thorough() {
		for _, goos := range []string{"windows", "darwin"} {
			p2, err := Load(LoadOptions{GOOS: goos})
			if err != nil {
				shape.Undecided("load-"+goos, "-", "cannot load the tree for GOOS="+goos+": "+err.Error())
				continue
			}
			c2 := &Ctx{P: p2, Tier: c.Tier}
			if s2 := p2.Func(pkgWebdav, "(LocalFileSystem).localPath"); s2 != nil {
				c03Shape(c2, shape, s2, p2)
				pr.Configs = append(pr.Configs, "GOOS="+goos+" GOARCH=amd64 CGO_ENABLED=0")
			}
		}
	}

	// reported hrefs are decoded paths, never re-parsed as URLs
	urlParseRule(c, pr, "C03", nil)
	// the hrefs reported back are written by URL.String and read by url.Parse (shared with C16.pairs)
	c16Pairs(c, pr, "C03", func(what string) bool { return what == "href" })
	// the refusal reaches the client as the 4xx it was labelled with
	serveErrorTable(c, pr, "C03")

	hrefs := NewRule("C03", "C03.hrefs", "every FileInfo.Path is \"/\"+ToSlash(Rel(root, p)) of a Walk path, or the request name itself (E2 + backward derivation)")
	pr.Rules = append(pr.Rules, hrefs)
	c03Hrefs(c, hrefs, sz)
}

type sanitiser struct {
	c    *Ctx
	san  *ssa.Function
	memo map[string]bool
}

// sanitised: v, used in block at of fn, derives only from the sanitiser.
func (s *sanitiser) sanitised(v ssa.Value, at *ssa.BasicBlock, fn *ssa.Function, depth int) (bool, string) {
	if depth > 8 {
		return false, "derivation too deep"
	}
	switch x := v.(type) {
	case *ssa.Extract:
		call, ok := x.Tuple.(*ssa.Call)
		if ok && call.Common().StaticCallee() == s.san && x.Index == 0 {
			// the error of this call must be known nil where the value is used
			var errV ssa.Value
			for _, r := range *call.Referrers() {
				if ex, ok := r.(*ssa.Extract); ok && ex.Index == 1 {
					errV = ex
				}
			}
			if errV == nil {
				return false, "localPath's error is never looked at"
			}
			if at != nil && at.Parent() == call.Parent() && !knownNilAt(errV, at) {
				return false, "used on a path where localPath's error has not been found nil"
			}
			return true, "localPath result (error tested)"
		}
		return false, "result of " + fmt.Sprint(x.Tuple)
	case *ssa.Phi:
		for i, e := range x.Edges {
			if ok, why := s.sanitised(e, x.Block().Preds[i], fn, depth+1); !ok {
				return false, why
			}
		}
		return true, "phi of sanitised values"
	case *ssa.UnOp:
		// load of a captured/local variable
		switch cell := x.X.(type) {
		case *ssa.Alloc:
			return s.cellSanitised(cell, fn, at, depth)
		case *ssa.FreeVar:
			return s.freeVarSanitised(cell, fn, depth)
		case *ssa.FieldAddr:
			// a field of an unexported struct of the module that carries the
			// state of an operation: every store into that field, anywhere
			// in the module, stores a sanitised value
			if pt, ok := cell.X.Type().Underlying().(*types.Pointer); ok {
				if n := namedOf(pt.Elem()); n != nil && !n.Obj().Exported() && inModuleType(n) {
					return s.fieldSanitised(n, cell.Field, depth)
				}
			}
		}
		return false, "loaded from memory"
	case *ssa.FreeVar:
		return s.freeVarSanitised(x, fn, depth)
	case *ssa.Parameter:
		return s.paramSanitised(x, fn, depth)
	case *ssa.Call:
		// filepath.Join(S, rel) where rel, err := filepath.Rel(B, P), err known
		// nil, and S, B, P are sanitised paths with P visited by a Walk rooted
		// at B: P lies at or below B, so rel has no ".." element and the
		// result lies at or below S
		if calleeName(x.Common()) == "path/filepath.Join" && len(x.Common().Args) == 1 {
			el := variadicElems(x.Common().Args[0])
			if len(el) != 2 || el[0] == nil || el[1] == nil {
				return false, "filepath.Join of other than a sanitised path and a relative path"
			}
			if ok, why := s.sanitised(el[0], at, fn, depth+1); !ok {
				return false, "filepath.Join onto " + why
			}
			if ok, why := s.relativeBelow(el[1], at, fn, depth+1); !ok {
				return false, "filepath.Join with " + why
			}
			return true, "a sanitised path joined with the position of a walked entry below its walk root"
		}
		return false, "result of " + calleeName(x.Common())
	}
	return false, fmt.Sprintf("%T %s", v, v.Name())
}

// walkCtx: one use of a closure as the callback of filepath.Walk: directly
// (the closure is written at the call) or through a factory (a library
// function all of whose returns are that closure, called in the callback
// position).
type walkCtx struct {
	caller *ssa.Function          // where filepath.Walk is called
	site   ssa.CallInstruction    // the Walk call
	root   ssa.Value              // its first argument, in caller
	isRoot func(v ssa.Value) bool // v, inside the closure, reads the variable the walk is rooted at
}

func isWalkCall(cc *ssa.CallCommon) bool {
	n := calleeName(cc)
	return (n == "path/filepath.Walk" || n == "path/filepath.WalkDir") && len(cc.Args) == 2
}

func walkContexts(c *Ctx, fn *ssa.Function) []walkCtx {
	var out []walkCtx
	par := fn.Parent()
	if par == nil {
		return nil
	}
	strip := func(v ssa.Value) ssa.Value {
		if ct, ok := v.(*ssa.ChangeType); ok {
			return ct.X
		}
		return v
	}
	// direct
	eachCall(par, func(site ssa.CallInstruction) {
		cc := site.Common()
		if !isWalkCall(cc) {
			return
		}
		if mc, ok := strip(cc.Args[1]).(*ssa.MakeClosure); ok && mc.Fn == fn {
			root := cc.Args[0]
			out = append(out, walkCtx{caller: par, site: site, root: root, isRoot: func(v ssa.Value) bool { return sameCell(v, root, fn) }})
		}
	})
	if len(out) > 0 {
		return out
	}
	// factory: every return of par is a closure over fn
	var mcs []*ssa.MakeClosure
	factory := true
	nret := 0
	for _, b := range par.Blocks {
		if b == par.Recover {
			continue
		}
		ret, ok := b.Instrs[len(b.Instrs)-1].(*ssa.Return)
		if !ok {
			continue
		}
		nret++
		if len(ret.Results) != 1 {
			factory = false
			continue
		}
		mc, ok := strip(ret.Results[0]).(*ssa.MakeClosure)
		if !ok || mc.Fn != fn {
			factory = false
			continue
		}
		mcs = append(mcs, mc)
	}
	if !factory || nret == 0 || len(mcs) == 0 {
		return nil
	}
	// which parameter of the factory a free variable of the closure holds
	paramOfFreeVar := func(fv *ssa.FreeVar) int {
		idx := -1
		for i, f := range fn.FreeVars {
			if f == fv {
				idx = i
			}
		}
		if idx < 0 {
			return -1
		}
		res := -1
		for _, mc := range mcs {
			if idx >= len(mc.Bindings) {
				return -1
			}
			al, ok := mc.Bindings[idx].(*ssa.Alloc)
			if !ok {
				return -1
			}
			k, stores := -1, 0
			for _, f := range withClosures(par) {
				eachInstr(f, func(_ *ssa.BasicBlock, in ssa.Instruction) {
					if st, ok := in.(*ssa.Store); ok && (st.Addr == ssa.Value(al) || st.Addr == ssa.Value(fv)) {
						stores++
						if prm, ok := st.Val.(*ssa.Parameter); ok && f == par {
							k = paramIndex(par, prm)
						}
					}
				})
			}
			if stores != 1 || k < 0 || (res >= 0 && res != k) {
				return -1
			}
			res = k
		}
		return res
	}
	for _, e := range c.CG().In[par] {
		if e.Site == nil || !c.P.InModule(e.Caller) {
			continue
		}
		fcall, ok := e.Site.(*ssa.Call)
		if !ok {
			continue
		}
		eachCall(e.Caller, func(site ssa.CallInstruction) {
			cc := site.Common()
			if !isWalkCall(cc) || strip(cc.Args[1]) != ssa.Value(fcall) {
				return
			}
			root := cc.Args[0]
			out = append(out, walkCtx{caller: e.Caller, site: site, root: root, isRoot: func(v ssa.Value) bool {
				ld, ok := v.(*ssa.UnOp)
				if !ok || ld.Op != token.MUL {
					return false
				}
				fv, ok := ld.X.(*ssa.FreeVar)
				if !ok {
					return false
				}
				k := paramOfFreeVar(fv)
				if k < 0 || k >= len(fcall.Common().Args) {
					return false
				}
				a := fcall.Common().Args[k]
				return a == root || sameCell(a, root, e.Caller)
			}})
		})
	}
	return out
}

// relativeBelow: v is the error-free result of filepath.Rel(B, P) where P is
// the path parameter of a Walk callback whose walk is rooted at the very
// value B (so P is B or lies below it), both sanitised.
func (s *sanitiser) relativeBelow(v ssa.Value, at *ssa.BasicBlock, fn *ssa.Function, depth int) (bool, string) {
	ex, ok := v.(*ssa.Extract)
	if !ok || ex.Index != 0 {
		return false, fmt.Sprintf("%T %s, not the result of filepath.Rel", v, v.Name())
	}
	call, ok := ex.Tuple.(*ssa.Call)
	if !ok || calleeName(call.Common()) != "path/filepath.Rel" || len(call.Common().Args) != 2 {
		return false, "a value that is not the result of filepath.Rel"
	}
	var errV ssa.Value
	for _, r := range *call.Referrers() {
		if e2, ok := r.(*ssa.Extract); ok && e2.Index == 1 {
			errV = e2
		}
	}
	if errV == nil || (at != nil && at.Parent() == call.Parent() && !knownNilAt(errV, at)) {
		return false, "the result of a filepath.Rel whose error has not been found nil"
	}
	base, target := call.Common().Args[0], call.Common().Args[1]
	prm, ok := target.(*ssa.Parameter)
	if !ok || fn.Parent() == nil || paramIndex(fn, prm) != 0 {
		return false, "filepath.Rel of something other than a Walk callback's path"
	}
	// the walk(s) this closure serves: rooted at the very variable base reads
	ctxs := walkContexts(s.c, fn)
	if len(ctxs) == 0 {
		return false, "filepath.Rel in a closure that is not a Walk callback"
	}
	for _, wc := range ctxs {
		if !wc.isRoot(base) {
			return false, "filepath.Rel against a base that is not the root of the walk (the entry need not lie below it)"
		}
	}
	if ok, why := s.sanitised(target, at, fn, depth+1); !ok {
		return false, why
	}
	return true, "position of a walked entry relative to the walk's root"
}

// sameCell: inside closure fn, v reads the variable that the parent passes
// (by value) as w: the same captured cell, or the same SSA value.
func sameCell(v, w ssa.Value, fn *ssa.Function) bool {
	if v == w {
		return true
	}
	cellOf := func(x ssa.Value) ssa.Value {
		if ld, ok := x.(*ssa.UnOp); ok && ld.Op == token.MUL {
			return ld.X
		}
		return nil
	}
	cv, cw := cellOf(v), cellOf(w)
	if cv == nil || cw == nil {
		return false
	}
	if cv == cw {
		return true
	}
	// v loads a free variable of fn; w loads the Alloc bound to it
	if fv, ok := cv.(*ssa.FreeVar); ok && fn.Parent() != nil {
		idx := -1
		for i, f := range fn.FreeVars {
			if f == fv {
				idx = i
			}
		}
		found := false
		eachInstr(fn.Parent(), func(_ *ssa.BasicBlock, in ssa.Instruction) {
			if mc, ok := in.(*ssa.MakeClosure); ok && mc.Fn == fn && idx >= 0 && idx < len(mc.Bindings) && mc.Bindings[idx] == cw {
				found = true
			}
		})
		if found {
			// the cell must not be re-assigned between the walk and the use:
			// exactly one store into it in the parent, none in the closure
			stores := 0
			for _, f := range withClosures(fn.Parent()) {
				eachInstr(f, func(_ *ssa.BasicBlock, in ssa.Instruction) {
					if st, ok := in.(*ssa.Store); ok {
						if st.Addr == cw || st.Addr == ssa.Value(fv) {
							stores++
						}
					}
				})
			}
			return stores == 1
		}
	}
	return false
}

func (s *sanitiser) fieldSanitised(n *types.Named, field int, depth int) (bool, string) {
	p := s.c.P
	stores := 0
	for _, g := range p.ModFns {
		if !inLib(g) || len(g.Blocks) == 0 {
			continue
		}
		var bad string
		eachInstr(g, func(b *ssa.BasicBlock, in ssa.Instruction) {
			st, ok := in.(*ssa.Store)
			if !ok {
				return
			}
			fa, ok := st.Addr.(*ssa.FieldAddr)
			if !ok || fa.Field != field {
				return
			}
			pt, ok := fa.X.Type().Underlying().(*types.Pointer)
			if !ok || namedOf(pt.Elem()) != n {
				return
			}
			stores++
			if ok, why := s.sanitised(st.Val, b, g, depth+1); !ok && bad == "" {
				bad = fmt.Sprintf("%s stores %s into the field", fnKey(g), why)
			}
		})
		if bad != "" {
			return false, bad
		}
	}
	if stores == 0 {
		return false, "field never assigned"
	}
	return true, fmt.Sprintf("field %s of %s: every store (%d) is a sanitised value", fieldName(n, field), n.Obj().Name(), stores)
}

func (s *sanitiser) cellSanitised(cell *ssa.Alloc, fn *ssa.Function, at *ssa.BasicBlock, depth int) (bool, string) {
	n := 0
	var visit func(f *ssa.Function, addr ssa.Value) (bool, string)
	visit = func(f *ssa.Function, addr ssa.Value) (bool, string) {
		for _, r := range *addr.Referrers() {
			switch y := r.(type) {
			case *ssa.Store:
				if y.Addr == addr {
					n++
					if ok, why := s.sanitised(y.Val, nil, f, depth+1); !ok {
						return false, "variable assigned " + why
					}
					// the assignment's own error test must dominate every later use in
					// the same function: checked by requiring the value to be a
					// localPath result whose error is tested (nil-edge) before the
					// first use — approximated by dominance of the use by the test
					if ex, ok := y.Val.(*ssa.Extract); ok && at != nil && at.Parent() == f {
						if call, ok := ex.Tuple.(*ssa.Call); ok {
							for _, r2 := range *call.Referrers() {
								if e2, ok := r2.(*ssa.Extract); ok && e2.Index == 1 && !knownNilAt(e2, at) {
									return false, "variable used where localPath's error has not been found nil"
								}
							}
						}
					}
				}
			case *ssa.MakeClosure:
				cf := y.Fn.(*ssa.Function)
				for i, b := range y.Bindings {
					if b == addr && i < len(cf.FreeVars) {
						if ok, why := visit(cf, cf.FreeVars[i]); !ok {
							return false, why
						}
					}
				}
			}
		}
		return true, ""
	}
	if ok, why := visit(fn, cell); !ok {
		return false, why
	}
	if n == 0 {
		return false, "variable never assigned"
	}
	return true, "variable assigned only localPath results"
}

func (s *sanitiser) freeVarSanitised(fv *ssa.FreeVar, fn *ssa.Function, depth int) (bool, string) {
	par := fn.Parent()
	if par == nil {
		return false, "free variable without parent"
	}
	idx := -1
	for i, f := range fn.FreeVars {
		if f == fv {
			idx = i
		}
	}
	ok, why := true, "captured variable assigned only localPath results"
	found := false
	eachInstr(par, func(b *ssa.BasicBlock, in ssa.Instruction) {
		mc, isMC := in.(*ssa.MakeClosure)
		if !isMC || mc.Fn != fn || idx >= len(mc.Bindings) {
			return
		}
		found = true
		switch bnd := mc.Bindings[idx].(type) {
		case *ssa.Alloc:
			// the closure is created where every assigned localPath call has
			// been found error-free
			if o, w := s.cellSanitised(bnd, par, b, depth+1); !o {
				ok, why = false, w
			}
		default:
			if o, w := s.sanitised(bnd, b, par, depth+1); !o {
				ok, why = false, w
			}
		}
	})
	if !found {
		return false, "closure creation not found"
	}
	return ok, why
}

func (s *sanitiser) paramSanitised(prm *ssa.Parameter, fn *ssa.Function, depth int) (bool, string) {
	p := s.c.P
	idx := paramIndex(fn, prm)
	// Walk callback: func(path string, info, err) passed to filepath.Walk
	if fn.Parent() != nil {
		ok, why := false, "closure is not a Walk callback"
		ctxs := walkContexts(s.c, fn)
		if idx == 0 && len(ctxs) > 0 {
			ok, why = true, "Walk callback path under a sanitised root"
			for _, wc := range ctxs {
				if o, w := s.sanitised(wc.root, wc.site.Block(), wc.caller, depth+1); !o {
					ok, why = false, w
				}
			}
		}
		if ok || idx == 0 || len(ctxs) == 0 {
			return ok, why
		}
		// another parameter of a Walk callback: not a path
		return false, why
	}
	if externallyCallable(fn) {
		return false, "parameter " + prm.Name() + " of exported " + fnKey(fn)
	}
	if fn.Signature.Recv() != nil && fn.Object() != nil && !fn.Object().Exported() && fn == s.san {
		return false, "the sanitiser's own input"
	}
	n := 0
	for _, e := range s.c.CG().In[fn] {
		if e.Site == nil || !p.InModule(e.Caller) || e.Kind == "closure" || e.Kind == "reflect" {
			continue
		}
		cc := e.Site.Common()
		var all []ssa.Value
		if cc.IsInvoke() {
			all = append(all, cc.Value)
		}
		all = append(all, cc.Args...)
		if idx >= len(all) {
			continue
		}
		n++
		if ok, why := s.sanitised(all[idx], e.Site.Block(), e.Caller, depth+1); !ok {
			return false, fmt.Sprintf("call site %s passes %s", p.instrPos(e.Site), why)
		}
	}
	if n == 0 {
		return false, "no call site"
	}
	return true, fmt.Sprintf("parameter of unexported %s: all %d call sites pass sanitised values", fnKey(fn), n)
}

func httpErrCode(in *Interp, v Val) (int64, bool) {
	iv, ok := v.(Iface)
	if !ok {
		return 0, false
	}
	ptr, ok := iv.V.(Ptr)
	if !ok {
		return 0, false
	}
	st, ok := ptr.C.Get().(Struct)
	if !ok || !isNamed(st.T, pkgInternal, "HTTPError") {
		return 0, false
	}
	return in.concretise(st.F[0].Get())
}

func c03Shape(c *Ctx, r *RuleResult, san *ssa.Function, p *Program) {
	windowsLike := p.GOOS == "windows"
	spec := DTXSpec{Name: "localPath[" + p.GOOS + "]", Entry: san,
		Args: func(in *Interp) []Val { return []Val{SymStr{Key: "root"}, SymStr{Key: "name"}} },
		Observe: func(in *Interp, res Val, pan *panicOutcome) string {
			if pan != nil {
				return "panic"
			}
			t := res.(Tuple)
			if k, ok := t.E[1].(Konst); ok && k.V == nil {
				return "ok:" + keyOf(t.E[0])
			}
			if code, ok := httpErrCode(in, t.E[1]); ok {
				return fmt.Sprintf("error:%d", code)
			}
			return "error:unlabelled"
		},
		Check: func(env *OracleEnv, obs *Observation) (bool, string, bool) {
			got := ""
			if obs.Panic != nil {
				return false, "no panic", true
			}
			t := obs.Ret.(Tuple)
			isOK := false
			if k, ok := t.E[1].(Konst); ok && k.V == nil {
				isOK = true
				got = keyOf(t.E[0])
			}
			nul := env.Bool("strings.Contains(name,\"\\x00\")")
			sep := false
			if windowsLike {
				// one atom for every spelling of "name contains a backslash"
				// (IndexRune, IndexByte, ContainsRune, Contains)
				sep = env.Bool("strings.Contains(name,\"\\\\\")")
			}
			abs := env.Bool("path.IsAbs(path.Clean(name))")
			want := !nul && !sep && abs
			if want != isOK {
				return false, map[bool]string{true: "success", false: "refusal"}[want], true
			}
			if isOK {
				exp := "path/filepath.Join([root,path/filepath.FromSlash(path.Clean(name))])"
				if got != exp {
					return false, "the value " + exp, true
				}
				return true, "", true
			}
			code, ok := httpErrCode(obs.In, t.E[1])
			if !ok || code < 400 || code > 499 {
				return false, "an HTTPError with a 4xx constant", true
			}
			return true, "", true
		},
	}
	res := runDTX(c, spec)
	reportDTX(c, r, spec, res, spec.Name)
	r.Role("decision-table")
	if res.Runs < 3 {
		r.Unresolved("the sanitiser's table has fewer than 3 rows: it no longer tests its input")
	}
}

func c03Hrefs(c *Ctx, r *RuleResult, sz *sanitiser) {
	p := c.P
	ext := p.MustFunc(r, pkgWebdav, "(LocalFileSystem).externalPath")
	fiFrom := p.MustFunc(r, pkgWebdav, "fileInfoFromOS")
	if ext == nil || fiFrom == nil {
		return
	}
	spec := DTXSpec{Name: "externalPath", Entry: ext,
		Args: func(in *Interp) []Val { return []Val{SymStr{Key: "root"}, SymStr{Key: "p"}} },
		Observe: func(in *Interp, res Val, pan *panicOutcome) string {
			if pan != nil {
				return "panic"
			}
			t := res.(Tuple)
			if k, ok := t.E[1].(Konst); ok && k.V == nil {
				return "ok:" + keyOf(t.E[0])
			}
			return "error"
		},
		Oracle: func(env *OracleEnv) ([]string, bool) {
			if env.Bool("fails:path/filepath.Rel(root,p)#1") {
				return []string{"error"}, true
			}
			// the served directory itself is "/", not "/." (Rel gives ".")
			if env.Eq(K("."), S("path/filepath.Rel(root,p)#0")) {
				return []string{"ok:\"/\""}, true
			}
			return []string{"ok:(\"/\"+path/filepath.ToSlash(path/filepath.Rel(root,p)#0))"}, true
		}}
	res := runDTX(c, spec)
	reportDTX(c, r, spec, res, spec.Name)
	r.Role("decision-table")
	// every producer of a FileInfo: fileInfoFromOS(path, fi) call sites
	for _, fn := range p.ModFns {
		if !inLib(fn) {
			continue
		}
		eachCall(fn, func(site ssa.CallInstruction) {
			if site.Common().StaticCallee() != fiFrom {
				return
			}
			r.Role("fileinfo-producer")
			a := site.Common().Args[0]
			ok, why := false, ""
			switch x := a.(type) {
			case *ssa.Parameter:
				// the request name itself (Stat)
				ok, why = fn.Parent() == nil, "the request name parameter "+x.Name()
			case *ssa.Extract:
				if call, isCall := x.Tuple.(*ssa.Call); isCall && call.Common().StaticCallee() == ext && x.Index == 0 {
					arg := call.Common().Args[len(call.Common().Args)-1]
					okp, whyp := sz.sanitised(arg, call.Block(), fn, 0)
					ok, why = okp, "externalPath("+whyp+")"
				}
			}
			r.Ob(ok)
			r.Sample(map[string]interface{}{"function": fnKey(fn), "path_argument": why, "pos": p.instrPos(site)})
			if !ok {
				r.Violation("fileinfo-path|"+fnKey(fn), p.instrPos(site), fnKey(fn)+" builds a FileInfo whose Path is neither the request name nor externalPath of a Walk path under a sanitised root ("+why+"): a reported href may lie outside the served namespace or disclose the host path", nil)
			}
		})
	}
	// FileInfo.Path has no other producer in package webdav's backend side
	fiT := p.NamedType(pkgWebdav, "FileInfo")
	for _, fn := range p.ModFns {
		if !inLib(fn) || fnPkg(fn).Path() != pkgWebdav {
			continue
		}
		root := fn
		for root.Parent() != nil {
			root = root.Parent()
		}
		if recvNamed(root) != p.NamedType(pkgWebdav, "LocalFileSystem") && root != fiFrom {
			continue
		}
		eachInstr(fn, func(_ *ssa.BasicBlock, in ssa.Instruction) {
			st, ok := in.(*ssa.Store)
			if !ok {
				return
			}
			fa, ok := st.Addr.(*ssa.FieldAddr)
			if !ok || namedOf(fa.X.Type()) != fiT || fieldName(fa.X.Type(), fa.Field) != "Path" {
				return
			}
			r.Role("path-store")
			ok = root == fiFrom
			r.Ob(ok)
			if !ok {
				r.Violation("path-store|"+fnKey(fn), p.instrPos(in), fnKey(fn)+" assigns FileInfo.Path directly, bypassing fileInfoFromOS/externalPath", nil)
			}
		})
	}
	r.RequireRole("fileinfo-producer", "path-store")
}

var _ = sort.Strings
var _ = strings.Contains

// externallyCallable: an exported function, or an exported method of an
// exported type. An exported method NAME on an unexported type (needed to
// satisfy an unexported interface) cannot be called from outside the package.
func externallyCallable(fn *ssa.Function) bool {
	if fn.Object() == nil || !fn.Object().Exported() {
		return false
	}
	if n := recvNamed(fn); n != nil && !n.Obj().Exported() {
		// ... unless the type is handed out behind an exported interface
		// that has the method
		if pkg := n.Obj().Pkg(); pkg != nil {
			for _, name := range pkg.Scope().Names() {
				tn, ok := pkg.Scope().Lookup(name).(*types.TypeName)
				if !ok || !tn.Exported() {
					continue
				}
				it, ok := tn.Type().Underlying().(*types.Interface)
				if !ok {
					continue
				}
				has := false
				for i := 0; i < it.NumMethods(); i++ {
					if it.Method(i).Name() == fn.Name() {
						has = true
					}
				}
				if has && (types.Implements(n, it) || types.Implements(types.NewPointer(n), it)) {
					return true
				}
			}
		}
		return false
	}
	return true
}

// addressedOnlyRule (C18): requests on disjoint resources do not meet in the
// file system. Every path handed to a file-system call by the file server is
// the sanitised name of the resource the request addresses (or the position
// of a walked member below it) — never another name computed from it (a
// fixed suffix, a sibling): that name is a resource of the same served tree,
// which a concurrent request may be addressing. The derivation is the one of
// C03.sinks.
func addressedOnlyRule(c *Ctx, pr *PropertyRun, prop string) {
	p := c.P
	r := NewRule(prop, prop+".addressed-resource-only", "every path argument of every file-system call is the sanitised name of the addressed resource or of a walked member of it, not a name computed from it (shares the derivation of C03.sinks)")
	pr.Rules = append(pr.Rules, r)
	san := p.MustFunc(r, pkgWebdav, "(LocalFileSystem).localPath")
	if san == nil {
		return
	}
	sz := &sanitiser{c: c, san: san, memo: map[string]bool{}}
	for _, fn := range p.ModFns {
		if !inLib(fn) || len(fn.Blocks) == 0 {
			continue
		}
		eachCall(fn, func(site ssa.CallInstruction) {
			cc := site.Common()
			for _, i := range fsPathArgs(cc) {
				r.Role("fs-path-argument")
				ok, why := sz.sanitised(cc.Args[i], site.Block(), fn, 0)
				r.Ob(ok)
				if !ok {
					r.Violation(fmt.Sprintf("other-name|%s|%s#%d", fnKey(fn), calleeName(cc), i), p.instrPos(site), fmt.Sprintf("argument %d of %s in %s is not the name of the addressed resource (%s): it names another entry of the served tree, so two requests on different resources (X and the name computed from X) work on the same file and each sees or destroys the other's data", i, calleeName(cc), fnKey(fn), why), nil)
				}
			}
		})
	}
	r.RequireRole("fs-path-argument")
}
