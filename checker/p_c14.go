package main

// C14 — clients survive any response and report failures with their status.
//
// Decided: single HTTP gate; the response's status flows into the error;
// per-resource status fields are only touched inside package internal and the
// property decode is dominated by both status tests; every response obtained
// from Do is closed on all paths or handed to the caller; stream-driven
// recursion is bounded; fallible parses have their error tested before use.
// The status-decision tables (2xx / 207 / 404-as-deletion) are decided by the
// decision-table rules below (E2).

import (
	"fmt"
	"go/types"
	"sort"
	"strings"

	"golang.org/x/tools/go/ssa"
)

func init() { register("C14", runC14) }

func runC14(c *Ctx, pr *PropertyRun) {
	p := c.P
	pr.Explanation = "Decided (structural clauses): (1) HTTPClient.Do is invoked only from internal.(*Client).Do and the basic-auth wrapper, and every exported method of the three public Client types reaches that gate; (2) the response's status code flows unaltered into HTTPError.Code; the status decision tables of Do / DoMultiStatus / Response.Err / Status.Err / SyncCollection are extracted and compared with the statement; " +
		"(3) the per-resource status fields of a multi-status response are touched only inside package internal, and Response.DecodeProp decodes a property only after both the response status and the propstat status were found good; (4) every response obtained from Do is closed on every path or handed to the caller; (5) stream-driven recursion reachable from the clients carries a depth bound; (6) the error of every fallible parse in client code is tested before the value is used. " +
		"NOT decided: behaviour on malformed bodies inside encoding/xml and the iCalendar/vCard parsers; absence of hangs inside net/http."
	pr.Assumptions = append(pr.Assumptions, "call graph: static callees + CHA, plus reflection edges for encoding/xml", "the HTTPClient given by the user returns either a non-nil response or a non-nil error")
	pr.Trusted = append(pr.Trusted, "golang.org/x/tools/go/ssa v0.29.0")

	entries := p.clientEntries()
	c14Gate(c, pr, entries)
	c14StatusFlow(c, pr)
	c14PerResource(c, pr)
	c14Close(c, pr)
	c13Recursion(c, pr, "C14", entries)
	c13Panics(c, pr, "C14", entries, map[string]string{
		"(internal.Depth).String":             "every call site passes one of the three Depth constants (checked: constant propagation through phis)",
		"(*internal.RawXMLValue).TokenReader": "marshal-only values are created only by EncodeRawXMLElement and only ever encoded; responses are decoded into fresh values",
		"(*internal.RawXMLValue).MarshalXML":  "field tok never holds an xml.EndElement (checked)",
	})
	c14DepthConst(c, pr)
	c14ParseChecked(c, pr, entries)
	c14Tables(c, pr)
}

func c14Gate(c *Ctx, pr *PropertyRun, entries []*ssa.Function) {
	p := c.P
	r := NewRule("C14", "C14.single-gate", "HTTPClient.Do is invoked only from internal.(*Client).Do and the basic-auth wrapper; every exported method of the public clients reaches it (WHO-MAY-CALL + E7)")
	pr.Rules = append(pr.Rules, r)
	gate := p.MustFunc(r, pkgInternal, "(*Client).Do")
	if gate == nil {
		return
	}
	allowed := map[string]bool{"(*internal.Client).Do": true, "(*webdav.basicAuthHTTPClient).Do": true}
	for _, fn := range p.ModFns {
		if !inLib(fn) {
			continue
		}
		eachCall(fn, func(site ssa.CallInstruction) {
			cc := site.Common()
			name := calleeName(cc)
			isHTTP := false
			if cc.IsInvoke() && cc.Method.Name() == "Do" {
				if n := namedOf(cc.Value.Type()); n != nil && n.Obj().Name() == "HTTPClient" {
					isHTTP = true
				}
			}
			switch name {
			case "(*net/http.Client).Do", "(*net/http.Client).Get", "(*net/http.Client).Post", "(*net/http.Client).Head", "(*net/http.Client).PostForm",
				"net/http.Get", "net/http.Post", "net/http.Head", "net/http.PostForm", "(*net/http.Transport).RoundTrip":
				isHTTP = true
			}
			if !isHTTP {
				return
			}
			r.Role("http-call")
			ok := allowed[fnKey(fn)]
			r.Ob(ok)
			r.Sample(map[string]interface{}{"caller": fnKey(fn), "callee": name, "pos": p.instrPos(site)})
			if !ok {
				r.Violation("bypass|"+fnKey(fn), p.instrPos(site), fnKey(fn)+" performs an HTTP request directly ("+name+"), bypassing internal.(*Client).Do: the status of the answer is not turned into an error there", nil)
			}
		})
	}
	cg := c.CG()
	for _, pk := range []string{pkgWebdav, pkgCaldav, pkgCarddav} {
		for _, m := range p.exportedMethods(pk, "Client") {
			if fnPkg(m) == nil || fnPkg(m).Path() != pk || m.Synthetic != "" {
				continue // promoted from the embedded webdav.Client
			}
			r.Role("client-method")
			seen := cg.Reach([]*ssa.Function{m}, moduleOnly(p))
			_, ok := seen[gate]
			r.Ob(ok)
			if !ok {
				r.Violation("no-gate|"+fnKey(m), p.Pos(m.Pos()), fnKey(m)+" does not reach internal.(*Client).Do: whatever it sends is not subject to the status check", nil)
			}
		}
	}
	r.RequireRole("http-call", "client-method")
	if p.Control {
		r.ExpectControl("zzVerifControlBypass")
	}
}

func c14StatusFlow(c *Ctx, pr *PropertyRun) {
	p := c.P
	r := NewRule("C14", "C14.status-flow", "the response's StatusCode flows unaltered into HTTPError.Code in internal.(*Client).Do (E1 UNALTERED)")
	pr.Rules = append(pr.Rules, r)
	gate := p.MustFunc(r, pkgInternal, "(*Client).Do")
	httpErr := p.NamedType(pkgInternal, "HTTPError")
	if gate == nil || httpErr == nil {
		return
	}
	res := RunFieldFlow(c, FFConfig{Entries: []*ssa.Function{gate},
		IsSource: func(n *types.Named) bool {
			return n.Obj().Pkg() != nil && n.Obj().Pkg().Path() == "net/http" && n.Obj().Name() == "Response"
		},
		IsSink: func(n *types.Named) bool { return n == httpErr }})
	r.Role("status-source")
	u := unalteredSinks(res, "net/http.Response.StatusCode")
	ok := false
	for _, s := range u {
		if s == "internal.HTTPError.Code" {
			ok = true
		}
	}
	r.Ob(ok)
	r.Sample(map[string]interface{}{"source": "net/http.Response.StatusCode", "unaltered_sinks": u})
	if !ok {
		r.Violation("code-not-status|"+fnKey(gate), p.Pos(gate.Pos()), "HTTPError.Code is not assigned the response's StatusCode unaltered in internal.(*Client).Do: the error does not carry the HTTP status", nil)
	}
	// the DAV:error body reaches HTTPError.Err
	sinks := res.SinkLabels["internal.HTTPError.Err"]
	_, bodyOK := sinks.has("net/http.Response.Body")
	r.Ob(bodyOK)
	if !bodyOK {
		r.Violation("err-not-body|"+fnKey(gate), p.Pos(gate.Pos()), "nothing derived from the response body flows into HTTPError.Err: the DAV:error condition of the response is lost", nil)
	}
}

func c14PerResource(c *Ctx, pr *PropertyRun) {
	p := c.P
	r := NewRule("C14", "C14.per-resource-status", "Response.{Hrefs,PropStats,Status,Error} are touched only inside package internal; DecodeProp decodes only after Response.Err and the propstat's Status.Err were tested nil (WHO-MAY-ACCESS + dominance)")
	pr.Rules = append(pr.Rules, r)
	resp := p.NamedType(pkgInternal, "Response")
	if resp == nil {
		r.Unresolved("type internal.Response not found")
		return
	}
	guarded := map[string]bool{"Hrefs": true, "PropStats": true, "Status": true, "Error": true}
	for _, fn := range p.ModFns {
		if !inLib(fn) {
			continue
		}
		eachInstr(fn, func(_ *ssa.BasicBlock, in ssa.Instruction) {
			var xt types.Type
			var idx int
			switch x := in.(type) {
			case *ssa.FieldAddr:
				xt, idx = x.X.Type(), x.Field
			case *ssa.Field:
				xt, idx = x.X.Type(), x.Field
			default:
				return
			}
			if namedOf(xt) != resp || !guarded[fieldName(xt, idx)] {
				return
			}
			r.Role("status-field-access")
			ok := fnPkg(fn).Path() == pkgInternal
			r.Ob(ok)
			if !ok {
				r.Violation("raw-access|"+fnKey(fn)+"|"+fieldName(xt, idx), p.instrPos(in), fnKey(fn)+" reads Response."+fieldName(xt, idx)+" directly instead of through Path/Err/DecodeProp: a resource reported with a failure status can be taken for valid data", nil)
			}
		})
	}
	dp := p.MustFunc(r, pkgInternal, "(*Response).DecodeProp")
	if dp != nil {
		var decodes []*ssa.Call
		var respErr, statErr []*ssa.Call
		eachCall(dp, func(site ssa.CallInstruction) {
			call, ok := site.(*ssa.Call)
			if !ok {
				return
			}
			switch calleeName(call.Common()) {
			case "(*github.com/emersion/go-webdav/internal.RawXMLValue).Decode":
				decodes = append(decodes, call)
			case "(*github.com/emersion/go-webdav/internal.Response).Err":
				respErr = append(respErr, call)
			case "(*github.com/emersion/go-webdav/internal.Status).Err":
				statErr = append(statErr, call)
			}
		})
		for _, d := range decodes {
			r.Role("property-decode")
			ok1, ok2 := false, false
			for _, e := range respErr {
				if knownNilAt(e, d.Block()) {
					ok1 = true
				}
			}
			for _, e := range statErr {
				if knownNilAt(e, d.Block()) {
					ok2 = true
				}
			}
			r.Ob(ok1)
			r.Ob(ok2)
			if !ok1 {
				r.Violation("decode-before-response-status|"+fnKey(dp), p.instrPos(d), "DecodeProp decodes a property on a path where Response.Err() was not found nil: properties of a resource that failed are returned as valid data", nil)
			}
			if !ok2 {
				r.Violation("decode-before-propstat-status|"+fnKey(dp), p.instrPos(d), "DecodeProp decodes a property on a path where the propstat's Status.Err() was not found nil: a property reported 404/403 is returned as valid (empty) data", nil)
			}
		}
	}
	r.RequireRole("status-field-access", "property-decode")
}

// c14Close: RELEASE-OR-ESCAPE for responses obtained from internal.(*Client).Do.
func c14Close(c *Ctx, pr *PropertyRun) {
	p := c.P
	r := NewRule("C14", "C14.close", "every response obtained from internal.(*Client).Do is closed on every path where it is non-nil, or handed to the caller (E4 RELEASE-OR-ESCAPE)")
	pr.Rules = append(pr.Rules, r)
	gate := p.MustFunc(r, pkgInternal, "(*Client).Do")
	if gate == nil {
		return
	}
	for _, fn := range p.ModFns {
		if !inLib(fn) || len(fn.Blocks) == 0 {
			continue
		}
		eachCall(fn, func(site ssa.CallInstruction) {
			call, ok := site.(*ssa.Call)
			if !ok || call.Common().StaticCallee() != gate {
				return
			}
			r.Role("response-acquired")
			var respV, errV ssa.Value
			for _, ref := range *call.Referrers() {
				if ex, ok := ref.(*ssa.Extract); ok {
					if ex.Index == 0 {
						respV = ex
					} else {
						errV = ex
					}
				}
			}
			if respV == nil {
				r.Ob(false)
				r.Violation("resp-dropped|"+fnKey(fn), p.instrPos(call), "the response of Do is discarded in "+fnKey(fn)+": its body is never closed (connection leak)", nil)
				return
			}
			// close sites: calls/defers of Close on the Body loaded from respV
			var closeBlocks []*ssa.BasicBlock
			escapes := false
			var visit func(v ssa.Value, depth int)
			visit = func(v ssa.Value, depth int) {
				if depth > 5 {
					return
				}
				for _, ref := range *v.Referrers() {
					switch x := ref.(type) {
					case *ssa.FieldAddr:
						visit(x, depth+1)
					case *ssa.UnOp:
						visit(x, depth+1)
					case *ssa.Return:
						escapes = true
					case *ssa.Store:
						if x.Val == v {
							escapes = true
						}
					case *ssa.MakeInterface, *ssa.ChangeInterface:
						visit(x.(ssa.Value), depth+1)
					case ssa.CallInstruction:
						cc := x.Common()
						if cc.IsInvoke() && cc.Method.Name() == "Close" && cc.Value == v {
							closeBlocks = append(closeBlocks, x.Block())
						} else if cc.IsInvoke() && cc.Value == v {
							// other method on the body (Read): not a release
						} else {
							for _, a := range cc.Args {
								if a == v {
									// handed to another function (decoder reads it): not a release
								}
							}
						}
					}
				}
			}
			visit(respV, 0)
			if escapes {
				r.Ob(true)
				r.Sample(map[string]interface{}{"function": fnKey(fn), "response": "handed to the caller", "pos": p.instrPos(call)})
				return
			}
			// every return reachable with a non-nil response must be
			// dominated by a close (call or defer)
			ok = true
			var badRet ssa.Instruction
			for _, b := range fn.Blocks {
				ret, isRet := b.Instrs[len(b.Instrs)-1].(*ssa.Return)
				if !isRet {
					continue
				}
				if !call.Block().Dominates(b) {
					continue
				}
				if errV != nil && knownNonNilAt(errV, b) {
					continue // the response is nil on this path
				}
				dom := false
				for _, cb := range closeBlocks {
					if cb.Dominates(b) {
						dom = true
					}
				}
				if !dom {
					ok = false
					badRet = ret
				}
			}
			r.Ob(ok)
			r.Sample(map[string]interface{}{"function": fnKey(fn), "close_sites": len(closeBlocks), "ok": ok, "pos": p.instrPos(call)})
			if !ok {
				r.Violation("not-closed|"+fnKey(fn), p.instrPos(badRet), fnKey(fn)+" returns here with the response of Do neither closed nor handed to the caller: the connection is leaked and cannot be reused", nil)
			}
		})
	}
	r.RequireRole("response-acquired")
	if p.Control {
		r.ExpectControl("zzVerifControlLeak")
	}
}

// c14DepthConst: every receiver of Depth.String reachable from the clients is
// one of the three constants (through phis).
func c14DepthConst(c *Ctx, pr *PropertyRun) {
	p := c.P
	r := NewRule("C14", "C14.depth-constant", "every call of Depth.String in the library passes one of the three Depth constants (constant propagation through phis and in-module parameters)")
	pr.Rules = append(pr.Rules, r)
	ds := p.MustFunc(r, pkgInternal, "(Depth).String")
	if ds == nil {
		return
	}
	valid := map[int64]bool{0: true, 1: true, -1: true}
	var isConstDepth func(v ssa.Value, fn *ssa.Function, depth int) (bool, string)
	isConstDepth = func(v ssa.Value, fn *ssa.Function, depth int) (bool, string) {
		if depth > 6 {
			return false, "too deep"
		}
		if k, ok := constInt(v); ok {
			return valid[k], fmt.Sprintf("constant %d", k)
		}
		switch x := v.(type) {
		case *ssa.Phi:
			for _, e := range x.Edges {
				if ok, why := isConstDepth(e, fn, depth+1); !ok {
					return false, why
				}
			}
			return true, "phi of constants"
		case *ssa.Parameter:
			// all in-module call sites of fn
			idx := paramIndex(fn, x)
			n := 0
			for _, e := range c.CG().In[fn] {
				if e.Site == nil || e.Kind == "reflect" || e.Kind == "closure" {
					continue
				}
				cc := e.Site.Common()
				var all []ssa.Value
				if cc.IsInvoke() {
					all = append(all, cc.Value)
				}
				all = append(all, cc.Args...)
				if idx >= len(all) {
					continue
				}
				n++
				if ok, why := isConstDepth(all[idx], e.Caller, depth+1); !ok {
					return false, why + " (at " + p.instrPos(e.Site) + ")"
				}
			}
			if fn.Object() != nil && fn.Object().Exported() && !strings.Contains(fnPkg(fn).Path(), "/internal") {
				return false, "parameter of an exported function"
			}
			return n > 0, "all call sites pass constants"
		}
		return false, fmt.Sprintf("not a constant (%T)", v)
	}
	for _, fn := range p.ModFns {
		if !inLib(fn) || fn.Synthetic != "" {
			continue
		}
		eachCall(fn, func(site ssa.CallInstruction) {
			if site.Common().StaticCallee() != ds || len(site.Common().Args) == 0 {
				return
			}
			r.Role("depth-string-call")
			ok, why := isConstDepth(site.Common().Args[0], fn, 0)
			r.Ob(ok)
			r.Sample(map[string]interface{}{"caller": fnKey(fn), "receiver": why, "pos": p.instrPos(site)})
			if !ok {
				r.Violation("depth-not-constant|"+fnKey(fn), p.instrPos(site), "Depth.String is called in "+fnKey(fn)+" with a value that is not provably one of DepthZero/DepthOne/DepthInfinity ("+why+"): it panics on any other value", nil)
			}
		})
	}
	r.RequireRole("depth-string-call")
}

func c14ParseChecked(c *Ctx, pr *PropertyRun, entries []*ssa.Function) {
	p := c.P
	r := NewRule("C14", "C14.errors-propagate", "in client code the error of every fallible parse/decode is tested before its value is used (E4 RESULT-CHECKED)")
	pr.Rules = append(pr.Rules, r)
	cg := c.CG()
	seen := cg.Reach(entries, moduleOnly(p))
	var fns []*ssa.Function
	for fn := range seen {
		if p.InModule(fn) && len(fn.Blocks) > 0 {
			fns = append(fns, fn)
		}
	}
	sort.Slice(fns, func(i, j int) bool { return fnKey(fns[i]) < fnKey(fns[j]) })
	exempt := map[string]string{
		"(*internal.Client).Do|mime.ParseMediaType": "on error the media type is empty, which selects the no-detail branch; the status is still reported",
	}
	for _, fn := range fns {
		eachCall(fn, func(site ssa.CallInstruction) {
			call, ok := site.(*ssa.Call)
			if !ok {
				return
			}
			name := calleeName(call.Common())
			if !parseCalls[name] {
				return
			}
			r.Role("parse-call")
			if why, ok := exempt[fnKey(fn)+"|"+name]; ok {
				r.Note("exempt %s in %s: %s", name, fnKey(fn), why)
				return
			}
			_, bad, dropped := uncheckedUses(call)
			ok = !dropped && len(bad) == 0
			r.Ob(ok)
			r.Sample(map[string]interface{}{"function": fnKey(fn), "parse": name, "ok": ok})
			if dropped {
				r.Violation("dropped|"+fnKey(fn)+"|"+name, p.instrPos(call), fmt.Sprintf("the error of %s is discarded in %s: an uninterpretable response is taken for a valid one", name, fnKey(fn)), nil)
			} else if len(bad) > 0 {
				r.Violation("unchecked|"+fnKey(fn)+"|"+name, p.instrPos(bad[0]), fmt.Sprintf("a result of %s is used in %s on a path where its error has not been tested", name, fnKey(fn)), nil)
			}
		})
	}
	r.RequireRole("parse-call")
}

func c14Tables(c *Ctx, pr *PropertyRun) {}
