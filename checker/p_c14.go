package main

// C14 — clients survive any response and report failures with their status.
//
// Decided: single HTTP gate; the response's status flows into the error;
// per-resource status fields are only touched inside package internal and the
// property decode is dominated by both status tests; every response obtained
// from Do is closed on all paths or handed to the caller; stream-driven
// recursion is bounded; fallible parses have their error tested before use.
// The status-decision tables (2xx / 207 / 404-as-deletion) are decided by the
// decision-table rules below (E2).

import (
	"fmt"
	"go/token"
	"go/types"
	"sort"
	"strings"

	"golang.org/x/tools/go/ssa"
)

func init() { register("C14", runC14) }

func runC14(c *Ctx, pr *PropertyRun) {
	p := c.P
	pr.Explanation = "Decided (structural clauses): (1) HTTPClient.Do is invoked only from internal.(*Client).Do and the basic-auth wrapper, and every exported method of the three public Client types reaches that gate; (2) the response's status code flows unaltered into HTTPError.Code; the status decision tables of Do / DoMultiStatus / Response.Err / Status.Err / SyncCollection are extracted and compared with the statement; " +
		"(3) the per-resource status fields of a multi-status response are touched only inside package internal, and Response.DecodeProp decodes a property only after both the response status and the propstat status were found good; (4) every response obtained from Do is closed on every path or handed to the caller; (5) stream-driven recursion reachable from the clients carries a depth bound; (6) the error of every fallible parse in client code is tested before the value is used. " +
		"NOT decided: behaviour on malformed bodies inside encoding/xml and the iCalendar/vCard parsers; absence of hangs inside net/http."
	pr.Assumptions = append(pr.Assumptions, "call graph: static callees + CHA, plus reflection edges for encoding/xml", "the HTTPClient given by the user returns either a non-nil response or a non-nil error")
	pr.Trusted = append(pr.Trusted, "golang.org/x/tools/go/ssa v0.29.0")

	entries := p.clientEntries()
	c14Gate(c, pr, entries)
	c14StatusFlow(c, pr)
	c14PerResource(c, pr)
	c14Close(c, pr)
	c13Recursion(c, pr, "C14", entries)
	// what the decoders reached from the client do with short or empty texts
	c13Guards(c, pr, "C14", entries)
	c13Panics(c, pr, "C14", entries, map[string]string{
		"(internal.Depth).String":             "every call site passes one of the three Depth constants (checked: constant propagation through phis)",
		"(*internal.RawXMLValue).TokenReader": "marshal-only values are created only by EncodeRawXMLElement and only ever encoded; responses are decoded into fresh values",
		"(*internal.RawXMLValue).MarshalXML":  "field tok never holds an xml.EndElement (checked)",
	})
	c14DepthConst(c, pr)
	c14ParseChecked(c, pr, entries)
	c14Tables(c, pr)
	decodePropTable(c, pr, "C14")
	// "returns without hanging": the streamed upload (shared with C18.upload)
	c18Upload(c, pr, "C14")
	boundedBodyRule(c, pr, "C14")
	// per-response holders are fresh (a tolerated 404 leaves the zero value)
	freshHolderRule(c, pr, "C14")
	statusBeforeToleranceRule(c, pr, "C14")
}

func c14Gate(c *Ctx, pr *PropertyRun, entries []*ssa.Function) {
	p := c.P
	r := NewRule("C14", "C14.single-gate", "HTTPClient.Do is invoked only from internal.(*Client).Do and the basic-auth wrapper; every exported method of the public clients reaches it (WHO-MAY-CALL + E7)")
	pr.Rules = append(pr.Rules, r)
	gate := p.MustFunc(r, pkgInternal, "(*Client).Do")
	if gate == nil {
		return
	}
	allowed := map[string]bool{"(*internal.Client).Do": true, "(*webdav.basicAuthHTTPClient).Do": true}
	for _, fn := range p.ModFns {
		if !inLib(fn) {
			continue
		}
		eachCall(fn, func(site ssa.CallInstruction) {
			cc := site.Common()
			name := calleeName(cc)
			isHTTP := false
			if cc.IsInvoke() && cc.Method.Name() == "Do" {
				if n := namedOf(cc.Value.Type()); n != nil && n.Obj().Name() == "HTTPClient" {
					isHTTP = true
				}
			}
			switch name {
			case "(*net/http.Client).Do", "(*net/http.Client).Get", "(*net/http.Client).Post", "(*net/http.Client).Head", "(*net/http.Client).PostForm",
				"net/http.Get", "net/http.Post", "net/http.Head", "net/http.PostForm", "(*net/http.Transport).RoundTrip":
				isHTTP = true
			}
			if !isHTTP {
				return
			}
			r.Role("http-call")
			ok := allowed[fnKey(fn)]
			r.Ob(ok)
			r.Sample(map[string]interface{}{"caller": fnKey(fn), "callee": name, "pos": p.instrPos(site)})
			if !ok {
				r.Violation("bypass|"+fnKey(fn), p.instrPos(site), fnKey(fn)+" performs an HTTP request directly ("+name+"), bypassing internal.(*Client).Do: the status of the answer is not turned into an error there", nil)
			}
		})
	}
	cg := c.CG()
	for _, pk := range []string{pkgWebdav, pkgCaldav, pkgCarddav} {
		for _, m := range p.exportedMethods(pk, "Client") {
			if fnPkg(m) == nil || fnPkg(m).Path() != pk || m.Synthetic != "" {
				continue // promoted from the embedded webdav.Client
			}
			r.Role("client-method")
			seen := cg.Reach([]*ssa.Function{m}, moduleOnly(p))
			_, ok := seen[gate]
			r.Ob(ok)
			if !ok {
				r.Violation("no-gate|"+fnKey(m), p.Pos(m.Pos()), fnKey(m)+" does not reach internal.(*Client).Do: whatever it sends is not subject to the status check", nil)
			}
		}
	}
	r.RequireRole("http-call", "client-method")
	if p.Control {
		r.ExpectControl("zzVerifControlBypass")
	}
}

func c14StatusFlow(c *Ctx, pr *PropertyRun) {
	p := c.P
	r := NewRule("C14", "C14.status-flow", "the response's StatusCode flows unaltered into HTTPError.Code in internal.(*Client).Do (E1 UNALTERED)")
	pr.Rules = append(pr.Rules, r)
	gate := p.MustFunc(r, pkgInternal, "(*Client).Do")
	httpErr := p.NamedType(pkgInternal, "HTTPError")
	if gate == nil || httpErr == nil {
		return
	}
	res := RunFieldFlow(c, FFConfig{Entries: []*ssa.Function{gate},
		IsSource: func(n *types.Named) bool {
			return n.Obj().Pkg() != nil && n.Obj().Pkg().Path() == "net/http" && n.Obj().Name() == "Response"
		},
		IsSink: func(n *types.Named) bool { return n == httpErr }})
	r.Role("status-source")
	u := unalteredSinks(res, "net/http.Response.StatusCode")
	ok := false
	for _, s := range u {
		if s == "internal.HTTPError.Code" {
			ok = true
		}
	}
	r.Ob(ok)
	r.Sample(map[string]interface{}{"source": "net/http.Response.StatusCode", "unaltered_sinks": u})
	if !ok {
		r.Violation("code-not-status|"+fnKey(gate), p.Pos(gate.Pos()), "HTTPError.Code is not assigned the response's StatusCode unaltered in internal.(*Client).Do: the error does not carry the HTTP status", nil)
	}
	// the DAV:error body reaches HTTPError.Err
	sinks := res.SinkLabels["internal.HTTPError.Err"]
	_, bodyOK := sinks.has("net/http.Response.Body")
	r.Ob(bodyOK)
	if !bodyOK {
		r.Violation("err-not-body|"+fnKey(gate), p.Pos(gate.Pos()), "nothing derived from the response body flows into HTTPError.Err: the DAV:error condition of the response is lost", nil)
	}
}

func c14PerResource(c *Ctx, pr *PropertyRun) {
	p := c.P
	r := NewRule("C14", "C14.per-resource-status", "Response.{Hrefs,PropStats,Status,Error} are touched only inside package internal; DecodeProp decodes only after Response.Err and the propstat's Status.Err were tested nil (WHO-MAY-ACCESS + dominance)")
	pr.Rules = append(pr.Rules, r)
	resp := p.NamedType(pkgInternal, "Response")
	if resp == nil {
		r.Unresolved("type internal.Response not found")
		return
	}
	guarded := map[string]bool{"Hrefs": true, "PropStats": true, "Status": true, "Error": true}
	for _, fn := range p.ModFns {
		if !inLib(fn) {
			continue
		}
		eachInstr(fn, func(_ *ssa.BasicBlock, in ssa.Instruction) {
			var xt types.Type
			var idx int
			switch x := in.(type) {
			case *ssa.FieldAddr:
				xt, idx = x.X.Type(), x.Field
			case *ssa.Field:
				xt, idx = x.X.Type(), x.Field
			default:
				return
			}
			if namedOf(xt) != resp || !guarded[fieldName(xt, idx)] {
				return
			}
			r.Role("status-field-access")
			ok := fnPkg(fn).Path() == pkgInternal
			r.Ob(ok)
			if !ok {
				r.Violation("raw-access|"+fnKey(fn)+"|"+fieldName(xt, idx), p.instrPos(in), fnKey(fn)+" reads Response."+fieldName(xt, idx)+" directly instead of through Path/Err/DecodeProp: a resource reported with a failure status can be taken for valid data", nil)
			}
		})
	}
	dp := p.MustFunc(r, pkgInternal, "(*Response).DecodeProp")
	if dp != nil {
		var decodes []*ssa.Call
		var respErr, statErr []*ssa.Call
		eachCall(dp, func(site ssa.CallInstruction) {
			call, ok := site.(*ssa.Call)
			if !ok {
				return
			}
			switch calleeName(call.Common()) {
			case "(*github.com/emersion/go-webdav/internal.RawXMLValue).Decode":
				decodes = append(decodes, call)
			case "(*github.com/emersion/go-webdav/internal.Response).Err":
				respErr = append(respErr, call)
			case "(*github.com/emersion/go-webdav/internal.Status).Err":
				statErr = append(statErr, call)
			}
		})
		for _, d := range decodes {
			r.Role("property-decode")
			ok1, ok2 := false, false
			for _, e := range respErr {
				if knownNilAt(e, d.Block()) {
					ok1 = true
				}
			}
			for _, e := range statErr {
				if knownNilAt(e, d.Block()) {
					ok2 = true
				}
			}
			r.Ob(ok1)
			r.Ob(ok2)
			if !ok1 {
				r.Violation("decode-before-response-status|"+fnKey(dp), p.instrPos(d), "DecodeProp decodes a property on a path where Response.Err() was not found nil: properties of a resource that failed are returned as valid data", nil)
			}
			if !ok2 {
				r.Violation("decode-before-propstat-status|"+fnKey(dp), p.instrPos(d), "DecodeProp decodes a property on a path where the propstat's Status.Err() was not found nil: a property reported 404/403 is returned as valid (empty) data", nil)
			}
		}
	}
	r.RequireRole("status-field-access", "property-decode")
}

// c14Close: RELEASE-OR-ESCAPE for responses obtained from internal.(*Client).Do.
func c14Close(c *Ctx, pr *PropertyRun) {
	p := c.P
	r := NewRule("C14", "C14.close", "every response obtained from internal.(*Client).Do is closed on every path where it is non-nil, or handed to the caller (E4 RELEASE-OR-ESCAPE)")
	pr.Rules = append(pr.Rules, r)
	gate := p.MustFunc(r, pkgInternal, "(*Client).Do")
	if gate == nil {
		return
	}
	for _, fn := range p.ModFns {
		if !inLib(fn) || len(fn.Blocks) == 0 {
			continue
		}
		eachCall(fn, func(site ssa.CallInstruction) {
			call, ok := site.(*ssa.Call)
			if !ok || call.Common().StaticCallee() != gate {
				return
			}
			r.Role("response-acquired")
			var respV, errV ssa.Value
			for _, ref := range *call.Referrers() {
				if ex, ok := ref.(*ssa.Extract); ok {
					if ex.Index == 0 {
						respV = ex
					} else {
						errV = ex
					}
				}
			}
			if respV == nil {
				r.Ob(false)
				r.Violation("resp-dropped|"+fnKey(fn), p.instrPos(call), "the response of Do is discarded in "+fnKey(fn)+": its body is never closed (connection leak)", nil)
				return
			}
			// close sites: calls/defers of Close on the Body loaded from respV
			var closeBlocks []*ssa.BasicBlock
			escapes := false
			var visit func(v ssa.Value, depth int)
			visit = func(v ssa.Value, depth int) {
				if depth > 5 {
					return
				}
				for _, ref := range *v.Referrers() {
					switch x := ref.(type) {
					case *ssa.FieldAddr:
						visit(x, depth+1)
					case *ssa.UnOp:
						visit(x, depth+1)
					case *ssa.Return:
						escapes = true
					case *ssa.Store:
						if x.Val == v {
							escapes = true
						}
					case *ssa.MakeInterface, *ssa.ChangeInterface:
						visit(x.(ssa.Value), depth+1)
					case ssa.CallInstruction:
						cc := x.Common()
						if cc.IsInvoke() && cc.Method.Name() == "Close" && cc.Value == v {
							closeBlocks = append(closeBlocks, x.Block())
						} else if cc.IsInvoke() && cc.Value == v {
							// other method on the body (Read): not a release
						} else {
							for ai, a := range cc.Args {
								if a != v {
									continue
								}
								// handed to another function: a release only if
								// that is a library function which closes the
								// body of this very parameter on every path
								if g := cc.StaticCallee(); g != nil && inLib(g) && closesResponseParam(g, ai) {
									closeBlocks = append(closeBlocks, x.Block())
								}
							}
						}
					}
				}
			}
			visit(respV, 0)
			if escapes {
				r.Ob(true)
				r.Sample(map[string]interface{}{"function": fnKey(fn), "response": "handed to the caller", "pos": p.instrPos(call)})
				return
			}
			// every return reachable with a non-nil response must be
			// dominated by a close (call or defer)
			ok = true
			var badRet ssa.Instruction
			isClose := map[*ssa.BasicBlock]bool{}
			for _, cb := range closeBlocks {
				isClose[cb] = true
			}
			// walk every path from the call on which the error is nil (the
			// non-nil edge of a test of the error is a path without response)
			seenB := map[*ssa.BasicBlock]bool{}
			var walk func(b *ssa.BasicBlock)
			walk = func(b *ssa.BasicBlock) {
				if seenB[b] || isClose[b] {
					return
				}
				seenB[b] = true
				last := b.Instrs[len(b.Instrs)-1]
				if ret, isRet := last.(*ssa.Return); isRet {
					ok = false
					badRet = ret
					return
				}
				skip := -1
				if iff, isIf := last.(*ssa.If); isIf && errV != nil {
					if bin, isBin := iff.Cond.(*ssa.BinOp); isBin && ((bin.X == errV && isNilConst(bin.Y)) || (bin.Y == errV && isNilConst(bin.X))) {
						switch bin.Op {
						case token.NEQ:
							skip = 0
						case token.EQL:
							skip = 1
						}
					}
				}
				for i, s := range b.Succs {
					if i != skip {
						walk(s)
					}
				}
			}
			walk(call.Block())
			r.Ob(ok)
			r.Sample(map[string]interface{}{"function": fnKey(fn), "close_sites": len(closeBlocks), "ok": ok, "pos": p.instrPos(call)})
			if !ok {
				r.Violation("not-closed|"+fnKey(fn), p.instrPos(badRet), fnKey(fn)+" returns here with the response of Do neither closed nor handed to the caller: the connection is leaked and cannot be reused", nil)
			}
		})
	}
	r.RequireRole("response-acquired")
	if p.Control {
		r.ExpectControl("zzVerifControlLeak")
	}
}

// c14DepthConst: every receiver of Depth.String reachable from the clients is
// one of the three constants (through phis).
func c14DepthConst(c *Ctx, pr *PropertyRun) {
	p := c.P
	r := NewRule("C14", "C14.depth-constant", "every call of Depth.String in the library passes one of the three Depth constants (constant propagation through phis and in-module parameters)")
	pr.Rules = append(pr.Rules, r)
	ds := p.MustFunc(r, pkgInternal, "(Depth).String")
	if ds == nil {
		return
	}
	valid := map[int64]bool{0: true, 1: true, -1: true}
	var isConstDepth func(v ssa.Value, fn *ssa.Function, depth int) (bool, string)
	isConstDepth = func(v ssa.Value, fn *ssa.Function, depth int) (bool, string) {
		if depth > 6 {
			return false, "too deep"
		}
		if k, ok := constInt(v); ok {
			return valid[k], fmt.Sprintf("constant %d", k)
		}
		switch x := v.(type) {
		case *ssa.Phi:
			for _, e := range x.Edges {
				if ok, why := isConstDepth(e, fn, depth+1); !ok {
					return false, why
				}
			}
			return true, "phi of constants"
		case *ssa.Parameter:
			// all in-module call sites of fn
			idx := paramIndex(fn, x)
			n := 0
			for _, e := range c.CG().In[fn] {
				if e.Site == nil || e.Kind == "reflect" || e.Kind == "closure" {
					continue
				}
				cc := e.Site.Common()
				var all []ssa.Value
				if cc.IsInvoke() {
					all = append(all, cc.Value)
				}
				all = append(all, cc.Args...)
				if idx >= len(all) {
					continue
				}
				n++
				if ok, why := isConstDepth(all[idx], e.Caller, depth+1); !ok {
					return false, why + " (at " + p.instrPos(e.Site) + ")"
				}
			}
			if fn.Object() != nil && fn.Object().Exported() && !strings.Contains(fnPkg(fn).Path(), "/internal") {
				return false, "parameter of an exported function"
			}
			return n > 0, "all call sites pass constants"
		}
		return false, fmt.Sprintf("not a constant (%T)", v)
	}
	for _, fn := range p.ModFns {
		if !inLib(fn) || fn.Synthetic != "" {
			continue
		}
		eachCall(fn, func(site ssa.CallInstruction) {
			if site.Common().StaticCallee() != ds || len(site.Common().Args) == 0 {
				return
			}
			r.Role("depth-string-call")
			ok, why := isConstDepth(site.Common().Args[0], fn, 0)
			r.Ob(ok)
			r.Sample(map[string]interface{}{"caller": fnKey(fn), "receiver": why, "pos": p.instrPos(site)})
			if !ok {
				r.Violation("depth-not-constant|"+fnKey(fn), p.instrPos(site), "Depth.String is called in "+fnKey(fn)+" with a value that is not provably one of DepthZero/DepthOne/DepthInfinity ("+why+"): it panics on any other value", nil)
			}
		})
	}
	r.RequireRole("depth-string-call")
}

func c14ParseChecked(c *Ctx, pr *PropertyRun, entries []*ssa.Function) {
	p := c.P
	r := NewRule("C14", "C14.errors-propagate", "in client code the error of every fallible parse/decode is tested before its value is used (E4 RESULT-CHECKED)")
	pr.Rules = append(pr.Rules, r)
	cg := c.CG()
	seen := cg.Reach(entries, moduleOnly(p))
	var fns []*ssa.Function
	for fn := range seen {
		if p.InModule(fn) && len(fn.Blocks) > 0 {
			fns = append(fns, fn)
		}
	}
	sort.Slice(fns, func(i, j int) bool { return fnKey(fns[i]) < fnKey(fns[j]) })
	for _, fn := range fns {
		eachCall(fn, func(site ssa.CallInstruction) {
			call, ok := site.(*ssa.Call)
			if !ok {
				return
			}
			name := calleeName(call.Common())
			if !isParseName(p, name) {
				return
			}
			r.Role("parse-call")
			if ok, why := harmlessOnError(call); ok {
				r.Note("exempt %s in %s: %s", name, fnKey(fn), why)
				return
			}
			_, bad, dropped := uncheckedUses(call)
			ok = !dropped && len(bad) == 0
			r.Ob(ok)
			r.Sample(map[string]interface{}{"function": fnKey(fn), "parse": name, "ok": ok})
			if dropped {
				r.Violation("dropped|"+fnKey(fn)+"|"+name, p.instrPos(call), fmt.Sprintf("the error of %s is discarded in %s: an uninterpretable response is taken for a valid one", name, fnKey(fn)), nil)
			} else if len(bad) > 0 {
				r.Violation("unchecked|"+fnKey(fn)+"|"+name, p.instrPos(bad[0]), fmt.Sprintf("a result of %s is used in %s on a path where its error has not been tested", name, fnKey(fn)), nil)
			}
		})
	}
	r.RequireRole("parse-call")
}

// ---------------------------------------------------------------------------
// status decision tables (E2)

var c14Codes = []int64{0, 100, 199, 200, 201, 204, 207, 299, 300, 404, 500, 599}

func httpErrOf(in *Interp, v Val) (code int64, inner Val, ok bool) {
	iv, isI := v.(Iface)
	if !isI {
		return 0, nil, false
	}
	ptr, isP := iv.V.(Ptr)
	if !isP {
		return 0, nil, false
	}
	st, isS := ptr.C.Get().(Struct)
	if !isS || !isNamed(st.T, pkgInternal, "HTTPError") {
		return 0, nil, false
	}
	code, _ = in.concretise(st.F[0].Get())
	return code, st.F[1].Get(), true
}

func isNilVal(v Val) bool {
	k, ok := v.(Konst)
	return ok && k.V == nil
}

func c14Tables(c *Ctx, pr *PropertyRun) { c14TablesFor(c, pr, "C14") }

func c14TablesFor(c *Ctx, pr *PropertyRun, prop string) {
	p := c.P
	r := NewRule(prop, prop+".status-tables", "decision tables of Status.Err, Response.Err, Response.Path, internal.(*Client).Do, DoMultiStatus and carddav SyncCollection over status classes equal the statement (E2)")
	r.Exhaustive = true
	r.Bounds = fmt.Sprintf("status codes %v; sync-collection responses <= 2", c14Codes)
	pr.Rules = append(pr.Rules, r)
	codeDomain := func(key string) []int64 {
		if strings.HasSuffix(key, "Code") || strings.HasSuffix(key, "StatusCode") {
			return c14Codes
		}
		if strings.HasPrefix(key, "len(") {
			return []int64{0, 1}
		}
		return nil
	}
	run := func(spec DTXSpec, min int) {
		res := runDTX(c, spec)
		reportDTX(c, r, spec, res, spec.Name)
		r.Role("decision-table")
		r.Count("rows_"+spec.Name, res.Runs)
		if res.Runs < min {
			r.Unresolved(fmt.Sprintf("table %s has %d rows, fewer than %d", spec.Name, res.Runs, min))
		}
	}
	errObs := func(in *Interp, res Val, pan *panicOutcome) string {
		if pan != nil {
			return "panic"
		}
		if isNilVal(res) {
			return "nil"
		}
		// the error "carries" a status when errors.As finds an HTTPError in its chain
		cur := res
		for i := 0; i < 8; i++ {
			if code, _, ok := httpErrOf(in, cur); ok {
				return fmt.Sprintf("HTTPError(%d)", code)
			}
			w, ok := in.unwrapErr(cur, nil)
			if !ok {
				break
			}
			cur = w
		}
		return "other-error"
	}
	// Status.Err
	if fn := p.MustFunc(r, pkgInternal, "(*Status).Err"); fn != nil {
		run(DTXSpec{Name: "Status.Err", Entry: fn,
			Sym:     SymSpec{IntDomain: codeDomain},
			Args:    func(in *Interp) []Val { return []Val{in.symOf(fn.Params[0].Type(), "s")} },
			Observe: errObs,
			Oracle: func(env *OracleEnv) ([]string, bool) {
				if !env.Bool("s!=nil") {
					return []string{"nil"}, true
				}
				code := env.Int("s.Code")
				switch {
				case code == 200:
					return []string{"nil"}, true
				case code/100 == 2:
					// other 2xx: the code says TODO; both readings are accepted
					return []string{"nil", fmt.Sprintf("HTTPError(%d)", code)}, true
				}
				return []string{fmt.Sprintf("HTTPError(%d)", code)}, true
			}}, 5)
	}
	// Response.Err
	if fn := p.MustFunc(r, pkgInternal, "(*Response).Err"); fn != nil {
		run(DTXSpec{Name: "Response.Err", Entry: fn,
			Sym:  SymSpec{IntDomain: codeDomain, NonNil: func(k string) bool { return k == "resp" }},
			Args: func(in *Interp) []Val { return []Val{in.symOf(fn.Params[0].Type(), "resp")} },
			Observe: func(in *Interp, res Val, pan *panicOutcome) string {
				out := errObs(in, res, pan)
				if !strings.HasPrefix(out, "HTTPError(") {
					return out
				}
				// what the failure carries: the DAV:error condition of the
				// response (found by errors.As) and its description
				cond := "no"
				cur := res
				for i := 0; i < 10; i++ {
					if iv, ok := cur.(Iface); ok {
						if pt, isP := iv.Dyn.(*types.Pointer); isP && isNamed(pt.Elem(), pkgInternal, "Error") {
							cond = "yes"
							break
						}
					}
					if _, inner, ok := httpErrOf(in, cur); ok {
						cur = inner
						continue
					}
					w, ok := in.unwrapErr(cur, nil)
					if !ok {
						break
					}
					cur = w
				}
				return out + " condition=" + cond
			},
			Oracle: func(env *OracleEnv) ([]string, bool) {
				if !env.Bool("resp.Status!=nil") {
					return []string{"nil"}, true
				}
				code := env.Int("resp.Status.Code")
				if code/100 == 2 {
					return []string{"nil"}, true
				}
				// a DAV:error element the response carries is in the chain,
				// whatever else the response says (a description next to it)
				cond := "no"
				if env.Bool("resp.Error!=nil") {
					cond = "yes"
				}
				return []string{fmt.Sprintf("HTTPError(%d) condition=%s", code, cond)}, true
			}}, 5)
	}
	// Response.Path: the error is Err()'s whenever Err() is non-nil; the path
	// is the single href
	if fn := p.MustFunc(r, pkgInternal, "(*Response).Path"); fn != nil {
		run(DTXSpec{Name: "Response.Path", Entry: fn,
			Sym: SymSpec{IntDomain: codeDomain, NonNil: func(k string) bool { return k == "resp" }, MaxLen: func(string, types.Type) int { return 2 },
				Override: func(key string, t types.Type) Val { return nil }},
			Setup: func(in *Interp) {
				in.OpenExternal = func(n *types.Named) bool { return n.Obj().Pkg().Path() == "net/url" && n.Obj().Name() == "URL" }
			},
			Args: func(in *Interp) []Val { return []Val{in.symOf(fn.Params[0].Type(), "resp")} },
			Observe: func(in *Interp, res Val, pan *panicOutcome) string {
				if pan != nil {
					return "panic"
				}
				t := res.(Tuple)
				return "path=" + keyOf(t.E[0]) + " err=" + errObs(in, t.E[1], nil)
			},
			Oracle: func(env *OracleEnv) ([]string, bool) {
				n := env.Len("resp.Hrefs", 2)
				statusErr := "nil"
				if env.Bool("resp.Status!=nil") {
					if code := env.Int("resp.Status.Code"); code/100 != 2 {
						statusErr = fmt.Sprintf("HTTPError(%d)", code)
					}
				}
				path := "\"\""
				if n == 1 {
					path = "resp.Hrefs[0].Path"
				}
				if statusErr != "nil" {
					return []string{"path=" + path + " err=" + statusErr}, true
				}
				if n == 1 {
					return []string{"path=" + path + " err=nil"}, true
				}
				return []string{"path=\"\" err=other-error"}, true
			}}, 6)
	}
	c14DoTable(c, r, run, codeDomain)
	c14SyncTable(c, r, run)
}

func c14DoTable(c *Ctx, r *RuleResult, run func(DTXSpec, int), codeDomain func(string) []int64) {
	p := c.P
	fn := p.MustFunc(r, pkgInternal, "(*Client).Do")
	dms := p.MustFunc(r, pkgInternal, "(*Client).DoMultiStatus")
	if fn == nil || dms == nil {
		return
	}
	respT := p.lookupType("net/http", "Response")
	httpModels := func(in *Interp, site ssa.CallInstruction, name string, args []Val) (Val, bool) {
		cc := site.Common()
		switch {
		case cc.IsInvoke() && cc.Method.Name() == "Do" && strings.HasSuffix(name, "HTTPClient).Do"):
			in.effect("http.Do", site.Pos())
			if in.truth(LazyBool{"transport-error"}) {
				return Tuple{[]Val{kNil, in.mkErr(&ErrObj{Kind: "ext", Msg: kStr("transport error"), Key: "transport-error"})}}, true
			}
			return Tuple{[]Val{in.symPointee(respT, "resp"), kNil}}, true
		case cc.IsInvoke() && cc.Method.Name() == "Close":
			in.effect("Close", site.Pos(), args[0])
			return kNil, true
		case name == "mime.ParseMediaType":
			return Tuple{[]Val{SymStr{Key: "mediatype"}, Opaque{"params", cc.Signature().Results().At(1).Type()}, kNil}}, true
		case name == "(*encoding/xml.Decoder).Decode":
			in.effect("xml.Decode", site.Pos())
			if in.truth(LazyBool{"body-decode-fails"}) {
				return in.mkErr(&ErrObj{Kind: "ext", Msg: kStr("xml error"), Key: "xml-error"}), true
			}
			return kNil, true
		case name == "encoding/xml.NewDecoder":
			return Opaque{"decoder", cc.Signature().Results().At(0).Type()}, true
		case name == "io.Copy":
			return Tuple{[]Val{kInt(0), kNil}}, true
		case name == "(*bytes.Buffer).String":
			return SymStr{Key: "bodytext"}, true
		case name == "strings.TrimSpace":
			return args[0], true
		}
		return nil, false
	}
	openHTTP := func(n *types.Named) bool {
		pp := n.Obj().Pkg().Path()
		return (pp == "net/http" && n.Obj().Name() == "Response") || (pp == "io" && n.Obj().Name() == "LimitedReader") || (pp == "bytes" && n.Obj().Name() == "Buffer")
	}
	run(DTXSpec{Name: "Client.Do", Entry: fn,
		Sym: SymSpec{IntDomain: codeDomain, NonNil: func(k string) bool { return true }},
		Setup: func(in *Interp) {
			in.Models = append(in.Models, httpModels)
			in.OpenExternal = openHTTP
		},
		Args: func(in *Interp) []Val {
			return []Val{in.symOf(fn.Params[0].Type(), "c"), Opaque{"req", fn.Params[1].Type()}}
		},
		Observe: func(in *Interp, res Val, pan *panicOutcome) string {
			if pan != nil {
				return "panic"
			}
			t := res.(Tuple)
			if isNilVal(t.E[1]) {
				if isNilVal(t.E[0]) {
					return "nil-response-without-error"
				}
				return "response"
			}
			if code, inner, ok := httpErrOf(in, t.E[1]); ok {
				kind := "none"
				if !isNilVal(inner) {
					kind = "other"
					if iv, isI := inner.(Iface); isI {
						if e, isE := iv.V.(*ErrObj); isE {
							kind = keyOfErr(e)
						} else if n := namedOf(iv.Dyn); n != nil {
							kind = n.Obj().Name()
						}
					}
				}
				closed := 0
				for _, e := range in.Trace {
					if e.Name == "Close" {
						closed++
					}
				}
				return fmt.Sprintf("HTTPError(%d,%s,closed=%v)", code, kind, closed > 0)
			}
			if iv, ok := t.E[1].(Iface); ok {
				if e, ok := iv.V.(*ErrObj); ok {
					return "error:" + keyOfErr(e)
				}
			}
			return "other-error"
		},
		Oracle: func(env *OracleEnv) ([]string, bool) {
			if env.Bool("transport-error") {
				return []string{"error:transport-error"}, true
			}
			code := env.Int("resp.StatusCode")
			if code/100 == 2 {
				return []string{"response"}, true
			}
			// the content type decides which detail is attached
			mt := S("mediatype")
			kind := "none"
			switch {
			case env.Eq(mt, K("application/xml")) || env.Eq(mt, K("text/xml")):
				if env.Bool("body-decode-fails") {
					kind = "xml-error"
				} else {
					kind = "Error"
				}
			case env.Bool("strings.HasPrefix(mediatype,\"text/\")"):
				if env.Eq(S("bodytext"), K("")) {
					kind = "none"
				} else {
					return []string{fmt.Sprintf("HTTPError(%d,new:bodytext,closed=true)", code), fmt.Sprintf("HTTPError(%d,new:(bodytext+\" […]\"),closed=true)", code)}, true
				}
			}
			return []string{fmt.Sprintf("HTTPError(%d,%s,closed=true)", code, kind)}, true
		}}, 10)
	// DoMultiStatus: 207 required
	doFn := fn
	run(DTXSpec{Name: "Client.DoMultiStatus", Entry: dms,
		Sym: SymSpec{IntDomain: codeDomain, NonNil: func(k string) bool { return true }},
		Setup: func(in *Interp) {
			in.Models = append(in.Models, func(in *Interp, site ssa.CallInstruction, name string, args []Val) (Val, bool) {
				if name == fullFnName(doFn) {
					// Do's own table is checked above: here it yields a 2xx response or an error
					if in.truth(LazyBool{"do-fails"}) {
						return Tuple{[]Val{kNil, in.mkErr(&ErrObj{Kind: "ext", Msg: kStr("do error"), Key: "do-error"})}}, true
					}
					return Tuple{[]Val{in.symPointee(respT, "resp"), kNil}}, true
				}
				return nil, false
			}, httpModels)
			in.OpenExternal = openHTTP
		},
		Args: func(in *Interp) []Val {
			return []Val{in.symOf(dms.Params[0].Type(), "c"), Opaque{"req", dms.Params[1].Type()}}
		},
		Observe: func(in *Interp, res Val, pan *panicOutcome) string {
			if pan != nil {
				return "panic"
			}
			t := res.(Tuple)
			closed := false
			for _, e := range in.Trace {
				if e.Name == "Close" {
					closed = true
				}
			}
			if isNilVal(t.E[1]) {
				return fmt.Sprintf("multistatus(closed=%v)", closed)
			}
			return fmt.Sprintf("error(closed=%v)", closed)
		},
		Oracle: func(env *OracleEnv) ([]string, bool) {
			if env.Bool("do-fails") {
				return []string{"error(closed=false)"}, true
			}
			code := env.Int("resp.StatusCode")
			if code/100 != 2 {
				return nil, false // Do never hands out such a response
			}
			if code != 207 {
				return []string{"error(closed=true)"}, true
			}
			if env.Bool("body-decode-fails") {
				return []string{"error(closed=true)"}, true
			}
			return []string{"multistatus(closed=true)"}, true
		}}, 4)
}

func c14SyncTable(c *Ctx, r *RuleResult, run func(DTXSpec, int)) {
	p := c.P
	fn := p.MustFunc(r, pkgCarddav, "(*Client).SyncCollection")
	icSync := p.MustFunc(r, pkgInternal, "(*Client).SyncCollection")
	decodeProp := p.MustFunc(r, pkgInternal, "(*Response).DecodeProp")
	encReq := p.Func(pkgCarddav, "encodeAddressPropReq")
	if fn == nil || icSync == nil || decodeProp == nil {
		return
	}
	msT := p.NamedType(pkgInternal, "MultiStatus")
	codes := []int64{200, 404, 500}
	run(DTXSpec{Name: "carddav.SyncCollection", Entry: fn,
		Sym: SymSpec{NonNil: func(k string) bool { return !strings.HasSuffix(k, ".Status") },
			MaxLen: func(key string, _ types.Type) int {
				if key == "ms.Responses" {
					return 2
				}
				return 1
			},
			IntDomain: func(key string) []int64 {
				if strings.HasSuffix(key, ".Code") {
					return codes
				}
				if key == "query.Limit" {
					return []int64{0}
				}
				return nil
			},
			Override: func(key string, t types.Type) Val {
				// exactly one href per response: the multi-href form is Path's table
				return nil
			}},
		Setup: func(in *Interp) {
			in.OpenExternal = func(n *types.Named) bool { return n.Obj().Pkg().Path() == "net/url" && n.Obj().Name() == "URL" }
			in.Models = append(in.Models, func(in *Interp, site ssa.CallInstruction, name string, args []Val) (Val, bool) {
				switch {
				case name == fullFnName(icSync):
					if in.truth(LazyBool{"request-fails"}) {
						return Tuple{[]Val{kNil, in.mkErr(&ErrObj{Kind: "ext", Msg: kStr("request error"), Key: "request-error"})}}, true
					}
					return Tuple{[]Val{in.symPointee(msT, "ms"), kNil}}, true
				case name == fullFnName(decodeProp):
					return kNil, true
				case encReq != nil && name == fullFnName(encReq):
					return Tuple{[]Val{Opaque{"propreq", site.Common().Signature().Results().At(0).Type()}, kNil}}, true
				case name == "fmt.Sprintf":
					return nil, false
				}
				return nil, false
			})
		},
		Args: func(in *Interp) []Val {
			return []Val{in.symOf(fn.Params[0].Type(), "c"), Opaque{"ctx", fn.Params[1].Type()}, SymStr{Key: "path"}, in.symOf(fn.Params[3].Type(), "query")}
		},
		Observe: func(in *Interp, res Val, pan *panicOutcome) string {
			if pan != nil {
				return "panic"
			}
			t := res.(Tuple)
			if !isNilVal(t.E[1]) {
				return "error"
			}
			ptr, ok := t.E[0].(Ptr)
			if !ok {
				return "nil-result"
			}
			st := ptr.C.Get().(Struct)
			var upd, del []string
			if s, ok := st.F[1].Get().(Slice); ok {
				for _, e := range s.E {
					upd = append(upd, keyOf(e.Get().(Struct).F[0].Get()))
				}
			}
			if s, ok := st.F[2].Get().(Slice); ok {
				for _, e := range s.E {
					del = append(del, keyOf(e.Get()))
				}
			}
			return "updated=[" + strings.Join(upd, " ") + "] deleted=[" + strings.Join(del, " ") + "]"
		},
		Oracle: func(env *OracleEnv) ([]string, bool) {
			if env.Bool("request-fails") {
				return []string{"error"}, true
			}
			n := env.Len("ms.Responses", 2)
			var upd, del []string
			for i := 0; i < n; i++ {
				rk := fmt.Sprintf("ms.Responses[%d]", i)
				if env.Len(rk+".Hrefs", 1) != 1 {
					return nil, false
				}
				href := rk + ".Hrefs[0].Path"
				code := int64(200)
				if env.Bool(rk + ".Status!=nil") {
					code = env.Int(rk + ".Status.Code")
				}
				switch {
				case code == 404:
					del = append(del, href)
				case code/100 != 2:
					return []string{"error"}, true
				default:
					// the collection itself is skipped
					if env.Eq(S(href), S("path")) || env.Eq(S("path"), S("("+href+"+\"/\")")) {
						continue
					}
					upd = append(upd, href)
				}
			}
			return []string{"updated=[" + strings.Join(upd, " ") + "] deleted=[" + strings.Join(del, " ") + "]"}, true
		}}, 8)
}

// boundedBodyRule: "clients survive any response" — a peer may send a body
// that never ends. Outside the decoders, the library reads a response body to
// its end only through a bounded reader: never inside the status gate
// (internal.Client.Do hands a successful response on unread, so whatever it
// reads itself is an error body), and never to throw it away.
func boundedBodyRule(c *Ctx, pr *PropertyRun, prop string) {
	p := c.P
	r := NewRule(prop, prop+".bounded-body", "no unbounded read-to-EOF of an http.Response body in the status gate, and none anywhere that discards what it reads (E4)")
	pr.Rules = append(pr.Rules, r)
	isBody := func(v ssa.Value) bool {
		for i := 0; i < 4; i++ {
			switch x := v.(type) {
			case *ssa.MakeInterface:
				v = x.X
				continue
			case *ssa.ChangeInterface:
				v = x.X
				continue
			case *ssa.UnOp:
				if fa, ok := x.X.(*ssa.FieldAddr); ok && x.Op == token.MUL {
					if pt, ok := fa.X.Type().Underlying().(*types.Pointer); ok {
						if n := namedOf(pt.Elem()); n != nil && n.Obj().Pkg() != nil && n.Obj().Pkg().Path() == "net/http" && n.Obj().Name() == "Response" && fieldName(fa.X.Type(), fa.Field) == "Body" {
							return true
						}
					}
				}
			}
			return false
		}
		return false
	}
	isDiscard := func(v ssa.Value) bool {
		for i := 0; i < 3; i++ {
			switch x := v.(type) {
			case *ssa.MakeInterface:
				v = x.X
				continue
			case *ssa.UnOp:
				if g, ok := x.X.(*ssa.Global); ok && g.Name() == "Discard" {
					return true
				}
			}
			return false
		}
		return false
	}
	gate := p.Func(pkgInternal, "(*Client).Do")
	// the gate and the helpers it hands the response to
	inGate := map[*ssa.Function]bool{}
	var addGate func(f *ssa.Function, d int)
	addGate = func(f *ssa.Function, d int) {
		if f == nil || inGate[f] || d > 2 {
			return
		}
		inGate[f] = true
		eachCall(f, func(site ssa.CallInstruction) {
			g := site.Common().StaticCallee()
			if g == nil || !inLib(g) || len(g.Blocks) == 0 {
				return
			}
			for _, a := range site.Common().Args {
				if pt, ok := a.Type().(*types.Pointer); ok {
					if n := namedOf(pt.Elem()); n != nil && n.Obj().Pkg() != nil && n.Obj().Pkg().Path() == "net/http" && n.Obj().Name() == "Response" {
						addGate(g, d+1)
					}
				}
				if isBody(a) {
					addGate(g, d+1) // handed the body itself
				}
			}
		})
	}
	addGate(gate, 0)
	for _, fn := range p.ModFns {
		if !inLib(fn) || len(fn.Blocks) == 0 {
			continue
		}
		root := fn
		for root.Parent() != nil {
			root = root.Parent()
		}
		eachCall(fn, func(site ssa.CallInstruction) {
			cc := site.Common()
			n := calleeName(cc)
			src := -1
			switch n {
			case "io.Copy", "io.CopyBuffer":
				src = 1
			case "io.ReadAll", "io/ioutil.ReadAll":
				src = 0
			}
			if src < 0 || src >= len(cc.Args) {
				return
			}
			fromBody := isBody(cc.Args[src])
			if !fromBody && inGate[root] && root != gate {
				// inside a helper of the gate the body arrives as a parameter
				v := cc.Args[src]
				if ci, ok := v.(*ssa.ChangeInterface); ok {
					v = ci.X
				}
				if prm, ok := v.(*ssa.Parameter); ok && types.IsInterface(prm.Type()) {
					fromBody = true
				}
			}
			if !fromBody {
				return
			}
			r.Role("whole-body-read")
			discard := (n == "io.Copy" || n == "io.CopyBuffer") && isDiscard(cc.Args[0])
			ok := !(discard || inGate[root])
			r.Ob(ok)
			if !ok {
				r.Violation("unbounded-body|"+fnKey(root)+"|"+n, p.instrPos(site), fmt.Sprintf("%s reads a response body to its end with %s and no bound (%s): a peer that keeps sending never lets the call return, although the status was known long before", fnKey(fn), n, map[bool]string{true: "what is read is thrown away", false: "inside the status gate, on the path of a failed request"}[discard]), nil)
			}
		})
	}
	// the bounded read that exists today keeps the rule alive
	if gate != nil {
		lim := false
		for g := range inGate {
			eachInstr(g, func(_ *ssa.BasicBlock, in ssa.Instruction) {
				if al, ok := in.(*ssa.Alloc); ok {
					if n := namedOf(al.Type().(*types.Pointer).Elem()); n != nil && n.Obj().Name() == "LimitedReader" {
						lim = true
					}
				}
				if call, ok := in.(*ssa.Call); ok && calleeName(call.Common()) == "io.LimitReader" {
					lim = true
				}
			})
		}
		if lim {
			r.Role("bounded-read-in-gate")
			r.Ob(true)
		}
	}
	r.RequireRole("bounded-read-in-gate")
	if p.Control {
		r.ExpectControl("unbounded-body|internal.zzVerifControlDrain")
	}
}

// closesResponseParam: library function g closes the Body of its parameter
// idx (a *http.Response) on every path: a Close call (or defer) on it whose
// block dominates every return.
func closesResponseParam(g *ssa.Function, idx int) bool {
	if len(g.Blocks) == 0 || idx >= len(g.Params) {
		return false
	}
	prm := g.Params[idx]
	ok := false
	eachCall(g, func(site ssa.CallInstruction) {
		cc := site.Common()
		if !cc.IsInvoke() || cc.Method.Name() != "Close" {
			return
		}
		// the receiver is (a load of) prm.Body
		v := cc.Value
		ld, isLd := v.(*ssa.UnOp)
		if !isLd {
			return
		}
		fa, isFA := ld.X.(*ssa.FieldAddr)
		if !isFA || fa.X != ssa.Value(prm) {
			return
		}
		all := true
		for _, b := range g.Blocks {
			if b == g.Recover {
				continue
			}
			if _, isRet := b.Instrs[len(b.Instrs)-1].(*ssa.Return); isRet && !site.Block().Dominates(b) {
				all = false
			}
		}
		if all {
			ok = true
		}
	})
	return ok
}
