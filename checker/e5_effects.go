package main

// E5 effects — who writes which memory. Flow-insensitive, interprocedural.
// For every Store/MapUpdate (and the listed external writers) the root of the
// address is found by walking FieldAddr/IndexAddr/load chains back to an Alloc
// (fresh, local), a Global, a Parameter, a FreeVar (resolved to the enclosing
// function's cell) or a call result. Per function: the set of parameters it
// may write through, directly or by passing the parameter on to a callee that
// writes through it (fixpoint).

import (
	"go/token"
	"go/types"
	"sort"

	"golang.org/x/tools/go/ssa"
)

type writeSite struct {
	Fn   *ssa.Function
	In   ssa.Instruction
	Root ssa.Value
	Path []string
	Kind string // store | mapupdate | append-spare | external
}

type effectsInfo struct {
	Writes        []writeSite                        // every write with its root
	ParamWritten  map[*ssa.Parameter]ssa.Instruction // parameters written through (witness)
	FreeVarWrites map[*ssa.FreeVar]ssa.Instruction
}

// valueRoot is addrRoot, additionally looking through Phi (first edge with a
// non-local root wins), Extract and MakeInterface.
var rootDepth int

func valueRoot(v ssa.Value) (ssa.Value, []string) {
	r, path := addrRoot(v)
	for i := 0; i < 16; i++ {
		switch x := r.(type) {
		case *ssa.MakeInterface:
			r2, p2 := addrRoot(x.X)
			r, path = r2, append(p2, path...)
			continue
		case *ssa.ChangeInterface:
			r2, p2 := addrRoot(x.X)
			r, path = r2, append(p2, path...)
			continue
		case *ssa.TypeAssert:
			r2, p2 := addrRoot(x.X)
			r, path = r2, append(p2, path...)
			continue
		case *ssa.Alloc:
			// a by-value parameter spilled to a local: what is reached
			// through a reference (map, slice, pointer) loaded from the copy
			// is still the caller's memory
			crossed := false
			for _, st := range path {
				if st == "*" {
					crossed = true
				}
			}
			if crossed && rootDepth < 6 {
				for _, ref := range *x.Referrers() {
					if st, ok := ref.(*ssa.Store); ok && st.Addr == ssa.Value(x) {
						if prm, ok := st.Val.(*ssa.Parameter); ok {
							return prm, path
						}
						// a copy of a value that lives in someone else's memory
						rootDepth++
						rr, _ := valueRoot(st.Val)
						rootDepth--
						switch rootKind(rr) {
						case "param", "global", "freevar":
							return rr, path
						}
					}
				}
			}
			return r, path
		case *ssa.Phi:
			// prefer a non-local root
			var pick ssa.Value
			for _, e := range x.Edges {
				er, _ := valueRoot0(e, 4)
				switch er.(type) {
				case *ssa.Parameter, *ssa.Global, *ssa.FreeVar:
					pick = e
				}
			}
			if pick == nil {
				return r, path
			}
			r2, p2 := addrRoot(pick)
			r, path = r2, append(p2, path...)
			continue
		}
		break
	}
	return r, path
}

func valueRoot0(v ssa.Value, depth int) (ssa.Value, []string) {
	if depth == 0 {
		return v, nil
	}
	r, p := addrRoot(v)
	if phi, ok := r.(*ssa.Phi); ok && len(phi.Edges) > 0 {
		return valueRoot0(phi.Edges[0], depth-1)
	}
	return r, p
}

// externalWriters: external callees that write through an argument (index in
// the full argument list, receiver first for methods).
var externalWriters = map[string][]int{
	"sort.Strings": {0}, "sort.Slice": {0}, "sort.SliceStable": {0}, "sort.Sort": {0}, "sort.Ints": {0},
	"encoding/xml.Unmarshal":                  {1},
	"(*encoding/xml.Decoder).Decode":          {1},
	"(*encoding/xml.Decoder).DecodeElement":   {1},
	"encoding/json.Unmarshal":                 {1},
	"(*net/http.Request).SetBasicAuth":        {0},
	"(net/http.Header).Set":                   {0},
	"(net/http.Header).Add":                   {0},
	"(net/http.Header).Del":                   {0},
	"(*bytes.Buffer).Write":                   {0},
	"(*bytes.Buffer).WriteString":             {0},
	"(*net/url.URL).UnmarshalBinary":          {0},
	"(github.com/emersion/go-vcard.Card).Set": {0}, "(github.com/emersion/go-vcard.Card).Add": {0},
	"(github.com/emersion/go-vcard.Card).SetValue": {0}, "(github.com/emersion/go-vcard.Card).AddValue": {0},
	"(github.com/emersion/go-ical.Props).Set": {0}, "(github.com/emersion/go-ical.Props).Add": {0}, "(github.com/emersion/go-ical.Props).Del": {0},
	"(github.com/emersion/go-ical.Props).SetText": {0}, "(github.com/emersion/go-ical.Props).SetDateTime": {0},
}

// resliceBases: the slices x such that v may be x[:k] (through the loop phi of
// `out = append(out, ...)` and through earlier appends).
func resliceBases(v ssa.Value, depth int, seen map[ssa.Value]bool) []ssa.Value {
	if depth > 6 || seen[v] {
		return nil
	}
	seen[v] = true
	switch x := v.(type) {
	case *ssa.Slice:
		if x.High != nil {
			return []ssa.Value{x.X}
		}
		return resliceBases(x.X, depth+1, seen)
	case *ssa.Phi:
		var out []ssa.Value
		for _, e := range x.Edges {
			out = append(out, resliceBases(e, depth+1, seen)...)
		}
		return out
	case *ssa.Call:
		if bi, ok := x.Common().Value.(*ssa.Builtin); ok && bi.Name() == "append" && len(x.Common().Args) > 0 {
			return resliceBases(x.Common().Args[0], depth+1, seen)
		}
	}
	return nil
}

func (c *Ctx) Effects() *effectsInfo {
	if c.eff != nil {
		return c.eff
	}
	p := c.P
	ei := &effectsInfo{ParamWritten: map[*ssa.Parameter]ssa.Instruction{}, FreeVarWrites: map[*ssa.FreeVar]ssa.Instruction{}}
	var fns []*ssa.Function
	for _, fn := range p.ModFns {
		if len(fn.Blocks) > 0 {
			fns = append(fns, fn)
		}
	}
	record := func(fn *ssa.Function, in ssa.Instruction, addr ssa.Value, kind string) {
		root, path := valueRoot(addr)
		ei.Writes = append(ei.Writes, writeSite{fn, in, root, path, kind})
	}
	for _, fn := range fns {
		eachInstr(fn, func(_ *ssa.BasicBlock, in ssa.Instruction) {
			switch x := in.(type) {
			case *ssa.Store:
				record(fn, in, x.Addr, "store")
			case *ssa.MapUpdate:
				record(fn, in, x.Map, "mapupdate")
			case ssa.CallInstruction:
				cc := x.Common()
				name := calleeName(cc)
				if idxs, ok := externalWriters[name]; ok {
					var all []ssa.Value
					if cc.IsInvoke() {
						all = append(all, cc.Value)
					}
					all = append(all, cc.Args...)
					for _, i := range idxs {
						if i < len(all) {
							record(fn, in, all[i], "external:"+name)
						}
					}
				}
				if bi, ok := cc.Value.(*ssa.Builtin); ok {
					switch bi.Name() {
					case "copy", "delete", "clear":
						if len(cc.Args) > 0 {
							record(fn, in, cc.Args[0], "builtin:"+bi.Name())
						}
					case "append":
						// append(x[:k], ...) — the in-place filtering idiom —
						// writes into the spare capacity of x's backing
						// array, which the owner of x still sees
						if len(cc.Args) > 0 {
							for _, base := range resliceBases(cc.Args[0], 0, map[ssa.Value]bool{}) {
								record(fn, in, base, "append-spare")
							}
						}
					}
				}
			}
		})
	}
	// fixpoint: parameters written through
	changed := true
	markRoot := func(root ssa.Value, in ssa.Instruction) {
		switch r := root.(type) {
		case *ssa.Parameter:
			if ei.ParamWritten[r] == nil {
				ei.ParamWritten[r] = in
				changed = true
			}
		case *ssa.FreeVar:
			if ei.FreeVarWrites[r] == nil {
				ei.FreeVarWrites[r] = in
				changed = true
			}
		}
	}
	for _, w := range ei.Writes {
		markRoot(w.Root, w.In)
	}
	cg := c.CG()
	for changed {
		changed = false
		for _, fn := range fns {
			eachCall(fn, func(site ssa.CallInstruction) {
				cc := site.Common()
				var all []ssa.Value
				if cc.IsInvoke() {
					all = append(all, cc.Value)
				}
				all = append(all, cc.Args...)
				var targets []*ssa.Function
				if f := cc.StaticCallee(); f != nil {
					targets = append(targets, f)
				} else {
					for _, e := range cg.Out[fn] {
						if e.Site == site && e.Kind == "dynamic" && p.InModule(e.Callee) {
							targets = append(targets, e.Callee)
						}
					}
				}
				for _, t := range targets {
					if !p.InModule(t) {
						continue
					}
					for i, a := range all {
						if i >= len(t.Params) || ei.ParamWritten[t.Params[i]] == nil {
							continue
						}
						root, _ := valueRoot(a)
						markRoot(root, site)
					}
					// closures: free variables written inside
					if mc, ok := cc.Value.(*ssa.MakeClosure); ok {
						cf := mc.Fn.(*ssa.Function)
						for i, b := range mc.Bindings {
							if i < len(cf.FreeVars) && ei.FreeVarWrites[cf.FreeVars[i]] != nil {
								root, _ := valueRoot(b)
								markRoot(root, site)
							}
						}
					}
				}
			})
			// closure creation: a closure that writes a captured variable
			// writes the enclosing function's cell
			eachInstr(fn, func(_ *ssa.BasicBlock, in ssa.Instruction) {
				mc, ok := in.(*ssa.MakeClosure)
				if !ok {
					return
				}
				cf := mc.Fn.(*ssa.Function)
				for i, b := range mc.Bindings {
					if i < len(cf.FreeVars) && ei.FreeVarWrites[cf.FreeVars[i]] != nil {
						root, _ := valueRoot(b)
						markRoot(root, in)
					}
				}
			})
		}
	}
	sort.SliceStable(ei.Writes, func(i, j int) bool { return fnKey(ei.Writes[i].Fn) < fnKey(ei.Writes[j].Fn) })
	c.eff = ei
	return ei
}

// rootKind classifies a write root.
func rootKind(root ssa.Value) string {
	switch r := root.(type) {
	case *ssa.Alloc:
		return "local"
	case *ssa.MakeMap, *ssa.MakeSlice, *ssa.MakeChan:
		return "local"
	case *ssa.Global:
		return "global"
	case *ssa.Parameter:
		return "param"
	case *ssa.FreeVar:
		return "freevar"
	case *ssa.Call:
		return "call-result"
	case *ssa.Extract:
		return "call-result"
	case *ssa.Const:
		return "const"
	case *ssa.UnOp:
		if r.Op == token.MUL {
			return "loaded"
		}
	}
	return "other"
}

func paramIndex(fn *ssa.Function, prm *ssa.Parameter) int {
	for i, p := range fn.Params {
		if p == prm {
			return i
		}
	}
	return -1
}

func recvNamed(fn *ssa.Function) *types.Named {
	if fn.Signature.Recv() == nil {
		return nil
	}
	return namedOf(fn.Signature.Recv().Type())
}
