package main

type effectsInfo struct{}
