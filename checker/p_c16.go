package main

// C16 — wire primitives round-trip exactly and reject what they cannot
// represent.
//
// Decided: the finite codecs (Depth, Overwrite, the enumerated attribute
// values) exhaustively by decision tables; for the others the structural
// necessary conditions: each encoder/decoder pair uses an inverse pair of
// primitives with the same constants, literal-zone layouts are applied to
// UTC-normalised instants, and no decoder drops its parser's error.
// Not decided: round trips over all strings/instants (values, not shape).

import (
	"fmt"
	"go/constant"
	"go/token"
	"go/types"
	"sort"
	"strings"

	"golang.org/x/tools/go/ssa"
)

func init() { register("C16", runC16) }

func runC16(c *Ctx, pr *PropertyRun) {
	pr.Explanation = "Decided: (1) exhaustively, by decision tables extracted from the SSA: ParseDepth/Depth.String and ParseOverwrite/FormatOverwrite are mutually inverse on {0, 1, infinity} / {T, F} and ParseDepth/ParseOverwrite reject every other string; " +
		"(2) structurally: each encoder/decoder pair of a wire primitive uses an inverse pair of library primitives with the same constants (entity tag: %q / strconv.Unquote, in XML, in headers and in ConditionalMatch; iCalendar date-time: Format(L) / Parse(L) with the same constant L; HTTP date: Format(http.TimeFormat) / http.ParseTime; href: URL.String / url.Parse; status line: three space-separated fields written, SplitN(\" \", 3) + Atoi of field 1 read); " +
		"(3) every (time.Time).Format whose layout hard-codes the zone is applied to a UTC-normalised instant; (4) in every decoder of the library the error of the underlying parser is tested before the value is used. " +
		"NOT decided: the round trip over all strings and instants and the exact reject sets of strconv/time/net/url (values, not shape) — e.g. strconv.Unquote also accepts single-quoted forms, Status.UnmarshalText accepts any integer."
	pr.Assumptions = append(pr.Assumptions, "strconv.Quote/%q and strconv.Unquote, time.Format and time.Parse with one layout, URL.String and url.Parse are inverse pairs on their domains (standard-library contracts)")
	pr.Trusted = append(pr.Trusted, "golang.org/x/tools/go/ssa v0.29.0")
	c16Finite(c, pr)
	c16Pairs(c, pr, "C16", nil)
	// a decoded href is handed on as it is
	urlParseRule(c, pr, "C16", nil)
	// any tag obtained from the server is accepted back in a conditional
	// header: the public helper's table (shared with C04.table)
	cm := NewRule("C16", "C16.conditional-match", "ConditionalMatch.MatchETag is true exactly for * or a quoted string equal to the tag, against an existing resource; a header value is unquoted as one tag, whatever characters the tag holds (E2)")
	cm.Exhaustive = true
	pr.Rules = append(pr.Rules, cm)
	matchETagTable(c, cm, unquoteModel)
	utcRule(c, pr, "C16")
	c16Reject(c, pr)
}

// ---------------------------------------------------------------------------
// finite codecs

func c16Finite(c *Ctx, pr *PropertyRun) {
	p := c.P
	r := NewRule("C16", "C16.finite", "Depth and Overwrite: decode table and encode table are mutually inverse and the decoders reject every other string (E2, exhaustive)")
	r.Exhaustive = true
	pr.Rules = append(pr.Rules, r)
	parseDepth := p.MustFunc(r, pkgInternal, "ParseDepth")
	depthString := p.MustFunc(r, pkgInternal, "(Depth).String")
	parseOW := p.MustFunc(r, pkgInternal, "ParseOverwrite")
	formatOW := p.MustFunc(r, pkgInternal, "FormatOverwrite")
	if parseDepth == nil || depthString == nil || parseOW == nil || formatOW == nil {
		return
	}
	valErr := func(in *Interp, res Val, pan *panicOutcome) string {
		if pan != nil {
			return "panic"
		}
		t := res.(Tuple)
		if k, ok := t.E[1].(Konst); !ok || k.V != nil {
			return "error"
		}
		return describeVal(in, t.E[0])
	}
	run := func(spec DTXSpec, min int) {
		res := runDTX(c, spec)
		reportDTX(c, r, spec, res, spec.Name)
		r.Role("decision-table")
		if res.Runs < min {
			r.Unresolved(fmt.Sprintf("table %s has %d rows, fewer than %d", spec.Name, res.Runs, min))
		}
	}
	// decode: every string
	run(DTXSpec{Name: "ParseDepth", Entry: parseDepth,
		Args:    func(in *Interp) []Val { return []Val{SymStr{Key: "s"}} },
		Observe: valErr,
		Oracle: func(env *OracleEnv) ([]string, bool) {
			switch {
			case env.Eq(S("s"), K("0")):
				return []string{"0"}, true
			case env.Eq(S("s"), K("1")):
				return []string{"1"}, true
			case env.Eq(S("s"), K("infinity")):
				return []string{"-1"}, true
			}
			return []string{"error"}, true
		}}, 4)
	run(DTXSpec{Name: "ParseOverwrite", Entry: parseOW,
		Args:    func(in *Interp) []Val { return []Val{SymStr{Key: "s"}} },
		Observe: valErr,
		Oracle: func(env *OracleEnv) ([]string, bool) {
			switch {
			case env.Eq(S("s"), K("T")):
				return []string{"true"}, true
			case env.Eq(S("s"), K("F")):
				return []string{"false"}, true
			}
			return []string{"error"}, true
		}}, 3)
	// encode then decode
	depths := []int64{0, 1, -1}
	run(DTXSpec{Name: "ParseDepth(Depth.String(d))", Entry: parseDepth,
		Args: func(in *Interp) []Val {
			d := depths[in.chooseLabeled("d", []string{"0", "1", "-1"})]
			return []Val{in.Call(depthString, []Val{kInt(d)}, nil)}
		},
		Observe: valErr,
		Oracle: func(env *OracleEnv) ([]string, bool) {
			return []string{fmt.Sprint(depths[env.ch.choose("d", 3, nil)])}, true
		}}, 3)
	run(DTXSpec{Name: "ParseOverwrite(FormatOverwrite(b))", Entry: parseOW,
		Args: func(in *Interp) []Val {
			b := in.chooseLabeled("b", []string{"false", "true"}) == 1
			return []Val{in.Call(formatOW, []Val{kBool(b)}, nil)}
		},
		Observe: valErr,
		Oracle: func(env *OracleEnv) ([]string, bool) {
			return []string{[]string{"false", "true"}[env.ch.choose("b", 2, nil)]}, true
		}}, 2)
	// the wire spellings themselves (RFC 4918 §10.2, §10.6)
	run(DTXSpec{Name: "Depth.String", Entry: depthString,
		Args: func(in *Interp) []Val {
			return []Val{kInt(depths[in.chooseLabeled("d", []string{"0", "1", "-1"})])}
		},
		Observe: func(in *Interp, res Val, pan *panicOutcome) string {
			if pan != nil {
				return "panic"
			}
			return describeVal(in, res)
		},
		Oracle: func(env *OracleEnv) ([]string, bool) {
			return []string{[]string{"0", "1", "infinity"}[env.ch.choose("d", 3, nil)]}, true
		}}, 3)
	run(DTXSpec{Name: "FormatOverwrite", Entry: formatOW,
		Args: func(in *Interp) []Val {
			return []Val{kBool(in.chooseLabeled("b", []string{"false", "true"}) == 1)}
		},
		Observe: func(in *Interp, res Val, pan *panicOutcome) string {
			if pan != nil {
				return "panic"
			}
			return describeVal(in, res)
		},
		Oracle: func(env *OracleEnv) ([]string, bool) {
			return []string{[]string{"F", "T"}[env.ch.choose("b", 2, nil)]}, true
		}}, 2)
}

// enumRule: UnmarshalText of an enumerated attribute type accepts exactly
// the listed values (storing `stored[value]`) and rejects everything else.
func enumRule(c *Ctx, r *RuleResult, pkg, typeName string, accepted map[string]string) {
	p := c.P
	fn := p.MustFunc(r, pkg, "(*"+typeName+").UnmarshalText")
	if fn == nil {
		return
	}
	var vals []string
	for v := range accepted {
		vals = append(vals, v)
	}
	sort.Strings(vals)
	var target *Cell
	spec := DTXSpec{Name: typeName + ".UnmarshalText", Entry: fn,
		Args: func(in *Interp) []Val {
			elem := fn.Params[0].Type().(*types.Pointer).Elem()
			target = &Cell{V: zeroOf(elem), T: elem, Name: "target"}
			// a marker initial value shows whether the decoder stored anything
			return []Val{Ptr{target}, SymStr{Key: "text"}}
		},
		Observe: func(in *Interp, res Val, pan *panicOutcome) string {
			if pan != nil {
				return "panic"
			}
			if k, ok := res.(Konst); !ok || k.V != nil {
				return "error"
			}
			v := target.Get()
			if s, ok := v.(SymStr); ok {
				// the text itself was stored: name it by what it is known to equal
				if k, ok := in.ch.strs.constOf("s:" + s.Key); ok {
					return "stored:" + k
				}
				return "stored:<text>"
			}
			return "stored:" + describeVal(in, v)
		},
		Oracle: func(env *OracleEnv) ([]string, bool) {
			for _, v := range vals {
				if env.Eq(S("text"), K(v)) {
					return []string{"stored:" + accepted[v]}, true
				}
			}
			return []string{"error"}, true
		}}
	res := runDTX(c, spec)
	reportDTX(c, r, spec, res, spec.Name)
	r.Role("enumeration")
	if res.Runs < len(vals)+1 {
		r.Unresolved(fmt.Sprintf("table %s has %d rows, fewer than the %d values plus the reject row", spec.Name, res.Runs, len(vals)))
	}
	// an encoder of its own (MarshalText) writes every legal value as itself:
	// encoding/xml's omitempty looks at the FIELD, not at the text returned,
	// so "no text" for a non-empty value is written as an empty attribute
	nt := p.NamedType(pkg, typeName)
	if nt == nil {
		return
	}
	if b, ok := nt.Underlying().(*types.Basic); !ok || b.Info()&types.IsString == 0 {
		return
	}
	var mt *ssa.Function
	for _, t := range []types.Type{nt, types.NewPointer(nt)} {
		if sel := p.Prog.MethodSets.MethodSet(t).Lookup(nil, "MarshalText"); sel != nil && mt == nil {
			if f := p.Prog.MethodValue(sel); f != nil && len(f.Blocks) > 0 && p.InModule(f) && f.Synthetic == "" {
				mt = f
			}
		}
	}
	if mt == nil {
		return
	}
	ptrRecv := false
	if _, isPtr := mt.Params[0].Type().(*types.Pointer); isPtr {
		ptrRecv = true
	}
	especs := DTXSpec{Name: typeName + ".MarshalText", Entry: mt,
		Args: func(in *Interp) []Val {
			if ptrRecv {
				return []Val{Ptr{&Cell{V: SymStr{Key: "value"}, T: nt, Name: "recv"}}}
			}
			return []Val{SymStr{Key: "value"}}
		},
		Observe: func(in *Interp, res Val, pan *panicOutcome) string {
			if pan != nil {
				return "panic"
			}
			t, ok := res.(Tuple)
			if !ok || len(t.E) != 2 {
				return "?"
			}
			if !isNilVal(t.E[1]) {
				return "error"
			}
			switch x := t.E[0].(type) {
			case SymStr:
				if k, ok := in.ch.strs.constOf("s:" + x.Key); ok {
					return "text:" + k
				}
				return "text:<value>"
			case Konst:
				if x.V == nil {
					return "text:"
				}
				if sv, ok := constStringVal(x); ok {
					return "text:" + sv
				}
			case Slice:
				if len(x.E) == 0 {
					return "text:"
				}
			}
			return "text:?" + keyOf(t.E[0])
		},
		Oracle: func(env *OracleEnv) ([]string, bool) {
			for _, v := range vals {
				if env.Eq(S("value"), K(v)) {
					return []string{"text:" + v, "text:<value>"}, true
				}
			}
			return nil, false // the unset value and illegal values: either way
		}}
	eres := runDTX(c, especs)
	reportDTX(c, r, especs, eres, especs.Name)
	r.Role("enumeration-encoder")
}

// ---------------------------------------------------------------------------
// inverse pairs

// callsIn lists the full names of the static callees (transitively through
// in-module callees, depth-bounded) of fn, with constant string arguments.
type calleeUse struct {
	name   string
	consts []string
	site   ssa.CallInstruction
}

func calleeUses(c *Ctx, fn *ssa.Function, depth int) []calleeUse {
	var out []calleeUse
	seen := map[*ssa.Function]bool{}
	var rec func(f *ssa.Function, d int)
	rec = func(f *ssa.Function, d int) {
		if f == nil || seen[f] || d > depth {
			return
		}
		seen[f] = true
		eachCall(f, func(site ssa.CallInstruction) {
			cc := site.Common()
			u := calleeUse{name: calleeName(cc), site: site}
			for _, a := range cc.Args {
				if s, ok := constString(a); ok {
					u.consts = append(u.consts, s)
				}
			}
			out = append(out, u)
			if g := cc.StaticCallee(); g != nil && c.P.InModule(g) {
				rec(g, d+1)
			}
		})
	}
	rec(fn, 0)
	return out
}

func hasUse(us []calleeUse, name string) *calleeUse {
	for i := range us {
		if us[i].name == name {
			return &us[i]
		}
	}
	return nil
}

// everyReturnFromQuoting: each string/[]byte result of fn (or of the library
// function it delegates to) is the result of Sprintf / strconv.Quote*.
func everyReturnFromQuoting(fn *ssa.Function, depth int) bool {
	return everyReturnFrom(fn, []string{"fmt.Sprintf", "strconv.Quote", "strconv.QuoteToASCII", "strconv.AppendQuote", "strconv.AppendQuoteToASCII"}, depth)
}

// everyReturnFrom: the first result of every return of fn is (a conversion
// of) the result of one of the named primitives, possibly through library
// functions of which the same holds.
func everyReturnFrom(fn *ssa.Function, prims []string, depth int) bool {
	if fn == nil || len(fn.Blocks) == 0 || depth > 2 {
		return false
	}
	isQuoting := func(v ssa.Value) bool {
		for i := 0; i < 4; i++ {
			switch x := v.(type) {
			case *ssa.Convert:
				v = x.X
				continue
			case *ssa.ChangeType:
				v = x.X
				continue
			case *ssa.Call:
				for _, pn := range prims {
					if calleeName(x.Common()) == pn {
						return true
					}
				}
				if f := x.Common().StaticCallee(); f != nil && inLib(f) {
					return everyReturnFrom(f, prims, depth+1)
				}
			}
			return false
		}
		return false
	}
	n := 0
	for _, b := range fn.Blocks {
		ret, ok := b.Instrs[len(b.Instrs)-1].(*ssa.Return)
		if !ok || len(ret.Results) == 0 {
			continue
		}
		n++
		if !isQuoting(ret.Results[0]) {
			return false
		}
	}
	return n > 0
}

func c16Pairs(c *Ctx, pr *PropertyRun, prop string, keep func(what string) bool) {
	p := c.P
	r := NewRule(prop, prop+".pairs", "each wire primitive's encoder and decoder use an inverse pair of primitives with the same constants (E4)")
	pr.Rules = append(pr.Rules, r)
	type pair struct {
		what             string
		pkg, enc, dec    string
		encCall, decCall string
		sameConst        bool
	}
	pairs := []pair{
		{"entity tag", pkgInternal, "(ETag).String", "(*ETag).UnmarshalText", "fmt.Sprintf", "strconv.Unquote", false},
		{"entity tag (XML)", pkgInternal, "(ETag).MarshalText", "(*ETag).UnmarshalText", "fmt.Sprintf", "strconv.Unquote", false},
		{"HTTP date", pkgInternal, "(*Time).MarshalText", "(*Time).UnmarshalText", "(time.Time).Format", "net/http.ParseTime", false},
		{"iCalendar UTC date-time", pkgCaldav, "(*dateWithUTCTime).MarshalText", "(*dateWithUTCTime).UnmarshalText", "(time.Time).Format", "time.Parse", true},
		{"href", pkgInternal, "(*Href).MarshalText", "(*Href).UnmarshalText", "(*net/url.URL).String", "net/url.Parse", false},
	}
	quoteKinds := map[string]string{}
	// the conditional headers are read with the same decoder
	pairs = append(pairs, pair{"entity tag (conditional header)", pkgInternal, "(ETag).String", "(*ETag).UnmarshalText", "fmt.Sprintf", "strconv.Unquote", false})
	for _, pa := range pairs {
		if keep != nil && !keep(pa.what) {
			continue
		}
		enc := p.MustFunc(r, pa.pkg, pa.enc)
		dec := p.MustFunc(r, pa.pkg, pa.dec)
		if pa.what == "entity tag (conditional header)" {
			// ConditionalMatch.ETag must go through the decoder of the pair
			cm := p.MustFunc(r, pkgWebdav, "(ConditionalMatch).ETag")
			if cm == nil || dec == nil {
				continue
			}
			r.Role("codec-pair")
			uses := false
			eachCall(cm, func(site ssa.CallInstruction) {
				if site.Common().StaticCallee() == dec {
					uses = true
				}
			})
			r.Ob(uses)
			if !uses {
				r.Violation("pair|"+pa.what, p.Pos(cm.Pos()), "ConditionalMatch.ETag does not read the header through (*ETag).UnmarshalText, the decoder that is the inverse of the function every tag is announced with: a tag obtained from the server may not be accepted back", nil)
			}
			continue
		}
		if enc == nil || dec == nil {
			continue
		}
		r.Role("codec-pair")
		eu := hasUse(calleeUses(c, enc, 2), pa.encCall)
		if eu == nil && pa.encCall == "(time.Time).Format" {
			// AppendFormat(b, layout) is Format(layout) written into a buffer
			eu = hasUse(calleeUses(c, enc, 2), "(time.Time).AppendFormat")
		}
		du := hasUse(calleeUses(c, dec, 2), pa.decCall)
		if du == nil && pa.decCall == "net/url.Parse" {
			// (*url.URL).UnmarshalBinary is url.Parse into the receiver
			du = hasUse(calleeUses(c, dec, 2), "(*net/url.URL).UnmarshalBinary")
		}
		detail := ""
		if pa.encCall == "fmt.Sprintf" && pa.decCall == "strconv.Unquote" {
			// Go quoting: %q and strconv.Quote (any text), %+q and
			// strconv.QuoteToASCII (ASCII-only escapes) are all inverses of
			// strconv.Unquote — but every announcement of a tag must use the
			// SAME one, or the same tag is announced as two different strings
			kind := ""
			if eu != nil && len(eu.consts) > 0 && (eu.consts[0] == "%q" || eu.consts[0] == "%+q") {
				kind = eu.consts[0]
				detail = "format " + fmt.Sprintf("%q", eu.consts)
			} else if q := hasUse(calleeUses(c, enc, 2), "strconv.Quote"); q != nil {
				kind, eu = "%q", q
				detail = "strconv.Quote"
			} else if q := hasUse(calleeUses(c, enc, 2), "strconv.AppendQuote"); q != nil {
				kind, eu = "%q", q
				detail = "strconv.AppendQuote"
			} else if q := hasUse(calleeUses(c, enc, 2), "strconv.QuoteToASCII"); q != nil {
				kind, eu = "%+q", q
				detail = "strconv.QuoteToASCII"
			} else if q := hasUse(calleeUses(c, enc, 2), "strconv.AppendQuoteToASCII"); q != nil {
				kind, eu = "%+q", q
				detail = "strconv.AppendQuoteToASCII"
			}
			if kind == "" {
				eu = nil
			} else {
				quoteKinds[pa.what] = kind
			}
			// EVERY text the encoder returns comes from the quoting call: a
			// second path that hands some tags on verbatim ("already quoted")
			// writes texts the decoder reads back as something else
			if eu != nil && !everyReturnFromQuoting(enc, 0) {
				detail += "; not every return of the encoder is the result of the quoting call"
				eu = nil
			}
		}
		ok := eu != nil && du != nil
		if ok && pa.encCall == "(time.Time).Format" && pa.decCall == "net/http.ParseTime" {
			ok = len(eu.consts) > 0 && eu.consts[0] == "Mon, 02 Jan 2006 15:04:05 GMT"
			detail = "layout " + fmt.Sprintf("%q", eu.consts)
		}
		if ok && pa.sameConst {
			// RFC 5545 §3.3.5 form 2 (date with UTC time): the layout is given by the RFC
			ok = len(eu.consts) > 0 && len(du.consts) > 0 && eu.consts[0] == du.consts[0] && eu.consts[0] == "20060102T150405Z"
			detail = fmt.Sprintf("layouts %q / %q (RFC 5545 form 2 is \"20060102T150405Z\")", eu.consts, du.consts)
		}
		// every text the href encoder returns is what URL.String made: a
		// fast path that hands "plain" paths on verbatim must know exactly
		// which characters URL.String escapes ('%' among them)
		if ok && pa.what == "href" && !everyReturnFrom(enc, []string{pa.encCall}, 0) {
			ok = false
			detail += "; not every return of the encoder is the result of " + pa.encCall
		}
		// the decoder hands its input to the inverse primitive as it is: any
		// transformation in between (trimming, case folding) makes texts the
		// encoder can produce undecodable or decodes them to another value
		if ok && du != nil {
			ok = decoderInputUnaltered(dec, du.site)
			if !ok {
				detail += "; the decoder transforms its input before " + pa.decCall
			}
		}
		// ... and hands on what the inverse primitive returned as it is: a
		// second decoding step applied to the result (unescaping a parsed
		// path once more) reads texts the encoder wrote as another value
		if ok && du != nil {
			if w := decoderOutputAltered(du.site); w != "" {
				ok = false
				detail += "; the decoder alters the result of " + pa.decCall + " (" + w + ")"
			}
		}
		// ... and it is the ONLY way in: a second parser tried when the
		// inverse primitive refuses the text (another layout, a lenient
		// fallback) accepts texts the encoder never writes — zone names HTTP
		// does not have, offsets — and reads them as some instant instead of
		// rejecting them
		if ok && du != nil {
			for _, u := range calleeUses(c, dec, 2) {
				alt := u.name == "time.Parse" || u.name == "time.ParseInLocation" || u.name == "net/http.ParseTime"
				if !alt || u.site == du.site {
					continue
				}
				if u.name == pa.decCall && len(u.consts) > 0 && len(du.consts) > 0 && u.consts[0] == du.consts[0] {
					continue // the same parse written twice
				}
				ok = false
				detail += "; the decoder has a second parser (" + u.name + " at " + p.instrPos(u.site) + ") beside " + pa.decCall
			}
		}
		// ... and what the inverse primitive refuses, the decoder refuses:
		// no way on from a non-nil error of that call (a fallback that takes
		// the text as it is accepts texts outside the grammar)
		if ok && du != nil {
			if call, isCall := du.site.(*ssa.Call); isCall && errSwallowed(call) {
				ok = false
				detail += "; the decoder goes on when " + pa.decCall + " reports an error"
			}
		}
		r.Ob(ok)
		r.Sample(map[string]interface{}{"primitive": pa.what, "encoder": pa.enc + " -> " + pa.encCall, "decoder": pa.dec + " -> " + pa.decCall, "constants": detail, "ok": ok})
		if !ok {
			pos := p.Pos(enc.Pos())
			r.Violation("pair|"+pa.what, pos, fmt.Sprintf("%s: the encoder %s and the decoder %s no longer use the inverse pair %s / %s with matching constants (%s): what is written is not what is read back", pa.what, pa.enc, pa.dec, pa.encCall, pa.decCall, detail), nil)
		}
	}
	// ETag through headers: every ETag header is written from ETag.String, and
	// every ETag header read is unquoted
	etagString := p.Func(pkgInternal, "(ETag).String")
	for _, fn := range p.ModFns {
		if !inLib(fn) || (keep != nil && !keep("entity tag in headers")) {
			continue
		}
		eachCall(fn, func(site ssa.CallInstruction) {
			cc := site.Common()
			name := calleeName(cc)
			if (name == "(net/http.Header).Set" || name == "(net/http.Header).Add") && len(cc.Args) == 3 {
				if k, ok := constString(cc.Args[1]); ok && strings.EqualFold(k, "ETag") {
					r.Role("etag-header-written")
					call, isCall := cc.Args[2].(*ssa.Call)
					ok := isCall && call.Common().StaticCallee() == etagString && etagString != nil
					r.Ob(ok)
					if !ok {
						r.Violation("etag-header-raw|"+fnKey(fn), p.instrPos(site), fnKey(fn)+" writes the ETag header without ETag.String(): the tag is not quoted the way every reader of the library (strconv.Unquote) and RFC 7232 expect", nil)
					}
				}
			}
			if name == "(net/http.Header).Get" && len(cc.Args) == 2 {
				// an HTTP date read from a header goes through http.ParseTime
				// (the three RFC 7231 forms, all GMT): time.Parse with RFC1123
				// takes the zone field for an abbreviation and invents offsets
				if k, ok := constString(cc.Args[1]); ok && (strings.EqualFold(k, "Last-Modified") || strings.EqualFold(k, "Date")) && (keep == nil || keep("HTTP date")) {
					if call, isCall := site.(*ssa.Call); isCall {
						r.Role("date-header-read")
						ok := flowsIntoCall(call, "net/http.ParseTime", 4)
						r.Ob(ok)
						if !ok {
							r.Violation("date-header-not-http-parsetime|"+fnKey(fn), p.instrPos(site), fnKey(fn)+" reads the "+k+" header without net/http.ParseTime: another parser accepts zone fields HTTP does not have (PST, +01) and reads them as a different instant instead of refusing them", nil)
						}
					}
				}
				if k, ok := constString(cc.Args[1]); ok && strings.EqualFold(k, "ETag") {
					call, isCall := site.(*ssa.Call)
					if !isCall {
						return
					}
					r.Role("etag-header-read")
					ok := flowsIntoCall(call, "strconv.Unquote", 4)
					r.Ob(ok)
					if !ok {
						r.Violation("etag-header-not-unquoted|"+fnKey(fn), p.instrPos(site), fnKey(fn)+" reads the ETag header without strconv.Unquote: the caller gets the quoted form, which no longer equals the tag the server holds", nil)
					}
				}
			}
		})
	}
	// status line
	sm := p.MustFunc(r, pkgInternal, "(*Status).MarshalText")
	su := p.MustFunc(r, pkgInternal, "(*Status).UnmarshalText")
	if sm != nil && su != nil && (keep == nil || keep("status line")) {
		r.Role("codec-pair")
		// the encoder, interpreted (E2): whatever builds the text — Sprintf,
		// concatenation, appends to a byte buffer — the result is
		// "HTTP/1.1 " + decimal(code) + " " + reason phrase
		encOK, encDetail := statusEncoderShape(c, sm)
		du := hasUse(calleeUses(c, su, 1), "strings.SplitN")
		at := hasUse(calleeUses(c, su, 1), "strconv.Atoi")
		ok := encOK && du != nil && at != nil && len(du.consts) > 0
		_ = encDetail
		statusWhy := ""
		if ok {
			ok = du.consts[0] == " "
			if n, isC := constInt(du.site.Common().Args[2]); !isC || n != 3 {
				ok = false
			}
			// Atoi is applied to field 1
			if ok {
				ok = argIsIndexOf(at.site.Common().Args[0], 1)
			}
			// the status text is split as it is
			if ok {
				ok = decoderInputUnaltered(su, du.site)
			}
			// every code the encoder writes is accepted: the number Atoi
			// returned (and the text it was given) is not compared with
			// anything — a range check refuses codes MarshalText writes
			if ok {
				if why := comparesParsedNumber(su, at.site); why != "" {
					ok = false
					statusWhy = "; the decoder " + why
				}
			}
		}
		r.Ob(ok)
		if !ok {
			r.Violation("pair|status line", p.Pos(sm.Pos()), "status line: MarshalText no longer writes 'HTTP/x <code> <text>' as three space-separated fields that UnmarshalText reads back with SplitN(\" \", 3) and Atoi of field 1"+statusWhy, nil)
		}
	}
	// one quoting for every announcement of a tag
	if len(quoteKinds) >= 2 {
		r.Role("one-quoting")
		first, same := "", true
		var names []string
		for w, k := range quoteKinds {
			names = append(names, w+"="+k)
			if first == "" {
				first = k
			} else if k != first {
				same = false
			}
		}
		sort.Strings(names)
		r.Ob(same)
		if !same {
			r.Violation("pair|entity tag quoting differs", "-", fmt.Sprintf("the entity tag is quoted differently in different places (%s): the tag announced in the ETag header and the one in DAV:getetag are two different strings for a tag with a non-ASCII character", strings.Join(names, ", ")), nil)
		}
	}
	r.RequireRole("codec-pair")
	if keep == nil || keep("entity tag in headers") {
		r.RequireRole("etag-header-written", "etag-header-read")
	}
}

// decoderInputUnaltered: some string argument of the call is the decoder's
// byte-slice/string parameter through conversions only.
func decoderInputUnaltered(dec *ssa.Function, site ssa.CallInstruction) bool {
	isParam := func(v ssa.Value) bool {
		for i := 0; i < 4; i++ {
			switch x := v.(type) {
			case *ssa.Convert:
				v = x.X
				continue
			case *ssa.ChangeType:
				v = x.X
				continue
			}
			break
		}
		for _, p := range dec.Params {
			if p == v {
				return true
			}
		}
		return false
	}
	for _, a := range site.Common().Args {
		if isParam(a) {
			return true
		}
	}
	return false
}

// decoderOutputAltered: the object the inverse primitive returned (a pointer
// result, e.g. *url.URL) has one of its fields stored to before it is handed
// on. Returns a description of the store, "" if there is none.
func decoderOutputAltered(site ssa.CallInstruction) string {
	v := site.Value()
	if v == nil {
		return ""
	}
	var roots []ssa.Value
	if _, ok := v.Type().(*types.Tuple); ok {
		for _, ref := range refsOf(v) {
			if ex, ok := ref.(*ssa.Extract); ok {
				roots = append(roots, ex)
			}
		}
	} else {
		roots = append(roots, v)
	}
	for _, root := range roots {
		if _, ok := root.Type().Underlying().(*types.Pointer); !ok {
			continue
		}
		seen := map[ssa.Value]bool{}
		var walk func(v ssa.Value, depth int) string
		walk = func(v ssa.Value, depth int) string {
			if depth == 0 || seen[v] {
				return ""
			}
			seen[v] = true
			for _, ref := range refsOf(v) {
				switch x := ref.(type) {
				case *ssa.FieldAddr:
					if x.X != v {
						continue
					}
					for _, r2 := range refsOf(x) {
						if st, ok := r2.(*ssa.Store); ok && st.Addr == x {
							name := "?"
							if pt, ok := x.X.Type().Underlying().(*types.Pointer); ok {
								if stt, ok := pt.Elem().Underlying().(*types.Struct); ok {
									name = stt.Field(x.Field).Name()
								}
							}
							return "store to its field " + name
						}
					}
				case *ssa.ChangeType:
					if w := walk(x, depth-1); w != "" {
						return w
					}
				case *ssa.Phi:
					if w := walk(x, depth-1); w != "" {
						return w
					}
				}
			}
			return ""
		}
		if w := walk(root, 4); w != "" {
			return w
		}
	}
	return ""
}

// flowsIntoCall: v (or a phi/convert of it) is an argument of a call of name.
func flowsIntoCall(v ssa.Value, name string, depth int) bool {
	if depth == 0 {
		return false
	}
	for _, ref := range refsOf(v) {
		switch x := ref.(type) {
		case ssa.CallInstruction:
			if calleeName(x.Common()) == name {
				return true
			}
		case *ssa.Phi:
			if flowsIntoCall(x, name, depth-1) {
				return true
			}
		case *ssa.Convert:
			if flowsIntoCall(x, name, depth-1) {
				return true
			}
		case *ssa.ChangeType:
			if flowsIntoCall(x, name, depth-1) {
				return true
			}
		}
	}
	return false
}

func argIsIndexOf(v ssa.Value, idx int64) bool {
	ld, ok := v.(*ssa.UnOp)
	if !ok || ld.Op != token.MUL {
		return false
	}
	ia, ok := ld.X.(*ssa.IndexAddr)
	if !ok {
		return false
	}
	k, ok := constInt(ia.Index)
	return ok && k == idx
}

// ---------------------------------------------------------------------------
// UTC normalisation of literal-zone layouts (shared with C08)

func layoutHardcodesZone(l string) bool {
	if strings.Contains(l, "GMT") || strings.Contains(l, "UTC") {
		return true
	}
	// a literal Z that is not part of a Z07 / Z07:00 zone verb
	for i := 0; i < len(l); i++ {
		if l[i] == 'Z' {
			if i+2 < len(l) && l[i+1] == '0' && l[i+2] == '7' {
				continue
			}
			return true
		}
	}
	return false
}

// namedTimeOrigin: the module's named time type the formatted instant was
// converted from (time.Time(*t) inside a method of T).
func namedTimeOrigin(v ssa.Value) *types.Named {
	for i := 0; i < 4; i++ {
		switch x := v.(type) {
		case *ssa.ChangeType:
			if n := namedOf(x.X.Type()); n != nil && inModuleType(n) && isTimeType(n.Underlying()) || (namedOf(x.X.Type()) != nil && inModuleType(namedOf(x.X.Type())) && types.Identical(namedOf(x.X.Type()).Underlying(), x.Type().Underlying())) {
				return namedOf(x.X.Type())
			}
			v = x.X
		case *ssa.Convert:
			v = x.X
		case *ssa.UnOp:
			v = x.X
		default:
			return nil
		}
	}
	return nil
}

// typeAlwaysUTC: every conversion of a time.Time into n in the library has a
// UTC-normalised operand (and there is at least one). Returns the position of
// the first conversion that does not.
func typeAlwaysUTC(p *Program, n *types.Named) (bool, string) {
	found, bad := 0, ""
	for _, fn := range p.ModFns {
		if !inLib(fn) || p.isControlFn(fn) {
			continue
		}
		eachInstr(fn, func(_ *ssa.BasicBlock, in ssa.Instruction) {
			ct, ok := in.(*ssa.ChangeType)
			if !ok || namedOf(ct.Type()) != n {
				return
			}
			if nn := namedOf(ct.X.Type()); nn == nil || nn.Obj().Pkg() == nil || nn.Obj().Pkg().Path() != "time" {
				return
			}
			found++
			if !utcNormalised(ct.X, 4) && bad == "" {
				bad = p.instrPos(ct) + " (" + fnKey(fn) + ")"
			}
		})
	}
	return found > 0 && bad == "", bad
}

// utcNormalised: v is the result of .UTC() / .In(time.UTC), or a parse
// result with a zone-hardcoding layout, possibly through phis.
func utcNormalised(v ssa.Value, depth int) bool {
	if depth == 0 {
		return false
	}
	switch x := v.(type) {
	case *ssa.Call:
		switch calleeName(x.Common()) {
		case "(time.Time).UTC":
			return true
		case "(time.Time).In":
			if ld, ok := x.Common().Args[1].(*ssa.UnOp); ok {
				if g, ok := ld.X.(*ssa.Global); ok && g.Name() == "UTC" {
					return true
				}
			}
		}
	case *ssa.Phi:
		for _, e := range x.Edges {
			if !utcNormalised(e, depth-1) {
				return false
			}
		}
		return true
	case *ssa.Extract:
		if call, ok := x.Tuple.(*ssa.Call); ok && calleeName(call.Common()) == "time.Parse" {
			if l, ok := constString(call.Common().Args[0]); ok && layoutHardcodesZone(l) {
				return true
			}
		}
	}
	return false
}

func utcRule(c *Ctx, pr *PropertyRun, prop string) {
	p := c.P
	r := NewRule(prop, prop+".utc", "every (time.Time).Format whose constant layout hard-codes the zone (a literal Z or GMT) is applied to a UTC-normalised instant (E4 value rule)")
	pr.Rules = append(pr.Rules, r)
	ctl := map[*ssa.Function]bool{}
	for _, f := range controlFuncs(p, pkgCaldav, "zzVerifControlUTC") {
		ctl[f] = true
	}
	for _, fn := range p.ModFns {
		if !inLib(fn) {
			continue
		}
		if prop == "C08" && fnPkg(fn).Path() != pkgCaldav {
			continue
		}
		eachCall(fn, func(site ssa.CallInstruction) {
			cc := site.Common()
			li := 1
			switch calleeName(cc) {
			case "(time.Time).Format":
			case "(time.Time).AppendFormat":
				li = 2
			default:
				return
			}
			if len(cc.Args) != li+1 {
				return
			}
			layout, ok := constString(cc.Args[li])
			if !ok {
				r.Role("format-site-dynamic-layout")
				return
			}
			if !layoutHardcodesZone(layout) {
				return
			}
			r.Role("zone-literal-format-site")
			ok = utcNormalised(cc.Args[0], 4)
			culprit := ""
			if !ok {
				// the instant may be kept in UTC by its TYPE: the receiver is
				// a conversion from a named type whose every construction in
				// the library takes a UTC-normalised instant
				if n := namedTimeOrigin(cc.Args[0]); n != nil {
					if all, bad := typeAlwaysUTC(p, n); all {
						ok = true
					} else if bad != "" {
						culprit = "; " + typeLabel(n) + " is built from an instant that is not normalised at " + bad
					}
				}
			}
			r.Ob(ok)
			r.Sample(map[string]interface{}{"function": fnKey(fn), "layout": layout, "receiver_utc_normalised": ok, "pos": p.instrPos(site)})
			if !ok {
				r.Violation("not-utc|"+fnKey(fn)+"|"+layout, p.instrPos(site), fmt.Sprintf("%s formats an instant with layout %q, whose zone is a literal, without normalising it to UTC first: an instant given in another zone is written with that zone's wall clock but labelled UTC%s", fnKey(fn), layout, culprit), nil)
			}
		})
	}
	r.RequireRole("zone-literal-format-site")
	if p.Control && prop == "C08" {
		r.ExpectControl("zzVerifControlUTC")
	}
}

// ---------------------------------------------------------------------------
// decoders propagate parser errors

func c16Reject(c *Ctx, pr *PropertyRun) {
	p := c.P
	r := NewRule("C16", "C16.reject", "in every function of the library the error of a fallible parse is tested before its value is used (E4 RESULT-CHECKED over the whole library)")
	pr.Rules = append(pr.Rules, r)
	for _, fn := range p.ModFns {
		if !inLib(fn) || len(fn.Blocks) == 0 {
			continue
		}
		eachCall(fn, func(site ssa.CallInstruction) {
			call, ok := site.(*ssa.Call)
			if !ok {
				return
			}
			name := calleeName(call.Common())
			if !isParseName(p, name) {
				return
			}
			r.Role("parse-call")
			if ok, why := harmlessOnError(call); ok {
				r.Note("exempt %s in %s: %s", name, fnKey(fn), why)
				return
			}
			_, bad, dropped := uncheckedUses(call)
			ok = !dropped && len(bad) == 0
			r.Ob(ok)
			if dropped {
				r.Violation("dropped|"+fnKey(fn)+"|"+name, p.instrPos(call), fmt.Sprintf("the error of %s is discarded in %s: a text outside the grammar is accepted as a silently different value", name, fnKey(fn)), nil)
			} else if len(bad) > 0 {
				r.Violation("unchecked|"+fnKey(fn)+"|"+name, p.instrPos(bad[0]), fmt.Sprintf("a result of %s is used in %s on a path where its error has not been tested", name, fnKey(fn)), nil)
			}
		})
	}
	r.RequireRole("parse-call")
}

var _ = constant.MakeBool

// statusEncoderShape interprets (*Status).MarshalText over a symbolic status:
// for every path the text is "HTTP/1.1 " + decimal(Code) + " " + T, where T
// is the status's own text or, when that is empty, http.StatusText(Code).
func statusEncoderShape(c *Ctx, sm *ssa.Function) (bool, string) {
	allOK := true
	detail := ""
	spec := DTXSpec{Name: "Status.MarshalText", Entry: sm,
		Sym: SymSpec{NonNil: func(string) bool { return true }},
		Args: func(in *Interp) []Val {
			return []Val{in.symOf(sm.Params[0].Type(), "s")}
		},
		Observe: func(in *Interp, res Val, pan *panicOutcome) string {
			if pan != nil {
				return "panic"
			}
			t, ok := res.(Tuple)
			if !ok || len(t.E) != 2 || !isNilVal(t.E[1]) {
				return "error"
			}
			return keyOf(t.E[0])
		},
		Check: func(env *OracleEnv, obs *Observation) (bool, string, bool) {
			in := obs.In
			var reason Val = SymStr{Key: "s.Text"}
			if env.Eq(S("s.Text"), K("")) {
				reason = SymStr{Key: "StatusText(s.Code)"}
			}
			want := in.concatText(in.concatText(in.concatText(kStr("HTTP/1.1 "), in.itoaText(SymInt{"s.Code"})), kStr(" ")), reason)
			got := "?"
			if obs.Panic == nil {
				if t, ok := obs.Ret.(Tuple); ok && len(t.E) == 2 && isNilVal(t.E[1]) {
					got = keyOf(t.E[0])
				}
			}
			if got != keyOf(want) {
				allOK = false
				detail = "the encoder yields " + got + ", not " + keyOf(want)
				return false, keyOf(want), true
			}
			return true, "", true
		}}
	res := runDTX(c, spec)
	if len(res.Undecided) > 0 || res.Runs == 0 {
		return false, "the status encoder could not be interpreted"
	}
	return allOK && len(res.Mismatches) == 0, detail
}

// enumTypedAttributesRule: the wire fields that carry an enumerated attribute
// (test, match-type, negate-condition) have a type of the module with its own
// UnmarshalText — the place where values outside the enumeration are refused.
// A field retyped to a plain (exported) string type decodes anything.
func enumTypedAttributesRule(c *Ctx, r *RuleResult) {
	p := c.P
	enumAttrs := map[string]bool{"test": true, "match-type": true, "negate-condition": true}
	for _, xs := range p.wireStructs() {
		for i := range xs.Fields {
			f := &xs.Fields[i]
			if !f.Attr || !enumAttrs[f.Local] {
				continue
			}
			r.Role("enumerated-attribute")
			n := namedOf(f.Type)
			ok := false
			if n != nil && inModuleType(n) {
				for _, t := range []types.Type{n, types.NewPointer(n)} {
					if sel := p.Prog.MethodSets.MethodSet(t).Lookup(nil, "UnmarshalText"); sel != nil {
						if fn := p.Prog.MethodValue(sel); fn != nil && p.InModule(fn) {
							ok = true
						}
					}
				}
			}
			r.Ob(ok)
			if !ok {
				r.Violation("enum-attr-untyped|"+f.Label, p.Pos(xs.Named.Obj().Pos()), fmt.Sprintf("%s carries the enumerated attribute %q but its type %s has no UnmarshalText of the module: every text is accepted and handed to the backend, where the RFC's decoder must refuse values outside the enumeration (400)", f.Label, f.Local, f.Type.String()), nil)
			}
		}
	}
	r.RequireRole("enumerated-attribute")
}

// comparesParsedNumber: the decoder compares the integer a parse call
// returned, or the length of the text it parsed, with something (other than
// the error test): a range check.
func comparesParsedNumber(fn *ssa.Function, site ssa.CallInstruction) string {
	call, ok := site.(*ssa.Call)
	if !ok {
		return ""
	}
	var num ssa.Value
	for _, ref := range refsOf(call) {
		if ex, ok := ref.(*ssa.Extract); ok && ex.Index == 0 {
			num = ex
		}
	}
	isCmp := func(op token.Token) bool {
		switch op {
		case token.LSS, token.LEQ, token.GTR, token.GEQ, token.EQL, token.NEQ:
			return true
		}
		return false
	}
	why := ""
	if num != nil {
		for _, ref := range refsOf(num) {
			if bo, ok := ref.(*ssa.BinOp); ok && isCmp(bo.Op) {
				why = "compares the parsed number (" + bo.Op.String() + "): codes outside that range are refused although the encoder writes them"
			}
		}
	}
	arg := call.Common().Args[0]
	eachInstr(fn, func(_ *ssa.BasicBlock, in ssa.Instruction) {
		c2, ok := in.(*ssa.Call)
		if !ok {
			return
		}
		if b, isB := c2.Common().Value.(*ssa.Builtin); !isB || b.Name() != "len" || len(c2.Common().Args) != 1 {
			return
		}
		a := c2.Common().Args[0]
		same := a == arg
		if !same {
			// two loads of the same element parts[i]
			la, ok1 := a.(*ssa.UnOp)
			lb, ok2 := arg.(*ssa.UnOp)
			if ok1 && ok2 {
				ia, ok3 := la.X.(*ssa.IndexAddr)
				ib, ok4 := lb.X.(*ssa.IndexAddr)
				if ok3 && ok4 && ia.X == ib.X {
					na, c1 := constInt(ia.Index)
					nb, c2 := constInt(ib.Index)
					same = c1 && c2 && na == nb
				}
			}
		}
		if !same {
			return
		}
		for _, ref := range refsOf(c2) {
			if bo, ok := ref.(*ssa.BinOp); ok && isCmp(bo.Op) {
				why = "tests the length of the number's text: spellings the encoder can write (or a peer may legally send) are refused"
			}
		}
	})
	return why
}
