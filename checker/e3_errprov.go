package main

// E3 errprov — provenance of error values up to the response.
//
// Backward, interprocedural, with function summaries. An origin is a call to
// fmt.Errorf / errors.New (without %w), an external call returning error, the
// construction of *internal.HTTPError, a backend-interface call, or a value
// the analysis cannot trace (loaded, dynamic). Wrapping by
// &HTTPError{Code: c, Err: e} re-labels e with c (the outermost HTTPError is
// what errors.As finds in ServeError); fmt.Errorf("…%w", e) keeps e's label.
// Status codes are resolved through constructor parameters to the constants
// at the call sites.

import (
	"fmt"
	"go/token"
	"go/types"
	"sort"
	"strings"

	"golang.org/x/tools/go/ssa"
)

type errOrigin struct {
	Fn     *ssa.Function
	Site   ssa.Instruction
	Kind   string // ext | new | lit | backend | unknown
	Callee string
}

func (o *errOrigin) key() string {
	return o.Kind + ":" + fnKey(o.Fn) + ":" + o.Callee
}

// provItem is one possible provenance of an error value.
type provItem struct {
	O         *errOrigin // nil for a symbolic parameter passthrough
	Param     int        // >=0: the value is parameter Param of the summarised function
	Code      int        // outermost HTTP status label; 0 = unlabelled; -1 = labelled with a non-constant code
	CodeParam int        // >=0: the label is parameter CodeParam of the summarised function
	Via       string     // chain of functions the value was returned through (nearest to the sink last)
}

func (it provItem) id() string {
	o := ""
	if it.O != nil {
		o = fmt.Sprintf("%p", it.O)
	}
	return fmt.Sprintf("%s|%d|%d|%d|%s", o, it.Param, it.Code, it.CodeParam, it.Via)
}

type provSet map[string]provItem

func (s provSet) add(it provItem) bool {
	k := it.id()
	if _, ok := s[k]; ok {
		return false
	}
	s[k] = it
	return true
}

type errProv struct {
	c        *Ctx
	origins  map[string]*errOrigin // by site pointer
	sums     map[*ssa.Function][]provSet
	inProg   map[*ssa.Function]bool
	done     map[*ssa.Function]bool
	changed  bool
	httpErr  *types.Named
	implOf   func(site ssa.CallInstruction) []*ssa.Function
	depth    int
	maxItems int
}

func newErrProv(c *Ctx) *errProv {
	ep := &errProv{c: c, origins: map[string]*errOrigin{}, sums: map[*ssa.Function][]provSet{}, inProg: map[*ssa.Function]bool{}, done: map[*ssa.Function]bool{}}
	ep.httpErr = c.P.NamedType(pkgInternal, "HTTPError")
	return ep
}

func (ep *errProv) origin(fn *ssa.Function, site ssa.Instruction, kind, callee string) *errOrigin {
	k := fmt.Sprintf("%p|%s|%s", site, kind, callee)
	if o := ep.origins[k]; o != nil {
		return o
	}
	o := &errOrigin{Fn: fn, Site: site, Kind: kind, Callee: callee}
	ep.origins[k] = o
	return o
}

// varargValues decodes `slice t[:]` of a `new [n]any` whose elements are
// stored at constant indexes.
func varargValues(v ssa.Value) []ssa.Value {
	sl, ok := v.(*ssa.Slice)
	if !ok {
		return nil
	}
	al, ok := sl.X.(*ssa.Alloc)
	if !ok {
		return nil
	}
	pt, ok := al.Type().Underlying().(*types.Pointer)
	if !ok {
		return nil
	}
	arr, ok := pt.Elem().Underlying().(*types.Array)
	if !ok {
		return nil
	}
	out := make([]ssa.Value, arr.Len())
	for _, r := range *al.Referrers() {
		ia, ok := r.(*ssa.IndexAddr)
		if !ok {
			continue
		}
		idx, ok := constInt(ia.Index)
		if !ok || idx < 0 || idx >= int64(len(out)) {
			continue
		}
		for _, r2 := range *ia.Referrers() {
			if st, ok := r2.(*ssa.Store); ok && st.Addr == ia {
				out[idx] = st.Val
			}
		}
	}
	return out
}

// unwrapIface strips MakeInterface/ChangeInterface.
func unwrapIface(v ssa.Value) ssa.Value {
	for {
		switch x := v.(type) {
		case *ssa.MakeInterface:
			v = x.X
		case *ssa.ChangeInterface:
			v = x.X
		default:
			return v
		}
	}
}

// wrappedArgs returns the arguments consumed by %w verbs of a constant format.
func wrappedArgs(format string, args []ssa.Value) []ssa.Value {
	var out []ssa.Value
	ai := 0
	for i := 0; i < len(format); i++ {
		if format[i] != '%' {
			continue
		}
		i++
		if i >= len(format) {
			break
		}
		if format[i] == '%' {
			continue
		}
		// skip flags/width
		for i < len(format) && strings.ContainsRune("+-# 0123456789.[]*", rune(format[i])) {
			i++
		}
		if i >= len(format) {
			break
		}
		if format[i] == 'w' && ai < len(args) && args[ai] != nil {
			out = append(out, args[ai])
		}
		ai++
	}
	return out
}

// summary returns (computing if needed) the provenance of each result of fn.
func (ep *errProv) summary(fn *ssa.Function) []provSet {
	if ep.inProg[fn] || ep.done[fn] {
		return ep.sums[fn] // recursion: current approximation
	}
	n := fn.Signature.Results().Len()
	s := ep.sums[fn]
	if s == nil {
		s = make([]provSet, n)
		for i := range s {
			s[i] = provSet{}
		}
		ep.sums[fn] = s
	}
	ep.inProg[fn] = true
	for iter := 0; iter < 8; iter++ {
		grew := false
		for _, b := range fn.Blocks {
			ret, ok := b.Instrs[len(b.Instrs)-1].(*ssa.Return)
			if !ok {
				continue
			}
			for i, rv := range ret.Results {
				if i >= n {
					continue
				}
				rt := fn.Signature.Results().At(i).Type()
				var its []provItem
				switch {
				case isErrorType(rt):
					its = ep.prov(fn, rv, b, map[ssa.Value]bool{})
				case ep.httpErr != nil && namedOf(rt) == ep.httpErr:
					// a function returning *HTTPError (HTTPErrorf, HTTPErrorFromError)
					its = ep.provHTTPErr(fn, rv, b, map[ssa.Value]bool{})
				default:
					continue
				}
				for _, it := range its {
					if s[i].add(it) {
						grew = true
						ep.changed = true
					}
				}
			}
		}
		if !grew {
			break
		}
	}
	ep.inProg[fn] = false
	ep.done[fn] = true
	return s
}

// solve evaluates f repeatedly until the summaries stop growing.
func (ep *errProv) solve(f func()) {
	for i := 0; i < 6; i++ {
		ep.changed = false
		ep.done = map[*ssa.Function]bool{}
		f()
		if !ep.changed {
			return
		}
	}
}

// prov computes the provenance of error value v as seen in block at.
func (ep *errProv) prov(fn *ssa.Function, v ssa.Value, at *ssa.BasicBlock, seen map[ssa.Value]bool) []provItem {
	if seen[v] {
		return nil
	}
	seen[v] = true
	defer delete(seen, v)
	one := func(o *errOrigin) []provItem { return []provItem{{O: o, Param: -1, CodeParam: -1}} }
	switch x := v.(type) {
	case *ssa.Const:
		return nil // nil error
	case *ssa.Parameter:
		for i, p := range fn.Params {
			if p == x {
				return []provItem{{Param: i, CodeParam: -1}}
			}
		}
		return nil
	case *ssa.FreeVar:
		// captured variable: find the binding in the parent
		if par := fn.Parent(); par != nil {
			for i, fv := range fn.FreeVars {
				if fv != x {
					continue
				}
				var out []provItem
				eachInstr(par, func(_ *ssa.BasicBlock, in ssa.Instruction) {
					if mc, ok := in.(*ssa.MakeClosure); ok && mc.Fn == fn && i < len(mc.Bindings) {
						out = append(out, ep.prov(par, mc.Bindings[i], mc.Block(), seen)...)
					}
				})
				return out
			}
		}
		return one(ep.origin(fn, nil, "unknown", "freevar"))
	case *ssa.Phi:
		var out []provItem
		for i, e := range x.Edges {
			pred := x.Block().Preds[i]
			if knownNilAt(e, pred) || nilEdgeIs(e, pred, x.Block()) {
				continue
			}
			out = append(out, ep.prov(fn, e, pred, seen)...)
		}
		return out
	case *ssa.MakeInterface:
		return ep.provConcrete(fn, x.X, at, seen)
	case *ssa.ChangeInterface:
		return ep.prov(fn, x.X, at, seen)
	case *ssa.TypeAssert:
		return ep.prov(fn, x.X, at, seen)
	case *ssa.Extract:
		if call, ok := x.Tuple.(*ssa.Call); ok {
			return ep.provCall(fn, call, x.Index, seen)
		}
		if ta, ok := x.Tuple.(*ssa.TypeAssert); ok && x.Index == 0 {
			return ep.prov(fn, ta.X, at, seen)
		}
		return one(ep.origin(fn, x, "unknown", "extract"))
	case *ssa.Call:
		return ep.provCall(fn, x, 0, seen)
	case *ssa.UnOp:
		if x.Op == token.MUL {
			// load: a local/captured variable — union over all stores
			root := x.X
			if al, ok := root.(*ssa.Alloc); ok {
				if stores, ok := reachingStores(al, x); ok {
					var out []provItem
					for _, st := range stores {
						out = append(out, ep.prov(fn, st.Val, st.Block(), seen)...)
					}
					return out
				}
				return ep.provAlloc(fn, al, seen)
			}
			if fv, ok := root.(*ssa.FreeVar); ok {
				_ = fv
				return one(ep.origin(fn, x, "unknown", "captured variable"))
			}
			if g, ok := root.(*ssa.Global); ok {
				return one(ep.origin(fn, x, "sentinel", g.Name()))
			}
			return one(ep.origin(fn, x, "unknown", "loaded from memory"))
		}
	}
	return one(ep.origin(fn, nil, "unknown", fmt.Sprintf("%T", v)))
}

func (ep *errProv) provAlloc(fn *ssa.Function, al *ssa.Alloc, seen map[ssa.Value]bool) []provItem {
	var out []provItem
	var visit func(f *ssa.Function, addr ssa.Value)
	visit = func(f *ssa.Function, addr ssa.Value) {
		for _, r := range *addr.Referrers() {
			switch y := r.(type) {
			case *ssa.Store:
				if y.Addr == addr {
					out = append(out, ep.prov(f, y.Val, y.Block(), seen)...)
				}
			case *ssa.MakeClosure:
				cf := y.Fn.(*ssa.Function)
				for i, bnd := range y.Bindings {
					if bnd == addr && i < len(cf.FreeVars) {
						visit(cf, cf.FreeVars[i])
					}
				}
			}
		}
	}
	visit(fn, al)
	return out
}

// provConcrete: the dynamic value behind an interface conversion.
func (ep *errProv) provConcrete(fn *ssa.Function, v ssa.Value, at *ssa.BasicBlock, seen map[ssa.Value]bool) []provItem {
	if namedOf(v.Type()) == ep.httpErr && ep.httpErr != nil {
		return ep.provHTTPErr(fn, v, at, seen)
	}
	if call, ok := v.(*ssa.Call); ok {
		return ep.provCall(fn, call, 0, seen)
	}
	return []provItem{{O: ep.origin(fn, instrOf(v), "new", "value of type "+types.TypeString(v.Type(), func(p *types.Package) string { return p.Name() })), Param: -1, CodeParam: -1}}
}

func instrOf(v ssa.Value) ssa.Instruction {
	if in, ok := v.(ssa.Instruction); ok {
		return in
	}
	return nil
}

// provHTTPErr: v is a *HTTPError value: a composite literal (Alloc with field
// stores) or the result of a constructor.
func (ep *errProv) provHTTPErr(fn *ssa.Function, v ssa.Value, at *ssa.BasicBlock, seen map[ssa.Value]bool) []provItem {
	switch x := v.(type) {
	case *ssa.Alloc:
		code, codeParam := 0, -1
		var inner ssa.Value
		for _, r := range *x.Referrers() {
			fa, ok := r.(*ssa.FieldAddr)
			if !ok {
				continue
			}
			name := fieldName(fa.X.Type(), fa.Field)
			for _, r2 := range *fa.Referrers() {
				st, ok := r2.(*ssa.Store)
				if !ok || st.Addr != fa {
					continue
				}
				switch name {
				case "Code":
					if c, ok := constInt(st.Val); ok {
						code = int(c)
					} else if prm, ok := st.Val.(*ssa.Parameter); ok {
						code = -1
						for i, p := range fn.Params {
							if p == prm {
								codeParam = i
							}
						}
					} else {
						code = -1
					}
				case "Err":
					inner = st.Val
				}
			}
		}
		var out []provItem
		if inner != nil {
			for _, it := range ep.prov(fn, inner, at, seen) {
				it.Code, it.CodeParam = code, codeParam
				out = append(out, it)
			}
		}
		if len(out) == 0 {
			out = append(out, provItem{O: ep.origin(fn, x, "lit", "HTTPError"), Param: -1, Code: code, CodeParam: codeParam})
		}
		return out
	case *ssa.Call:
		return ep.provCall(fn, x, 0, seen)
	case *ssa.Phi:
		var out []provItem
		for i, e := range x.Edges {
			out = append(out, ep.provHTTPErr(fn, e, x.Block().Preds[i], seen)...)
		}
		return out
	case *ssa.Extract:
		if call, ok := x.Tuple.(*ssa.Call); ok {
			return ep.provCall(fn, call, x.Index, seen)
		}
		if ta, ok := x.Tuple.(*ssa.TypeAssert); ok && x.Index == 0 {
			return ep.prov(fn, ta.X, at, seen)
		}
	case *ssa.TypeAssert:
		return ep.prov(fn, x.X, at, seen)
	}
	return []provItem{{O: ep.origin(fn, instrOf(v), "lit", "HTTPError (untraced)"), Param: -1, Code: -1, CodeParam: -1}}
}

var errWrapPassthrough = map[string]bool{}

// provCall: provenance of result #idx of a call.
func (ep *errProv) provCall(fn *ssa.Function, call *ssa.Call, idx int, seen map[ssa.Value]bool) []provItem {
	cc := call.Common()
	name := calleeName(cc)
	one := func(o *errOrigin) []provItem { return []provItem{{O: o, Param: -1, CodeParam: -1}} }
	// constructors of the standard library
	switch name {
	case "fmt.Errorf":
		if len(cc.Args) >= 1 {
			if format, ok := constString(cc.Args[0]); ok {
				var args []ssa.Value
				if len(cc.Args) >= 2 {
					args = varargValues(cc.Args[1])
				}
				ws := wrappedArgs(format, args)
				var out []provItem
				for _, w := range ws {
					out = append(out, ep.prov(fn, unwrapIfaceErr(w), call.Block(), seen)...)
				}
				if len(ws) > 0 {
					return out
				}
			}
		}
		return one(ep.origin(fn, call, "new", "fmt.Errorf"))
	case "errors.New":
		return one(ep.origin(fn, call, "new", "errors.New"))
	}
	var targets []*ssa.Function
	if f := cc.StaticCallee(); f != nil {
		if ep.c.P.InModule(f) && len(f.Blocks) > 0 {
			targets = append(targets, f)
		}
	} else if cc.IsInvoke() {
		n := namedOf(cc.Value.Type())
		if n != nil && inModuleType(n) {
			for _, e := range ep.c.CG().Out[call.Parent()] {
				if e.Site == ssa.CallInstruction(call) && e.Kind == "dynamic" && ep.c.P.InModule(e.Callee) && len(e.Callee.Blocks) > 0 {
					targets = append(targets, e.Callee)
				}
			}
			iname := n.Obj().Name()
			if iname != "Backend" || n.Obj().Pkg().Path() != pkgInternal {
				// user-implementable interface (caldav/carddav Backend,
				// FileSystem, UserPrincipalBackend): the backend's own error
				return append(ep.instantiate(fn, call, idx, targets, seen), one(ep.origin(fn, call, "backend", cc.Method.Name()))...)
			}
		}
	}
	if len(targets) == 0 {
		if cc.IsInvoke() {
			return one(ep.origin(fn, call, "ext", name))
		}
		if cc.StaticCallee() == nil {
			return one(ep.origin(fn, call, "unknown", "dynamic call"))
		}
		out := one(ep.origin(fn, call, "ext", name))
		// an external function that takes a closure may return what the
		// closure returns (filepath.Walk)
		for _, a := range cc.Args {
			if mc, ok := a.(*ssa.MakeClosure); ok {
				cf := mc.Fn.(*ssa.Function)
				for i, s := range ep.summary(cf) {
					if !isErrorType(cf.Signature.Results().At(i).Type()) {
						continue
					}
					for _, it := range s {
						if it.O != nil {
							out = append(out, it)
						}
					}
				}
			}
		}
		return out
	}
	return ep.instantiate(fn, call, idx, targets, seen)
}

func unwrapIfaceErr(v ssa.Value) ssa.Value {
	// `change interface any <- error (t)`: the error value itself
	if ci, ok := v.(*ssa.ChangeInterface); ok {
		return ci.X
	}
	return v
}

func (ep *errProv) instantiate(fn *ssa.Function, call *ssa.Call, idx int, targets []*ssa.Function, seen map[ssa.Value]bool) []provItem {
	cc := call.Common()
	var allArgs []ssa.Value
	if cc.IsInvoke() {
		allArgs = append(allArgs, cc.Value)
	}
	allArgs = append(allArgs, cc.Args...)
	var out []provItem
	for _, t := range targets {
		sum := ep.summary(t)
		if idx >= len(sum) {
			continue
		}
		var keys []string
		for k := range sum[idx] {
			keys = append(keys, k)
		}
		sort.Strings(keys)
		for _, k := range keys {
			it := sum[idx][k]
			code, codeParam := it.Code, -1
			if it.CodeParam >= 0 {
				code = -1
				if it.CodeParam < len(allArgs) {
					if c, ok := constInt(allArgs[it.CodeParam]); ok {
						code = int(c)
					} else if prm, ok := allArgs[it.CodeParam].(*ssa.Parameter); ok {
						for i, p := range fn.Params {
							if p == prm {
								codeParam = i
							}
						}
					}
				}
			}
			via := it.Via
			if !strings.HasSuffix(via, fnKey(t)) {
				if via != "" {
					via += " > "
				}
				via += fnKey(t)
			}
			if len(via) > 400 {
				via = via[len(via)-400:]
			}
			if it.O != nil {
				out = append(out, provItem{O: it.O, Param: -1, Code: code, CodeParam: codeParam, Via: via})
				continue
			}
			// passthrough of a parameter
			if it.Param < len(allArgs) {
				keeps := keepsMappedError(t, it.Param)
				for _, inner := range ep.prov(fn, allArgs[it.Param], call.Block(), seen) {
					if keeps && (inner.Code != 0 || inner.CodeParam >= 0) && (code != 0 || codeParam >= 0) {
						// the callee hands an error that already carries a
						// status on as it is (it asks errors.As for an
						// *HTTPError first): its own labels are for the
						// errors that carry none
						continue
					}
					if code != 0 || codeParam >= 0 {
						inner.Code, inner.CodeParam = code, codeParam
					}
					out = append(out, inner)
				}
			}
		}
	}
	return out
}

// reachingStores: the stores into local al that may reach the load, by a
// backward walk over the CFG (flow-sensitive). ok=false when the variable is
// captured by a closure or its address escapes (then every store counts).
func reachingStores(al *ssa.Alloc, load ssa.Instruction) ([]*ssa.Store, bool) {
	for _, r := range *al.Referrers() {
		switch y := r.(type) {
		case *ssa.Store:
			if y.Addr != al {
				return nil, false // address stored somewhere
			}
		case *ssa.UnOp, *ssa.DebugRef:
		case *ssa.MakeClosure:
			// captured by a closure that only READS the variable (a deferred
			// `if err != nil { cleanup }`): the stores are still the local ones
			cf, _ := y.Fn.(*ssa.Function)
			if cf == nil {
				return nil, false
			}
			for i, bv := range y.Bindings {
				if bv != ssa.Value(al) {
					continue
				}
				if i >= len(cf.FreeVars) || cf.FreeVars[i].Referrers() == nil {
					return nil, false
				}
				for _, fr := range *cf.FreeVars[i].Referrers() {
					switch u := fr.(type) {
					case *ssa.UnOp:
						if u.Op != token.MUL {
							return nil, false
						}
					case *ssa.DebugRef:
					default:
						return nil, false
					}
				}
			}
		default:
			return nil, false
		}
	}
	lastStoreIn := func(b *ssa.BasicBlock, before int) *ssa.Store {
		for i := before - 1; i >= 0; i-- {
			if st, ok := b.Instrs[i].(*ssa.Store); ok && st.Addr == al {
				return st
			}
		}
		return nil
	}
	idx := -1
	for i, in := range load.Block().Instrs {
		if in == load {
			idx = i
		}
	}
	var out []*ssa.Store
	if st := lastStoreIn(load.Block(), idx); st != nil {
		return []*ssa.Store{st}, true
	}
	seen := map[*ssa.BasicBlock]bool{}
	var walk func(b *ssa.BasicBlock)
	walk = func(b *ssa.BasicBlock) {
		for _, p := range b.Preds {
			if seen[p] {
				continue
			}
			seen[p] = true
			if st := lastStoreIn(p, len(p.Instrs)); st != nil {
				out = append(out, st)
				continue
			}
			walk(p)
		}
	}
	walk(load.Block())
	return out, true
}

// keepsMappedError: fn tests its error parameter with errors.As for a pointer
// to an HTTPError-like type of the module and has a return that hands the
// parameter on unchanged (the "already mapped" guard).
var keepsMappedCache = map[*ssa.Function]map[int]bool{}

func keepsMappedError(fn *ssa.Function, idx int) bool {
	if fn == nil || len(fn.Blocks) == 0 || idx < 0 || idx >= len(fn.Params) {
		return false
	}
	if m, ok := keepsMappedCache[fn]; ok {
		if v, ok := m[idx]; ok {
			return v
		}
	} else {
		keepsMappedCache[fn] = map[int]bool{}
	}
	prm := fn.Params[idx]
	asks, returns := false, false
	eachCall(fn, func(site ssa.CallInstruction) {
		cc := site.Common()
		if calleeName(cc) != "errors.As" || len(cc.Args) != 2 {
			return
		}
		a := cc.Args[0]
		if mi, ok := a.(*ssa.MakeInterface); ok {
			a = mi.X
		}
		if a != ssa.Value(prm) {
			return
		}
		t := cc.Args[1].Type()
		if mi, ok := cc.Args[1].(*ssa.MakeInterface); ok {
			t = mi.X.Type()
		}
		if pp, ok := t.(*types.Pointer); ok {
			if p2, ok := pp.Elem().(*types.Pointer); ok {
				if n := namedOf(p2.Elem()); n != nil && n.Obj().Name() == "HTTPError" {
					asks = true
				}
			}
		}
	})
	for _, b := range fn.Blocks {
		if ret, ok := b.Instrs[len(b.Instrs)-1].(*ssa.Return); ok {
			for _, res := range ret.Results {
				if res == ssa.Value(prm) {
					returns = true
				}
			}
		}
	}
	keepsMappedCache[fn][idx] = asks && returns
	return asks && returns
}
