package main

// Shared SSA helpers: address roots, post-dominators, control dependence,
// constants, nil-refinement.

import (
	"go/constant"
	"go/token"
	"go/types"

	"golang.org/x/tools/go/ssa"
)

// eachInstr visits every instruction of fn (not of nested closures).
func eachInstr(fn *ssa.Function, f func(b *ssa.BasicBlock, in ssa.Instruction)) {
	for _, b := range fn.Blocks {
		for _, in := range b.Instrs {
			f(b, in)
		}
	}
}

// eachCall visits every call/defer/go instruction of fn.
func eachCall(fn *ssa.Function, f func(site ssa.CallInstruction)) {
	eachInstr(fn, func(_ *ssa.BasicBlock, in ssa.Instruction) {
		if c, ok := in.(ssa.CallInstruction); ok {
			f(c)
		}
	})
}

// closuresOf returns the anonymous functions nested (transitively) in fn.
func closuresOf(fn *ssa.Function) []*ssa.Function {
	var out []*ssa.Function
	var rec func(f *ssa.Function)
	rec = func(f *ssa.Function) {
		for _, a := range f.AnonFuncs {
			out = append(out, a)
			rec(a)
		}
	}
	rec(fn)
	return out
}

// withClosures returns fn followed by its nested closures.
func withClosures(fn *ssa.Function) []*ssa.Function {
	return append([]*ssa.Function{fn}, closuresOf(fn)...)
}

// constString returns the string value of a constant SSA value.
func constString(v ssa.Value) (string, bool) {
	c, ok := v.(*ssa.Const)
	if !ok || c.Value == nil || c.Value.Kind() != constant.String {
		return "", false
	}
	return constant.StringVal(c.Value), true
}

func constInt(v ssa.Value) (int64, bool) {
	// see through conversions of constants
	for {
		switch x := v.(type) {
		case *ssa.Convert:
			v = x.X
			continue
		case *ssa.ChangeType:
			v = x.X
			continue
		}
		break
	}
	c, ok := v.(*ssa.Const)
	if !ok || c.Value == nil || c.Value.Kind() != constant.Int {
		return 0, false
	}
	i, ok := constant.Int64Val(c.Value)
	return i, ok
}

func isNilConst(v ssa.Value) bool {
	c, ok := v.(*ssa.Const)
	return ok && c.Value == nil
}

// addrRoot walks an address (or value) expression back to its root object:
// an Alloc, Global, Parameter, FreeVar, call result, or other value. The
// returned path lists the field names / "[]" steps from the root.
func addrRoot(v ssa.Value) (root ssa.Value, path []string) {
	for i := 0; i < 64; i++ {
		switch x := v.(type) {
		case *ssa.FieldAddr:
			path = append([]string{fieldName(x.X.Type(), x.Field)}, path...)
			v = x.X
		case *ssa.Field:
			path = append([]string{fieldName(x.X.Type(), x.Field)}, path...)
			v = x.X
		case *ssa.IndexAddr:
			path = append([]string{"[]"}, path...)
			v = x.X
		case *ssa.Index:
			path = append([]string{"[]"}, path...)
			v = x.X
		case *ssa.UnOp:
			if x.Op == token.MUL {
				path = append([]string{"*"}, path...)
				v = x.X
			} else {
				return v, path
			}
		case *ssa.ChangeType:
			v = x.X
		case *ssa.Convert:
			v = x.X
		case *ssa.Slice:
			v = x.X
		default:
			return v, path
		}
	}
	return v, path
}

func fieldName(t types.Type, i int) string {
	if p, ok := t.Underlying().(*types.Pointer); ok {
		t = p.Elem()
	}
	if s, ok := t.Underlying().(*types.Struct); ok && i < s.NumFields() {
		return s.Field(i).Name()
	}
	return "?"
}

// structOf returns the named struct type behind t (through pointers), if any.
func namedOf(t types.Type) *types.Named {
	for {
		switch x := t.(type) {
		case *types.Pointer:
			t = x.Elem()
			continue
		case *types.Named:
			return x
		case *types.Alias:
			t = types.Unalias(x)
			continue
		}
		return nil
	}
}

// ---------------------------------------------------------------------------
// post-dominators and control dependence

type pdomInfo struct {
	fn    *ssa.Function
	ipdom []int // immediate post-dominator block index; -1 = virtual exit
	order []int
}

// postDominators computes immediate post-dominators with the iterative
// algorithm on the reversed CFG (virtual exit joins all blocks without
// successors).
func postDominators(fn *ssa.Function) *pdomInfo {
	n := len(fn.Blocks)
	const exit = -1
	// reverse post-order on the reversed graph starting from exits
	visited := make([]bool, n)
	var post []int
	var dfs func(b int)
	dfs = func(b int) {
		visited[b] = true
		for _, p := range fn.Blocks[b].Preds {
			if !visited[p.Index] {
				dfs(p.Index)
			}
		}
		post = append(post, b)
	}
	for _, b := range fn.Blocks {
		if len(b.Succs) == 0 && !visited[b.Index] {
			dfs(b.Index)
		}
	}
	// blocks that cannot reach an exit (infinite loops): treat as reaching
	// exit directly.
	for _, b := range fn.Blocks {
		if !visited[b.Index] {
			dfs(b.Index)
		}
	}
	rpoNum := make([]int, n)
	order := make([]int, 0, n)
	for i := len(post) - 1; i >= 0; i-- {
		rpoNum[post[i]] = len(order)
		order = append(order, post[i])
	}
	ipdom := make([]int, n)
	const undef = -2
	for i := range ipdom {
		ipdom[i] = undef
	}
	intersect := func(a, b int) int {
		for a != b {
			if a == exit || b == exit {
				return exit
			}
			for a != exit && b != exit && rpoNum[a] > rpoNum[b] {
				a = ipdom[a]
			}
			if a == exit {
				return exit
			}
			for b != exit && a != exit && rpoNum[b] > rpoNum[a] {
				b = ipdom[b]
			}
			if b == exit {
				return exit
			}
		}
		return a
	}
	changed := true
	for changed {
		changed = false
		for _, b := range order {
			blk := fn.Blocks[b]
			newI := undef
			if len(blk.Succs) == 0 {
				newI = exit
			} else {
				for _, s := range blk.Succs {
					si := s.Index
					if ipdom[si] == undef && len(fn.Blocks[si].Succs) != 0 {
						continue
					}
					if newI == undef {
						newI = si
					} else {
						newI = intersect(newI, si)
					}
				}
				if newI == undef {
					continue
				}
			}
			if ipdom[b] != newI {
				ipdom[b] = newI
				changed = true
			}
		}
	}
	for i := range ipdom {
		if ipdom[i] == undef {
			ipdom[i] = exit
		}
	}
	return &pdomInfo{fn: fn, ipdom: ipdom, order: order}
}

// postDominates reports whether a post-dominates b (a != b allowed equal).
func (pd *pdomInfo) postDominates(a, b int) bool {
	for x := b; x != -1; x = pd.ipdom[x] {
		if x == a {
			return true
		}
		if pd.ipdom[x] == x {
			break
		}
	}
	return false
}

// ctrlDep is a control-dependence edge: block Dep executes only if branch
// block Branch takes successor Succ (index into Branch.Succs).
type ctrlDep struct {
	Branch *ssa.BasicBlock
	Succ   int
}

// controlDeps computes, for every block, its direct control dependences
// (Ferrante et al.): B is control dependent on (A, s) iff B post-dominates
// A.Succs[s] (or is it) and B does not strictly post-dominate A.
func controlDeps(fn *ssa.Function) map[*ssa.BasicBlock][]ctrlDep {
	pd := postDominators(fn)
	out := map[*ssa.BasicBlock][]ctrlDep{}
	for _, a := range fn.Blocks {
		if len(a.Succs) < 2 {
			continue
		}
		for si, s := range a.Succs {
			// walk from s up the post-dominator tree until ipdom(a)
			stop := pd.ipdom[a.Index]
			for x := s.Index; x != -1 && x != stop; x = pd.ipdom[x] {
				out[fn.Blocks[x]] = append(out[fn.Blocks[x]], ctrlDep{a, si})
				if pd.ipdom[x] == x {
					break
				}
			}
		}
	}
	return out
}

// reachableAvoiding: blocks reachable from start without passing through avoid.
func reachableAvoiding(start, avoid *ssa.BasicBlock) map[*ssa.BasicBlock]bool {
	seen := map[*ssa.BasicBlock]bool{}
	if start == avoid {
		return seen
	}
	work := []*ssa.BasicBlock{start}
	seen[start] = true
	for len(work) > 0 {
		b := work[len(work)-1]
		work = work[:len(work)-1]
		for _, s := range b.Succs {
			if s == avoid || seen[s] {
				continue
			}
			seen[s] = true
			work = append(work, s)
		}
	}
	return seen
}

// exclusiveControlDeps keeps a control dependence (A, s) of block B only if B
// cannot be reached from A's other successor(s) without passing through A
// again: B then executes under exactly one outcome of A's test. (Blocks after
// an early return are control dependent on the test guarding the return, but
// run under both of its outcomes; they say nothing about the tested value.)
func exclusiveControlDeps(fn *ssa.Function) map[*ssa.BasicBlock][]ctrlDep {
	direct := controlDeps(fn)
	type key struct {
		a *ssa.BasicBlock
		s int
	}
	other := map[key]map[*ssa.BasicBlock]bool{}
	out := map[*ssa.BasicBlock][]ctrlDep{}
	for b, ds := range direct {
		for _, d := range ds {
			k := key{d.Branch, d.Succ}
			if other[k] == nil {
				m := map[*ssa.BasicBlock]bool{}
				for i, s := range d.Branch.Succs {
					if i == d.Succ {
						continue
					}
					for x := range reachableAvoiding(s, d.Branch) {
						m[x] = true
					}
				}
				other[k] = m
			}
			if !other[k][b] {
				out[b] = append(out[b], d)
			}
		}
	}
	return out
}

// transitiveControlDeps closes the exclusive control dependences
// transitively: the (branch, successor) pairs that must have been taken for
// the block to execute.
func transitiveControlDeps(fn *ssa.Function) map[*ssa.BasicBlock][]ctrlDep {
	direct := exclusiveControlDeps(fn)
	out := map[*ssa.BasicBlock][]ctrlDep{}
	for _, b := range fn.Blocks {
		seen := map[ctrlDep]bool{}
		var work []ctrlDep
		work = append(work, direct[b]...)
		for len(work) > 0 {
			d := work[len(work)-1]
			work = work[:len(work)-1]
			if seen[d] {
				continue
			}
			seen[d] = true
			out[b] = append(out[b], d)
			work = append(work, direct[d.Branch]...)
		}
	}
	return out
}

// ifCond returns the condition value of the If terminating block b, or nil.
func ifCond(b *ssa.BasicBlock) ssa.Value {
	if len(b.Instrs) == 0 {
		return nil
	}
	if i, ok := b.Instrs[len(b.Instrs)-1].(*ssa.If); ok {
		return i.Cond
	}
	return nil
}

// edgeDominates reports whether the CFG edge from→from.Succs[si] dominates
// block b: every path from entry to b passes through that edge.
func edgeDominates(from *ssa.BasicBlock, si int, b *ssa.BasicBlock) bool {
	s := from.Succs[si]
	if !s.Dominates(b) {
		return false
	}
	// the edge dominates s iff every other predecessor of s is dominated by s
	// (back edges) — otherwise s can be entered bypassing the edge.
	for _, p := range s.Preds {
		if p == from {
			// make sure 'from' reaches s only via si (both succs equal is degenerate)
			continue
		}
		if !s.Dominates(p) {
			return false
		}
	}
	if len(from.Succs) == 2 && from.Succs[0] == from.Succs[1] {
		return false
	}
	return true
}

// errNilRefinement: is value v (an error) known to be nil at block b, because
// an "v != nil"/"v == nil" test dominates b on the nil edge?
func knownNilAt(v ssa.Value, b *ssa.BasicBlock) bool {
	for _, a := range storedAliases(v) {
		if knownNilAt(a, b) {
			return true
		}
	}
	for _, ref := range refsOf(v) {
		bin, ok := ref.(*ssa.BinOp)
		if !ok || (bin.Op != token.NEQ && bin.Op != token.EQL) {
			continue
		}
		var other ssa.Value
		if bin.X == v {
			other = bin.Y
		} else {
			other = bin.X
		}
		if !isNilConst(other) {
			continue
		}
		for _, r2 := range *bin.Referrers() {
			iff, ok := r2.(*ssa.If)
			if !ok {
				continue
			}
			nilEdge := 1 // v != nil: false edge means nil
			if bin.Op == token.EQL {
				nilEdge = 0
			}
			if edgeDominates(iff.Block(), nilEdge, b) {
				return true
			}
		}
	}
	return false
}

// knownNonNilAt is the dual.
func knownNonNilAt(v ssa.Value, b *ssa.BasicBlock) bool {
	for _, a := range storedAliases(v) {
		if knownNonNilAt(a, b) {
			return true
		}
	}
	for _, ref := range refsOf(v) {
		bin, ok := ref.(*ssa.BinOp)
		if !ok || (bin.Op != token.NEQ && bin.Op != token.EQL) {
			continue
		}
		var other ssa.Value
		if bin.X == v {
			other = bin.Y
		} else {
			other = bin.X
		}
		if !isNilConst(other) {
			continue
		}
		for _, r2 := range *bin.Referrers() {
			iff, ok := r2.(*ssa.If)
			if !ok {
				continue
			}
			edge := 0
			if bin.Op == token.EQL {
				edge = 1
			}
			if edgeDominates(iff.Block(), edge, b) {
				return true
			}
		}
	}
	return false
}

var errorType = types.Universe.Lookup("error").Type()

func isErrorType(t types.Type) bool { return types.Identical(t, errorType) }

// implementsError reports whether t (or *t) implements error.
func implementsError(t types.Type) bool {
	return types.Implements(t, errorType.Underlying().(*types.Interface))
}

// resultIndexOfError returns the index of the (last) error result of sig, -1 if none.
func errorResultIndex(sig *types.Signature) int {
	res := sig.Results()
	for i := res.Len() - 1; i >= 0; i-- {
		if isErrorType(res.At(i).Type()) {
			return i
		}
	}
	return -1
}

// refsOf returns the referrers of v (nil-safe: constants have none).
func refsOf(v ssa.Value) []ssa.Instruction {
	if v == nil {
		return nil
	}
	r := v.Referrers()
	if r == nil {
		return nil
	}
	return *r
}

// storedAliases: when v is stored into a local variable (named results and
// variables spilled because of defer/closures are allocs in go/ssa), the
// loads of that variable that can only see this store hold the same value.
func storedAliases(v ssa.Value) []ssa.Value {
	var out []ssa.Value
	for _, ref := range refsOf(v) {
		st, ok := ref.(*ssa.Store)
		if !ok || st.Val != v {
			continue
		}
		al, ok := st.Addr.(*ssa.Alloc)
		if !ok {
			continue
		}
		for _, r2 := range *al.Referrers() {
			ld, ok := r2.(*ssa.UnOp)
			if !ok || ld.Op != token.MUL || ld.X != ssa.Value(al) {
				continue
			}
			stores, ok := reachingStores(al, ld)
			if ok && len(stores) == 1 && stores[0] == st {
				out = append(out, ld)
			}
		}
	}
	return out
}
