package main

// C15 — raw XML values preserve the element tree they captured.
//
// Decided (thin, and said so): the capture/replay code handles every token
// kind, in order, with matching ends: decision tables of the capture
// (UnmarshalXML over every token sequence up to a bound), of the replay as
// encoder calls (MarshalXML) and as a token stream (TokenReader/Token), each
// against a reference. The namespace behaviour of the statement lives in
// encoding/xml's encoder and is not decided.

import (
	"fmt"
	"go/constant"
	"go/token"
	"go/types"
	"sort"
	"strings"

	"golang.org/x/tools/go/ssa"
)

func init() { register("C15", runC15) }

var xmlKinds = []string{"StartElement", "EndElement", "CharData", "Comment", "ProcInst", "Directive"}

func (in *Interp) xmlTok(kind, id string) Val {
	t := in.c.P.lookupType("encoding/xml", kind)
	return Iface{Dyn: t, V: Opaque{kind + ":" + id, t}}
}

func tokKind(v Val) (kind, id string) {
	iv, ok := v.(Iface)
	if !ok {
		return "nil", ""
	}
	k := keyOf(iv.V)
	if n := namedOf(iv.Dyn); n != nil {
		return n.Obj().Name(), k
	}
	return "?", k
}

// renderRaw renders a RawXMLValue struct (tok, children, out) as a tree.
func renderRaw(v Val) string {
	s, ok := v.(Struct)
	if !ok {
		return "?" + keyOf(v)
	}
	kind, id := tokKind(s.F[0].Get())
	out := kind + "(" + id + ")"
	if o := s.F[2].Get(); o != nil {
		if k, isK := o.(Konst); !isK || k.V != nil {
			out += "{out=" + keyOf(o) + "}"
		}
	}
	var kids []string
	switch ch := s.F[1].Get().(type) {
	case Slice:
		for _, c := range ch.E {
			kids = append(kids, renderRaw(c.Get()))
		}
	}
	if kind == "StartElement" || len(kids) > 0 {
		out += "[" + strings.Join(kids, " ") + "]"
	}
	return out
}

func runC15(c *Ctx, pr *PropertyRun) {
	p := c.P
	nTok := 4
	if c.Thorough() {
		nTok = 6
	}
	pr.Explanation = fmt.Sprintf("Decided (thin, and said so): the capture/replay code handles every token kind, in order, with matching ends. (1) capture: the decision table of RawXMLValue.UnmarshalXML over every sequence of up to %d further tokens, each of any of the six token kinds or a read error: a start element is captured recursively, an end element ends the current element, every other token becomes exactly one child holding xml.CopyToken of it, a read error is returned, and the receiver's previous state is discarded first; (2) replay: for every captured tree (root of any kind, up to 2 children, depth 2) MarshalXML emits start, the children in order, and End() of the same start, other tokens verbatim; a marshal-only value encodes its payload; ", nTok) +
		"the token stream of TokenReader is the same sequence followed by EOF, and every call makes progress (the stream is finite, balanced and well nested); (3) Decode reads from the value's own TokenReader. NOT decided: namespace-expanded equality after re-encoding, prefix redeclaration/undeclaration — run-time behaviour of encoding/xml over all documents."
	pr.Assumptions = append(pr.Assumptions, "(*xml.Decoder).Token is modelled as an arbitrary sequence of tokens of the six kinds or an error; xml.CopyToken returns a copy of the same kind")
	pr.Trusted = append(pr.Trusted, "golang.org/x/tools/go/ssa v0.29.0")

	capt := NewRule("C15", "C15.capture", "decision table of the capture over every token sequence within the bound equals the reference parser (E2)")
	capt.Exhaustive = true
	capt.Bounds = fmt.Sprintf("<= %d tokens after the start element", nTok)
	rep := NewRule("C15", "C15.replay", "MarshalXML and the TokenReader replay start, children in order, matching end; other tokens verbatim; every Token call makes progress (E2)")
	rep.Exhaustive = true
	rep.Bounds = "root of any kind, <= 2 children, depth 2"
	src := NewRule("C15", "C15.decode-source", "Decode reads from the value's own TokenReader (E4)")
	pr.Rules = append(pr.Rules, capt, rep, src)

	um := p.MustFunc(capt, pkgInternal, "(*RawXMLValue).UnmarshalXML")
	raw := p.NamedType(pkgInternal, "RawXMLValue")
	if um != nil && raw != nil {
		spec := c15Capture(c, um, raw, nTok)
		res := runDTX(c, spec)
		reportDTX(c, capt, spec, res, "capture")
		capt.Role("decision-table")
		if res.Runs < 20 {
			capt.Unresolved("the capture table has fewer than 20 rows")
		}
	}
	// depth accounting: when the capture recurses through a helper that
	// carries a depth counter, every recursive call passes exactly the nesting
	// level of the element it captures (siblings do not add up)
	if um != nil && raw != nil {
		if helper := depthHelper(c, um); helper != nil {
			spec := c15Capture(c, helper, raw, nTok)
			spec.Name = "capture depth accounting"
			baseSetup := spec.Setup
			var levels []string
			spec.Setup = func(in *Interp) {
				baseSetup(in)
				levels = nil
				in.Models = append(in.Models, func(in *Interp, site ssa.CallInstruction, name string, args []Val) (Val, bool) {
					if name == fullFnName(helper) && len(args) == len(helper.Params) {
						d, _ := in.concretise(args[len(args)-1])
						levels = append(levels, fmt.Sprintf("%s@%d", keyOf(args[2]), d))
					}
					return nil, false
				})
			}
			baseArgs := spec.Args
			spec.Args = func(in *Interp) []Val { return append(baseArgs(in), kInt(0)) }
			spec.Observe = func(in *Interp, res Val, pan *panicOutcome) string {
				if pan != nil {
					return "panic"
				}
				return strings.Join(levels, " ")
			}
			spec.Check = func(env *OracleEnv, obs *Observation) (bool, string, bool) {
				// reference: level of every start element in the chosen stream
				pos := 0
				var want []string
				var parse func(level int) bool
				parse = func(level int) bool {
					for {
						i := pos
						pos++
						k := "EndElement"
						if i < nTok {
							labels := append(append([]string{}, xmlKinds...), "error")
							k = labels[env.ch.choose(fmt.Sprintf("tok#%d", i), len(labels), func(j int) string { return labels[j] })]
						}
						switch k {
						case "error":
							return false
						case "EndElement":
							return true
						case "StartElement":
							want = append(want, fmt.Sprintf("StartElement:%d@%d", i, level+1))
							if !parse(level + 1) {
								return false
							}
						}
					}
				}
				parse(0)
				got := strings.Join(levels, " ")
				if got != strings.Join(want, " ") {
					return false, "each nested element captured at its own nesting level: " + strings.Join(want, " "), true
				}
				return true, "", true
			}
			res := runDTX(c, spec)
			reportDTX(c, capt, spec, res, "depth")
			capt.Role("depth-accounting-table")
			depthRefusalRule(c, pr, helper)
		} else {
			capt.Note("the capture does not recurse through a helper with a depth counter: depth accounting not applicable")
		}
	}
	mx := p.MustFunc(rep, pkgInternal, "(*RawXMLValue).MarshalXML")
	trd := p.MustFunc(rep, pkgInternal, "(*RawXMLValue).TokenReader")
	tokFn := p.MustFunc(rep, pkgInternal, "(*rawXMLValueReader).Token")
	if mx != nil && trd != nil && tokFn != nil && raw != nil {
		for _, spec := range []DTXSpec{c15Marshal(c, mx, raw), c15Reader(c, trd, tokFn, raw)} {
			res := runDTX(c, spec)
			reportDTX(c, rep, spec, res, spec.Name)
			rep.Role("decision-table")
			if res.Runs < 10 {
				rep.Unresolved("table " + spec.Name + " has fewer than 10 rows")
			}
		}
	}
	// replay depth accounting: when the replay recurses through a helper that
	// carries a depth counter (and may refuse), it accepts every tree the
	// capture accepts: an element at a level the capture admits, with
	// non-element children and with element children the capture admits too,
	// is written out exactly as at level 0
	if mx != nil && raw != nil {
		if mh := depthHelper(c, mx); mh != nil {
			var ch *ssa.Function
			if um != nil {
				ch = depthHelper(c, um)
			}
			levels := depthLevels(mh, ch)
			accepts := func(level int64) bool {
				if ch == nil {
					return true
				}
				spec := c15Capture(c, ch, raw, 0)
				baseArgs := spec.Args
				spec.Args = func(in *Interp) []Val { return append(baseArgs(in), kInt(level)) }
				out := ""
				spec.Check = func(env *OracleEnv, obs *Observation) (bool, string, bool) {
					out = "error"
					if obs.Panic == nil {
						if k, isK := obs.Ret.(Konst); isK && k.V == nil {
							out = "ok"
						}
					}
					return true, "", true
				}
				runDTX(c, spec)
				return out == "ok"
			}
			for _, lv := range levels {
				lv := lv
				if !accepts(lv) {
					continue
				}
				childOK := accepts(lv + 1)
				spec := c15MarshalAt(c, mh, raw, 1, func() Val { return kInt(lv) }, func(seq []string) bool {
					if childOK {
						return false
					}
					for _, s := range seq[1:] {
						if strings.HasPrefix(s, "StartElement:") {
							return true // the capture refuses an element at the next level
						}
					}
					return false
				})
				spec.Name = fmt.Sprintf("replay at nesting level %d", lv)
				res := runDTX(c, spec)
				reportDTX(c, rep, spec, res, spec.Name)
				rep.Role("replay-depth-table")
			}
		} else {
			rep.Note("the replay does not recurse through a helper with a depth counter: replay depth accounting not applicable")
		}
	}
	// Decode: NewTokenDecoder(val.TokenReader())
	if dec := p.MustFunc(src, pkgInternal, "(*RawXMLValue).Decode"); dec != nil && trd != nil {
		src.Role("decode")
		ok := false
		eachCall(dec, func(site ssa.CallInstruction) {
			if calleeName(site.Common()) != "encoding/xml.NewTokenDecoder" {
				return
			}
			a := site.Common().Args[0]
			if mi, isMI := a.(*ssa.MakeInterface); isMI {
				a = mi.X
			}
			if ci, isCI := a.(*ssa.ChangeInterface); isCI {
				a = ci.X
			}
			if call, isCall := a.(*ssa.Call); isCall && call.Common().StaticCallee() == trd && len(call.Common().Args) > 0 && call.Common().Args[0] == ssa.Value(dec.Params[0]) {
				ok = true
			}
		})
		src.Ob(ok)
		if !ok {
			src.Violation("decode-source|"+fnKey(dec), p.Pos(dec.Pos()), "RawXMLValue.Decode no longer decodes from its own TokenReader: the typed value is not what the captured element denotes", nil)
		}
	}
	src.RequireRole("decode")

	// RawXMLValue is copied by value all over the library (appended to
	// Prop.Raw, returned from Get, ranged over): a capture must never keep
	// the backing array of the children of an earlier capture
	fresh := NewRule("C15", "C15.capture-fresh", "every store to RawXMLValue.children is nil, a fresh slice, or an append to the current one — never a reslice of the old one, whose backing array copies of an earlier capture still share (E4)")
	pr.Rules = append(pr.Rules, fresh)
	for _, fn := range p.ModFns {
		if !inLib(fn) || len(fn.Blocks) == 0 || p.isControlFn(fn) {
			continue
		}
		eachInstr(fn, func(_ *ssa.BasicBlock, in ssa.Instruction) {
			st, ok := in.(*ssa.Store)
			if !ok {
				return
			}
			fa, ok := st.Addr.(*ssa.FieldAddr)
			if !ok || namedOf(fa.X.Type()) != raw {
				return
			}
			if _, isSlice := fa.Type().(*types.Pointer).Elem().Underlying().(*types.Slice); !isSlice {
				return
			}
			fresh.Role("children-store")
			good := true
			if sl, isSl := st.Val.(*ssa.Slice); isSl {
				// a reslice of a loaded field of a RawXMLValue
				if ld, isLd := sl.X.(*ssa.UnOp); isLd {
					if f2, isFA := ld.X.(*ssa.FieldAddr); isFA && namedOf(f2.X.Type()) == raw {
						good = false
					}
				}
			}
			fresh.Ob(good)
			if !good {
				fresh.Violation("reslice|"+fnKey(fn), p.instrPos(st), fnKey(fn)+" stores a reslice of the old children back into the value: the backing array is kept, so a copy made of an earlier capture (RawXMLValue is copied by value) sees its children overwritten by the next capture", nil)
			}
		})
	}
	fresh.RequireRole("children-store")

	// reading a raw value does not write it: TokenReader, the reader's Token,
	// MarshalXML, Decode and XMLName store nothing into a RawXMLValue (a
	// reader cached in the value and rewound carries the state of an
	// abandoned read into the next one)
	ro := NewRule("C15", "C15.read-only", "the read side of RawXMLValue (TokenReader, the reader's Token, MarshalXML, Decode, XMLName) and everything it calls in the module stores nothing into a RawXMLValue (E5)")
	pr.Rules = append(pr.Rules, ro)
	{
		var roots []*ssa.Function
		for _, n := range []string{"(*RawXMLValue).TokenReader", "(*RawXMLValue).MarshalXML", "(*RawXMLValue).Decode", "(*RawXMLValue).XMLName"} {
			if fn := p.MustFunc(ro, pkgInternal, n); fn != nil {
				roots = append(roots, fn)
			}
		}
		if tokFn != nil {
			roots = append(roots, tokFn)
		}
		seen := c.CG().Reach(roots, moduleOnly(p))
		// Decode hands the token stream to encoding/xml, which may capture
		// parts of it into OTHER raw values: the capture side is not the
		// read side
		captureSide := map[*ssa.Function]*CGEdge{}
		if um != nil {
			captureSide = c.CG().Reach([]*ssa.Function{um}, moduleOnly(p))
		}
		for fn := range seen {
			if !p.InModule(fn) || len(fn.Blocks) == 0 {
				continue
			}
			if _, isCapture := captureSide[fn]; isCapture {
				continue
			}
			ro.Role("read-side-function")
			eachInstr(fn, func(_ *ssa.BasicBlock, in ssa.Instruction) {
				st, ok := in.(*ssa.Store)
				if !ok {
					return
				}
				// a store into a field of a RawXMLValue that is not a local
				addr := st.Addr
				hits := false
				for i := 0; i < 8; i++ {
					switch x := addr.(type) {
					case *ssa.FieldAddr:
						if pt, ok := x.X.Type().Underlying().(*types.Pointer); ok && namedOf(pt.Elem()) == raw && raw != nil {
							hits = true
						}
						addr = x.X
						continue
					case *ssa.IndexAddr:
						addr = x.X
						continue
					}
					break
				}
				if !hits {
					return
				}
				if al, isLocal := addr.(*ssa.Alloc); isLocal && !al.Heap {
					return
				}
				if al, isLocal := addr.(*ssa.Alloc); isLocal {
					// a fresh value built here (composite literal)
					_ = al
					return
				}
				ro.Ob(false)
				ro.Violation("read-writes|"+fnKey(fn), p.instrPos(st), fnKey(fn)+" is on the read side of RawXMLValue and stores into a raw value: reading a captured element changes it (state kept in the value — a cached reader, a cursor — survives an abandoned read and corrupts the next one)", nil)
			})
		}
		ro.RequireRole("read-side-function")
	}
}

// tokenStream models (*xml.Decoder).Token as a sequence chosen token by token.
type tokenStream struct {
	n   int
	max int
	seq []string
}

func (ts *tokenStream) model(in *Interp, site ssa.CallInstruction, name string, args []Val) (Val, bool) {
	switch name {
	case "(*encoding/xml.Decoder).Token", "(encoding/xml.TokenReader).Token":
		i := ts.n
		ts.n++
		labels := append(append([]string{}, xmlKinds...), "error")
		var k int
		if i >= ts.max {
			// beyond the bound the stream only closes elements
			k = 1
		} else {
			k = in.chooseLabeled(fmt.Sprintf("tok#%d", i), labels)
		}
		ts.seq = append(ts.seq, labels[k])
		if labels[k] == "error" {
			return Tuple{[]Val{kNil, in.mkErr(&ErrObj{Kind: "ext", Msg: kStr("read error"), Key: "read-error"})}}, true
		}
		return Tuple{[]Val{in.xmlTok(labels[k], fmt.Sprint(i)), kNil}}, true
	case "encoding/xml.CopyToken":
		iv, ok := args[0].(Iface)
		if !ok {
			return args[0], true
		}
		return Iface{Dyn: iv.Dyn, V: Opaque{"copy(" + keyOf(iv.V) + ")", iv.Dyn}}, true
	}
	return nil, false
}

func c15Capture(c *Ctx, um *ssa.Function, raw *types.Named, nTok int) DTXSpec {
	var recv *Cell
	var ts *tokenStream
	return DTXSpec{Name: "RawXMLValue.UnmarshalXML", Entry: um,
		Setup: func(in *Interp) {
			ts = &tokenStream{max: nTok}
			in.Models = append(in.Models, ts.model)
			in.MaxRecursion = nTok + 3
		},
		Args: func(in *Interp) []Val {
			// a receiver with stale state: it must be discarded
			st := zeroOf(raw).(Struct)
			st.F[0].Set(in.xmlTok("CharData", "stale"))
			st.F[1].Set(Slice{E: []*Cell{{V: zeroOf(raw), T: raw}}, NonNil: true})
			st.F[2].Set(Iface{Dyn: types.Typ[types.String], V: kStr("stale-out")})
			recv = &Cell{V: st, T: raw, Name: "val"}
			startT := c.P.lookupType("encoding/xml", "StartElement")
			return []Val{Ptr{recv}, Opaque{"decoder", um.Params[1].Type()}, Opaque{"StartElement:root", startT}}
		},
		Observe: func(in *Interp, res Val, pan *panicOutcome) string {
			if pan != nil {
				return "panic"
			}
			if k, ok := res.(Konst); !ok || k.V != nil {
				return "error"
			}
			return renderRaw(recv.Get())
		},
		Check: func(env *OracleEnv, obs *Observation) (bool, string, bool) {
			// reference parser over the chosen token sequence
			pos := 0
			next := func() string {
				i := pos
				pos++
				if i >= nTok {
					return "EndElement"
				}
				labels := append(append([]string{}, xmlKinds...), "error")
				return labels[env.ch.choose(fmt.Sprintf("tok#%d", i), len(labels), func(j int) string { return labels[j] })]
			}
			var parse func(id string) (string, bool)
			parse = func(id string) (string, bool) {
				var kids []string
				for {
					i := pos
					k := next()
					switch k {
					case "error":
						return "", false
					case "EndElement":
						return "StartElement(StartElement:" + id + ")[" + strings.Join(kids, " ") + "]", true
					case "StartElement":
						sub, ok := parse(fmt.Sprint(i))
						if !ok {
							return "", false
						}
						kids = append(kids, sub)
					default:
						kids = append(kids, fmt.Sprintf("%s(copy(%s:%d))", k, k, i))
					}
				}
			}
			want, ok := parse("root")
			if !ok {
				want = "error"
			}
			got := "panic"
			if obs.Panic == nil {
				if k, isK := obs.Ret.(Konst); !isK || k.V != nil {
					got = "error"
				} else {
					got = renderRaw(recv.Get())
				}
			}
			// an element that never closes within the bound is closed by the
			// model's trailing end elements: both sides see the same stream
			if got != want {
				return false, want, true
			}
			return true, "", true
		},
	}
}

// buildTree enumerates small RawXMLValue trees.
func buildTree(in *Interp, raw *types.Named, key string, depth int) (Val, string, []string) {
	kinds := []string{"StartElement", "CharData", "Comment", "ProcInst", "Directive"}
	k := kinds[in.chooseLabeled("kind("+key+")", kinds)]
	st := zeroOf(raw).(Struct)
	st.F[0].Set(in.xmlTok(k, key))
	if k != "StartElement" {
		return st, k + ":" + key, []string{k + ":" + key}
	}
	n := 0
	if depth > 0 {
		n = in.chooseInt("children("+key+")", 3)
	}
	seq := []string{"StartElement:" + key}
	sl := Slice{NonNil: n > 0}
	for i := 0; i < n; i++ {
		child, _, cs := buildTree(in, raw, fmt.Sprintf("%s.%d", key, i), depth-1)
		sl.E = append(sl.E, &Cell{V: child, T: raw})
		seq = append(seq, cs...)
	}
	st.F[1].Set(sl)
	seq = append(seq, "end(StartElement:"+key+")")
	return st, "tree:" + key, seq
}

func xmlEndModel(in *Interp, site ssa.CallInstruction, name string, args []Val) (Val, bool) {
	if name == "(encoding/xml.StartElement).End" {
		t := in.c.P.lookupType("encoding/xml", "EndElement")
		return Opaque{"end(" + keyOf(args[0]) + ")", t}, true
	}
	return nil, false
}

func c15Marshal(c *Ctx, mx *ssa.Function, raw *types.Named) DTXSpec {
	return c15MarshalAt(c, mx, raw, 2, nil, nil)
}

// c15MarshalAt: the replay table of fn. last, when set, builds the trailing
// argument (MarshalXML: a start element; a recursion helper: its depth
// counter); skip, when set, excludes trees that cannot have been captured.
func c15MarshalAt(c *Ctx, mx *ssa.Function, raw *types.Named, treeDepth int, last func() Val, skip func(seq []string) bool) DTXSpec {
	var want []string
	skipped := false
	return DTXSpec{Name: "RawXMLValue.MarshalXML", Entry: mx,
		Setup: func(in *Interp) {
			in.Models = append(in.Models, xmlEndModel, func(in *Interp, site ssa.CallInstruction, name string, args []Val) (Val, bool) {
				switch name {
				case "(*encoding/xml.Encoder).EncodeToken":
					in.effect("EncodeToken", site.Pos(), args[1])
					if in.truth(LazyBool{fmt.Sprintf("fails:encode#%d", len(in.Trace))}) {
						return in.mkErr(&ErrObj{Kind: "ext", Msg: kStr("write error")}), true
					}
					return kNil, true
				case "(*encoding/xml.Encoder).Encode":
					in.effect("Encode", site.Pos(), args[1])
					return kNil, true
				}
				return nil, false
			})
			in.MaxRecursion = 6
		},
		Args: func(in *Interp) []Val {
			startT := c.P.lookupType("encoding/xml", "StartElement")
			lastArg := zeroOf(startT)
			if last != nil {
				lastArg = last()
			}
			skipped = false
			if in.truth(LazyBool{"marshal-only"}) {
				st := zeroOf(raw).(Struct)
				st.F[2].Set(Iface{Dyn: types.Typ[types.String], V: kStr("payload")})
				want = []string{"Encode(\"payload\")"}
				return []Val{Ptr{&Cell{V: st, T: raw}}, Opaque{"encoder", mx.Params[1].Type()}, lastArg}
			}
			tree, _, seq := buildTree(in, raw, "r", treeDepth)
			want = nil
			for _, s := range seq {
				want = append(want, "EncodeToken("+s+")")
			}
			if skip != nil && skip(seq) {
				skipped = true
			}
			return []Val{Ptr{&Cell{V: tree, T: raw}}, Opaque{"encoder", mx.Params[1].Type()}, lastArg}
		},
		Observe: func(in *Interp, res Val, pan *panicOutcome) string {
			if pan != nil {
				return "panic"
			}
			out := strings.Join(effectStrings(in.Trace), " ")
			if k, ok := res.(Konst); !ok || k.V != nil {
				return "error after: " + out
			}
			return out
		},
		Check: func(env *OracleEnv, obs *Observation) (bool, string, bool) {
			got := effectStrings(obs.Trace)
			if skipped {
				return true, "", true
			}
			if obs.Panic != nil {
				return false, "no panic", true
			}
			failed := false
			if k, ok := obs.Ret.(Konst); !ok || k.V != nil {
				failed = true
			}
			// the emitted sequence is the expected one, cut at the first failing write
			exp := want
			if failed {
				if len(got) > len(want) {
					return false, strings.Join(want, " "), true
				}
				exp = want[:len(got)]
			}
			if strings.Join(got, " ") != strings.Join(exp, " ") {
				return false, strings.Join(want, " "), true
			}
			// an error is returned iff a write failed
			anyFail := false
			for i := range got {
				if env.Decided(fmt.Sprintf("fails:encode#%d", i+1)) && env.Bool(fmt.Sprintf("fails:encode#%d", i+1)) {
					anyFail = true
				}
			}
			if anyFail != failed {
				return false, "an error exactly when a write fails", true
			}
			return true, "", true
		},
	}
}

func c15Reader(c *Ctx, trd, tokFn *ssa.Function, raw *types.Named) DTXSpec {
	var want []string
	return DTXSpec{Name: "TokenReader.Token", Entry: trd,
		Setup: func(in *Interp) {
			in.Models = append(in.Models, xmlEndModel)
			in.MaxRecursion = 8
		},
		Args: func(in *Interp) []Val {
			tree, _, seq := buildTree(in, raw, "r", 2)
			want = seq
			return []Val{Ptr{&Cell{V: tree, T: raw}}}
		},
		Observe: func(in *Interp, res Val, pan *panicOutcome) string {
			if pan != nil {
				return "panic"
			}
			iv, ok := res.(Iface)
			if !ok {
				return "no-reader"
			}
			var got []string
			for i := 0; i < len(want)+3; i++ {
				r := in.Call(tokFn, []Val{iv.V}, nil).(Tuple)
				if k, isK := r.E[1].(Konst); !isK || k.V != nil {
					if sn, isS := sentinelName(r.E[1]); isS && sn == "io.EOF" {
						got = append(got, "EOF")
						// EOF is sticky
						r2 := in.Call(tokFn, []Val{iv.V}, nil).(Tuple)
						if sn2, ok2 := sentinelName(r2.E[1]); !ok2 || sn2 != "io.EOF" {
							got = append(got, "not-sticky")
						}
						break
					}
					got = append(got, "error")
					break
				}
				_, id := tokKind(r.E[0])
				if id == "" {
					id = keyOf(r.E[0])
				}
				got = append(got, id)
			}
			return strings.Join(got, " ")
		},
		Oracle: func(env *OracleEnv) ([]string, bool) {
			return []string{strings.Join(append(append([]string{}, want...), "EOF"), " ")}, true
		},
	}
}

// depthHelper: the function the capture delegates to that takes the decoder,
// the start element and an integer (the depth counter), and calls itself.
// depthLevels: the nesting levels worth examining: 0, 1 and the neighbourhood
// of every integer constant a depth helper compares with.
func depthLevels(fns ...*ssa.Function) []int64 {
	set := map[int64]bool{0: true, 1: true}
	for _, fn := range fns {
		if fn == nil {
			continue
		}
		eachInstr(fn, func(b *ssa.BasicBlock, in ssa.Instruction) {
			bo, ok := in.(*ssa.BinOp)
			if !ok {
				return
			}
			switch bo.Op {
			case token.LSS, token.LEQ, token.GTR, token.GEQ, token.EQL, token.NEQ:
			default:
				return
			}
			for _, op := range []ssa.Value{bo.X, bo.Y} {
				if k, ok := op.(*ssa.Const); ok && k.Value != nil && k.Value.Kind() == constant.Int {
					if v, ok := constant.Int64Val(k.Value); ok {
						for _, d := range []int64{-2, -1, 0, 1} {
							if v+d >= 0 && v+d < 1<<40 {
								set[v+d] = true
							}
						}
					}
				}
			}
		})
	}
	var out []int64
	for v := range set {
		out = append(out, v)
	}
	sort.Slice(out, func(i, j int) bool { return out[i] < out[j] })
	return out
}

func depthHelper(c *Ctx, um *ssa.Function) *ssa.Function {
	var found *ssa.Function
	eachCall(um, func(site ssa.CallInstruction) {
		g := site.Common().StaticCallee()
		if g == nil || !c.P.InModule(g) || len(g.Params) < 2 {
			return
		}
		last := g.Params[len(g.Params)-1]
		if b, ok := last.Type().Underlying().(*types.Basic); !ok || b.Info()&types.IsInteger == 0 {
			return
		}
		self := false
		eachCall(g, func(s2 ssa.CallInstruction) {
			if s2.Common().StaticCallee() == g {
				self = true
			}
		})
		if self {
			found = g
		}
	})
	return found
}

// depthRefusalRule: where the recursive capture compares its depth counter
// with the bound, the side on which the bound is reached ends the capture
// with an error. Going on instead (skipping the element, truncating) hands
// out a value that is not the tree that was sent, with no error: marshal,
// token replay and typed decoding of it silently differ from the input.
func depthRefusalRule(c *Ctx, pr *PropertyRun, helper *ssa.Function) {
	p := c.P
	r := NewRule("C15", "C15.depth-refusal", "the capture's test of its depth counter against the bound leads, on the side where the bound is reached, only to returns of a non-nil error (E4)")
	pr.Rules = append(pr.Rules, r)
	depth := helper.Params[len(helper.Params)-1]
	fromDepth := func(v ssa.Value) bool {
		for i := 0; i < 3; i++ {
			if v == ssa.Value(depth) {
				return true
			}
			bo, ok := v.(*ssa.BinOp)
			if !ok || (bo.Op != token.ADD && bo.Op != token.SUB) {
				return false
			}
			if _, isC := bo.Y.(*ssa.Const); isC {
				v = bo.X
			} else if _, isC := bo.X.(*ssa.Const); isC {
				v = bo.Y
			} else {
				return false
			}
		}
		return false
	}
	eachInstr(helper, func(_ *ssa.BasicBlock, in ssa.Instruction) {
		iff, ok := in.(*ssa.If)
		if !ok {
			return
		}
		bo, ok := iff.Cond.(*ssa.BinOp)
		if !ok {
			return
		}
		var k int64
		depthLeft := false
		if cst, isC := bo.Y.(*ssa.Const); isC && fromDepth(bo.X) {
			k, _ = constInt(cst)
			depthLeft = true
		} else if cst, isC := bo.X.(*ssa.Const); isC && fromDepth(bo.Y) {
			k, _ = constInt(cst)
		} else {
			return
		}
		if k < 100 {
			return // not the nesting bound
		}
		// the successor on which depth has reached the bound
		reached := -1
		switch bo.Op {
		case token.GEQ, token.GTR:
			reached = map[bool]int{true: 0, false: 1}[depthLeft]
		case token.LSS, token.LEQ:
			reached = map[bool]int{true: 1, false: 0}[depthLeft]
		default:
			return
		}
		r.Role("depth-bound-test")
		succ := iff.Block().Succs[reached]
		ok = true
		why := ""
		seen := map[*ssa.BasicBlock]bool{}
		stack := []*ssa.BasicBlock{succ}
		for len(stack) > 0 {
			b := stack[len(stack)-1]
			stack = stack[:len(stack)-1]
			if seen[b] {
				continue
			}
			seen[b] = true
			if b == iff.Block() {
				ok, why = false, "the capture goes on (back to the loop) after the bound was reached"
				break
			}
			if ret, isRet := b.Instrs[len(b.Instrs)-1].(*ssa.Return); isRet {
				for _, res := range ret.Results {
					if isErrorType(res.Type()) {
						if cst, isC := res.(*ssa.Const); isC && cst.IsNil() {
							ok, why = false, "a return without error is reachable after the bound was reached"
						}
					}
				}
				continue
			}
			stack = append(stack, b.Succs...)
		}
		r.Ob(ok)
		if !ok {
			r.Violation("depth-not-refused|"+fnKey(helper), p.instrPos(iff), fmt.Sprintf("%s: %s: an element nested beyond the bound is dropped or cut instead of being refused, so what is captured is not the tree that was sent and nobody is told", fnKey(helper), why), nil)
		}
	})
	r.RequireRole("depth-bound-test")
}
