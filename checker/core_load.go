package main

// Loading of /repo's current working tree: go/packages (syntax + types for the
// whole dependency closure), go/ssa for everything, and the indexes the
// engines share. Nothing is cached between runs: every invocation parses and
// type-checks the tree as it is now.

import (
	"fmt"
	"go/ast"
	"go/token"
	"go/types"
	"os"
	"sort"
	"strings"

	"golang.org/x/tools/go/packages"
	"golang.org/x/tools/go/ssa"
	"golang.org/x/tools/go/ssa/ssautil"
)

const modulePath = "github.com/emersion/go-webdav"

// controlFileName is the name of the virtual file injected (via
// packages.Config.Overlay) into library packages. It holds the positive
// controls: constructs that a rule MUST report. Nothing is written to /repo.
const controlFileName = "zz_verif_control.go"

type Program struct {
	RepoDir string
	GOOS    string
	Fset    *token.FileSet
	All     []*packages.Package          // every package of the closure
	Mod     map[string]*packages.Package // module packages by import path
	Prog    *ssa.Program
	SSAPkg  map[string]*ssa.Package // module packages by import path
	AllFns  map[*ssa.Function]bool  // ssautil.AllFunctions
	ModFns  []*ssa.Function         // functions whose package is in the module (sorted)
	byObj   map[*types.Func]*ssa.Function
	Control bool // overlay controls injected
}

// short package keys used all over the rules.
const (
	pkgWebdav   = modulePath
	pkgInternal = modulePath + "/internal"
	pkgCaldav   = modulePath + "/caldav"
	pkgCarddav  = modulePath + "/carddav"
	pkgCmd      = modulePath + "/cmd/webdav-server"
)

var libPkgs = []string{pkgWebdav, pkgInternal, pkgCaldav, pkgCarddav}

type LoadOptions struct {
	RepoDir  string
	GOOS     string            // "" = linux
	Controls map[string]string // import path -> source of the control file ("" = none)
}

func repoDir() string {
	if d := os.Getenv("VERIF_REPO"); d != "" {
		return d
	}
	return "/repo"
}

func Load(opt LoadOptions) (*Program, error) {
	if opt.RepoDir == "" {
		opt.RepoDir = repoDir()
	}
	goos := opt.GOOS
	if goos == "" {
		goos = "linux"
	}
	env := []string{}
	for _, kv := range os.Environ() {
		k := kv
		if i := strings.IndexByte(kv, '='); i >= 0 {
			k = kv[:i]
		}
		switch k {
		case "GOFLAGS", "GOPROXY", "GOSUMDB", "GOWORK", "GOTOOLCHAIN", "CGO_ENABLED", "GOOS", "GOARCH", "GO111MODULE":
			continue
		}
		env = append(env, kv)
	}
	env = append(env,
		"GOFLAGS=-mod=mod", "GOPROXY=off", "GOSUMDB=off", "GOWORK=off",
		"GOTOOLCHAIN=local", "CGO_ENABLED=0", "GOOS="+goos, "GOARCH=amd64", "GO111MODULE=on")

	fset := token.NewFileSet()
	cfg := &packages.Config{
		Mode:  packages.LoadAllSyntax,
		Dir:   opt.RepoDir,
		Env:   env,
		Fset:  fset,
		Tests: false,
	}
	if len(opt.Controls) > 0 {
		cfg.Overlay = map[string][]byte{}
		for ip, src := range opt.Controls {
			if src == "" {
				continue
			}
			rel := strings.TrimPrefix(strings.TrimPrefix(ip, modulePath), "/")
			dir := opt.RepoDir
			if rel != "" {
				dir = opt.RepoDir + "/" + rel
			}
			cfg.Overlay[dir+"/"+controlFileName] = []byte(src)
		}
	}
	pkgs, err := packages.Load(cfg, "./...")
	if err != nil {
		return nil, fmt.Errorf("load: %v", err)
	}
	if len(pkgs) == 0 {
		return nil, fmt.Errorf("load: no packages matched ./... in %s", opt.RepoDir)
	}
	p := &Program{RepoDir: opt.RepoDir, GOOS: goos, Fset: fset, Mod: map[string]*packages.Package{}, Control: len(opt.Controls) > 0}
	var errs []string
	packages.Visit(pkgs, nil, func(pk *packages.Package) {
		p.All = append(p.All, pk)
		for _, e := range pk.Errors {
			errs = append(errs, fmt.Sprintf("%s: %v", pk.PkgPath, e))
		}
		if pk.PkgPath == modulePath || strings.HasPrefix(pk.PkgPath, modulePath+"/") {
			p.Mod[pk.PkgPath] = pk
		}
	})
	if len(errs) > 0 {
		sort.Strings(errs)
		if len(errs) > 20 {
			errs = errs[:20]
		}
		return nil, fmt.Errorf("load: package errors (the tree must type-check):\n  %s", strings.Join(errs, "\n  "))
	}
	for _, ip := range libPkgs {
		if p.Mod[ip] == nil {
			return nil, fmt.Errorf("load: library package %s not found", ip)
		}
		if p.Mod[ip].Types == nil || p.Mod[ip].TypesInfo == nil {
			return nil, fmt.Errorf("load: library package %s has no type information", ip)
		}
	}

	prog, _ := ssautil.AllPackages(pkgs, ssa.InstantiateGenerics)
	prog.Build()
	p.Prog = prog
	p.SSAPkg = map[string]*ssa.Package{}
	for ip, pk := range p.Mod {
		sp := prog.Package(pk.Types)
		if sp == nil {
			return nil, fmt.Errorf("load: no SSA package for %s", ip)
		}
		p.SSAPkg[ip] = sp
	}
	p.AllFns = ssautil.AllFunctions(prog)
	p.byObj = map[*types.Func]*ssa.Function{}
	for fn := range p.AllFns {
		if o, ok := fn.Object().(*types.Func); ok && o != nil {
			p.byObj[o] = fn
		}
		if p.InModule(fn) {
			p.ModFns = append(p.ModFns, fn)
		}
	}
	sort.Slice(p.ModFns, func(i, j int) bool { return fnKey(p.ModFns[i]) < fnKey(p.ModFns[j]) })
	if len(p.ModFns) == 0 {
		return nil, fmt.Errorf("load: zero functions in module packages")
	}
	return p, nil
}

// fnPkg returns the types.Package a function belongs to (closures: the
// enclosing function's).
func fnPkg(fn *ssa.Function) *types.Package {
	for fn != nil {
		if fn.Pkg != nil {
			return fn.Pkg.Pkg
		}
		if o := fn.Object(); o != nil && o.Pkg() != nil {
			return o.Pkg()
		}
		if fn.Parent() != nil {
			fn = fn.Parent()
			continue
		}
		if fn.Origin() != nil && fn.Origin() != fn {
			fn = fn.Origin()
			continue
		}
		return nil
	}
	return nil
}

func (p *Program) InModule(fn *ssa.Function) bool {
	pk := fnPkg(fn)
	if pk == nil {
		return false
	}
	return pk.Path() == modulePath || strings.HasPrefix(pk.Path(), modulePath+"/")
}

func inLib(fn *ssa.Function) bool {
	pk := fnPkg(fn)
	if pk == nil {
		return false
	}
	for _, ip := range libPkgs {
		if pk.Path() == ip {
			return true
		}
	}
	return false
}

// fnKey is a stable, line-free name for a function: pkg.(Recv).Name, with
// closures as parent$N.
func fnKey(fn *ssa.Function) string {
	if fn == nil {
		return "<nil>"
	}
	s := fn.String()
	s = strings.ReplaceAll(s, modulePath+"/", "")
	s = strings.ReplaceAll(s, modulePath, "webdav")
	return s
}

// isControlFn reports whether fn is declared in the injected control file.
func (p *Program) isControlFn(fn *ssa.Function) bool {
	for fn != nil {
		if fn.Pos().IsValid() {
			return strings.HasSuffix(p.Fset.Position(fn.Pos()).Filename, controlFileName)
		}
		fn = fn.Parent()
	}
	return false
}

func (p *Program) isControlPos(pos token.Pos) bool {
	if !pos.IsValid() {
		return false
	}
	return strings.HasSuffix(p.Fset.Position(pos).Filename, controlFileName)
}

// Pos renders a position relative to the repository root.
func (p *Program) Pos(pos token.Pos) string {
	if !pos.IsValid() {
		return "-"
	}
	ps := p.Fset.Position(pos)
	f := strings.TrimPrefix(ps.Filename, p.RepoDir+"/")
	return fmt.Sprintf("%s:%d", f, ps.Line)
}

// instrPos finds a usable position for an instruction (falls back to the
// enclosing function).
func (p *Program) instrPos(in ssa.Instruction) string {
	if in.Pos().IsValid() {
		return p.Pos(in.Pos())
	}
	if iff, ok := in.(*ssa.If); ok && iff.Cond.Pos().IsValid() {
		return p.Pos(iff.Cond.Pos())
	}
	if v, ok := in.(ssa.Value); ok {
		for _, r := range *v.Referrers() {
			if r.Pos().IsValid() {
				return p.Pos(r.Pos())
			}
		}
	}
	if in.Parent() != nil {
		return p.Pos(in.Parent().Pos()) + " (in " + fnKey(in.Parent()) + ")"
	}
	return "-"
}

// Func resolves "pkgpath", "Name" or "pkgpath", "(T).Name" / "(*T).Name" to
// the SSA function. Resolution is by types object, never by text position.
func (p *Program) Func(pkgPath, name string) *ssa.Function {
	// unexported helpers: by what they are first, by name as the fallback
	if fn := p.structuralFunc(pkgPath, name); fn != nil {
		return fn
	}
	return p.funcByName(pkgPath, name)
}

func (p *Program) funcByName(pkgPath, name string) *ssa.Function {
	sp := p.SSAPkg[pkgPath]
	if sp == nil {
		return nil
	}
	if strings.HasPrefix(name, "(") {
		i := strings.Index(name, ").")
		if i < 0 {
			return nil
		}
		recv, meth := name[1:i], name[i+2:]
		ptr := strings.HasPrefix(recv, "*")
		recv = strings.TrimPrefix(recv, "*")
		tn, _ := sp.Pkg.Scope().Lookup(recv).(*types.TypeName)
		if tn == nil {
			return nil
		}
		var t types.Type = tn.Type()
		if ptr {
			t = types.NewPointer(t)
		}
		sel := p.Prog.MethodSets.MethodSet(t).Lookup(sp.Pkg, meth)
		if sel == nil {
			return nil
		}
		return p.Prog.MethodValue(sel)
	}
	return sp.Func(name)
}

// MustFunc is Func that records an unresolved anchor.
func (p *Program) MustFunc(r *RuleResult, pkgPath, name string) *ssa.Function {
	fn := p.Func(pkgPath, name)
	if fn == nil {
		r.Unresolved("anchor " + pkgPath + "." + name + " not found in the current tree")
	}
	return fn
}

func (p *Program) FuncOf(o *types.Func) *ssa.Function { return p.byObj[o] }

// NamedType looks up a named type of a module package.
func (p *Program) NamedType(pkgPath, name string) *types.Named {
	if n := p.structuralType(pkgPath, name); n != nil {
		return n
	}
	return p.NamedTypeByName(pkgPath, name)
}

func (p *Program) NamedTypeByName(pkgPath, name string) *types.Named {
	pk := p.Mod[pkgPath]
	if pk == nil {
		return nil
	}
	tn, _ := pk.Types.Scope().Lookup(name).(*types.TypeName)
	if tn == nil {
		return nil
	}
	n, _ := tn.Type().(*types.Named)
	return n
}

// ExtFunc finds a function/method of a non-module package by path and name
// (e.g. "os", "Open"; "net/http", "(Header).Get").
func (p *Program) ExtFunc(pkgPath, name string) *ssa.Function {
	for _, pk := range p.All {
		if pk.PkgPath != pkgPath || pk.Types == nil {
			continue
		}
		sp := p.Prog.Package(pk.Types)
		if sp == nil {
			return nil
		}
		if strings.HasPrefix(name, "(") {
			i := strings.Index(name, ").")
			recv, meth := name[1:i], name[i+2:]
			ptr := strings.HasPrefix(recv, "*")
			recv = strings.TrimPrefix(recv, "*")
			tn, _ := pk.Types.Scope().Lookup(recv).(*types.TypeName)
			if tn == nil {
				return nil
			}
			var t types.Type = tn.Type()
			if ptr {
				t = types.NewPointer(t)
			}
			sel := p.Prog.MethodSets.MethodSet(t).Lookup(pk.Types, meth)
			if sel == nil {
				return nil
			}
			return p.Prog.MethodValue(sel)
		}
		return sp.Func(name)
	}
	return nil
}

// funcDecl returns the syntax of a source function, if any.
func funcSyntax(fn *ssa.Function) ast.Node { return fn.Syntax() }

// calleeName renders the static callee of a call as "pkgpath.Name" or
// "pkgpath.(Recv).Name"; interface invocations as "iface:pkg.Type.Method".
func calleeName(c *ssa.CallCommon) string {
	if c.IsInvoke() {
		recv := c.Value.Type().String()
		return "iface:" + recv + "." + c.Method.Name()
	}
	if f := c.StaticCallee(); f != nil {
		return fullFnName(f)
	}
	if b, ok := c.Value.(*ssa.Builtin); ok {
		return "builtin." + b.Name()
	}
	return "dynamic"
}

// fullFnName: unshortened, e.g. "os.Open", "(*os.File).Close",
// "(net/http.Header).Get".
func fullFnName(f *ssa.Function) string {
	if f == nil {
		return "<nil>"
	}
	if o := f.Object(); o != nil {
		if fo, ok := o.(*types.Func); ok {
			return fo.FullName()
		}
	}
	return f.String()
}
