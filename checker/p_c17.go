package main

// C17 — responses never disclose where the served directory lives on the
// host. Decided by the fault exploration of the whole file server (p_fs.go):
// strings carry a "mentions the host path" bit; the Error() texts of
// *fs.PathError / *os.LinkError / *os.SyscallError mention their paths;
// errFromOS is analysed, not assumed.

func init() { register("C17", runC17) }

func runC17(c *Ctx, pr *PropertyRun) {
	pr.Explanation = "Decided: a taint argument over all responses of the file server, by abstract interpretation of webdav.(*Handler).ServeHTTP with LocalFileSystem bound (nothing is executed): the source is the host path (localPath's result and the Error() text of every OS error that names it: *fs.PathError, *os.LinkError, *os.SyscallError); the sinks are everything written to the ResponseWriter (http.Error text in ServeError, header values, the content name handed to ServeContent). For every method and every OS call it makes, each outcome (success or each errno class, as an abstract error of the dynamic type the real call returns) is followed through errFromOS, the adapter and ServeError — errFromOS is analysed, not assumed, so what it strips is read from its errors.As targets and from the fields the rebuilt message uses. Reported hrefs are relative by C03.hrefs. " +
		"NOT decided: nothing material — this property is visible in the shape of the code; trusted are the Error() formats of the three standard error types."
	pr.Assumptions = append(pr.Assumptions, "the Error() text of *fs.PathError, *os.LinkError and *os.SyscallError contains their path fields (standard library)", "failing writes/closes of an *os.File are *fs.PathError values naming the file")
	pr.Trusted = append(pr.Trusted, "golang.org/x/tools/go/ssa v0.29.0", "the interpreter's OS-call models (checker/p_fs.go)")
	fsFaultRules(c, pr, "C17")
}
