package main

// Structural anchors. Exported entry points are resolved by name (their names
// are API). UNEXPORTED helpers and types are resolved by what they are — a
// signature, an interface they implement, a callee that characterises them —
// so that renaming a helper leaves every verdict unchanged; the name is only
// the fallback when the structural description matches nothing or is
// ambiguous.

import (
	"go/types"
	"strings"

	"golang.org/x/tools/go/ssa"
)

func typeStr(t types.Type) string {
	t = deepUnalias(t)
	return types.TypeString(t, func(p *types.Package) string {
		pp := p.Path()
		if pp == modulePath {
			return "webdav"
		}
		return strings.TrimPrefix(pp, modulePath+"/")
	})
}

// deepUnalias: os.FileInfo is an alias of io/fs.FileInfo.
func deepUnalias(t types.Type) types.Type {
	t = types.Unalias(t)
	switch x := t.(type) {
	case *types.Pointer:
		return types.NewPointer(deepUnalias(x.Elem()))
	case *types.Slice:
		return types.NewSlice(deepUnalias(x.Elem()))
	}
	return t
}

// sigString: "(string, io/fs.FileInfo) (*webdav.FileInfo)" — parameter and
// result types only.
func sigString(sig *types.Signature) string {
	var ps, rs []string
	for i := 0; i < sig.Params().Len(); i++ {
		ps = append(ps, typeStr(sig.Params().At(i).Type()))
	}
	for i := 0; i < sig.Results().Len(); i++ {
		rs = append(rs, typeStr(sig.Results().At(i).Type()))
	}
	return "(" + strings.Join(ps, ", ") + ") (" + strings.Join(rs, ", ") + ")"
}

func (p *Program) callsExt(fn *ssa.Function, callee string) bool {
	found := false
	eachCall(fn, func(site ssa.CallInstruction) {
		if calleeName(site.Common()) == callee {
			found = true
		}
	})
	return found
}

// uniqueFunc: the single source function of pkg satisfying pred.
func (p *Program) uniqueFunc(pkgPath string, pred func(fn *ssa.Function) bool) *ssa.Function {
	var found *ssa.Function
	for _, fn := range p.ModFns {
		if fnPkg(fn) == nil || fnPkg(fn).Path() != pkgPath || fn.Synthetic != "" || fn.Parent() != nil || len(fn.Blocks) == 0 || p.isControlFn(fn) {
			continue
		}
		if pred(fn) {
			if found != nil {
				return nil
			}
			found = fn
		}
	}
	return found
}

// uniqueType: the single named type declared in pkg satisfying pred.
func (p *Program) uniqueType(pkgPath string, pred func(n *types.Named) bool) *types.Named {
	pk := p.Mod[pkgPath]
	if pk == nil {
		return nil
	}
	var found *types.Named
	for _, name := range pk.Types.Scope().Names() {
		tn, ok := pk.Types.Scope().Lookup(name).(*types.TypeName)
		if !ok || strings.HasPrefix(name, "zzVerifControl") || strings.HasPrefix(name, "ZzVerifControl") {
			continue
		}
		n, ok := tn.Type().(*types.Named)
		if !ok || tn.IsAlias() {
			continue
		}
		if pred(n) {
			if found != nil {
				return nil
			}
			found = n
		}
	}
	return found
}

func (p *Program) hasMethod(n *types.Named, ptr bool, name, sig string) bool {
	var t types.Type = n
	if ptr {
		t = types.NewPointer(n)
	}
	sel := p.Prog.MethodSets.MethodSet(t).Lookup(n.Obj().Pkg(), name)
	if sel == nil {
		return false
	}
	return sig == "" || sigString(sel.Type().(*types.Signature)) == sig
}

// structuralType resolves the unexported types the rules refer to.
func (p *Program) structuralType(pkgPath, name string) *types.Named {
	switch name {
	case "backend":
		// the adapter: the unexported type whose pointer implements internal.Backend
		bi := p.NamedTypeByName(pkgInternal, "Backend")
		if bi == nil {
			return nil
		}
		it, ok := bi.Underlying().(*types.Interface)
		if !ok {
			return nil
		}
		return p.uniqueType(pkgPath, func(n *types.Named) bool {
			return !n.Obj().Exported() && types.Implements(types.NewPointer(n), it)
		})
	case "fileWriter":
		// the upload writer: unexported, *T has Write and Close
		return p.uniqueType(pkgPath, func(n *types.Named) bool {
			return !n.Obj().Exported() && p.hasMethod(n, true, "Write", "([]byte) (int, error)") && p.hasMethod(n, true, "Close", "() (error)")
		})
	case "rawXMLValueReader":
		return p.uniqueType(pkgPath, func(n *types.Named) bool {
			return !n.Obj().Exported() && p.hasMethod(n, true, "Token", "() (encoding/xml.Token, error)")
		})
	case "negateCondition":
		return p.uniqueType(pkgPath, func(n *types.Named) bool {
			b, ok := n.Underlying().(*types.Basic)
			return ok && b.Kind() == types.Bool && p.hasMethod(n, false, "MarshalText", "")
		})
	}
	return nil
}

// structuralFunc resolves the unexported functions the rules refer to.
func (p *Program) structuralFunc(pkgPath, name string) *ssa.Function {
	if strings.HasPrefix(name, "(") {
		i := strings.Index(name, ").")
		if i < 0 {
			return nil
		}
		recv, meth := strings.TrimPrefix(name[1:i], "*"), name[i+2:]
		ptr := strings.HasPrefix(name[1:i], "*")
		switch recv {
		case "backend", "fileWriter", "rawXMLValueReader", "negateCondition":
			n := p.structuralType(pkgPath, recv)
			if n == nil {
				return nil
			}
			var t types.Type = n
			if ptr {
				t = types.NewPointer(n)
			}
			if sel := p.Prog.MethodSets.MethodSet(t).Lookup(n.Obj().Pkg(), meth); sel != nil {
				return p.Prog.MethodValue(sel)
			}
			return nil
		case "LocalFileSystem":
			// the two path translators share a signature; the sanitiser joins
			// the name onto the root, the other makes a path relative to it
			want := map[string]string{"localPath": "path/filepath.Join", "externalPath": "path/filepath.Rel"}[meth]
			if want == "" {
				return nil
			}
			return p.uniqueFunc(pkgPath, func(fn *ssa.Function) bool {
				rn := recvNamed(fn)
				return rn != nil && rn.Obj().Name() == "LocalFileSystem" && !fn.Object().Exported() && sigString(fn.Signature) == "(string) (string, error)" && p.callsExt(fn, want)
			})
		}
		return nil
	}
	bySig := map[string]string{
		"webdav|checkConditionalMatches": "(*webdav.FileInfo, webdav.ConditionalMatch, webdav.ConditionalMatch) (error)",
		"webdav|fileInfoFromOS":          "(string, io/fs.FileInfo) (*webdav.FileInfo)",
		"webdav|fileInfoFromResponse":    "(*internal.Response) (*webdav.FileInfo, error)",
		"carddav|filterProperties":       "(carddav.AddressDataRequest, carddav.AddressObject) (carddav.AddressObject)",
		"carddav|encodeAddressPropReq":   "(*carddav.AddressDataRequest) (*internal.Prop, error)",
	}
	short := "webdav"
	if pkgPath != modulePath {
		short = strings.TrimPrefix(pkgPath, modulePath+"/")
	}
	want, ok := bySig[short+"|"+name]
	if !ok {
		return nil
	}
	return p.uniqueFunc(pkgPath, func(fn *ssa.Function) bool {
		return fn.Signature.Recv() == nil && fn.Object() != nil && !fn.Object().Exported() && sigString(fn.Signature) == want
	})
}

// forwardedPrimitive: fn is a forwarding wrapper of the module around one
// file-system primitive (its body is a single call of a function of os,
// io/ioutil or path/filepath with its own parameters as arguments): the name
// of that primitive, else "".
func forwardedPrimitive(p *Program, fn *ssa.Function) string {
	if fn == nil || !p.InModule(fn) || len(fn.Blocks) != 1 {
		return ""
	}
	var inner *ssa.CallCommon
	n := 0
	eachCall(fn, func(site ssa.CallInstruction) {
		n++
		inner = site.Common()
	})
	if n != 1 || inner == nil {
		return ""
	}
	callee := inner.StaticCallee()
	if callee == nil || callee.Pkg == nil {
		return ""
	}
	switch callee.Pkg.Pkg.Path() {
	case "os", "io/ioutil", "path/filepath":
	default:
		return ""
	}
	for _, a := range inner.Args {
		if _, isParam := a.(*ssa.Parameter); !isParam {
			if _, isConst := a.(*ssa.Const); !isConst {
				return ""
			}
		}
	}
	return fullFnName(callee)
}

// fsPrimitiveName: the file-system primitive a call site calls, directly or
// through a forwarding wrapper (a static callee, or every implementation in
// the module of the interface method invoked).
func fsPrimitiveName(p *Program, cc *ssa.CallCommon) string {
	if !cc.IsInvoke() {
		if f := cc.StaticCallee(); f != nil {
			if w := forwardedPrimitive(p, f); w != "" {
				return w
			}
		}
		return calleeName(cc)
	}
	it, ok := cc.Value.Type().Underlying().(*types.Interface)
	if !ok {
		return calleeName(cc)
	}
	found := ""
	for _, fn := range p.ModFns {
		if fn.Name() != cc.Method.Name() || fn.Signature.Recv() == nil || fn.Synthetic != "" {
			continue
		}
		if !types.Implements(fn.Signature.Recv().Type(), it) {
			continue
		}
		w := forwardedPrimitive(p, fn)
		if w == "" || (found != "" && found != w) {
			return calleeName(cc)
		}
		found = w
	}
	if found != "" {
		return found
	}
	return calleeName(cc)
}
