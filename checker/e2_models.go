package main

// E2 dtx — exact models of the standard-library functions the interpreted
// code relies on, and abstract error objects.

import (
	"path"
	"fmt"
	"go/constant"
	"go/token"
	"go/types"
	"hash/fnv"
	"strings"

	"golang.org/x/tools/go/ssa"
)

// ErrObj is an abstract error created by errors.New / fmt.Errorf or returned
// by a modelled external call.
type ErrObj struct {
	Kind    string // "new" | "wrap" | "os:PathError" | "os:LinkError" | "os:SyscallError" | "errno" | "ext"
	Msg     Val    // the Error() text (Konst or SymStr)
	Wrapped Val    // inner error (interface value) or nil
	Errno   string // for Kind errno: ENOENT, EEXIST, ...
	Op      Val
	Key     string
}

func keyOfErr(e *ErrObj) string {
	if e.Key != "" {
		return e.Key
	}
	return e.Kind + ":" + keyOf(e.Msg)
}

// lookupType finds a (possibly unexported) named type of a loaded package.
func (p *Program) lookupType(pkgPath, name string) types.Type {
	for _, pk := range p.All {
		if pk.PkgPath == pkgPath && pk.Types != nil {
			if o := pk.Types.Scope().Lookup(name); o != nil {
				return o.Type()
			}
		}
	}
	return nil
}

func (in *Interp) errType(kind string) types.Type {
	p := in.c.P
	var t types.Type
	switch kind {
	case "new":
		t = p.lookupType("errors", "errorString")
	case "wrap":
		t = p.lookupType("fmt", "wrapError")
	case "os:PathError":
		t = p.lookupType("io/fs", "PathError")
	case "os:LinkError":
		t = p.lookupType("os", "LinkError")
	case "os:SyscallError":
		t = p.lookupType("os", "SyscallError")
	case "errno":
		if tt := p.lookupType("syscall", "Errno"); tt != nil {
			return tt
		}
	}
	if t == nil {
		return types.Typ[types.Invalid]
	}
	return types.NewPointer(t)
}

func (in *Interp) mkErr(e *ErrObj) Val {
	return Iface{Dyn: in.errType(e.Kind), V: e}
}

// errnoMatches: which sentinel errors an errno class "Is".
func errnoMatches(errno, sentinel string) bool {
	switch sentinel {
	case "io/fs.ErrNotExist", "os.ErrNotExist":
		return errno == "ENOENT"
	case "io/fs.ErrExist", "os.ErrExist":
		return errno == "EEXIST" || errno == "ENOTEMPTY"
	case "io/fs.ErrPermission", "os.ErrPermission":
		return errno == "EACCES" || errno == "EPERM"
	}
	return false
}

// unwrapErr implements errors.Unwrap over abstract errors.
func (in *Interp) unwrapErr(v Val, site ssa.CallInstruction) (Val, bool) {
	iv, ok := v.(Iface)
	if !ok {
		return nil, false
	}
	if _, st, isOS := osStructErr(v); isOS {
		if e := structFieldByName(st, "Err"); e != nil && !isNilVal(e) {
			return e, true
		}
		return nil, false
	}
	switch e := iv.V.(type) {
	case *ErrObj:
		if e.Wrapped != nil {
			return e.Wrapped, true
		}
		return nil, false
	}
	// in-module error types with an Unwrap method: interpret it
	if iv.Dyn != types.Typ[types.Invalid] {
		ms := in.c.P.Prog.MethodSets.MethodSet(iv.Dyn)
		for i := 0; i < ms.Len(); i++ {
			if ms.At(i).Obj().Name() == "Unwrap" {
				if fn := in.c.P.Prog.MethodValue(ms.At(i)); fn != nil && len(fn.Blocks) > 0 && in.c.P.InModule(fn) {
					res := in.Call(fn, []Val{iv.V}, nil)
					if k, isK := res.(Konst); isK && k.V == nil {
						return nil, false
					}
					return res, true
				}
			}
		}
	}
	return nil, false
}

// errText evaluates err.Error() abstractly.
func (in *Interp) errText(v Val, site ssa.CallInstruction) Val {
	iv, ok := v.(Iface)
	if !ok {
		return SymStr{Key: "text(" + keyOf(v) + ")"}
	}
	if kind, st, isOS := osStructErr(v); isOS {
		// PathError: Op + " " + Path + ": " + Err; LinkError: Op Old New: Err;
		// SyscallError: Syscall + ": " + Err
		hp := false
		var ks []string
		for _, c := range st.F {
			f := c.Get()
			if hostPath(f) {
				hp = true
			}
			if fi, isI := f.(Iface); isI {
				t := in.errText(fi, site)
				if hostPath(t) {
					hp = true
				}
				ks = append(ks, keyOf(t))
			} else {
				ks = append(ks, keyOf(f))
			}
		}
		return SymStr{Key: kind + "(" + strings.Join(ks, " ") + ")", HostPath: hp}
	}
	switch e := iv.V.(type) {
	case *ErrObj:
		return e.Msg
	case Opaque:
		return SymStr{Key: "text(" + e.Key + ")"}
	}
	if iv.Dyn != types.Typ[types.Invalid] {
		if sel := in.c.P.Prog.MethodSets.MethodSet(iv.Dyn).Lookup(nil, "Error"); sel != nil {
			if fn := in.c.P.Prog.MethodValue(sel); fn != nil && len(fn.Blocks) > 0 && in.c.P.InModule(fn) {
				return in.Call(fn, []Val{iv.V}, nil)
			}
		}
	}
	return SymStr{Key: "text(" + keyOf(iv.V) + ")"}
}

// formatString models fmt.Sprintf: the result is an opaque string keyed by
// format and argument keys; it mentions the host path iff one of the
// formatted values does (strings directly, errors through their text).
func (in *Interp) formatString(format Val, args []Val, site ssa.CallInstruction) (Val, []Val) {
	var parts []string
	hp := false
	var wrapped []Val
	f, isConst := "", false
	if k, ok := format.(Konst); ok {
		f, isConst = constStringVal(k)
	}
	verbs := []byte{}
	if isConst {
		for i := 0; i < len(f); i++ {
			if f[i] != '%' {
				continue
			}
			i++
			for i < len(f) && strings.ContainsRune("+-# 0123456789.[]*", rune(f[i])) {
				i++
			}
			if i < len(f) && f[i] != '%' {
				verbs = append(verbs, f[i])
			}
		}
	}
	for i, a := range args {
		verb := byte('v')
		if i < len(verbs) {
			verb = verbs[i]
		}
		av := a
		if iv, ok := a.(Iface); ok {
			if verb == 'T' {
				parts = append(parts, "type")
				continue
			}
			if iv.Dyn == types.Typ[types.Invalid] || implementsError(iv.Dyn) {
				t := in.errText(a, site)
				if hostPath(t) {
					hp = true
				}
				if verb == 'w' {
					wrapped = append(wrapped, a)
				}
				parts = append(parts, keyOf(t))
				continue
			}
			av = iv.V
		}
		if hostPath(av) {
			hp = true
		}
		parts = append(parts, keyOf(av))
	}
	if isConst && len(args) == 0 && !strings.Contains(f, "%") {
		return kStr(f), nil
	}
	// A format made only of literal text and plain %s / %v verbs applied to
	// strings IS concatenation: give it the key the + operator gives, so that
	// Sprintf("%s/", p) and p + "/" are one symbol.
	if isConst && len(wrapped) == 0 {
		if v, ok := in.formatAsConcat(f, args); ok {
			return v, nil
		}
	}
	return SymStr{Key: "fmt(" + keyOf(format) + "|" + strings.Join(parts, ",") + ")", HostPath: hp}, wrapped
}

func (in *Interp) formatAsConcat(f string, args []Val) (Val, bool) {
	var pieces []Val
	lit := ""
	ai := 0
	for i := 0; i < len(f); i++ {
		if f[i] != '%' {
			lit += string(f[i])
			continue
		}
		if i+1 >= len(f) {
			return nil, false
		}
		switch f[i+1] {
		case '%':
			lit += "%"
		case 's', 'v', 'd':
			if ai >= len(args) {
				return nil, false
			}
			a := args[ai]
			ai++
			if iv, ok := a.(Iface); ok {
				a = iv.V
			}
			switch x := a.(type) {
			case SymStr:
				if f[i+1] == 'd' {
					return nil, false
				}
			case Konst:
				if _, isS := constStringVal(x); !isS {
					// %v of an integer is its decimal form
					if x.V == nil || x.V.Kind() != constant.Int || f[i+1] == 's' {
						return nil, false
					}
					a = in.itoaText(x)
				} else if f[i+1] == 'd' {
					return nil, false
				}
			case SymInt:
				if f[i+1] == 's' {
					return nil, false
				}
				a = in.itoaText(x)
			default:
				return nil, false
			}
			if lit != "" {
				pieces = append(pieces, kStr(lit))
				lit = ""
			}
			pieces = append(pieces, a)
		default:
			return nil, false
		}
		i++
	}
	if ai != len(args) {
		return nil, false
	}
	if lit != "" {
		pieces = append(pieces, kStr(lit))
	}
	if len(pieces) == 0 {
		return kStr(""), true
	}
	acc := pieces[0]
	for _, p := range pieces[1:] {
		// the same construction as binop(ADD) on strings
		if a, ok := acc.(Konst); ok {
			if b, ok := p.(Konst); ok {
				sa, _ := constStringVal(a)
				sb, _ := constStringVal(b)
				acc = kStr(sa + sb)
				continue
			}
		}
		acc = SymStr{Key: "(" + keyOf(acc) + "+" + keyOf(p) + ")", HostPath: hostPath(acc) || hostPath(p)}
	}
	return acc, true
}

func sliceArgs(in *Interp, v Val, site ssa.CallInstruction) []Val {
	s := in.sliceVal(v, site)
	var out []Val
	for _, c := range s.E {
		out = append(out, c.Get())
	}
	return out
}

func boolAtomOrConst(in *Interp, name string, a, b Val, f func(x, y string) bool) Val {
	if ka, ok := a.(Konst); ok {
		if kb, ok := b.(Konst); ok {
			if sa, ok := constStringVal(ka); ok {
				if sb, ok := constStringVal(kb); ok {
					return kBool(f(sa, sb))
				}
			}
		}
	}
	// two symbolic strings: every one of these predicates holds when the
	// strings are equal (keeps valuations consistent: eq=equal with
	// HasPrefix=false is not a state of the world)
	if sa, ok := a.(SymStr); ok {
		if sb, ok := b.(SymStr); ok && sa.Key != sb.Key {
			if in.ch.eqStr("s:"+sa.Key, "s:"+sb.Key) {
				return kBool(true)
			}
		} else if ok {
			return kBool(true)
		}
	}
	// a string is a prefix of itself with a suffix trimmed
	if name == "strings.HasPrefix" {
		if sa, ok := a.(SymStr); ok {
			if sb, ok := b.(SymStr); ok {
				if x, ok := trimmedOperand(sb.Key); ok {
					if x == sa.Key {
						return kBool(true)
					}
					if eq, known := in.ch.strs.known("s:"+sa.Key, "s:"+x); known && eq {
						return kBool(true)
					}
				}
			}
		}
	}
	return LazyBool{name + "(" + keyOf(a) + "," + keyOf(b) + ")"}
}

func builtinModels(in *Interp, site ssa.CallInstruction, name string, args []Val, cc *ssa.CallCommon) (Val, bool) {
	switch name {
	case "strings.Contains":
		return boolAtomOrConst(in, name, args[0], args[1], strings.Contains), true
	case "strings.HasPrefix":
		return boolAtomOrConst(in, name, args[0], args[1], strings.HasPrefix), true
	case "strings.HasSuffix":
		return boolAtomOrConst(in, name, args[0], args[1], strings.HasSuffix), true
	case "strings.EqualFold":
		return boolAtomOrConst(in, name, args[0], args[1], strings.EqualFold), true
	case "strings.IndexRune", "strings.Index", "strings.IndexByte", "strings.ContainsRune":
		// only the sign is observable: -1 or 0 — and it is the very fact
		// strings.Contains states: one atom for all spellings (a byte or rune
		// constant is the one-character string)
		needle := args[1]
		if k, isK := needle.(Konst); isK && k.V != nil && k.V.Kind() == constant.Int {
			if n, ok := constant.Int64Val(k.V); ok && n >= 0 && n <= 0x10FFFF {
				needle = kStr(string(rune(n)))
			}
		}
		var has bool
		isStr := false
		if nk, isK := needle.(Konst); isK {
			_, isStr = constStringVal(nk)
		}
		if isStr || name == "strings.Index" {
			b := boolAtomOrConst(in, "strings.Contains", args[0], needle, strings.Contains)
			has = in.truth(b)
		} else {
			has = in.truth(LazyBool{name + "(" + keyOf(args[0]) + "," + keyOf(args[1]) + ")>=0"})
		}
		if name == "strings.ContainsRune" {
			return kBool(has), true
		}
		if has {
			return kInt(0), true
		}
		return kInt(-1), true
	case "(context.Context).Err":
		// the tables are about requests whose context is alive; a cancelled
		// context is a fault, explored where faults are (the file server)
		return kNil, true
	case "strconv.Itoa":
		return in.itoaText(args[0]), true
	case "strconv.FormatInt", "strconv.FormatUint":
		if b, ok := in.concretise(args[1]); ok && b == 10 {
			return in.itoaText(args[0]), true
		}
		return nil, false
	case "strconv.AppendInt", "strconv.AppendUint":
		if b, ok := in.concretise(args[2]); ok && b == 10 {
			switch buf := args[0].(type) {
			case SymStr:
				return in.concatText(buf, in.itoaText(args[1])), true
			case Konst:
				if buf.V == nil {
					return in.itoaText(args[1]), true
				}
				if _, isS := constStringVal(buf); isS {
					return in.concatText(buf, in.itoaText(args[1])), true
				}
			case Slice:
				if len(buf.E) == 0 {
					return in.itoaText(args[1]), true
				}
			}
		}
		return nil, false
	case "path/filepath.ToSlash", "path/filepath.FromSlash", "path.Clean", "path/filepath.Clean":
		// on a constant text the function is simply applied (on the platform
		// under analysis the separator is the slash unless GOOS says otherwise;
		// only separator-free constants are folded)
		if k, ok := args[0].(Konst); ok {
			if sv, ok := constStringVal(k); ok && !strings.ContainsAny(sv, `/\`) {
				if strings.HasSuffix(name, "Clean") {
					return kStr(path.Clean(sv)), true
				}
				return kStr(sv), true
			}
		}
		return nil, false
	case "strings.ToUpper", "strings.ToLower":
		if k, ok := args[0].(Konst); ok {
			if sv, ok := constStringVal(k); ok {
				if name == "strings.ToUpper" {
					return kStr(strings.ToUpper(sv)), true
				}
				return kStr(strings.ToLower(sv)), true
			}
		}
		return nil, false
	case "errors.New":
		return in.mkErr(&ErrObj{Kind: "new", Msg: args[0]}), true
	case "fmt.Errorf":
		var va []Val
		if len(args) > 1 {
			va = sliceArgs(in, args[1], site)
		}
		msg, wrapped := in.formatString(args[0], va, site)
		e := &ErrObj{Kind: "new", Msg: msg}
		if len(wrapped) > 0 {
			e.Kind, e.Wrapped = "wrap", wrapped[0]
		}
		return in.mkErr(e), true
	case "fmt.Sprintf":
		var va []Val
		if len(args) > 1 {
			va = sliceArgs(in, args[1], site)
		}
		msg, _ := in.formatString(args[0], va, site)
		return msg, true
	case "fmt.Sprint":
		va := sliceArgs(in, args[0], site)
		msg, _ := in.formatString(kStr("%v"), va, site)
		return msg, true
	case "errors.Is":
		return kBool(in.errorsIs(args[0], args[1], site)), true
	case "errors.As":
		return kBool(in.errorsAs(args[0], args[1], site)), true
	case "errors.Unwrap":
		if w, ok := in.unwrapErr(args[0], site); ok {
			return w, true
		}
		return kNil, true
	case "os.IsExist":
		return kBool(in.osIs(args[0], "os.ErrExist", site)), true
	case "os.IsNotExist":
		return kBool(in.osIs(args[0], "os.ErrNotExist", site)), true
	case "os.IsPermission":
		return kBool(in.osIs(args[0], "os.ErrPermission", site)), true
	case "(time.Time).IsZero":
		return kBool(in.ch.isZeroTime(timeKey(in, args[0], site))), true
	case "(time.Time).After":
		return kBool(in.ch.cmpTime(timeKey(in, args[0], site), timeKey(in, args[1], site)) > 0), true
	case "(time.Time).Before":
		return kBool(in.ch.cmpTime(timeKey(in, args[0], site), timeKey(in, args[1], site)) < 0), true
	case "(time.Time).Equal":
		return kBool(in.ch.cmpTime(timeKey(in, args[0], site), timeKey(in, args[1], site)) == 0), true
	case "(time.Time).Compare":
		return kInt(int64(in.ch.cmpTime(timeKey(in, args[0], site), timeKey(in, args[1], site)))), true
	case "(time.Time).UTC", "(time.Time).Local", "(time.Time).In", "(time.Time).Round", "(time.Time).Truncate":
		if name == "(time.Time).Round" || name == "(time.Time).Truncate" {
			return nil, false
		}
		return args[0], true // the same instant
	case "(time.Time).Location":
		return Opaque{"loc(" + keyOf(args[0]) + ")", cc.Signature().Results().At(0).Type()}, true
	case "net/http.StatusText":
		return SymStr{Key: "StatusText(" + keyOf(args[0]) + ")"}, true
	case "(net/http.Header).Get":
		return SymStr{Key: "header:" + keyOf(args[1])}, true
	}
	// err.Error() on an abstract error
	if cc.IsInvoke() && cc.Method.Name() == "Error" && len(args) == 1 {
		if _, ok := args[0].(Iface); ok {
			return in.errText(args[0], site), true
		}
	}
	return nil, false
}

func timeKey(in *Interp, v Val, site ssa.CallInstruction) string {
	if t, ok := v.(TimeV); ok {
		return t.Key
	}
	in.undecided("time method on %T (%s) at %s", v, keyOf(v), in.c.P.instrPos(site))
	return ""
}

func sentinelName(v Val) (string, bool) {
	iv, ok := v.(Iface)
	if !ok {
		return "", false
	}
	if o, ok := iv.V.(Opaque); ok && strings.HasPrefix(o.Key, "global:") {
		return strings.TrimPrefix(o.Key, "global:"), true
	}
	return "", false
}

// errnoConstNames: when v is a constant of type syscall.Errno (the target of
// errors.Is(err, syscall.ENOTDIR)), the names syscall gives that number on
// the platform under analysis.
func (in *Interp) errnoConstNames(v Val) map[string]bool {
	iv, ok := v.(Iface)
	if !ok {
		return nil
	}
	n := namedOf(iv.Dyn)
	if n == nil || n.Obj().Pkg() == nil || n.Obj().Pkg().Path() != "syscall" || n.Obj().Name() != "Errno" {
		return nil
	}
	k, ok := iv.V.(Konst)
	if !ok || k.V == nil {
		return nil
	}
	out := map[string]bool{}
	sc := n.Obj().Pkg().Scope()
	for _, name := range sc.Names() {
		if c, isC := sc.Lookup(name).(*types.Const); isC && types.Identical(c.Type(), n) && constant.Compare(c.Val(), token.EQL, k.V) {
			out[name] = true
		}
	}
	return out
}

// errorsIs walks the chain; abstract errno values use their Is method's
// semantics; everything else compares by identity.
func (in *Interp) errorsIs(err, target Val, site ssa.CallInstruction) bool {
	if k, ok := err.(Konst); ok && k.V == nil {
		return false
	}
	tname, tIsSentinel := sentinelName(target)
	tErrnos := in.errnoConstNames(target)
	for i := 0; i < 20; i++ {
		iv, ok := err.(Iface)
		if !ok {
			return false
		}
		if e, ok := iv.V.(*ErrObj); ok && e.Kind == "errno" && tIsSentinel {
			if errnoMatches(e.Errno, tname) {
				return true
			}
		}
		if e, ok := iv.V.(*ErrObj); ok && e.Kind == "errno" && tErrnos[e.Errno] {
			return true // errors.Is(err, syscall.ENOTDIR): the same number
		}
		if sn, ok := sentinelName(err); ok && tIsSentinel {
			if sn == tname || strings.TrimPrefix(sn, "io/fs.") == strings.TrimPrefix(strings.TrimPrefix(tname, "os."), "io/fs.") {
				return true
			}
		}
		if o, ok := iv.V.(Opaque); ok && !strings.HasPrefix(o.Key, "global:") {
			// an error the interpreter knows nothing about
			return in.truth(LazyBool{"errors.Is(" + o.Key + "," + keyOf(target) + ")"})
		}
		w, ok := in.unwrapErr(err, site)
		if !ok {
			return false
		}
		err = w
	}
	return false
}

// errorsAs walks the chain looking for a value assignable to *target.
func (in *Interp) errorsAs(err, target Val, site ssa.CallInstruction) bool {
	if k, ok := err.(Konst); ok && k.V == nil {
		return false
	}
	tp, ok := target.(Iface)
	if !ok {
		in.undecided("errors.As target %T at %s", target, in.c.P.instrPos(site))
	}
	ptr, ok := tp.V.(Ptr)
	if !ok {
		in.undecided("errors.As target is not a pointer at %s", in.c.P.instrPos(site))
	}
	want := tp.Dyn.(*types.Pointer).Elem()
	for i := 0; i < 20; i++ {
		iv, ok := err.(Iface)
		if !ok {
			return false
		}
		if iv.Dyn != types.Typ[types.Invalid] {
			if types.IsInterface(want) {
				if types.AssignableTo(iv.Dyn, want) {
					ptr.C.Set(iv)
					return true
				}
			} else if types.Identical(iv.Dyn, want) {
				ptr.C.Set(iv.V)
				return true
			}
		} else if eo, ok := iv.V.(*ErrObj); ok && eo.Kind == "ext" && eo.Wrapped == nil && foreignErrType(want) {
			// an error made outside the module (a failing body read, a
			// decoder's error) may be of any foreign type the code asks for
			if in.truth(LazyBool{"errors.As(" + eo.Key + "," + types.TypeString(want, nil) + ")"}) {
				// its exported fields are plain symbols
				prev := in.OpenExternal
				wn := namedOf(want)
				if pw, isP := want.(*types.Pointer); isP {
					wn = namedOf(pw.Elem())
				}
				in.OpenExternal = func(n *types.Named) bool { return n == wn || (prev != nil && prev(n)) }
				v := in.symOf(want, eo.Key+".("+types.TypeString(want, nil)+")")
				if pv, isPtr := v.(Ptr); isPtr {
					pv.C.Get() // the pointee is made lazily: make it now
				}
				in.OpenExternal = prev
				ptr.C.Set(v)
				return true
			}
			return false
		} else if o, ok := iv.V.(Opaque); ok && !strings.HasPrefix(o.Key, "global:") {
			if in.truth(LazyBool{"errors.As(" + o.Key + "," + types.TypeString(want, nil) + ")"}) {
				ptr.C.Set(in.symOf(want, o.Key+".("+types.TypeString(want, nil)+")"))
				return true
			}
			return false
		}
		w, ok := in.unwrapErr(err, site)
		if !ok {
			return false
		}
		err = w
	}
	return false
}

// foreignErrType: a concrete error type of another module that is not one
// of the operating-system error structs (those are modelled exactly).
func foreignErrType(t types.Type) bool {
	if p, ok := t.(*types.Pointer); ok {
		t = p.Elem()
	}
	n := namedOf(t)
	if n == nil || n.Obj().Pkg() == nil || types.IsInterface(t) {
		return false
	}
	switch n.Obj().Pkg().Path() + "." + n.Obj().Name() {
	case "io/fs.PathError", "os.LinkError", "os.SyscallError", "syscall.Errno":
		return false
	}
	return !inModuleType(n)
}

// osIs models os.IsExist / os.IsNotExist / os.IsPermission: they look only
// through *PathError, *LinkError and *SyscallError (underlyingError), not
// through arbitrary wrappers.
func (in *Interp) osIs(err Val, sentinel string, site ssa.CallInstruction) bool {
	iv, ok := err.(Iface)
	if !ok {
		return false
	}
	if _, st, isOS := osStructErr(err); isOS {
		if e := structFieldByName(st, "Err"); e != nil {
			return in.osIs(e, sentinel, site)
		}
		return false
	}
	if e, ok := iv.V.(*ErrObj); ok {
		switch e.Kind {
		case "os:PathError", "os:LinkError", "os:SyscallError":
			if e.Wrapped != nil {
				return in.osIs(e.Wrapped, sentinel, site)
			}
		case "errno":
			return errnoMatches(e.Errno, sentinel)
		}
		return false
	}
	if sn, ok := sentinelName(err); ok {
		return strings.TrimPrefix(strings.TrimPrefix(sn, "io/fs."), "os.") == strings.TrimPrefix(sentinel, "os.")
	}
	if o, ok := iv.V.(Opaque); ok {
		return in.truth(LazyBool{sentinel + "(" + o.Key + ")"})
	}
	return false
}

// ---------------------------------------------------------------------------
// exploration driver

type Leaf struct {
	Valuation map[string]string
	Outcome   string
	Trace     []Effect
	Undecided string
	Branch    string
	ch        *Chooser
	order     string
}

type OracleEnv struct {
	ch  *Chooser
	sym SymSpec
}

func (e *OracleEnv) Bool(key string) bool {
	return e.ch.choose(key, 2, func(i int) string { return map[int]string{0: "false", 1: "true"}[i] }) == 1
}
func (e *OracleEnv) Len(key string, max int) int { return e.ch.choose("len("+key+")", max+1, nil) }
func (e *OracleEnv) Int(key string) int64 {
	dom := e.sym.IntDomain(key)
	return dom[e.ch.choose("int:"+key, len(dom), func(i int) string { return fmt.Sprint(dom[i]) })]
}

// Str terms: S("key") for a symbol, K("text") for a constant.
func S(key string) string  { return "s:" + key }
func K(text string) string { return "c:" + text }

func (e *OracleEnv) Eq(a, b string) bool { return e.ch.eqStr(a, b) }

// Pred mirrors the model of strings.Contains/HasPrefix/HasSuffix/EqualFold
// over two symbolic strings: true when the strings are equal, else the atom.
func (e *OracleEnv) Pred(name, a, b string) bool {
	if a == b || e.ch.eqStr("s:"+a, "s:"+b) {
		return true
	}
	return e.Bool(name + "(" + a + "," + b + ")")
}
func (e *OracleEnv) Cmp(a, b string) int          { return e.ch.cmpTime(a, b) }
func (e *OracleEnv) IsZero(a string) bool         { return e.ch.isZeroTime(a) }
func (e *OracleEnv) Decided(key string) bool      { _, ok := e.ch.memo[key]; return ok }
func (e *OracleEnv) Order() string                { return e.ch.times.String() }
func (e *OracleEnv) Valuation() map[string]string { return e.ch.valuation() }

type DTXSpec struct {
	Name    string
	Entry   *ssa.Function
	Sym     SymSpec
	Setup   func(in *Interp)
	Args    func(in *Interp) []Val
	Observe func(in *Interp, res Val, pan *panicOutcome) string
	// Oracle returns the set of acceptable outcomes for a completed
	// valuation; ok=false: the completion lies outside the declared domain
	// (side constraints) and is skipped.
	Oracle func(env *OracleEnv) (allowed []string, ok bool)
	// Check is the general form of the oracle: it judges the observation
	// under a completed valuation. applicable=false skips the completion.
	Check    func(env *OracleEnv, obs *Observation) (good bool, expected string, applicable bool)
	MaxRuns  int
	MaxComps int
}

// Observation is what a path produced.
type Observation struct {
	Ret   Val
	Panic *panicOutcome
	Trace []Effect
	In    *Interp
}

type DTXResult struct {
	Leaves      []*Leaf
	Runs        int
	Completions int
	Mismatches  []DTXMismatch
	Undecided   []*Leaf
	Truncated   bool
}

type DTXMismatch struct {
	Leaf      *Leaf
	Valuation map[string]string
	Order     string
	Observed  string
	Expected  []string
}

// leanAfter: rows beyond this many keep only their outcome unless they
// disagree with the oracle or are undecided.
const leanAfter = 20000

func runDTX(c *Ctx, spec DTXSpec) *DTXResult {
	res := &DTXResult{}
	if spec.MaxRuns == 0 {
		spec.MaxRuns = 200000
	}
	if spec.MaxComps == 0 {
		spec.MaxComps = 2000000
	}
	var script []int
	for {
		ch := newChooser(script, nil)
		leaf := &Leaf{ch: ch}
		in := newInterp(c, ch, spec.Sym)
		obs := &Observation{In: in}
		func() {
			defer func() {
				if r := recover(); r != nil {
					switch e := r.(type) {
					case undecidedErr:
						leaf.Undecided = e.msg
					case panicOutcome:
						obs.Panic = &e
						leaf.Outcome = spec.Observe(in, nil, &e)
					default:
						panic(r)
					}
				}
			}()
			if spec.Setup != nil {
				spec.Setup(in)
			}
			args := spec.Args(in)
			out := in.Call(spec.Entry, args, nil)
			obs.Ret = out
			leaf.Outcome = spec.Observe(in, out, nil)
		}()
		obs.Trace = in.Trace
		leaf.Valuation = ch.valuation()
		leaf.Trace = in.Trace
		leaf.order = ch.times.String()
		if in.LastIf != nil {
			leaf.Branch = c.P.instrPos(in.LastIf)
		}
		res.Runs++
		res.Leaves = append(res.Leaves, leaf)
		nMis := len(res.Mismatches)
		if leaf.Undecided != "" {
			res.Undecided = append(res.Undecided, leaf)
		} else if spec.Oracle != nil || spec.Check != nil {
			// compare with the oracle on every completion of the leaf
			var oscript []int
			for {
				och := newChooser(oscript, ch)
				env := &OracleEnv{ch: och, sym: spec.Sym}
				var allowed []string
				ok := false
				func() {
					defer func() {
						if r := recover(); r != nil {
							if e, isU := r.(undecidedErr); isU {
								leaf.Undecided = "oracle: " + e.msg
								return
							}
							panic(r)
						}
					}()
					if spec.Check != nil {
						// the check may consult atoms through the interpreter
						// (e.g. to compare returned symbols): let it use the
						// completion's chooser
						saved := in.ch
						in.ch = och
						good, exp, app := spec.Check(env, obs)
						in.ch = saved
						ok = app
						if good {
							allowed = []string{leaf.Outcome}
						} else {
							allowed = []string{exp}
						}
						return
					}
					allowed, ok = spec.Oracle(env)
				}()
				res.Completions++
				if ok {
					match := false
					for _, a := range allowed {
						if a == leaf.Outcome {
							match = true
						}
					}
					if !match {
						res.Mismatches = append(res.Mismatches, DTXMismatch{Leaf: leaf, Valuation: och.valuation(), Order: och.times.String(), Observed: leaf.Outcome, Expected: allowed})
					}
				}
				oscript = och.next()
				if oscript == nil || res.Completions > spec.MaxComps {
					break
				}
			}
			if leaf.Undecided != "" {
				res.Undecided = append(res.Undecided, leaf)
			}
		}
		script = ch.next()
		// very large tables: rows that agree with the oracle keep only their
		// outcome (the valuations, traces and choosers of millions of rows
		// are what exhausts the machine's memory)
		if res.Runs > leanAfter && leaf.Undecided == "" && len(res.Mismatches) == nMis {
			leaf.Valuation, leaf.Trace, leaf.ch = nil, nil, nil
		}
		if script == nil {
			break
		}
		if res.Runs >= spec.MaxRuns || res.Completions > spec.MaxComps {
			res.Truncated = true
			break
		}
	}
	return res
}

// reportDTX turns a DTX result into obligations and findings of a rule.
func reportDTX(c *Ctx, r *RuleResult, spec DTXSpec, res *DTXResult, keyPrefix string) {
	r.Count("runs", res.Runs)
	r.Count("completions_compared", res.Completions)
	outcomes := map[string]int{}
	for _, l := range res.Leaves {
		if l.Undecided == "" {
			outcomes[l.Outcome]++
		}
	}
	for o, n := range outcomes {
		if len(o) < 40 {
			r.Count("outcome_"+o, n)
		}
	}
	r.Obligations += res.Completions
	r.Discharged += res.Completions - len(res.Mismatches)
	nFull := len(res.Leaves)
	if nFull > leanAfter {
		nFull = leanAfter
	}
	for i, l := range res.Leaves[:nFull] {
		if i%maxInt(1, nFull/6) == 0 {
			r.Sample(map[string]interface{}{"table": spec.Name, "valuation": valuationString(l.Valuation), "outcome": l.Outcome, "effects": effectStrings(l.Trace)})
		}
	}
	if res.Truncated {
		r.Undecided(keyPrefix+"|truncated", c.P.Pos(spec.Entry.Pos()), fmt.Sprintf("decision table %s: exploration budget exhausted after %d runs", spec.Name, res.Runs))
	}
	seenU := map[string]bool{}
	for _, l := range res.Undecided {
		if seenU[l.Undecided] {
			continue
		}
		seenU[l.Undecided] = true
		r.Undecided(keyPrefix+"|"+l.Undecided, c.P.Pos(spec.Entry.Pos()), fmt.Sprintf("decision table %s: a needed path left the interpreted fragment: %s (valuation: %s)", spec.Name, l.Undecided, valuationString(l.Valuation)))
	}
	// group mismatches by (observed, expected) and report the smallest valuation of each group
	type grp struct {
		m DTXMismatch
		n int
	}
	groups := map[string]*grp{}
	for _, m := range res.Mismatches {
		k := m.Observed + " vs " + strings.Join(m.Expected, "/") + " @ " + m.Leaf.Branch
		if g, ok := groups[k]; ok {
			g.n++
			if len(m.Valuation) < len(g.m.Valuation) {
				g.m = m
			}
		} else {
			groups[k] = &grp{m, 1}
		}
	}
	for k, g := range groups {
		if len(k) > 160 {
			h := fnv.New32a()
			h.Write([]byte(k))
			k = k[:120] + fmt.Sprintf("…#%08x", h.Sum32())
		}
		m := g.m
		msg := fmt.Sprintf("decision table %s: for %s", spec.Name, valuationString(m.Valuation))
		if m.Order != "ZERO" {
			msg += " [order of instants: " + m.Order + "]"
		}
		obsS, expS := m.Observed, strings.Join(m.Expected, " or ")
		if len(obsS) > 300 || len(expS) > 300 {
			obsS, expS = diffStrings(obsS, expS)
		}
		msg += fmt.Sprintf(" the code yields %q but the property requires %s (%d valuation(s) in this group; deciding branch at %s)", obsS, expS, g.n, m.Leaf.Branch)
		r.Violation(keyPrefix+"|"+k, m.Leaf.Branch, msg, map[string]interface{}{"valuation": m.Valuation, "order": m.Order, "effects": effectStrings(m.Leaf.Trace)})
	}
}

func effectStrings(t []Effect) []string {
	var out []string
	for _, e := range t {
		out = append(out, e.String())
	}
	return out
}

func maxInt(a, b int) int {
	if a > b {
		return a
	}
	return b
}

// describeVal renders a return value for Observe functions.
func describeVal(in *Interp, v Val) string {
	switch x := v.(type) {
	case nil:
		return "-"
	case Konst:
		if x.V == nil {
			return "nil"
		}
		if x.V.Kind() == constant.String {
			return constant.StringVal(x.V)
		}
		return x.V.ExactString()
	case LazyBool:
		if in.truth(x) {
			return "true"
		}
		return "false"
	case Iface:
		return "non-nil"
	}
	return keyOf(v)
}

// diffStrings shortens two long renderings to the region where they differ.
func diffStrings(a, b string) (string, string) {
	i := 0
	for i < len(a) && i < len(b) && a[i] == b[i] {
		i++
	}
	start := i - 60
	if start < 0 {
		start = 0
	}
	cut := func(s string) string {
		end := i + 120
		if end > len(s) {
			end = len(s)
		}
		if start >= len(s) {
			return "…(ends)"
		}
		return "…" + s[start:end] + "…"
	}
	return cut(a), cut(b)
}

// itoaText: the decimal text of an integer value: a constant for a constant,
// else the symbol itoa(<key>) — the same for strconv.Itoa, FormatInt(…, 10),
// AppendInt(…, 10) and fmt's %v/%d of an integer.
func (in *Interp) itoaText(v Val) Val {
	if k, ok := v.(Konst); ok && k.V != nil && k.V.Kind() == constant.Int {
		return kStr(k.V.ExactString())
	}
	return SymStr{Key: "itoa(" + keyOf(v) + ")"}
}
