#!/bin/bash
# developer aid: evaluate a behaviour-preserving refactoring (patch.diff) in a
# scratch copy of /repo: it must build, pass the pinned suite, and EVERY check
# must stay silent. usage: refeval.sh <patch.diff> [properties...]
PATCH="$1"; shift
PROPS="${@:-C01 C02 C03 C04 C05 C06 C07 C08 C09 C10 C11 C12 C13 C14 C15 C16 C17 C18 C19}"
D=$(mktemp -d /tmp/refev.XXXXXX)
cp -r /repo/. "$D/repo"; rm -rf "$D/repo/.git"
mkdir -p "$D/verif"; cp /verif/known_findings.json "$D/verif/"
cd "$D/repo"
patch -p1 -s < "$PATCH" || { echo "REF: patch does not apply"; cd /; rm -rf "$D"; exit 3; }
export GOFLAGS=-mod=mod GOPROXY=off GOSUMDB=off GOTOOLCHAIN=local
go build ./... || { echo "REF: does not compile"; cd /; rm -rf "$D"; exit 4; }
go test -vet=off -count=1 ./... >/dev/null 2>&1 && echo "REF: suite passes" || echo "REF: suite FAILS"
cd /verif
BAD=0
for P in $PROPS; do
  OUT=$(VERIF_REPO="$D/repo" VERIF_DIR="$D/verif" /verif/bin/gwcheck -property "$P" 2>&1); RC=$?
  if [ $RC -ne 0 ]; then BAD=1; echo "ALARM $P"; echo "$OUT" | grep "VIOLATION:\|UNDECIDED:\|UNRESOLVED\|FAILED\|BROKEN" | cut -c1-400 | head -6; fi
done
[ $BAD -eq 0 ] && echo "REF: all checks silent"
rm -rf "$D"
exit $BAD
