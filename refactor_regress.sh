#!/bin/bash
# developer aid (not registered): every recorded behaviour-preserving
# refactoring (refactors/<id>/patch.diff, written by independent sub-agents
# given only property texts) must leave every check silent. Scratch copies
# under mktemp -d, removed at once. usage: refactor_regress.sh [jobs]
cd /verif || exit 2
J=${1:-4}
ls -d refactors/*/ | xargs -P "$J" -I{} sh -c 'id=$(basename {}); if [ -f {}SUPERSEDED ]; then echo "$id: superseded (patch is against the tree before the fix commits; see SUPERSEDED)"; exit 0; fi; out=$(./refeval.sh /verif/{}patch.diff 2>&1); if echo "$out" | grep -q "REF: all checks silent"; then echo "$id: silent"; elif [ -f {}EXPECTED_ALARM ]; then echo "$id: alarm (recorded limit, see EXPECTED_ALARM)"; else echo "$id: ALARM"; echo "$out" | grep "ALARM\|VIOLATION:\|UNDECIDED\|UNRESOLVED\|REF:" | cut -c1-250 | head -8; fi'
