#!/bin/bash
# developer aid (not registered in MANIFEST): re-run the checks against every
# recorded seeded defect. Each patch is applied to /repo with git apply, the
# property's check is run, and the patch is undone straight afterwards.
# usage: seedregress.sh [seed-id-prefix]
cd /verif || exit 2
if ! git -C /repo diff --quiet; then echo "seedregress: /repo has local changes; refusing"; exit 2; fi
FAIL=0
mkdir -p /tmp/seedregress_out; cp known_findings.json /tmp/seedregress_out/
for d in seeded/${1}*/; do
  id=$(basename "$d")
  prop=$(python3 -c "import json,sys; print(json.load(open('$d/meta.json'))['property'])")
  extra=$(python3 -c "import json,sys; print(' '.join(json.load(open('$d/meta.json')).get('also_check',[])))")
  if ! git -C /repo apply "$PWD/$d/patch.diff" 2>/dev/null; then echo "$id: patch does not apply"; FAIL=1; continue; fi
  det=""
  for P in $prop $extra; do
    OUT=$(VERIF_DIR=/tmp/seedregress_out ./bin/gwcheck -property "$P" 2>&1); RC=$?
    if [ $RC -ne 0 ] && echo "$OUT" | grep -q "^VIOLATION property=$P"; then det="$det $P($(echo "$OUT" | grep -m1 'key=' | sed 's/.*key=//' | cut -c1-80))"; fi
  done
  git -C /repo checkout -- .
  if [ -z "$det" ]; then echo "$id: MISSED"; FAIL=1; else echo "$id: detected by$det"; fi
done
rm -rf /tmp/seedregress_out
exit $FAIL
