#!/usr/bin/env python3
"""Regenerates MANIFEST.json from the table below (the single source of truth
for what is claimed). Run after changing which properties have checks."""
import json

NA_DEFAULT = "check not built yet (build round in progress); see DESIGN.md section 3 for the planned decision procedure"

CLAIMED = {
 "C08": dict(
  technique="static analysis: field-flow (taint) analysis over go/ssa + struct-tag schema check against RFC element tables",
  text="Structural necessary conditions only, decided for every path of the current source: every field of the public CalDAV query types flows into a wire struct field in the client's request builders, every field of the wire request structs flows into the public query handed to the backend and every field of that query is written from the request, text fields pass unaltered, and the xml struct tags agree with the RFC 4791/4918 element tables. It decides that nothing is structurally dropped; it does not decide value-level fidelity (escaping, whitespace, lexical variants), which is run-time behaviour of encoding/xml.",
  note="Trusted: go/types+go/ssa (x/tools v0.29.0), encoding/xml's documented tag semantics, my transcription of the RFC DTD fragments (checker/e6_schema.go). Flows are may-flows: a reported flow can still be wrong in value; a missing flow is definite.",
  ref="DESIGN.md §3 C08"),
 "C09": dict(
  technique="static analysis: field-flow (taint) analysis over go/ssa + struct-tag schema check against RFC element tables",
  text="Same structural clauses as C08 for the CardDAV query codecs (addressbook-query, addressbook-multiget, sync-collection) and the RFC 6352/6578 element tables.",
  note="As C08.",
  ref="DESIGN.md §3 C09"),
 "C13": dict(
  technique="static analysis: error-provenance and request-taint dataflow over go/ssa, call-graph reachability with reflection roots, dominator-based guard rules",
  text="Structural necessary conditions, decided over all paths of the current source: every request-caused error origin that can reach ServeError carries a 4xx label; explicit panics reachable from the handlers equal a reviewed table whose mechanical justifications are re-checked; optional pointers of request-decoded structs and constant indexes are guarded; stream-driven recursion carries a depth bound; parse errors are tested before use and before any mutating backend call. Does not decide panics inside encoding/xml, go-ical, go-vcard, net/http.",
  note="Trusted: go/ssa, CHA call graph plus explicit reflection edges for encoding/xml's (Un)Marshal* calls; the frozen list of parse/decode functions and of mutating backend methods in checker/p_c13.go.",
  ref="DESIGN.md §3 C13"),
}

def main():
    props=[json.loads(l) for l in open('/verif/properties.jsonl')]
    checks=[]
    for pid,c in sorted(CLAIMED.items()):
        checks.append({
          "property_id":pid,
          "quick_cmd":"./check.sh %s quick"%pid,
          "thorough_cmd":"./check.sh %s thorough"%pid,
          "evidence_file":"/verif/evidence/%s.json"%pid,
          "replay_cmd_template":"bin/gwcheck -replay {path}",
          "engine":"gwcheck",
          "level_claimed":{"category":"other","text":c["text"],"design_ref":c["ref"]},
          "level_note":c["note"],
          "technique":c["technique"],
        })
    na=[]
    try:
        NA=json.load(open('/verif/not_applicable.json'))
    except Exception:
        NA={}
    for p in props:
        if p["id"] not in CLAIMED:
            na.append({"property_id":p["id"],"reason":NA.get(p["id"],NA_DEFAULT)})
    m={"version":1,
     "setup_cmd":"./setup.sh",
     "hooks":{"guard":"verif","enable":"none needed: static analysis reads /repo's source as it is; there are no hooks","baseline_off_cmd":"cd /repo && GOFLAGS=-mod=mod GOPROXY=off GOSUMDB=off go test -vet=off -count=1 ./...","source_commits":[],"add_only":True},
     "engines":[{"name":"gwcheck","path":"/verif/checker","serves_properties":sorted(CLAIMED),"kind_free_text":"repository-specific static analyser (go/packages + go/types + go/ssa, x/tools v0.29.0 vendored): field-flow, error provenance, CFG/dominator rules, effects, struct-tag schema, call-graph reachability, decision-table extraction by abstract interpretation"}],
     "checks":checks,
     "notes":"Technique family: static analysis only; every check parses and type-checks /repo's working tree on every run and never executes repository code. All claims are at level 'other': structural necessary clauses of behavioural properties (see DESIGN.md). known_findings.json lists recorded and fixed defects.",
     "not_applicable":na}
    json.dump(m,open('/verif/MANIFEST.json','w'),indent=1)
    print("claimed:",sorted(CLAIMED),"n/a:",[x["property_id"] for x in na])
main()
