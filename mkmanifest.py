#!/usr/bin/env python3
"""Regenerates MANIFEST.json from the table below (the single source of truth
for what is claimed). Run after changing which properties have checks."""
import json

NA_DEFAULT = "check not built yet (build round in progress); see DESIGN.md section 3 for the planned decision procedure"

CLAIMED = {
 "C04": dict(
  technique="static analysis: decision-table extraction by abstract interpretation of go/ssa (no execution, no solver), field-flow PAIR rules, dominator rules, who-may-write rules",
  text="Decides the complete precondition truth table of checkConditionalMatches and ConditionalMatch.MatchETag over resource state x each header in {unset, *, equal tag, other tag, not a quoted string} against the statement; that the check and every path check dominate the first destructive OS call; that option fields reach the check's parameters and header values reach the option fields of the same name unaltered and unswapped in all three servers, the filled options being the value handed to the backend; that FileInfo.ETag has one producer and every ETag header is written through internal.ETag.String. Does not decide equality of the tag strings produced at run time for one unmodified file, nor arbitrary bytes through %q/Unquote (standard-library contract). Every store to FileInfo.ETag in the producer is definitely non-empty; every announcement of a tag uses the same inverse of strconv.Unquote.",
  note="Trusted: go/ssa; my model of strconv.Unquote (fails, or yields an opaque string); a present resource has a non-empty tag.",
  ref="DESIGN.md §3 C04"),
 "C05": dict(
  technique="static analysis: field-flow PAIR rules over go/ssa, who-may-call rule, decision-table extraction by abstract interpretation, dominator (presence-guard) rule, property-table/struct-tag agreement",
  text="Structural necessary clauses: every FileInfo field flows into the matching PROPFIND property and GET/HEAD header on the server and is written from the matching wire property on the client (kind via ResourceType.Is(collection)); presence guards are on the non-zero side; property tables are keyed by the element they write; http.NewRequest is called only in internal.(*Client).NewRequest with ResolveHref(name).String(), every Destination header is ResolveHref(dest).String(), and ResolveHref's table is 'leading slash as is, else joined to the endpoint path'; the client's Copy/Move/ReadDir send exactly the Overwrite/Depth values that the server tables of C01 map back to the requested options. Does not decide the fidelity of URL/XML/HTTP-date escaping on particular characters nor byte-for-byte upload content (run-time behaviour of net/url, encoding/xml, net/http). Also: which properties are registered for a file as a function of its FileInfo (length always), ReadDir's listing table under a Walk model with SkipDir semantics, truncation of write-opens, no re-parsing of decoded paths, UTC normalisation of HTTP dates, and the server-side dispatch and adapter tables (so that 'exactly the requested options' is decided end to end by this check). The tag, date and href codecs are inverse pairs (shared with C16.pairs); url.ResolveReference is kept apart from path.Join in ResolveHref's table.",
  note="Trusted: go/ssa; flows are may-flows (a missing flow is definite, a present flow may still be wrong in value).",
  ref="DESIGN.md §3 C05"),
 "C10": dict(
  technique="static analysis: field-flow PAIR rules over go/ssa (per public client method), decision-table extraction by abstract interpretation (multiget), dominator (presence-guard) rule, property-table/struct-tag agreement, struct-tag schema check against RFC element tables",
  text="Structural necessary clauses: each named attribute of Calendar/AddressBook/CalendarObject/AddressObject flows from the backend's value into the matching response property, header and body encoder on the server, and every field of the values returned by each public client method is written from the matching wire property or header (per method, so a dropped assignment in one method is not masked by another); PUT hands the caller's object to the encoder; presence guards are on the non-zero side; property tables are keyed by the element they write; multiget answers every href exactly once in order with the object or the backend's own status (exhaustive for <= 2 hrefs); all wire structs agree with the RFC element tables. Does not decide the iCalendar/vCard text round trip (go-ical/go-vcard), escaping, or lexical variants of incoming documents. Also: property-set tables, NewErrorResponse over bare/wrapped errors, Response.DecodeProp over <= 2 propstats (a failing propstat that does not contain the property is skipped), UTC normalisation, no re-parsing of decoded paths. Also the client's status tables (Response.Path, sync-collection deletions; shared with C14) and the inverse-pair rule for tag, date and href codecs including the header readers.",
  note="Trusted: go/ssa; RFC tables in checker/e6_schema.go. Child order of DAV: elements is only noted (RFC 4918 §14 declares it irrelevant).",
  ref="DESIGN.md §3 C10"),
 "C08": dict(
  technique="static analysis: field-flow (taint) analysis over go/ssa + struct-tag schema check against RFC element tables",
  text="Structural necessary conditions only, decided for every path of the current source: every field of the public CalDAV query types flows into a wire struct field in the client's request builders, every field of the wire request structs flows into the public query handed to the backend and every field of that query is written from the request, text fields pass unaltered, and the xml struct tags agree with the RFC 4791/4918 element tables. It decides that nothing is structurally dropped; it does not decide value-level fidelity (escaping, whitespace, lexical variants), which is run-time behaviour of encoding/xml. Also: match text is not written as a CDATA section (carriage returns cannot be escaped there); hrefs are never re-parsed as URLs; an instant formatted with a literal-Z layout is UTC-normalised at the site or by its type's invariant.",
  note="Trusted: go/types+go/ssa (x/tools v0.29.0), encoding/xml's documented tag semantics, my transcription of the RFC DTD fragments (checker/e6_schema.go). Flows are may-flows: a reported flow can still be wrong in value; a missing flow is definite.",
  ref="DESIGN.md §3 C08"),
 "C09": dict(
  technique="static analysis: field-flow (taint) analysis over go/ssa + struct-tag schema check against RFC element tables",
  text="Same structural clauses as C08 for the CardDAV query codecs (addressbook-query, addressbook-multiget, sync-collection) and the RFC 6352/6578 element tables. Also: hrefs are never re-parsed as URLs.",
  note="As C08.",
  ref="DESIGN.md §3 C09"),
 "C13": dict(
  technique="static analysis: error-provenance and request-taint dataflow over go/ssa, call-graph reachability with reflection roots, dominator-based guard rules",
  text="Structural necessary conditions, decided over all paths of the current source: every request-caused error origin that can reach ServeError carries a 4xx label; explicit panics reachable from the handlers equal a reviewed table whose mechanical justifications are re-checked; optional pointers of request-decoded structs and constant indexes are guarded; stream-driven recursion carries a depth bound; parse errors are tested before use and before any mutating backend call. Does not decide panics inside encoding/xml, go-ical, go-vcard, net/http. Also: slice expressions and len-relative indexes are dominated by sufficient length tests; the sanitiser's refusal table; ServeError's status table over wrapped errors.",
  note="Trusted: go/ssa, CHA call graph plus explicit reflection edges for encoding/xml's (Un)Marshal* calls; the frozen list of parse/decode functions and of mutating backend methods in checker/p_c13.go.",
  ref="DESIGN.md §3 C13"),
 "C14": dict(
  technique="static analysis: who-may-call/who-may-access rules, dominator-based release and guard rules, field-flow, call-graph reachability over go/ssa",
  text="Structural necessary conditions over all paths of the current source: a single HTTP gate that every public client method reaches; the response status flows unaltered into the error; per-resource status fields are only touched inside package internal and a property is decoded only after both status tests; every response obtained from Do is closed or handed on; stream-driven recursion is depth-bounded; reachable explicit panics equal a reviewed table; parse errors are tested before use. Does not decide behaviour inside encoding/xml, net/http or the iCalendar/vCard parsers. Also: Response.DecodeProp's decision table and the streamed-upload protocol (shared with C18.upload: exactly one send, receive only in Close, nothing but nil or a reported failure is sent).",
  note="Trusted: go/ssa, CHA call graph plus reflection edges; the user's HTTPClient returns a non-nil response or a non-nil error.",
  ref="DESIGN.md §3 C14"),
 "C18": dict(
  technique="static analysis: interprocedural write-effects analysis (roots of every store) and CFG path counting over go/ssa",
  text="Decides that the library has no mutable state shared between calls (no store rooted in a package variable or a Handler/Client receiver outside initialisers, directly or through callees; Marshal methods do not write through their receiver; adapters are per-request locals) — hence no data race on library state — and the upload protocol of Client.Create: the only go statement, a buffered done channel, exactly one send on every goroutine path, no loop, Close returns the received value. Does not decide scheduler interleavings inside net/http or the OS, nor that Write unblocks when the peer stops reading (transport contract). Also: an object returned to a sync.Pool is not reachable from anything returned or stored, including through results that alias its memory; the upload goroutine sends nil or a failure reported by a call.",
  note="Trusted: go/ssa; external functions write through their arguments only if listed in checker/e5_effects.go.",
  ref="DESIGN.md §3 C18"),
 "C19": dict(
  technique="static analysis: decision-table extraction by abstract interpretation of the function's SSA over a finite predicate domain (no execution, no solver)",
  text="Extracts the complete decision table of ValidateCalendarObject from the SSA of the current source — atoms: METHOD present, every consistent equal/unequal assignment between component names, VTIMEZONE, UIDs and the empty string, UID read failure — for calendars of up to 3 components (4 in the thorough tier) and compares every row with the statement, including the returned type and UID. Exhaustive over that abstract domain; the interpreter verifies that names and UIDs are touched only through ==/!= (data independence).",
  note="Trusted: go/ssa; my models of ical.Props.Get and Props.Text (presence atom; opaque string + failure atom). Bounded by the number of components.",
  ref="DESIGN.md §3 C19"),
 "C07": dict(
  technique="static analysis: decision-table extraction by abstract interpretation of go/ssa over finite predicate domains (compositional), plus write-effects analysis for purity",
  text="Extracts from the SSA of the current source the decision tables of carddav.Match (layered: query level over <=3 prop-filters, prop-filter level over presence, is-not-defined, inner test and <=3 text-matches, text-match level over match type, negate and predicate, with the operands of each predicate), of Filter (lists <=3, Limit -1..4, per-object match true/false/error) and of the projection, and compares every row with a reference evaluator written from the statement; purity (no write through query, objects or their card) is decided by the effects analysis. Exhaustive over the declared abstract domain; string predicates are independent atoms.",
  note="Trusted: go/ssa; models of vcard.Card.Get (presence atom + field). Domain constraints: filter names pairwise distinct, vCard non-empty. Bounded list lengths. Layered tables run bottom-up; the outcomes a helper's own table shows (including an error returned together with true) are the domain of its atom in the layer above.",
  ref="DESIGN.md §3 C07"),
 "C06": dict(
  technique="static analysis: decision-table extraction by abstract interpretation of go/ssa over finite predicate domains (weak-order domain for instants, partition domain for names), compositional; write-effects analysis for purity",
  text="Extracts from the SSA of the current source, layer by layer, the decision tables of the evaluator behind caldav.Match — time-range of a non-recurring VEVENT over every weak ordering of range start/end and DTSTART/DTEND (and the open-ended forms), property time-range, component filter at root and child level, property filter, parameter filter, text-match with negate-condition, each sub-result true/false/error — and of Filter, and compares every row with a reference evaluator written from RFC 4791 §9.7–9.9 as quoted in the statement. Exhaustive over the declared abstract domain (the RFC grammar's side constraints). Does not decide recurring events (rrule-go), text comparison on real strings, multi-valued properties.",
  note="Trusted: go/ssa; models of go-ical accessors (presence atoms, instant symbols with failure atoms); my reading of RFC 4791 §9.9. Helpers are identified by their signatures; if the evaluator is restructured beyond that, the check reports 'undecided' (fails closed). Layered tables run bottom-up; the outcomes a helper's own table shows (including an error returned together with true) are the domain of its atom in the layer above.",
  ref="DESIGN.md §3 C06"),
 "C16": dict(
  technique="static analysis: exhaustive decision tables for the finite codecs (abstract interpretation of go/ssa), structural pairing rules and a value rule on time.Format sites",
  text="Exhaustive for the finite primitives (Depth, Overwrite: encode and decode tables extracted from the SSA are mutually inverse and every other string is rejected). For the others only the structural necessary conditions: encoder and decoder use an inverse pair of primitives with the same constants (%q/Unquote, Format(L)/Parse(L), http.TimeFormat/ParseTime, URL.String/url.Parse, three-field status line), every literal-zone layout is applied to a UTC-normalised instant, no decoder drops its parser's error. Does not decide the round trip over all strings and instants (values, not shape).",
  note="Trusted: go/ssa; the standard library's inverse-pair contracts.",
  ref="DESIGN.md §3 C16"),
 "C03": dict(
  technique="static analysis: backward must-derive taint from every file-system call argument to the sanitiser, who-may-call layering, and the sanitiser's decision table by abstract interpretation of go/ssa",
  text="Decides the complete lexical confinement argument on every path of the current source: every path argument of every os/ioutil/filepath.Walk call derives only from localPath's result where its error is nil (through phis, captured variables, helper parameters over all call sites, Walk callbacks); such calls occur only in LocalFileSystem methods and their private helpers; localPath succeeds exactly for NUL-free names whose path.Clean form is absolute and returns Join(root, FromSlash(Clean(name))), 4xx otherwise (per GOOS); every reported path is the request name or \"/\"+ToSlash(Rel(root, walk path)). Anchored at the sinks, so it covers the request path and Destination alike. Behaviour with symbolic links and URL escaping of reported paths are not decided. Also: url.Parse is applied only to encoded text, never to a decoded resource path (reported hrefs); ServeError reports the 4xx a refusal was labelled with even when wrapped.",
  note="Trusted: go/ssa; path.Clean removes every '..' of a rooted path; filepath.Join/FromSlash are lexical; no symlink below the root points outside.",
  ref="DESIGN.md §3 C03"),
 "C15": dict(
  technique="static analysis: decision-table extraction by abstract interpretation of go/ssa over token-kind sequences",
  text="Thin by design and said so: decides that the capture/replay code handles every token kind, in order, with matching ends — the decision table of UnmarshalXML over every token sequence within the bound equals a reference parser (recursive capture, one CopyToken child per other token, stale receiver state discarded, read errors returned), MarshalXML and the TokenReader replay start, children in order and End() of the same start for every small tree, Token always makes progress and EOF is sticky, and Decode reads from the value's own reader. The namespace behaviour the statement is mostly about lives in encoding/xml's encoder and is NOT decided. Also: every store to RawXMLValue.children is nil, fresh or an append — never a reslice of the old slice (the type is copied by value).",
  note="Trusted: go/ssa; the model of xml.Decoder.Token as an arbitrary token sequence and of xml.CopyToken as a same-kind copy. Bounded token count / tree size.",
  ref="DESIGN.md §3 C15"),
 "C01": dict(
  technique="static analysis: decision tables and fault exploration by abstract interpretation of the whole file server's go/ssa (typed abstract OS errors), plus structural rules",
  text="Decides the structural part only, not the equivalence with the resource-tree model: the dispatch and success-code table, the COPY/MOVE/PROPFIND header tables, the adapter's option polarity and code-decided refusals, and, by exploring webdav.(*Handler).ServeHTTP with LocalFileSystem bound over every outcome of every OS call (resource states and errno classes as typed abstract errors), the status that reaches the client, compared with the RFC 4918 scenario table; plus two structural conditions of COPY/MOVE (the Walk callback addresses effects through its path parameter; source and destination are compared). Known defects of the pinned tree (status mapping D9, COPY/MOVE structure D10) are listed in known_findings.json. Does not decide the tree after a successful request, bodies/headers of GET/PROPFIND, nor request sequences. Also: a request during which nothing goes wrong in the operating system is never answered 5xx (the exploration is replayed over an abstract per-resource state: a call that cannot succeed in the state the request itself observed is the code's own doing); every file opened for writing by PUT/COPY is truncated; ServeError answers with the status found anywhere in the error chain. The sanitiser's acceptance table is part of this check (no name that denotes a resource is refused).",
  note="Trusted: go/ssa; the interpreter's models of os, path/filepath and net/http calls and the errno classes each call can produce (checker/p_fs.go); one resource plus at most one member per directory.",
  ref="DESIGN.md §3 C01, Appendix A"),
 "C02": dict(
  technique="static analysis: trace property over the abstract fault exploration of the file server (go/ssa interpretation) and a dominator rule for preconditions",
  text="Decides the necessary ordering condition only: in the exploration of the whole file server over every outcome of every OS call, no run answers 4xx/5xx after a destructive call (create/truncate, remove, rename, mkdir) has succeeded; and the If-Match/If-None-Match check and every sanitiser check dominate the first destructive call of each LocalFileSystem method. The pinned tree's violations (COPY/MOVE remove the destination first and copy without staging, PUT truncates before reading the body: D10) are listed as known findings, keyed by (method, first effect, failing call), so any other ordering violation is still reported. Does not decide what a partially failed OS call leaves behind nor cancellation timing. The trace rule judges the NET change per resource (create+remove of a new file is no change; a new file left behind, or an existing one truncated/removed, is), sets aside runs that are not sequential executions or contain more than one fault, and looks for the fault before as well as after the effect.",
  note="Trusted: go/ssa; OS-call models; a destructive call that fails leaves no effect (false for the non-atomic RemoveAll, stated).",
  ref="DESIGN.md §3 C02"),
 "C17": dict(
  technique="static analysis: taint (host-path bit on abstract strings) through an abstract interpretation of the whole file server's go/ssa with typed abstract OS errors",
  text="Decides the property over the explored domain: for every method, every resource state and every outcome of every OS call the file server makes, nothing written to the ResponseWriter (error text, header values, content name) mentions the host path; the Error() texts of *fs.PathError/*os.LinkError carry their paths and errFromOS is analysed, not assumed. Reported hrefs are relative by C03.hrefs. Every explored run is examined (not one per deciding fault), and the encoded multi-status body is scanned for host-path-tainted strings (hrefs).",
  note="Trusted: go/ssa; the Error() formats of the standard OS error types; the OS-call models (checker/p_fs.go).",
  ref="DESIGN.md §3 C17"),
 "C11": dict(
  technique="static analysis: decision tables by abstract interpretation of go/ssa (PROPFIND core and the three adapters)",
  text="Extracts from the SSA of the current source the decision tables of NewPropFindResponse (request forms; per-property accounting for <=2 requested names: known/failing/unknown; propname and allprop), of Response.EncodeProp (one propstat per status), of the three adapters' PropFind (responses emitted as a function of Depth, hierarchy level and ownership), of ServeMultiStatus (207 before the body), of the Depth/body handling (dispatch table shared with C01) and of the principal helper, and compares every row with the statement. Does not decide duplicates in the request, the bytes produced by encoding/xml, nor arbitrary numbers of members (lists bounded by 1-2). Also: which properties are registered as a function of the backend's value (a file's length always, attributes whose zero means unknown only when non-zero). No closure that outlives its loop iteration captures the loop's own variable (property functions run long after the table is built); what is filed under a failure status is an empty element, not the client's own element.",
  note="Trusted: go/ssa; the user's Backend is an opaque interface whose calls are effects; resourceTypeAtPath's result is an atom.",
  ref="DESIGN.md §3 C11"),
 "C12": dict(
  technique="static analysis: decision tables by abstract interpretation of go/ssa (every adapter method), sibling comparison, structural rules",
  text="Extracts the level -> backend-operation table of every caldav/carddav adapter method (Mkcol, Delete, Options, HeadGet, Put; PropFind is C11's scope table) with the classified level as an atom, checks that the path handed to the backend is r.URL.Path itself, that foreign principal/home-set paths expose nothing, that every adapter literal gets the trimmed prefix, that the two packages' tables are equal up to renaming (except the recorded DELETE difference), and that the client's discovery steps return the decoded href's path. The segment-counting arithmetic of resourceTypeAtPath over all prefixes and spellings is run-time string arithmetic: not decided (not applicable for that clause). Also the PROPFIND scope tables of both adapters (shared with C11.scope): nothing of the current user is emitted for a foreign principal or home-set path. The classifier itself is decided as a shape: clean, take the prefix off, ensure a leading slash; root for \"/\", else the number of segments (path.Clean, TrimPrefix, Split uninterpreted).",
  note="Trusted: go/ssa; resourceTypeAtPath classifies by depth below the prefix.",
  ref="DESIGN.md §3 C12"),
}

def main():
    props=[json.loads(l) for l in open('/verif/properties.jsonl')]
    checks=[]
    for pid,c in sorted(CLAIMED.items()):
        checks.append({
          "property_id":pid,
          "quick_cmd":"./check.sh %s quick"%pid,
          "thorough_cmd":"./check.sh %s thorough"%pid,
          "evidence_file":"/verif/evidence/%s.json"%pid,
          "replay_cmd_template":"bin/gwcheck -replay {path}",
          "engine":"gwcheck",
          "level_claimed":{"category":"other","text":c["text"],"design_ref":c["ref"]},
          "level_note":c["note"],
          "technique":c["technique"],
        })
    na=[]
    try:
        NA=json.load(open('/verif/not_applicable.json'))
    except Exception:
        NA={}
    for p in props:
        if p["id"] not in CLAIMED:
            na.append({"property_id":p["id"],"reason":NA.get(p["id"],NA_DEFAULT)})
    m={"version":1,
     "setup_cmd":"./setup.sh",
     "hooks":{"guard":"verif","enable":"none needed: static analysis reads /repo's source as it is; there are no hooks","baseline_off_cmd":"cd /repo && GOFLAGS=-mod=mod GOPROXY=off GOSUMDB=off go test -vet=off -count=1 ./...","source_commits":[],"add_only":True},
     "engines":[{"name":"gwcheck","path":"/verif/checker","serves_properties":sorted(CLAIMED),"kind_free_text":"repository-specific static analyser (go/packages + go/types + go/ssa, x/tools v0.29.0 vendored): field-flow, error provenance, CFG/dominator rules, effects, struct-tag schema, call-graph reachability, decision-table extraction by abstract interpretation"}],
     "checks":checks,
     "notes":"Technique family: static analysis only; every check parses and type-checks /repo's working tree on every run and never executes repository code. All claims are at level 'other': structural necessary clauses of behavioural properties (see DESIGN.md). known_findings.json lists recorded and fixed defects.",
     "not_applicable":na}
    json.dump(m,open('/verif/MANIFEST.json','w'),indent=1)
    print("claimed:",sorted(CLAIMED),"n/a:",[x["property_id"] for x in na])
main()
