#!/bin/bash
# developer aid: evaluate one freshly seeded defect in a scratch copy of /repo
# (never in /repo): the patch applies, builds, the pinned suite passes, the
# demonstration fails with it and passes without it; then the property's check
# (plus any further ones) is run against the copy.
# usage: seedeval_par.sh <seed dir with patch.diff + *_test.go> <property> [more properties]
S="$1"; shift
export GOFLAGS=-mod=mod GOPROXY=off GOSUMDB=off GOTOOLCHAIN=local
D=$(mktemp -d /tmp/sev.XXXXXX)
cp -r /repo/. "$D/repo"; rm -rf "$D/repo/.git"
mkdir -p "$D/verif"; cp /verif/known_findings.json "$D/verif/"
cd "$D/repo"
R="seed=$S"
demos=$(cd "$S" && ls *_test.go 2>/dev/null)
place() { # copy demo files into their package directory
  for d in $demos; do
    pk=$(grep -m1 '^package ' "$S/$d" | awk '{print $2}')
    case "$pk" in caldav|caldav_test) dest=caldav;; carddav|carddav_test) dest=carddav;; internal|internal_test) dest=internal;; *) dest=.;; esac
    cp "$S/$d" "$dest/zzseed_$d"
  done
}
unplace() { find . -name 'zzseed_*' -delete; }
place
if go test -vet=off -count=1 -run 'TestSeed' ./... >"$D/clean.txt" 2>&1; then R="$R clean-demo=pass"; else R="$R clean-demo=FAIL"; fi
unplace
if ! patch -p1 -s --no-backup-if-mismatch < "$S/patch.diff" >"$D/patch.txt" 2>&1; then echo "$R NOAPPLY"; cd /; rm -rf "$D"; exit 3; fi
find . -name '*.orig' -delete
if ! go build ./... 2>"$D/build.txt"; then echo "$R NOBUILD"; cd /; rm -rf "$D"; exit 3; fi
if go test -vet=off -count=1 ./... >"$D/suite.txt" 2>&1; then R="$R suite=pass"; else R="$R suite=FAIL"; fi
place
if go test -vet=off -count=1 -run 'TestSeed' ./... >"$D/with.txt" 2>&1; then R="$R patched-demo=PASS(bad)"; else R="$R patched-demo=fail"; fi
unplace
for P in "$@"; do
  OUT=$(VERIF_REPO="$D/repo" VERIF_DIR="$D/verif" /verif/bin/gwcheck -property "$P" 2>&1); RC=$?
  key=$(echo "$OUT" | grep -m1 "VIOLATION:\|UNDECIDED:\|UNRESOLVED" | cut -c1-330)
  R="$R | $P=$RC $key"
done
echo "$R"
cd /; rm -rf "$D"
