#!/bin/bash
# developer aid: confirm a seeded defect (builds, existing tests pass, demo fails
# with it and passes without it) in its scratch worktree, then run the given
# checks against /repo with the patch applied and undo it straight afterwards.
# usage: seedeval.sh <worktree> <n> <seed-id> <property> [more properties]
WT="$1"; N="$2"; ID="$3"; shift 3
export GOFLAGS=-mod=mod GOPROXY=off GOSUMDB=off GOTOOLCHAIN=local
S="$WT/_seeds/$N"
cd "$WT" || exit 2
git checkout -q -- . ; git clean -fdq -e _seeds
git apply "$S/patch.diff" || { echo "SEED: patch does not apply"; exit 3; }
go build ./... || { echo "SEED: does not build"; git checkout -q -- .; exit 3; }
if go test -vet=off -count=1 ./... >/tmp/seed_suite.txt 2>&1; then echo "SEED: existing suite passes with the defect"; else echo "SEED: existing suite FAILS with the defect"; tail -5 /tmp/seed_suite.txt; fi
DEMOS=$(cd "$S" && find . -name '*_test.go' | sed 's|^\./||')
for dd in $DEMOS; do
  d=$(basename "$dd")
  [ "$dd" != "$d" ] && cp "$S/$dd" "$S/$d.flat" && mv "$S/$d.flat" "$S/$d"
  # intended relative path: from the README/comment; fall back to searching package name
  pkgline=$(grep -m1 '^package ' "$S/$d" | awk '{print $2}')
  case "$pkgline" in
    webdav|webdav_test) dest=. ;;
    caldav|caldav_test) dest=caldav ;;
    carddav|carddav_test) dest=carddav ;;
    internal|internal_test) dest=internal ;;
    *) dest=. ;;
  esac
  cp "$S/$d" "$dest/$d"; echo "$dest/$d" >> /tmp/seed_demos.txt
  if go test -vet=off -count=1 -run 'Seed|Demo' ./$dest >/tmp/seed_demo_with.txt 2>&1; then echo "SEED: demo PASSES with the defect (bad)"; else echo "SEED: demo fails with the defect (good)"; fi
  git checkout -q -- . 2>/dev/null; git apply -R "$S/patch.diff" 2>/dev/null
  git checkout -q -- .
  cp "$S/$d" "$dest/$d"
  if go test -vet=off -count=1 -run 'Seed|Demo' ./$dest >/tmp/seed_demo_without.txt 2>&1; then echo "SEED: demo passes without the defect (good)"; else echo "SEED: demo FAILS without the defect (bad)"; tail -5 /tmp/seed_demo_without.txt; fi
  rm -f "$dest/$d"
  git apply "$S/patch.diff"
done
git checkout -q -- . ; git clean -fdq -e _seeds
# now the checks, against /repo itself
cd /repo && git apply "$S/patch.diff" || { echo "SEED: patch does not apply to /repo"; exit 3; }
RES=""
for P in "$@"; do
  OUT=$(/verif/bin/gwcheck -property "$P" 2>&1); RC=$?
  echo "$OUT" | grep "VIOLATION:\|UNDECIDED:\|UNRESOLVED:" | cut -c1-400 | head -4
  echo "CHECK $P exit=$RC"
  RES="$RES $P=$RC"
done
git -C /repo checkout -- .
mkdir -p /verif/seeded/$ID
cp "$S/patch.diff" /verif/seeded/$ID/; for dd in $DEMOS; do cp "$S/$(basename $dd)" /verif/seeded/$ID/; done
cp "$S/README.txt" /verif/seeded/$ID/README.txt 2>/dev/null
echo "RESULT $ID:$RES"
