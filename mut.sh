#!/bin/sh
# developer aid: run a property check against a scratch copy of /repo with a
# one-line edit applied (python expression on the file text).
# usage: mut.sh <relative-file> <python-replace-old> <python-replace-new> <property> [more properties]
set -e
F="$1"; OLD="$2"; NEW="$3"; shift 3
D=$(mktemp -d /tmp/mut.XXXXXX)
cp -r /repo/. "$D/repo" 2>/dev/null || { mkdir -p "$D/repo"; cp -r /repo/* "$D/repo/"; }
rm -rf "$D/repo/.git"
mkdir -p "$D/verif"; cp /verif/known_findings.json "$D/verif/" 2>/dev/null || true
python3 - "$D/repo/$F" "$OLD" "$NEW" <<'PY'
import sys
p,old,new=sys.argv[1:4]
s=open(p).read()
if old not in s: print("MUT: pattern not found"); sys.exit(3)
s=s.replace(old,new,1)
open(p,'w').write(s)
PY
(cd "$D/repo" && GOFLAGS=-mod=mod GOPROXY=off go build ./... ) || { echo "MUT: does not compile"; rm -rf "$D"; exit 4; }
for P in "$@"; do
  VERIF_REPO="$D/repo" VERIF_DIR="$D/verif" /verif/bin/gwcheck -property "$P" 2>&1 | grep -v "^  rule\|^    key" | cut -c1-700 | tail -6
done
rm -rf "$D"
