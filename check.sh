#!/bin/sh
# usage: check.sh <property> [quick|thorough]
# Decides the property's structural clauses by static analysis of /repo's
# current working tree (parsed and type-checked afresh on every run).
cd "$(dirname "$0")"
[ -x bin/gwcheck ] || ./setup.sh || { echo "VIOLATION property=$1 replay=/verif/setup.sh"; exit 1; }
exec bin/gwcheck -property "$1" -tier "${2:-${VERIF_TIER:-quick}}"
