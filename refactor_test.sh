#!/bin/bash
# developer aid: behaviour-preserving refactors (renames of unexported helpers
# and types) in a scratch copy; every check must stay silent.
D=$(mktemp -d /tmp/refac.XXXXXX)
cp -r /repo/. "$D/repo"; rm -rf "$D/repo/.git"
mkdir -p "$D/verif"; cp /verif/known_findings.json "$D/verif/"
cd "$D/repo"
ren() { grep -rl --include='*.go' -w "$1" . | xargs -r perl -pi -e "s/\\b$1\\b/$2/g"; }
ren checkConditionalMatches verifyPreconditions
ren localPath resolveName
ren externalPath hrefOfPath
ren fileInfoFromOS newFileInfo
ren fileInfoFromResponse infoOfResponse
ren fileWriter uploadWriter
ren rawXMLValueReader rawReader
ren filterProperties projectCard
ren negateCondition negCond
ren errFromOS mapOSError
ren encodeAddressPropReq buildPropReq
ren copyRegularFile copyOneFile
ren resourceTypeAtPath classifyPath
ren decodeCompFilter compFilterFromWire
ren encodeCompFilter compFilterToWire
ren matchCompFilter evalCompFilter
ren matchPropFilter evalPropFilter
ren populateCalendarObject fillFromHeaders
ren propFindFile describeFile
ren propFindCalendar describeCalendar
ren handleMultiget serveMultiget
ren handleQuery serveQuery
ren overlaps pathsOverlap
ren errFromOSCreate mapCreateError
ren stripPath withoutPaths
GOFLAGS=-mod=mod GOPROXY=off go build ./... || { echo "REFAC: does not compile"; cd /; rm -rf "$D"; exit 4; }
GOFLAGS=-mod=mod GOPROXY=off go test -vet=off -count=1 ./... >/dev/null 2>&1 && echo "REFAC: suite passes" || echo "REFAC: suite FAILS"
cd /verif
for P in C01 C02 C03 C04 C05 C06 C07 C08 C09 C10 C11 C12 C13 C14 C15 C16 C17 C18 C19; do
  OUT=$(VERIF_REPO="$D/repo" VERIF_DIR="$D/verif" /verif/bin/gwcheck -property "$P" 2>&1); RC=$?
  echo "$P exit=$RC $(echo "$OUT" | grep -c '^VIOLATION')"
  [ $RC -ne 0 ] && echo "$OUT" | grep "VIOLATION:\|UNDECIDED:\|UNRESOLVED\|FAILED" | cut -c1-300 | head -8
done
rm -rf "$D"
