#!/bin/sh
# Validate MANIFEST.json and every evidence file against the schemas.
python3-vt - <<'PY'
import json,glob,jsonschema,sys
ok=True
m=json.load(open('/verif/MANIFEST.json'))
jsonschema.validate(m,json.load(open('/root/.vp/MANIFEST.schema.json')))
es=json.load(open('/root/.vp/EVIDENCE.schema.json'))
for c in m['checks']:
    try:
        jsonschema.validate(json.load(open(c['evidence_file'])),es)
    except Exception as e:
        ok=False; print('BAD',c['evidence_file'],str(e)[:300])
ids={json.loads(l)['id'] for l in open('/verif/properties.jsonl')}
claimed={c['property_id'] for c in m['checks']}
na={c['property_id'] for c in m.get('not_applicable',[])}
if claimed|na!=ids or claimed&na: ok=False; print('coverage mismatch',ids-claimed-na,claimed&na)
print('manifest ok' if ok else 'PROBLEMS')
sys.exit(0 if ok else 1)
PY
